//go:build verif

package basic

// C20 (part 1, inside pkg/authentication/basic so that the reload can be called directly):
//   A. one reloader + N validators, every reload and validation recorded with call/return times from one
//      monotonic clock; the history is checked with porcupine against a register model
//      (reload = write(version), a malformed version is a no-op write; validation = read whose answer must equal
//      truth(version, credential)).
//   B. two reloaders whose reloads overlap each other + validators: invariant probes (a user present with the same
//      password in every version must always validate, a user in none never), per-probe monotonicity is not
//      asserted here (two overlapping reloads may legitimately install versions out of order), final state check.
// Race reports are collected from the race log by the main-package half of the check.
// Results are exchanged through $VERIF_WORK/c20_basic.json; violations are printed in the check's format.

import (
	"runtime"
	"crypto/sha1"
	"encoding/base64"
	"encoding/json"
	"fmt"
	"os"
	"path/filepath"
	"strconv"
	"sync"
	"sync/atomic"
	"testing"
	"time"

	"github.com/anishathalye/porcupine"
	"golang.org/x/crypto/bcrypt"
)

func c20SHA(pw string) string {
	h := sha1.Sum([]byte(pw))
	return "{SHA}" + base64.StdEncoding.EncodeToString(h[:])
}

const c20Versions = 30

// version k (1-based). Every third version is malformed (k%3==0): three different malformations.
func c20Malformed(k int) bool { return k%3 == 0 }

var c20UseBcrypt bool // set per history at quiescence (no validator or reloader running)

func c20File(k int) string {
	if c20Malformed(k) {
		switch (k / 3) % 3 {
		case 0:
			return "always:" + c20SHA("always-pw") + "\nbroken:record:with:fields\n" // invalid record
		case 1:
			return "always:" + c20SHA("always-pw") + "\n\"unterminated:" + c20SHA("x") + "\n" // csv parse error
		default:
			return "" // empty file: no valid user
		}
	}
	s := "always:" + c20SHA("always-pw") + "\n"
	for j := 1; j <= k; j++ {
		if !c20Malformed(j) {
			s += fmt.Sprintf("grow-%d:%s\n", j, c20SHA("g"))
		}
	}
	for j := k + 1; j <= c20Versions; j++ {
		s += fmt.Sprintf("shrink-%d:%s\n", j, c20SHA("s"))
	}
	if c20UseBcrypt {
		s += fmt.Sprintf("vuser:%s\n", c20Bcrypt(k)) // bcrypt: slow verification outside the lock
	} else {
		s += fmt.Sprintf("vuser:%s\n", c20SHA("pw-"+strconv.Itoa(k)))
	}
	return s
}

var (
	c20BcryptOnce sync.Once
	c20BcryptTab  []string
)

func c20Bcrypt(k int) string {
	c20BcryptOnce.Do(func() {
		c20BcryptTab = make([]string, c20Versions+1)
		for i := range c20BcryptTab {
			h, _ := bcrypt.GenerateFromPassword([]byte("pw-"+strconv.Itoa(i)), bcrypt.MinCost)
			c20BcryptTab[i] = string(h)
		}
	})
	return c20BcryptTab[k]
}

// effective version: the last well-formed version <= k
func c20Effective(k int) int {
	for k > 0 && c20Malformed(k) {
		k--
	}
	return k
}

type c20Cred struct{ User, Pw string }

// truth(version, credential); version 0 = initial file (= version 1's content is installed first, so 0 is unused)
func c20Truth(v int, c c20Cred) bool {
	v = c20Effective(v)
	switch {
	case c.User == "always":
		return c.Pw == "always-pw"
	case c.User == "never":
		return false
	case c.User == "vuser":
		return c.Pw == "pw-"+strconv.Itoa(v)
	case len(c.User) > 5 && c.User[:5] == "grow-":
		j, _ := strconv.Atoi(c.User[5:])
		return !c20Malformed(j) && j <= v && c.Pw == "g"
	case len(c.User) > 7 && c.User[:7] == "shrink-":
		j, _ := strconv.Atoi(c.User[7:])
		return j > v && c.Pw == "s"
	}
	return false
}

func c20WriteAtomic(path, content string, n int) error {
	tmp := fmt.Sprintf("%s.tmp%d", path, n)
	if err := os.WriteFile(tmp, []byte(content), 0o600); err != nil {
		return err
	}
	return os.Rename(tmp, path)
}

type c20In struct {
	Write   bool
	Version int
	Cred    c20Cred
}

type c20Report struct {
	Violations          []string `json:"violations"`
	Histories           int      `json:"histories"`
	Operations          int      `json:"operations"`
	Reloads             int      `json:"reloads"`
	FailedReloads       int      `json:"failed_reloads"`
	Validations         int      `json:"validations"`
	OverlapPairs        int64    `json:"overlapping_validation_reload_pairs"`
	PorcupineOK         int      `json:"porcupine_ok"`
	PorcupineIllegal    int      `json:"porcupine_illegal"`
	PorcupineUnknown    int      `json:"porcupine_unknown"`
	VersionsObserved    int      `json:"distinct_versions_observed"`
	TwoWriterRounds     int      `json:"two_writer_rounds"`
	InvariantProbes     int64    `json:"invariant_probes"`
	FailedParseKeptPrev int      `json:"failed_parse_left_previous_in_force"`
	Sample              []string `json:"sample"`
}

func TestVerif_C20(t *testing.T) {
	work := os.Getenv("VERIF_WORK")
	if work == "" {
		work = t.TempDir()
	}
	root := os.Getenv("VERIF_ROOT")
	if root == "" {
		root = "/verif"
	}
	thorough := os.Getenv("VERIF_TIER") == "thorough"
	seed, _ := strconv.Atoi(os.Getenv("VERIF_SEED"))
	rep := &c20Report{}
	viol := func(sig, msg string, detail interface{}) {
		rep.Violations = append(rep.Violations, sig+": "+msg)
		if len(rep.Violations) > 5 {
			return
		}
		dir := filepath.Join(root, "replays", "C20")
		_ = os.MkdirAll(dir, 0o755)
		p := filepath.Join(dir, fmt.Sprintf("basic-%d.json", len(rep.Violations)))
		b, _ := json.MarshalIndent(map[string]interface{}{"property": "C20", "signature": sig, "summary": msg, "detail": detail}, "", " ")
		_ = os.WriteFile(p, b, 0o644)
		fmt.Printf("VIOLATION property=C20 replay=%s\n  what: [%s] %s\n", p, sig, msg)
	}
	dir, _ := os.MkdirTemp(work, "c20b")
	defer os.RemoveAll(dir)
	observed := map[int]bool{}
	// progress monitor (see the main-package half): 2000 heartbeats of this process without one completed Validate or
	// reload while validators and reloaders are running = they block each other
	var progress, active int64
	go func() {
		last, still := int64(-1), 0
		for {
			time.Sleep(10 * time.Millisecond)
			if atomic.LoadInt64(&active) == 0 {
				still = 0
				continue
			}
			if cur := atomic.LoadInt64(&progress); cur != last {
				last, still = cur, 0
				continue
			}
			still++
			if still == 2000 {
				buf := make([]byte, 1<<20)
				buf = buf[:runtime.Stack(buf, true)]
				viol("c20:validators-and-reload-block-each-other", fmt.Sprintf("no Validate and no reload returned during 2000 heartbeats (>= 20 s of this process running) after %d completed operations: validations and the reload are deadlocked", last),
					map[string]interface{}{"goroutines": string(buf)})
				b, _ := json.MarshalIndent(rep, "", " ")
				_ = os.WriteFile(filepath.Join(work, "c20_basic.json"), b, 0o644)
				os.Exit(1)
			}
		}
	}()

	// ---------------- A: porcupine histories ------------------------------------------------------------------
	histories := 10
	validators := []int{2, 4, 8, 16}
	if thorough {
		histories = 100
	}
	model := porcupine.Model{
		Init: func() interface{} { return 1 },
		Step: func(st, in, out interface{}) (bool, interface{}) {
			i := in.(c20In)
			if i.Write {
				if c20Malformed(i.Version) {
					return out.(bool) == false, st // a version that fails to parse must report an error and change nothing
				}
				return out.(bool) == true, i.Version
			}
			return out.(bool) == c20Truth(st.(int), i.Cred), st
		},
		DescribeOperation: func(in, out interface{}) string {
			i := in.(c20In)
			if i.Write {
				return fmt.Sprintf("reload(v%d)->ok=%v", i.Version, out)
			}
			return fmt.Sprintf("validate(%s,%s)->%v", i.Cred.User, i.Cred.Pw, out)
		},
	}
	t0 := time.Now()
	for hI := 0; hI < histories; hI++ {
		path := filepath.Join(dir, fmt.Sprintf("htpasswd-%d", hI))
		c20UseBcrypt = hI%5 == 4
		if err := c20WriteAtomic(path, c20File(1), 0); err != nil {
			t.Fatal(err)
		}
		h := &htpasswdMap{users: make(map[string]interface{})}
		if err := h.loadHTPasswdFile(path); err != nil {
			t.Fatalf("initial load: %v", err)
		}
		nVal := validators[(hI+seed)%len(validators)]
		// every fifth history uses a bcrypt entry for the changing password: validations then take ~ms and overlap several
		// reloads (porcupine's search grows steeply with that overlap, so these histories use few validators)
		c20UseBcrypt = hI%5 == 4
		if c20UseBcrypt && nVal > 3 {
			nVal = 3
		}
		var mu sync.Mutex
		var ops []porcupine.Operation
		var stop int32
		var cur int32 = 1 // version currently being / last written (guides the validators' choice of probes only)
		var wg sync.WaitGroup
		for vI := 0; vI < nVal; vI++ {
			wg.Add(1)
			go func(vI int) {
				defer wg.Done()
				n := 0
				for atomic.LoadInt32(&stop) == 0 {
					k := int(atomic.LoadInt32(&cur))
					var c c20Cred
					switch (n + vI) % 7 {
					case 0:
						c = c20Cred{"always", "always-pw"}
					case 1:
						c = c20Cred{"never", "x"}
					case 2:
						c = c20Cred{"vuser", "pw-" + strconv.Itoa(c20Effective(k))}
					case 3:
						c = c20Cred{"vuser", "pw-" + strconv.Itoa(c20Effective(k-1))}
					case 4:
						c = c20Cred{"grow-" + strconv.Itoa(k), "g"}
					case 5:
						c = c20Cred{"shrink-" + strconv.Itoa(k), "s"}
					case 6:
						c = c20Cred{"grow-" + strconv.Itoa(c20Effective(k-1)), "g"}
					}
					n++
					call := time.Since(t0).Nanoseconds()
					out := h.Validate(c.User, c.Pw)
					atomic.AddInt64(&progress, 1)
					ret := time.Since(t0).Nanoseconds()
					mu.Lock()
					ops = append(ops, porcupine.Operation{ClientId: 1 + vI, Input: c20In{Cred: c}, Call: call, Output: out, Return: ret})
					mu.Unlock()
					if n%64 == 0 {
						time.Sleep(50 * time.Microsecond)
					}
				}
			}(vI)
		}
		prevGood := 1
		atomic.StoreInt64(&active, 1)
		for k := 2; k <= c20Versions; k++ {
			atomic.StoreInt32(&cur, int32(k))
			if err := c20WriteAtomic(path, c20File(k), k); err != nil {
				t.Fatal(err)
			}
			call := time.Since(t0).Nanoseconds()
			err := h.loadHTPasswdFile(path)
			atomic.AddInt64(&progress, 1)
			ret := time.Since(t0).Nanoseconds()
			mu.Lock()
			ops = append(ops, porcupine.Operation{ClientId: 0, Input: c20In{Write: true, Version: k}, Call: call, Output: err == nil, Return: ret})
			mu.Unlock()
			rep.Reloads++
			if err != nil {
				rep.FailedReloads++
				// quiescent check of "a reload that fails to parse leaves the previous contents in force"
				if h.Validate("vuser", "pw-"+strconv.Itoa(prevGood)) && h.Validate("always", "always-pw") {
					rep.FailedParseKeptPrev++
				} else {
					viol("c20:failed-parse-changed-contents", fmt.Sprintf("version %d failed to parse but the previous contents (version %d) are no longer in force", k, prevGood), nil)
				}
			} else {
				prevGood = k
			}
			time.Sleep(time.Duration(200+((k*37+seed)%400)) * time.Microsecond)
		}
		atomic.StoreInt32(&stop, 1)
		wg.Wait()
		atomic.StoreInt64(&active, 0)
		// overlap statistic: validations whose interval intersects a reload interval
		var reloads [][2]int64
		for _, o := range ops {
			if o.Input.(c20In).Write {
				reloads = append(reloads, [2]int64{o.Call, o.Return})
			}
		}
		for _, o := range ops {
			in := o.Input.(c20In)
			if in.Write {
				continue
			}
			rep.Validations++
			for _, r := range reloads {
				if o.Call < r[1] && r[0] < o.Return {
					rep.OverlapPairs++
				}
			}
			if in.Cred.User == "vuser" && o.Output.(bool) {
				v, _ := strconv.Atoi(in.Cred.Pw[3:])
				observed[v] = true
			}
		}
		rep.Operations += len(ops)
		rep.Histories++
		// porcupine is exponential in concurrency at worst: check a bounded prefix-closed slice of the history
		// (all writes + up to 6000 reads, evenly thinned) so the checker stays fast; the full history is also
		// covered by the simple checks above.
		chk := ops
		if len(chk) > 6000 {
			var thin []porcupine.Operation
			step := len(chk)/6000 + 1
			for i, o := range chk {
				if o.Input.(c20In).Write || i%step == 0 {
					thin = append(thin, o)
				}
			}
			chk = thin
		}
		res, info := porcupine.CheckOperationsVerbose(model, chk, 60*time.Second)
		switch res {
		case porcupine.Ok:
			rep.PorcupineOK++
		case porcupine.Unknown:
			rep.PorcupineUnknown++
		case porcupine.Illegal:
			rep.PorcupineIllegal++
			var desc []string
			for i, o := range chk {
				if i > 400 {
					break
				}
				desc = append(desc, fmt.Sprintf("[%d] c%d %d..%d %s", i, o.ClientId, o.Call, o.Return, model.DescribeOperation(o.Input, o.Output)))
			}
			_ = info
			viol("c20:not-linearizable", fmt.Sprintf("history %d (%d validators, %d ops) is not linearizable against the register model: some validation answered according to no single complete file version live during the call", hI, nVal, len(chk)),
				map[string]interface{}{"first_ops": desc})
		}
		if hI == 0 {
			for i, o := range ops {
				if i%(len(ops)/6+1) == 0 {
					rep.Sample = append(rep.Sample, fmt.Sprintf("c%d %d..%dns %s", o.ClientId, o.Call, o.Return, model.DescribeOperation(o.Input, o.Output)))
				}
			}
		}
	}
	rep.VersionsObserved = len(observed)

	c20UseBcrypt = false
	// ---------------- B: two overlapping reloaders ---------------------------------------------------------------
	rounds := 6
	if thorough {
		rounds = 60
	}
	for r := 0; r < rounds; r++ {
		path := filepath.Join(dir, fmt.Sprintf("htpasswd-b-%d", r))
		if err := c20WriteAtomic(path, c20File(1), 0); err != nil {
			t.Fatal(err)
		}
		h := &htpasswdMap{users: make(map[string]interface{})}
		if err := h.loadHTPasswdFile(path); err != nil {
			t.Fatal(err)
		}
		var stop int32
		var bad int64
		var probes int64
		var wg sync.WaitGroup
		for vI := 0; vI < 8; vI++ {
			wg.Add(1)
			go func() {
				defer wg.Done()
				for atomic.LoadInt32(&stop) == 0 {
					if !h.Validate("always", "always-pw") || h.Validate("never", "x") || h.Validate("always", "wrong") {
						atomic.AddInt64(&bad, 1)
					}
					atomic.AddInt64(&probes, 3)
					atomic.AddInt64(&progress, 1)
					_ = h.GetUsers()
				}
			}()
		}
		var ww sync.WaitGroup
		atomic.StoreInt64(&active, 1)
		for wI := 0; wI < 2; wI++ {
			ww.Add(1)
			go func(wI int) {
				defer ww.Done()
				for k := 2 + wI; k <= c20Versions; k += 2 {
					_ = c20WriteAtomic(path, c20File(k), 1000*wI+k)
					_ = h.loadHTPasswdFile(path)
				}
			}(wI)
		}
		ww.Wait()
		atomic.StoreInt32(&stop, 1)
		wg.Wait()
		atomic.StoreInt64(&active, 0)
		rep.InvariantProbes += atomic.LoadInt64(&probes)
		if bad > 0 {
			viol("c20:invariant-probe", fmt.Sprintf("two overlapping reloaders: %d answers for a user that is present with the same password in every version (or absent from all) were wrong — a partially installed version was visible", bad), nil)
		}
		// final state: one more reload of a known version at quiescence
		_ = c20WriteAtomic(path, c20File(c20Versions-1), 9999)
		if err := h.loadHTPasswdFile(path); err != nil || !h.Validate("vuser", "pw-"+strconv.Itoa(c20Versions-1)) || h.Validate("vuser", "pw-1") {
			viol("c20:final-state", "after all reloads completed a validation does not reflect the last version", nil)
		}
		rep.TwoWriterRounds++
	}
	b, _ := json.MarshalIndent(rep, "", " ")
	_ = os.WriteFile(filepath.Join(work, "c20_basic.json"), b, 0o644)
	fmt.Printf("NOTE C20 basic half: histories=%d ops=%d overlap_pairs=%d porcupine ok/illegal/unknown=%d/%d/%d versions_observed=%d two_writer_rounds=%d violations=%d\n",
		rep.Histories, rep.Operations, rep.OverlapPairs, rep.PorcupineOK, rep.PorcupineIllegal, rep.PorcupineUnknown, rep.VersionsObserved, rep.TwoWriterRounds, len(rep.Violations))
	if len(rep.Violations) > 0 {
		t.Fail()
	}
}
