#!/usr/bin/env bash
# runmutant.sh <patch> <CNN> [--tier thorough] [--repo-tests]
# Applies a patch to temporary copies of the touched repo files (never to /repo), optionally runs the repository's own
# tests of the touched packages with the mutated files overlaid, then runs the property check with the same overlay.
# Prints "MUTANT <patch> <CNN> repo_tests=<ok|FAIL|skipped> check_exit=<n>".
set -uo pipefail
cd "$(dirname "${BASH_SOURCE[0]}")/.."
. scripts/env.sh
patch_file="$(readlink -f "$1")"; id="$2"; shift 2
tier=quick; repotests=0
while [ $# -gt 0 ]; do case "$1" in --tier) tier="$2"; shift 2;; --repo-tests) repotests=1; shift;; *) shift;; esac; done
name="$(basename "$patch_file" .patch)"
# unique per invocation: all seeded changes are called patch.diff, and concurrent runs must not share (or delete) a build directory
case "$name" in patch.diff|patch) name="$(basename "$(dirname "$(readlink -f "$patch_file")")")";; esac
name="$name-$$"
tmp="/var/tmp/mut-$name"; mkdir -p "$tmp"
# the evidence file of the property belongs to runs on the unchanged tree: keep it across the mutant run
[ -f "$VERIF_ROOT/evidence/$id.json" ] && cp "$VERIF_ROOT/evidence/$id.json" "$tmp/evidence.keep"
trap '[ -f "$tmp/evidence.keep" ] && cp "$tmp/evidence.keep" "$VERIF_ROOT/evidence/$id.json"; rm -rf "$tmp" "$VERIF_ROOT/build/mut-$name"' EXIT
files=$(grep -E '^\+\+\+ b/' "$patch_file" | sed 's#^+++ b/##')
for f in $files; do mkdir -p "$tmp/$(dirname "$f")"; cp "$VERIF_REPO/$f" "$tmp/$f"; done
( cd "$tmp" && patch -s -p1 < "$patch_file" ) || { echo "MUTANT $name $id patch does not apply"; exit 3; }
python3 - "$tmp" $files > "$tmp/overlay.json" <<'PY'
import json, sys, os
tmp = sys.argv[1]; repo = os.environ["VERIF_REPO"]
print(json.dumps({"Replace": {os.path.join(repo, f): os.path.join(tmp, f) for f in sys.argv[2:]}}))
PY
rt=skipped
if [ $repotests = 1 ]; then
  pkgs=$(for f in $files; do echo "./$(dirname "$f")"; done | sort -u | tr '\n' ' ')
  if ( cd "$VERIF_REPO" && "$GO" test -vet=off -count=1 -overlay "$tmp/overlay.json" $pkgs ) > "$tmp/repotests.log" 2>&1; then rt=ok; else rt=FAIL; tail -15 "$tmp/repotests.log"; fi
fi
VERIF_EXTRA_OVERLAY="$tmp/overlay.json" VERIF_BUILD_TAG="mut-$name" VERIF_TIER="$tier" ./check "$id" --tier "$tier" > "$tmp/check.log" 2>&1
rc=$?
grep -E '^(VIOLATION|  what:|INCONCLUSIVE|SUMMARY)' "$tmp/check.log" | head -6
echo "MUTANT $name $id tier=$tier repo_tests=$rt check_exit=$rc"
