#!/usr/bin/env python3
"""seed_task.py <round> — writes /root/seed<round>-CNN.txt, the complete task description handed to a seeding sub-agent
(property text only + the list of ideas earlier adversaries already tried, taken from scripts/seeded_meta.py), for every property."""
import json, re, sys, importlib.util
rnd = sys.argv[1]
spec = importlib.util.spec_from_file_location("sm", "/verif/scripts/seeded_meta.py"); sm = importlib.util.module_from_spec(spec); spec.loader.exec_module(sm)
tried = {}
for row in sm.R + sm.R2 + getattr(sm, "R3", []) + getattr(sm, "R4", []) + getattr(sm, "R5", []) + getattr(sm, "R6", []) + getattr(sm, "R7", []) + getattr(sm, "R8", []):
    tried.setdefault(row[1], []).append(row[2])
tmpl = open("/root/seed2-C20.txt").read()
head_end = tmpl.index("PROPERTY C20")
task_start = tmpl.index("TASK: produce")
tried_start = tmpl.index("ALREADY TRIED")
notes_start = tmpl.index("Practical notes:")
for l in open("/verif/properties.jsonl"):
    p = json.loads(l); cid = p["id"]
    wt = f"/tmp/seed{rnd}-{cid}"
    head = tmpl[:head_end].replace("/tmp/seed2-C20", wt)
    prop = (f"PROPERTY {cid} — {p['title']}\nStatement: {p['statement']}\nQuantified over: {p['quantifier']['text']}\n"
            f"Why the existing tests cannot settle it: {p['why_tests_cant']}\nCode anchors: {', '.join(p['anchors']['files'])}\n\n")
    task = tmpl[task_start:tried_start].replace("/tmp/seed2-C20", wt)
    tr = ("ALREADY TRIED by earlier adversaries for this property — produce changes that are DIFFERENT IN KIND from all of these (other files, other mechanisms, other triggering conditions):\n"
          + "".join(f"  - {c}\n" for c in tried.get(cid, [])) + "\n")
    notes = tmpl[notes_start:]
    open(f"/root/seed{rnd}-{cid}.txt", "w").write(head + prop + task + tr + notes)
print("written")
