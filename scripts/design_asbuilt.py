#!/usr/bin/env python3
# One-off helper: inserts/refreshes the "As built" paragraph at the end of every §4 property section of DESIGN.md.
import re
AS_BUILT = {
"C01": """*As built* (`harness/c01_entitlement.go`). ≈70 credentials per instance forged with known provenance (real login,
tampered, signature-stripped, re-dated, random, expired, other secret / store / cookie name, deleted ticket, CSRF value,
stale session with expired ID token, 13 bearer variants, JWT hidden in Basic fields, 11 htpasswd variants, form login, two
credentials at once, rotated-away htpasswd password) × 9 endpoints × 4 methods × Accept × 3 client addresses on 29 (quick) /
49 (thorough) instances from a pairwise covering array; the upstream's own log is the ground truth. ≈50 k evaluations /
1.5 k cells quick (≈25 s), 448 k thorough (≈3 min). Found on the unchanged tree: Redis store answered **500** for any
undecodable ticket cookie on protected paths and sign-out (fixed, §5). 15/15 own mutants caught, 2 controls silent.
Recorded, not judged: `/oauth2/auth?allowed_groups=zz;x=1` → 202 (Go drops query pairs containing `;`).
Round 2 added: client-IP headers other than the configured one in the bypass states; symlink-swap (ConfigMap layout) replacement of the e-mails file between requests.""",
"C02": """*As built* (`harness/c02_tamper.go`, `c02_variants.go`, `c02_opacity.go`). The plain "rejected or identical" rule cannot
see MAC weaknesses (a truncated signature on a live cookie still decodes identically), so the oracle became: outcome ∈
{rejected} ∪ {all six identity fields of a session that THIS instance issued and that is still alive} — variants of expired
bases, anything shown to a sibling with another secret / name / store, forged signatures and unparsable timestamps are
*must-reject*. 28 mutation classes; every position × 3 substitutes and every truncation for small cookies (strided interior
for split cookies in quick, all positions in thorough). Opacity: key-less recovery (split, base64, lz4 frame/block, bounded
msgpack walk) of 904 cookie/Redis values against 1 392 secrets, IV/nonce-reuse monitor, and decryption attempts with keys
derived from store contents only. ≈65 k evaluations quick (≈30 s), 920 k thorough (≈12 min). 12/12 own mutants caught, 3
controls silent ("join tolerant of reordered parts" is not a violation of the property as stated: reordered parts are still
rejected or identical).
Round 2 added: a concurrent issuing phase (every unmodified cookie must decode to exactly the session it was issued for) and a known-answer check (issued cookies decrypted with an independent implementation of the documented cipher).""",
"C03": """*As built* (`harness/c03_csrf.go`). Part A pairing matrix: 9 (quick) / 32 (thorough) configurations × 3 instances (main,
sibling secret, sibling encode-state) × two browsers × three interleaved logins × ≈40 cookie sets × 26 state variants;
Part B jar histories: all completion permutations of 1–3 logins per browser + seeded random walks, with the explicit rule
that the browser still holds the cookie of every outstanding login. Codes are single-use at the fake IdP, so every attempt
gets a fresh code for the same authorization request. ≈23 k evaluations quick (≈25 s), 340 k thorough (4.5 min). A state
with a changed redirect part or the other encoding is neither required to fail nor to succeed; duplicate cookie names are
judged in the safety direction only. 8 own mutants caught, 4 controls silent. No defect found.""",
"C04": """*As built* (`harness/c04_identity.go`). Reference predicate V built from crypto/rsa + encoding/json only. Grid: 13
signature variants × 8 issuers × 25 audience shapes × 6 expiries × 4 email_verified × 8 claim sets, sampled as every single
deviation, all pairs (thorough) and seeded combinations, on callback / refresh / bearer (4 Authorization variants + extra
issuer) and 13–16 configurations; temporal re-presentation pairs (a token accepted while valid must be refused after its
`exp`, bearer and ValidateSession paths). `V ⇒ session` is not asserted ("created only from"); each path must show ≥ 20
sessions from valid tokens or the run is inconclusive. ≈4.1 k evaluations / 2.1 k cells quick (≈15 s), 59 k thorough.
18/18 own mutants caught, 2 controls silent.
Round 2 added: claims that are present but empty while the profile endpoint returns a value; an extra JWT issuer whose discovery fails at start-up (JWKS-only fallback) presented with a foreign `iss`; 27 audience shapes.""",
"C05": """*As built* (`harness/c05_nonce_pkce.go`). 12 instances × 19 scripted provider nonce behaviours × 4 (quick) / 9 (thorough)
login shapes × own / foreign code. History rules over the IdP log joined with the harness's own decryption of the CSRF
cookies; leak monitor with planted-leak self-test. ≈12 k evaluations quick (4.2 k callbacks, 7.8 k logins, ≈5.2 k distinct
verifiers, 10.5 k scanned responses; ≈20 s), 92 k thorough. 10 own mutants caught (one — raw nonce sent in the login URL
and accepted back — by the leak monitor only), 2 controls silent. No defect found. Observed: the callback redeems the code
before the state check (a mismatching state still burns the code).
Round 2 added: OIDC-derived providers (entra-id with allowed tenants, …) in the nonce sweep; an entropy-fault phase (crypto/rand.Reader wrapped to fail transiently at chosen reads); uniqueness of every 8-byte word of nonce / verifier material across concurrent starts.""",
"C06": """*As built* (`harness/c06_browserurl.go`, `c06_selftest.go`, `c06_gen.go`, `c06_channels.go`, `c06_redirect.go`).
BrowserURL passes 190 self-tests (149 spec cases) at the start of every run. 17 delivery channels; because the proxy
serialises requests on a process-wide lock (per-request registration with the default Prometheus registry), the bulk runs in
14 NON-race child processes (7 whitelist configurations × 2 shards) of the same harness (`$VERIF_BIN_NORACE`); the
race-built parent runs the self-tests, a pass over all channels, the wire comparison (0 differences to the direct driver)
and the fidelity clause. 1.31 M evaluations / 26 k cells quick (≈50 s incl. both builds), 30.9 M thorough (≈8 min). 12 own
mutants caught, 5 controls silent (one "Aimed at" candidate — `\\.{1,2}` → `\\.` — is redundant: brute force over 48 M
strings finds none that leaves the origin). No violation on the unchanged tree. Judgement calls: trailing-dot FQDN = same
name; the bare domain of a `.x` / `*.x` entry is accepted (repo's own tests expect it).
Round 2 added: whitelist configurations with empty entries and empty-authority URLs; the links of callback-failure pages as a channel; paths that merely share the proxy prefix string and a second proxy prefix.""",
"C07": """*As built* (`harness/c07_headers.go`). 56 legacy + 43 alpha configurations quick (544 + 203 thorough), sessions from 8
cookie identities, 3 bearer JWTs, htpasswd Basic and form, none, invalid cookie; 9 client header styles incl. names listed
in the client's `Connection` header; everything over the wire driver. A concurrent phase (10 users hammering three
Basic-auth/claim configurations at once, 9 k requests quick) judges every request against the rendering of its OWN session
and turns race reports in `pkg/header` / `headers.go` into violations. ≈23 k evaluations quick (≈20 s), 293 k thorough.
Found on the unchanged tree: client-controlled `Connection` header dropped injected headers (fixed), `--prefer-email-to-user`
leaves `X-Forwarded-Email` unstripped (known finding), F2 panic (fixed). 19/19 own mutants caught, 2 controls silent.
Round 2 added: identities whose claim values begin with the configured header prefix.""",
"C08": """*As built* (`harness/c08_authz.go`). ≈100 (quick) / 363 (thorough) subjects × 18 rule sets × both stores × host-only and
`--cookie-domain` variants; sources: cookie issued by a permissive instance and presented after an "operator restart" with
stricter rules, bearer, htpasswd Basic, htpasswd form; refusal judged by replaying the response into a jar; 819 login cases
(status, cookie, Redis key, follow-up), ≈4.4 k auth-only constraint queries, e-mail-file rewrites (atomic and in place, incl.
emptied lists), e-mail-less logins through `--provider=adfs`. ≈24 k evaluations quick (≈30 s), 100 k thorough. The reverse
direction (rules pass ⇒ served) is C01's. 17/17 own mutants caught, 2 controls silent.
Round 2 added: reload histories where the e-mails file sits behind a symlink whose target is swapped.""",
"C09": """*As built* (`harness/c09_lifetime.go`). Phase A threshold grid (sequential, `clock.Set` only around the issuing request,
bracketed probes, straddled brackets re-issued ≤ 4×); B refresh histories (new and superseded credential probed); C
real-time timeline at sub-second marks; D store expiry in a second world (`FastForward`). 16 instances quick; 909 Max-Age
and ≈400 TTL equality checks per run; ≈4.4 k evaluations quick (≈27 s), 25 k thorough. Instances use
`--insecure-oidc-skip-nonce=true` (upstream default). A 500 without upstream hit counts as a rejection. Not asserted: "must
serve" for an old Redis ticket whose own window has passed while the session was refreshed (ambiguous). 14/14 own mutants
caught, 3 controls silent.""",
"C10": """*As built* (`harness/c10_roundtrip.go`). Split thresholds by bisection per configuration (default name: 2821 / 5782 / 8743
token bytes); every length within ±24 of each, tiny, 6–12 kB; single saves, all ordered pairs of boundary sizes, exhaustive
class sequences (length 4 quick, 5–6 thorough), random sequences with clears; hostile field contents; names of every length
1…256 and with metacharacters; 51 configurations; plus 140 HTTP flows (login → growing/shrinking refresh → sign-out).
≈53 k evaluations quick (≈30 s), 610 k thorough (≈7 min). Largest cookie observed: exactly 4000 bytes. Found: F4, F7
(fixed), 256-char name ending in `_<k>` (known finding). 9 own mutants caught, 2 controls silent.""",
"C11": """*As built* (`harness/c11_signout.go`). 42 configurations; 1 736 histories quick (16.6 k thorough) with refreshes also on
the sign-out request itself; replay of every archived cookie, each generation and the final jar (18.8 k replays quick);
160 histories with 336 injected `DEL` faults (5 kinds, retries 0 / 2 / default). For the cookie store a stateless cookie
replayed from the archive is NOT a violation; the jar after the sign-out response must hold no session cookie. ≈15 s quick.
Found: refresh-on-sign-out leaves new cookies (fixed), multi-domain sign-out deletes under another domain (known finding).
12 own mutants caught, 2 controls silent.
Round 2 added: multi-login histories (login A, login B in the same browser without sign-out, sign-out, replay of A's cookie).""",
"C12": """*As built* (`harness/c12_refresh.go`). 8 universes × 2 replicas and 8 × 3 replicas (each universe: own world, miniredis,
hub, fronts, IdP with per-replica token path `/token/inst<k>`, skip-discovery). Gates: GET/SET/DEL/OBTAIN/RELEASE on the
session and lock keys and the refresh grant. n=2 explored completely for five provider behaviours (≈1.4 k schedules, the
failing behaviours have many more interleavings because of the clearing DELs), n=3 first 300 (+60 per other behaviour) in DFS
order + 300 seeded random schedules quick, complete in thorough; stress 40 rounds quick (2–16 concurrent requests, seeded
delays at the gates); sequential ages × 6 behaviours × both stores incl. a SECOND refresh cycle and a provider that rotates
refresh tokens but returns no id_token on refresh. ≈2.5 k evaluations / 2.3 k distinct interleavings quick (≈35 s idle).
The oauth2 library retries a failed refresh grant with the other client-auth style, so failing grants appear twice in the
log (counts are only asserted for successful refreshes). 6/6 own mutants caught.
Round 2 added: a scheduled sign-out-versus-refresh scenario (all interleavings of one stale request and one sign-out on two replicas, rotating and non-rotating provider: `c12:session-resurrected-after-concurrent-sign-out`) and a provider without refresh support re-validating at its validation URL (429 / 5xx / stall answers).
Round 3 added: the first two stress rounds of every universe run against a provider whose refresh endpoint answers after 1.25 s / 1.75 s — inside the refresh lock's 2 s, so the property's proviso holds and exactly one refresh with everybody served is still required.
Round 4 added: a stuck-lock scenario on its own universe (the lock key of a stale session is held for the whole 5 s obtain timeout: the request must not be served); every other legacy-provider case uses a session split over several cookies (300 profile groups); after every refused stale request the session cookies that the REFUSING response carried are presented again by a client that ignores deletions — with validation still failing they must not be served (`c12:refusal-hands-out-honoured-credential`, found F23).""",
"C13": """*As built* (`harness/c13_storefaults.go`). 10 scenarios × (positions 1…n+1) × 17 fault kinds, each with go-redis retries
off (crisp per-operation rules) and on (retry-agnostic invariants only); 12 parallel cells (own miniredis + hub + 2
instances each); thorough adds all ordered pairs × 5 kinds. A cookie counts as "handed out" only if it is still in the jar
after the WHOLE response was applied. corrupt/truncate apply to bulk replies (GET) only. ≈980 runs / 300 cells quick
(≈15 s), 2.8 k thorough (≈50 s). Found: F3 (fixed). 6/6 own mutants caught.
Round 3 added: a hung-store readiness phase — an instance with second-scale client timeouts (read timeout 2.5 s, as a real deployment) whose PING is answered only after 3.5 s, probed over the direct and the wire driver by a patient prober: anything but not-ready is `c13:ready-while-store-unreachable`.""",
"C14": """*As built* (`harness/c14_idpfaults.go`). 8 / 16 parallel worlds; flows login-newkid, login-profile, login-thin,
bearer-newkid, bearer-extra-issuer-typed-claims, refresh, refresh-thin, refresh with expired old ID token, start-up
discovery; 25 structural kinds + tolerated oddities at every call position, 45 wrongly typed claims; every case followed by a
clean login. ≈360 cases quick (≈15 s), 726 thorough. Found: refresh adopts a session without e-mail (fixed, §5), F6 (fixed).
Observed, not asserted: the proxy's HTTP client to the IdP has no timeout — a provider that never answers blocks the handler;
stalls therefore end in a reset or 500 in the workload. 11/12 own mutants caught (the 12th — missing id_token tolerated at
redemption — is behaviour-preserving: the e-mail requirement still refuses the login), 2 controls silent.
Round 2 added: fault kind *client gives up while the provider stalls* in the refresh and legacy re-validation flows (exposed F21), an open-connection leak monitor at the fake IdP (20 / 60 faulted logins, connections counted by `ConnState`), a two-audience-claim instance with wrongly typed first claim. ≈410 cases quick (≈15–20 s), 838 thorough.""",
"C15": """*As built* (`harness/c15_bypass.go`). 12 rule sets (anchored/unanchored, method-qualified, negated, legacy regex,
alternation, rules containing `?`, lower-case method, negated-then-bare orders, extension rules, preflight on/off), each also
built with the rule list reversed and rotated (the decision must not depend on configuration order); channels: protected
path, `/oauth2/auth` + X-Forwarded-Uri, path + X-Forwarded-Uri, hostile X-Forwarded-Uri forms (`%zz`, lone `%`, leading `//`,
fragments, backslash); addresses: 7 network sets × (4096 + 4096 + boundaries + mapped notation) × RemoteAddr / X-Real-IP /
X-Real-IP with port / X-Forwarded-For list. Round 2 added: *noise-header* channels — for every (method, path) a
method-override / original-URI header (X-Forwarded-Method, X-HTTP-Method-Override, X-Original-URI, X-Rewrite-URL, …) naming a
request the reference decides the OTHER way, on the instance without reverse-proxy mode (and, except X-Forwarded-*, on the one
with it); a network set of nested prefixes sharing their base address (narrower first, IPv4-mapped spelling included) and every
network set also configured in reverse order; reverse-proxy mode with a client-IP header whose first element is not an address,
sent from a peer INSIDE a configured network (the peer's address must not be used instead). ≈225 k evaluations / 4.3 k cells
quick (≈30 s idle). Reverse-proxy mode without the client-IP header (unchanged tree: no exemption) is recorded, not judged.
Found: F1 (fixed).
Round 3 added: peers WITHOUT an IP address (`@` as net/http reports a unix-socket peer, `unix`, `:80`, garbage) against every network set incl. a loopback set and 0.0.0.0/0 (`c15:addressless-peer-exempted`); a legacy rule set whose expressions contain `=` and `!=`. ≈254 k evaluations / 4.9 k cells quick.
Round 4 added queries containing `://` (`?next=http://h.test<literal>`).""",
"C16": """*As built* (`harness/c16_forwarding.go`). 9 configurations × 27 base requests × 64 header subsets × 3 (quick) / 6 value
sets; every base request is first executed twice (determinism guard: differing identical executions are inconclusive, not
violations); one configuration over the wire driver, `--force-https` over the TLS wire driver (req.TLS ≠ nil). With
reverse-proxy on: 5 configured client-IP headers × 6 values × subsets of the 7 other headers. ≈25 k evaluations quick
(≈20 s), 171 k thorough. 15/15 own mutants caught, 2 controls silent. No violation on the unchanged tree.
Round 2 added: two configurations with several cookie domains and a Host outside all of them (cookies presented by hand), and the complete pair workload from odd peer addresses (`@` of a unix socket, `[::1]:1`, `unix`). ≈40 k evaluations quick (≈16 s), 263 k thorough.""",
"C17": """*As built* (`harness/c17_ref.go`, `c17_sets.go`, `c17_gen.go`, `c17_faithful.go`; `--replay` implemented). 10 upstream sets;
exhaustive {a,b}-paths to depth 4 ± trailing slash ± one `%2F` separator, every base × 27 query shapes, then seeded cases over
the alphabet × 7 methods × bodies (0 B…1 MiB, Content-Length and chunked) × 12 header classes × 18 scripted upstream
responses (incl. 103 Early Hints before the final status, 1 MiB, streamed, 204/304/401, gzip). With proxyRawPath the
reference router matches on the ESCAPED path only. ≈12 k evaluations quick (≈15 s), 151 k thorough (≈3 min). Found: F9, F10
(known findings), trailing-slash redirect appends the slash to the query (fixed). 29 own mutants caught, 3 controls silent.
Round 2 added: WebSocket upgrade requests (101 tunnel dialogue, 403, 200) against upstream URLs with paths, six sets of nested rewrite rules with different targets in six configured orders, upstream aborts mid chunked body / before any byte / short of Content-Length (the client must see an aborted or short transfer, or 502). 16 instances, ≈16.7 k evaluations quick (≈10 s), 171 k thorough.""",
"C18": """*As built* (`harness/c18_cookieattrs.go`). Quick: 3-wise covering array (79 configurations × ≈9 hosts, 725 flows, ≈19 k
Set-Cookie lines); thorough: full product (1 152 configurations, 365 k lines). A pairwise array missed a 3-way mutant, hence
triples. Domain rule with the port ignored (F8 fixed); for look-alike hosts (`xa.example.com` vs `a.example.com`) both the
plain-suffix and the label-boundary reading are accepted and counted. Boundary sweep of session sizes just below the split
threshold under long attribute strings; domain lists with duplicates. ≈35 s quick. 18/18 own mutants caught, 2 controls
silent.
Round 2 added: failing callbacks (stale / tampered / truncated / foreign CSRF cookie, missing cookie, bad state, provider error, from signed-in browsers too) and their 403/500 responses under the attribute monitor. ≈22.7 k evaluations quick (≈15–20 s).""",
"C19": """*As built* (`harness/c19_panic.go`, `c19_fuzz.go`). 20 configurations; phase 1 every pool value once in an otherwise benign
request on the endpoints that consume the field; 1b systematic PAIRS of fields consumed together (peer address × client-IP
header, forwarded host × proto, …); 2 seeded random combinations; 3 corrupted Redis values under a valid ticket. Besides
attacker-forgeable bytes the harness presents VALIDLY SIGNED cookies with hostile payloads at every decoding layer. ≈100 k
served requests / 1.1 k cells quick (≈60 s under load), thorough adds Go's native fuzzer (`FuzzVerif_C19`, 1.5 M executions,
8 workers, instances built before the first execution because the engine declares a target deadlocked after 10 s).
msgpack v5.4.1 allocates the DECLARED length of a str32/bin32 up front: payloads declaring > 16 MiB are screened out (they
exhausted the sandbox's memory; reachable only with the cookie secret; not a panic). Round 2 added (`c19_more.go`): phase 4
sessions of unusual identities (e-mail without `@`, several `@`, empty local part/domain, htpasswd form and basic-auth users
without any e-mail, bearer tokens without e-mail) × 22 authorization query strings of the auth-only endpoint on four
configurations; phase 5 clients that give up (context CANCELLED, as net/http does) 1 ns / 25 ms / 70 ms into a request while
the provider answers after 120 ms — stale session (refresh / re-validation at a validation URL), callback, sign-out with
`--backend-logout-url`, bearer, form sign-in; phase 6 the configuration space — 63 options × value pools (unusual spellings,
boundary values: 388 single-option configurations) plus 120 / 1500 seeded combinations; every configuration that passes
validation (≈85 %) serves a smoke set of ≈50 requests including a complete login over http and "https". Found: F2 and two
CSRF-cookie panics (fixed).
Round 3 added separator-only and unparseable values to the forwarding-header pools.
Round 4 added: a `--proxy-websockets=false` configuration and `Connection` header variants, twelve bcrypt users in the htpasswd file (verified on the slow path, concurrently), the websocket / flush-interval / upstream-timeout options in the configuration space, and race-detector reports with frames in request-handling code are violations (`c19:data-race-in-request-handling`: concurrent map access is a fatal error no recover() sees) instead of notes.""",
"C20": """*As built* (`harness_basic/c20_basic.go` in package basic, `harness/c20_reload.go`). Basic half: 10 (quick) / 100
histories of one reloader + 2–16 validators checked with porcupine (every fifth history with a bcrypt entry and ≤ 3
validators — slow validations overlap several reloads and porcupine's search grows steeply), 6 / 60 rounds of two overlapping
reloaders with invariant probes. Main half: atomically replaced htpasswd and e-mail files, 2–16 validators (direct and HTTP);
since the fsnotify-driven reload's completion is unobservable, each answer must be explained by a version in
[newest version provably observed before the call … newest version replaced before the return] (register linearizability
with open writes + real-time monotonicity); rename bursts (big, malformed, small) with a settle window; in-place rewrites
judged on the final state only (a half-written file may legitimately be read). Round 2 added: removal of the file and a
replacement written 0.2–3 s later (quick: 1.5 s, first round) — the replacement AND the version after it must come into force;
a progress monitor in both halves (2000 heartbeats of a goroutine of the same process, ≥ 20 s of it being scheduled, without a
single completed validation or reload while both are running ⇒ `c20:validators-and-reload-block-each-other` with a goroutine
dump, instead of a hang). ≈115 k validations quick (≈45 s). Found: F5 (fixed). 7/7 own mutants caught.
Round 3 added: every other atomic replacement arrives with an mtime OLDER than or equal to the file it replaces (mv of a prepared copy, rsync -t); an event-storm phase on its own instance, next to the rounds — 60 000 content-preserving events per file within ≈100 ms (chmod toggles alternating with a one-byte overwrite of the first byte by itself; the kernel's inotify queue holds 16 384), then an in-place rewrite every 400 ms for 25 s (quick) / 90 s, each of which must come into force within 10 s (observed on the unchanged tree: ≤ 100 ms). Replacements by rename are deliberately not used while the queue may still be full: the kernel then drops the rename event and ANY inotify-based watcher stays on the replaced inode — observed on the unchanged tree, not a property of the watcher's code.
Round 4 added: an empty e-mails file (0 bytes, a lone newline) is a version — nobody may be admitted once it is in place, and the next version loads again. (An htpasswd file without a valid entry is by the loader's definition a failed load and stays with the malformed versions.)""",
}

def main():
    p = '/verif/DESIGN.md'
    s = open(p).read()
    for cid, text in AS_BUILT.items():
        m = re.search(r'^### ' + cid + r' .*?$', s, re.M)
        if not m:
            raise SystemExit('section not found ' + cid)
        start = m.end()
        nxt = re.search(r'^(### C\d\d |---------)', s[start:], re.M)
        end = start + nxt.start()
        body = s[start:end]
        body = re.sub(r'\n\*As built\*.*\Z', '\n', body, flags=re.S)  # drop an older block
        body = body.rstrip('\n') + '\n\n' + text.strip() + '\n\n'
        s = s[:start] + body + s[end:]
    open(p, 'w').write(s)
    print('as-built blocks refreshed')

if __name__ == '__main__':
    main()
