#!/usr/bin/env bash
# build.sh <target> [race|norace|fuzz]
#   target = main   : harness/*.go mapped into $VERIF_REPO (package main)       -> build/<tag>/main.test
#   target = basic  : harness_basic/*.go mapped into pkg/authentication/basic    -> build/<tag>/basic.test
# Env: VERIF_ONLY="c07 c08"  -> only rig_/mon_/ref_ files plus files starting with those prefixes (private builds
#                               while developing one property); VERIF_EXTRA_OVERLAY=<json file with {"Replace":{...}}>
#                               (self-validation: replaces repo sources by mutated copies); VERIF_BUILD_TAG names the
#                               output directory (default "default").
# Nothing is written into $VERIF_REPO: test files live in /verif and are mapped with -overlay, go.mod/go.sum are
# copies used through -modfile.
set -euo pipefail
. "$(dirname "${BASH_SOURCE[0]}")/env.sh"
target="${1:-main}"; race="${2:-race}"
tag="${VERIF_BUILD_TAG:-default}"
out="$VERIF_ROOT/build/$tag"
mkdir -p "$out"

# --- modfile: repo go.mod + porcupine -------------------------------------------------------------------
cp "$VERIF_REPO/go.mod" "$out/go.mod"
if ! grep -q 'anishathalye/porcupine' "$out/go.mod"; then
  printf '\nrequire github.com/anishathalye/porcupine v1.3.0\n' >> "$out/go.mod"
fi
cat "$VERIF_REPO/go.sum" "$VERIF_ROOT/scripts/extra.sum" | sort -u > "$out/go.sum"

# --- overlay ---------------------------------------------------------------------------------------------
python3 - "$target" "$out" <<'PY'
import json, os, sys, glob
target, out = sys.argv[1], sys.argv[2]
root = os.environ["VERIF_ROOT"]; repo = os.environ["VERIF_REPO"]
only = os.environ.get("VERIF_ONLY", "").split()
rep = {}
if target == "main":
    src, dst = os.path.join(root, "harness"), repo
else:
    src, dst = os.path.join(root, "harness_basic"), os.path.join(repo, "pkg/authentication/basic")
for f in sorted(glob.glob(os.path.join(src, "*.go"))):
    b = os.path.basename(f)
    if only and not (b.startswith(("rig_", "mon_", "ref_")) or any(b.startswith(p) for p in only)):
        continue
    name = b[:-3]
    if name.endswith("_test"):
        name = name[:-5]
    rep[os.path.join(dst, "zz_verif_" + name + "_test.go")] = f
extra = os.environ.get("VERIF_EXTRA_OVERLAY", "")
if extra:
    with open(extra) as fh:
        rep.update(json.load(fh).get("Replace", {}))
with open(os.path.join(out, "overlay_" + target + ".json"), "w") as fh:
    json.dump({"Replace": rep}, fh, indent=1)
PY

flags=(-c -tags verif -vet=off -overlay "$out/overlay_$target.json" -modfile "$out/go.mod")
case "$race" in
  race)   flags+=(-race); bin="$out/$target.test";;
  fuzz)   flags+=(-fuzz='^FuzzVerif_' ); bin="$out/$target.fuzz.test";;   # coverage-instrumented for the native fuzzer
  *)      bin="$out/$target.norace.test";;
esac
if [ "$target" = main ]; then pkgdir="$VERIF_REPO"; else pkgdir="$VERIF_REPO/pkg/authentication/basic"; fi
( cd "$pkgdir" && "$GO" test "${flags[@]}" -o "$bin" . )
echo "$bin"
