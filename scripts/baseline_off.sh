#!/usr/bin/env bash
# The repository's own suite with the verif guard OFF (no tags, no overlay): must match BASELINE.json.
set -uo pipefail
. "$(dirname "${BASH_SOURCE[0]}")/env.sh"
cd "$VERIF_REPO" && "$GO" test -vet=off -count=1 -timeout 25m ./...
