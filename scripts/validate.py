#!/usr/bin/env python3
# validates MANIFEST.json and every evidence file against the schemas (uses the tooling venv's jsonschema)
import json, sys, glob
import jsonschema
ok = True
def chk(f, s):
    global ok
    try:
        jsonschema.validate(json.load(open(f)), json.load(open(s)))
        print("ok  ", f)
    except Exception as e:
        ok = False
        print("FAIL", f, str(e)[:300])
chk('/verif/MANIFEST.json', '/root/.vp/MANIFEST.schema.json')
for f in sorted(glob.glob('/verif/evidence/*.json')):
    chk(f, '/root/.vp/EVIDENCE.schema.json')
sys.exit(0 if ok else 1)
