#!/usr/bin/env bash
# seed_confirm.sh <diff> <demo_test.go> <pkgdir relative to repo root> [--skip-suite]
# Independent confirmation of a seeded change in a fresh scratch worktree of /repo (removed afterwards):
#   1. the change applies and the tree builds, 2. the repository's whole suite stays green with it,
#   3. the demonstration FAILS with the change and 4. PASSES without it.
# Prints "CONFIRM suite=<ok|FAIL|skipped> demo_with=<fails|passes> demo_without=<passes|fails>".
set -uo pipefail
. "$(dirname "${BASH_SOURCE[0]}")/env.sh"
diff="$(readlink -f "$1")"; demo="$(readlink -f "$2")"; pkg="$3"; skip="${4:-}"
wt="/tmp/confirm-$$"
git -C /repo worktree add --detach "$wt" HEAD > /dev/null 2>&1 || { echo "CONFIRM cannot create worktree"; exit 3; }
trap 'git -C /repo worktree remove --force "$wt" > /dev/null 2>&1; rm -rf "$wt"' EXIT
cd "$wt"
git apply "$diff" || { echo "CONFIRM diff does not apply"; exit 3; }
"$GO" build ./... || { echo "CONFIRM does not build"; exit 3; }
suite=skipped
if [ "$skip" != "--skip-suite" ]; then
  suite=FAIL
  for attempt in 1 2 3; do
    if "$GO" test -vet=off -count=1 ./... > "$wt/.suite.log" 2>&1; then suite=ok; break; fi
    failing=$(grep -E '^FAIL[[:space:]]+github' "$wt/.suite.log" | awk '{print $2}' | sort -u | tr '\n' ' ')
    # pkg/clock has wall-clock tolerances of 10-30 ms and flakes on a loaded box, with or without any change
    if [ "$failing" = "github.com/oauth2-proxy/oauth2-proxy/v7/pkg/clock " ]; then
      if "$GO" test -vet=off -count=1 ./pkg/clock/ > /dev/null 2>&1 || "$GO" test -vet=off -count=1 ./pkg/clock/ > /dev/null 2>&1; then suite="ok(pkg/clock flaked once under load, passed alone)"; break; fi
    else
      echo "failing packages: $failing"; break
    fi
  done
fi
name="zz_seed_demo_test.go"
cp "$demo" "$wt/$pkg/$name"
if "$GO" test -vet=off -count=1 "./$pkg" > "$wt/.demo_with.log" 2>&1; then with=passes; else with=fails; fi
git apply -R "$diff"
if "$GO" test -vet=off -count=1 "./$pkg" > "$wt/.demo_without.log" 2>&1; then without=passes; else without=fails; tail -5 "$wt/.demo_without.log"; fi
echo "CONFIRM suite=$suite demo_with=$with demo_without=$without"
