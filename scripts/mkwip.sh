#!/usr/bin/env bash
# mkwip.sh <name> — private VERIF_ROOT /var/tmp/wip-<name> for a sub-agent: harness/ and harness_basic/ are real copies (editable),
# scripts, check, known_findings.json and seeded are symlinks. Run checks with: VERIF_ROOT=/var/tmp/wip-<name> /verif/check CNN
set -euo pipefail
d=/var/tmp/wip-$1; rm -rf "$d"; mkdir -p "$d"
cp -r /verif/harness "$d/harness"; cp -r /verif/harness_basic "$d/harness_basic"
for x in scripts check known_findings.json seeded mutants; do ln -s /verif/$x "$d/$x"; done
mkdir -p "$d/evidence" "$d/replays" "$d/work" "$d/build"
echo "$d"
