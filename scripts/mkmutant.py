#!/usr/bin/env python3
"""mkmutant.py <mutant-id> <repo-relative-file> <old> <new> [<file2> <old2> <new2> ...]
Writes /verif/mutants/<mutant-id>.patch (git-apply-able against /repo) replacing the FIRST occurrence of old by new."""
import sys, os, difflib
mid = sys.argv[1]; args = sys.argv[2:]
out = []
for k in range(0, len(args), 3):
    f, old, new = args[k], args[k+1], args[k+2]
    src = open(os.path.join('/repo', f)).read()
    if old not in src:
        sys.exit(f"{mid}: pattern not found in {f}: {old[:60]!r}")
    dst = src.replace(old, new, 1)
    out += list(difflib.unified_diff(src.splitlines(True), dst.splitlines(True), 'a/' + f, 'b/' + f))
open(f'/verif/mutants/{mid}.patch', 'w').write(''.join(out))
print(f"wrote mutants/{mid}.patch ({len(out)} lines)")
