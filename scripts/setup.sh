#!/usr/bin/env bash
# Run once after a fresh restore, offline: warm the build cache by building the harness (race and non-race).
set -euo pipefail
cd "$(dirname "${BASH_SOURCE[0]}")/.."
. scripts/env.sh
mkdir -p build work evidence replays
scripts/build.sh main race >/dev/null
scripts/build.sh basic race >/dev/null 2>&1 || true
scripts/build.sh main norace >/dev/null
echo "setup ok: $($GO version)"
