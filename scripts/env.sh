# sourced by every script: offline Go environment + toolchain matching /repo/go.mod
export GOFLAGS=-mod=mod GOPROXY=off GOSUMDB=off GOTOOLCHAIN=local GONOSUMDB='*' GONOSUMCHECK=1 GOFLAGS=-mod=mod
export CARGO_NET_OFFLINE=true PIP_NO_INDEX=1
VERIF_ROOT="${VERIF_ROOT:-$(cd "$(dirname "${BASH_SOURCE[0]}")/.." && pwd)}"
VERIF_REPO="${VERIF_REPO:-/repo}"
export VERIF_ROOT VERIF_REPO
_gomodcache="$(GOTOOLCHAIN=local go env GOMODCACHE 2>/dev/null || echo /root/go/pkg/mod)"
_want="$(awk '$1=="go"{print $2; exit}' "$VERIF_REPO/go.mod")"
_tc="$_gomodcache/golang.org/toolchain@v0.0.1-go${_want}.linux-amd64/bin/go"
if [ -x "$_tc" ]; then
  GO="$_tc"
else
  # fall back: let the default go switch by itself (works offline when the toolchain is cached)
  GO="go"; export GOTOOLCHAIN=auto
fi
export GO
