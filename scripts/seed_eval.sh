#!/usr/bin/env bash
# seed_eval.sh <CNN> <seed dir> <label> — imports + confirms the three changes of one seeding agent and runs the owning
# property's quick check against each (overlay; /repo untouched). One summary line per change.
set -uo pipefail
cd "$(dirname "${BASH_SOURCE[0]}")/.."
id="$1"; src="$2"; label="$3"; lc=$(echo "$id" | tr 'C' 'c')
for n in 1 2 3; do
  [ -f "$src/change-$n.diff" ] || continue
  conf=$(scripts/seed_import.sh "$id" "$n" "$src" "$label" 2>&1 | tail -1)
  res=$(VERIF_ONLY=$lc scripts/runmutant.sh "seeded/$id-$label$n/patch.diff" "$id" 2>&1 | grep -a -E "MUTANT|what:" | cut -c1-260 | tr '\n' ' ')
  echo "$conf || $res"
done
