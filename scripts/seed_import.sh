#!/usr/bin/env bash
# seed_import.sh <CNN> <n> <seed dir> [label, default s] — copies a seeded change into /verif/seeded/<CNN>-s<n>/ (patch.diff, demo_test.go) and
# confirms it independently (scripts/seed_confirm.sh); prints the CONFIRM line. meta.json is written by hand/afterwards.
set -uo pipefail
cd "$(dirname "${BASH_SOURCE[0]}")/.."
id="$1"; n="$2"; src="$3"; label="${4:-s}"
dst="seeded/$id-$label$n"; mkdir -p "$dst"
cp "$src/change-$n.diff" "$dst/patch.diff"; cp "$src/demo-${n}_test.go" "$dst/demo_test.go"
pkg=$(grep -m1 -i 'place in' "$dst/demo_test.go" | sed -E 's/.*place in:[[:space:]]*//; s/[[:space:]].*//; s#^\./?$#.#; s#/$##')
[ -d "/repo/$pkg" ] || pkg=.   # free-text placement notes ("the repository root ...") mean the root package
[ -z "$pkg" ] && pkg=.
echo "$id-$label$n pkg=$pkg $(scripts/seed_confirm.sh "$dst/patch.diff" "$dst/demo_test.go" "$pkg" 2>&1 | tail -1)"
