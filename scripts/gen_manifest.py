#!/usr/bin/env python3
# Regenerates MANIFEST.json from scripts/claims.json (per-property claim texts) + properties.jsonl.
import json
props = [json.loads(l) for l in open('/verif/properties.jsonl')]
claims = json.load(open('/verif/scripts/claims.json'))
m = {"version": 1,
 "setup_cmd": "bash scripts/setup.sh",
 "hooks": {"guard": "verif",
           "enable": "go test -race -tags verif -overlay build/<tag>/overlay_<pkg>.json -modfile build/<tag>/go.mod (scripts/build.sh): the harness lives in /verif/harness (+ /verif/harness_basic) and is mapped into /repo as zz_verif_*_test.go by the overlay; nothing is written to /repo and /repo carries no hook code",
           "baseline_off_cmd": "bash /verif/scripts/baseline_off.sh", "source_commits": [], "add_only": True},
 "engines": [{"name": "harness", "path": "harness/", "serves_properties": sorted(claims), "kind_free_text": "Go test files (build tag verif) overlaid on /repo's package main (and pkg/authentication/basic for C20): real proxy instances built through main()'s configuration path, fake OIDC provider with real RSA signatures, fake upstreams, miniredis behind a RESP front with fault injection and gates, RFC 6265 browser jar, monitors and reference predicates; compiled with -race"}],
 "checks": [], "notes": "All checks: ./check <ID> [--tier quick|thorough] [--replay file]; exit 0 held / 1 VIOLATION / 2 INCONCLUSIVE. Known findings: known_findings.json. Mutants: mutants/ + scripts/runmutant.sh. See DESIGN.md.",
 "not_applicable": []}
for p in props:
    i = p["id"]
    if i in claims:
        c = claims[i]
        m["checks"].append({"property_id": i, "quick_cmd": f"./check {i} --tier quick", "thorough_cmd": f"./check {i} --tier thorough",
            "evidence_file": f"/verif/evidence/{i}.json", "replay_cmd_template": f"./check {i} --replay {{path}}", "engine": "harness",
            "level_claimed": {"category": c["level"], "text": c["text"], "design_ref": f"DESIGN.md §4 {i}"},
            "level_note": c.get("note", "Held on the executions observed only (see evidence). Trusted base: Go runtime and race detector, the harness' fakes (IdP, upstream, miniredis + RESP front, browser jar) and reference predicates."),
            "technique": c["technique"]})
    else:
        m["not_applicable"].append({"property_id": i, "reason": "monitor not yet completed/validated in this round (work in progress; see DESIGN.md §10)"})
json.dump(m, open('/verif/MANIFEST.json', 'w'), indent=1)
print("claimed:", [c["property_id"] for c in m["checks"]])
