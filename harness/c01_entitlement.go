//go:build verif

package main

// C01 — No upstream access or identity disclosure without a valid credential or bypass.
//
// Oracle (reference model computed from the harness's OWN bookkeeping of how every credential was made, never by
// asking the code under test whether a credential is good):
//
//   entitled(req)  = bypass(req) || exists presented credential c: valid(c, instance) && authorised(identity(c), instance)
//   bypass(req)    = (preflight flag && method == OPTIONS) || a configured skip-auth route matches (method, path)
//                    || the client address lies in a configured trusted network
//   valid(c, inst) = how c was forged: real login at an instance with the same secret and store and within the
//                    lifetime; bearer signed by a configured issuer for its audience and unexpired (only with
//                    --skip-jwt-bearer-tokens); htpasswd user with the right password (only with --htpasswd-file); ...
//
//   (1) served  => entitled                   served = upstream log has the request's X-Vf-Id / 202 from auth-only or the
//                                                       static upstream / userinfo with an identity
//   (2) identity seen by the upstream or returned by userinfo is the identity of a presented valid credential
//   (3) valid && authorised => served with that identity (the converse clause of the statement)
//   (4) !entitled => status in {401, 403, 302 to the IdP's authorization endpoint}, no session cookie handed out
//
// Everything generated is a pure function of (seed, tier).

import (
	"crypto/sha1"
	"encoding/base64"
	"encoding/json"
	"fmt"
	mrand "math/rand"
	"net/http"
	"net/netip"
	"os"
	"path/filepath"
	"regexp"
	"sort"
	"strings"
	"sync"
	"sync/atomic"
	"testing"
	"time"

	"github.com/oauth2-proxy/oauth2-proxy/v7/pkg/clock"
	"golang.org/x/crypto/bcrypt"
)

const (
	c01CookieName = "_oauth2_proxy"
	c01Secret2    = "fedcba9876543210fedcba9876543210"
)

type c01Ident struct {
	User   string   `json:"user"`
	Email  string   `json:"email"`
	Groups []string `json:"groups,omitempty"`
}

var (
	c01Alice   = vfIdentity{Sub: "u-alice", Email: "alice@example.com", Groups: []string{"g1", "g2"}, PreferredUsername: "alice-pu"}
	c01Erin    = vfIdentity{Sub: "u-erin", Email: "Erin.X+tag@Example.COM", Groups: []string{"g0", "g1"}, PreferredUsername: "erin-pu"}
	c01Mallory = vfIdentity{Sub: "u-mallory", Email: "mallory@evil.org", Groups: []string{"g9"}, PreferredUsername: "mal-pu"}
	c01Carol   = vfIdentity{Sub: "u-carol", Email: "carol@example.com", Groups: []string{"g9", "g11"}, PreferredUsername: "carol-pu"}
	c01Dave    = vfIdentity{Sub: "u-dave", Email: "dave@evilexample.com", Groups: []string{"g1"}, PreferredUsername: "dave-pu"}
)

func c01IdentOf(id vfIdentity) c01Ident {
	return c01Ident{User: id.Sub, Email: id.Email, Groups: id.Groups}
}

// ---------------------------------------------------------------------------------------------------------
// configurations

type c01Cfg struct {
	Store    string // cookie | redis
	JWT      string // off | on | extra
	Htpasswd string // off | on | on+group
	Rules    string // none | domain | group
	ErrMode  string // page | api | json | button
	Bypass   string // none | route | ip | preflight | all
	Expire   string // 168h | 2h
	Refresh  string // 0 | 1h   (--cookie-refresh: sessions older than that are refreshed / re-validated before use)
	Static   bool   // static://202 at "/" (the second upstream stays at /b/)
}

func (c c01Cfg) String() string {
	s := fmt.Sprintf("store=%s jwt=%s htpasswd=%s rules=%s err=%s bypass=%s expire=%s refresh=%s", c.Store, c.JWT, c.Htpasswd, c.Rules, c.ErrMode, c.Bypass, c.Expire, c.Refresh)
	if c.Static {
		s += " static"
	}
	return s
}

var c01Dims = [][]string{
	{"cookie", "redis"},
	{"off", "on", "extra"},
	{"off", "on", "on+group"},
	{"none", "domain", "group"},
	{"page", "api", "json", "button"},
	{"none", "route", "ip", "preflight", "all"},
	{"168h", "2h"},
	{"0", "1h"},
}

func c01CfgOf(v []int) c01Cfg {
	return c01Cfg{Store: c01Dims[0][v[0]], JWT: c01Dims[1][v[1]], Htpasswd: c01Dims[2][v[2]], Rules: c01Dims[3][v[3]], ErrMode: c01Dims[4][v[4]], Bypass: c01Dims[5][v[5]], Expire: c01Dims[6][v[6]], Refresh: c01Dims[7][v[7]]}
}

// c01Pairwise: greedy covering array — every pair of values of every two dimensions appears in some row.
func c01Pairwise(rng *mrand.Rand) [][]int {
	type pair struct{ d1, v1, d2, v2 int }
	unc := map[pair]bool{}
	for d1 := range c01Dims {
		for d2 := d1 + 1; d2 < len(c01Dims); d2++ {
			for v1 := range c01Dims[d1] {
				for v2 := range c01Dims[d2] {
					unc[pair{d1, v1, d2, v2}] = true
				}
			}
		}
	}
	covers := func(row []int) int {
		n := 0
		for d1 := range row {
			for d2 := d1 + 1; d2 < len(row); d2++ {
				if unc[pair{d1, row[d1], d2, row[d2]}] {
					n++
				}
			}
		}
		return n
	}
	var rows [][]int
	for len(unc) > 0 {
		var best []int
		bestN := -1
		for k := 0; k < 60; k++ {
			row := make([]int, len(c01Dims))
			for d := range row {
				row[d] = rng.Intn(len(c01Dims[d]))
			}
			if n := covers(row); n > bestN {
				best, bestN = row, n
			}
		}
		if bestN == 0 { // force progress: build a row around one uncovered pair
			for p := range unc {
				best[p.d1], best[p.d2] = p.v1, p.v2
				break
			}
		}
		for d1 := range best {
			for d2 := d1 + 1; d2 < len(best); d2++ {
				delete(unc, pair{d1, best[d1], d2, best[d2]})
			}
		}
		rows = append(rows, best)
	}
	return rows
}

func c01Configs(run *vfRun) []c01Cfg {
	var out []c01Cfg
	seen := map[string]bool{}
	add := func(c c01Cfg) {
		if !seen[c.String()] {
			seen[c.String()] = true
			out = append(out, c)
		}
	}
	for _, r := range c01Pairwise(run.Rng) {
		add(c01CfgOf(r))
	}
	extra := run.Env.Pick(4, 24)
	for k := 0; k < extra; k++ {
		row := make([]int, len(c01Dims))
		for d := range row {
			row[d] = run.Rng.Intn(len(c01Dims[d]))
		}
		add(c01CfgOf(row))
	}
	// the static upstream (legacy flags only allow it at "/", so it is the sole upstream of its instance)
	add(c01Cfg{Store: "cookie", JWT: "on", Htpasswd: "on", Rules: "domain", ErrMode: "page", Bypass: "route", Expire: "168h", Refresh: "0", Static: true})
	add(c01Cfg{Store: "redis", JWT: "off", Htpasswd: "off", Rules: "none", ErrMode: "json", Bypass: "preflight", Expire: "168h", Refresh: "1h", Static: true})
	// inotify instances are limited (128 per user): at most 50 htpasswd watchers in one process
	n := 0
	for i := range out {
		if out[i].Htpasswd != "off" {
			n++
			if n > 50 {
				out[i].Htpasswd = "off"
			}
		}
	}
	return out
}

type c01Route struct {
	Method string
	Re     *regexp.Regexp
}

type c01BypassRef struct {
	Routes    []c01Route
	Preflight bool
	Nets      []netip.Prefix
}

func (c c01Cfg) bypassRef() c01BypassRef {
	var b c01BypassRef
	if c.Bypass == "route" || c.Bypass == "all" {
		b.Routes = []c01Route{{"GET", regexp.MustCompile(`^/pub/ok$`)}, {"POST", regexp.MustCompile(`^/api/hook$`)}}
	}
	if c.Bypass == "ip" || c.Bypass == "all" {
		b.Nets = []netip.Prefix{netip.MustParsePrefix("10.0.0.0/8")}
	}
	if c.Bypass == "preflight" || c.Bypass == "all" {
		b.Preflight = true
	}
	return b
}

// match is the reference bypass predicate; it returns which rule kind exempted the request ("" = none).
func (b c01BypassRef) match(method, target, remote string) string {
	path := target
	if k := strings.IndexByte(path, '?'); k >= 0 {
		path = path[:k]
	}
	if b.Preflight && method == "OPTIONS" {
		return "preflight"
	}
	for _, r := range b.Routes {
		if r.Method == method && r.Re.MatchString(path) {
			return "route"
		}
	}
	if ap, err := netip.ParseAddrPort(remote); err == nil {
		for _, n := range b.Nets {
			if n.Contains(ap.Addr().Unmap()) {
				return "ip"
			}
		}
	}
	return ""
}

// c01Authorised: the global rules of the configuration applied to an identity (reference reading of the docs).
func (c c01Cfg) authorised(id c01Ident) bool {
	switch c.Rules {
	case "domain": // --email-domain=example.com ; sessions without e-mail (htpasswd) are exempt
		if id.Email == "" {
			return true
		}
		k := strings.LastIndexByte(id.Email, '@')
		return k >= 0 && strings.EqualFold(id.Email[k+1:], "example.com")
	case "group": // --allowed-group=g1
		for _, g := range id.Groups {
			if g == "g1" {
				return true
			}
		}
		return false
	}
	return true
}

// ---------------------------------------------------------------------------------------------------------
// shared material, made once in a serial set-up phase (the only place where the global clock mock is touched)

type c01Sess struct {
	Value string // value of the single session cookie
	Key   string // Redis key (redis store)
	Val   string // Redis value, to restore the entry after a request that legitimately removed it
}

type c01Shared struct {
	W        *vfWorld
	IdP2     *vfIdP
	UpB      *vfUpstream
	Htpasswd string
	Issuer   map[string]*vfProxy // store -> permissive instance with the common secret
	Sibling  map[string]*vfProxy // store -> instance with another secret (same Redis)
	Old400   map[string]*c01Sess // issued 400 h ago
	Old3     map[string]*c01Sess // issued 3 h ago
	Cross    map[string]*c01Sess // live session of the issuer of that store (wrong kind for the other store)
	Sib      map[string]*c01Sess
	Renamed  map[string]*c01Sess // live session of a sibling with the SAME secret but --cookie-name=_other_proxy
	Aged     []*c01Sess          // redis sessions issued 3 h ago, one per mid-request-removal history
	Deleted  *c01Sess            // redis ticket whose entry was deleted
	Tok      map[string]string
	// Stale: sessions issued 3 h ago whose ID token lived 2 s and that have no refresh token; index -1 = cookie store
	// (stateless, shared), otherwise one per Redis-store instance (a refusal removes the entry).
	Stale      map[int]*c01Sess
	staleReady time.Time
	redisMu    sync.Mutex
	sampleCtr  int64
	statMu     sync.Mutex
	kindStat   map[string]*[3]int64 // credential kind -> requests, served, refused
	owned      map[string]bool
}

func c01SessionCookies(b *vfBrowser) [][2]string {
	var out [][2]string
	for _, c := range b.Jar.All() {
		if strings.HasPrefix(c.Name, c01CookieName) && !strings.Contains(c.Name, "csrf") {
			out = append(out, [2]string{c.Name, c.Value})
		}
	}
	return out
}

// mint performs a real login of id at p. at != zero imposes the issue time (serial set-up only).
func (sh *c01Shared) mint(p *vfProxy, id vfIdentity, at time.Time) (*c01Sess, error) {
	redis := p.Opts.Session.Type == "redis"
	var before map[string]bool
	if redis {
		sh.redisMu.Lock()
		defer sh.redisMu.Unlock()
		before = sh.keysBefore()
	}
	b := vfNewBrowser("")
	l, err := b.StartLogin(p, id, "/")
	if err != nil {
		return nil, err
	}
	if !at.IsZero() {
		clock.Set(at)
	}
	resp := b.Get(p, l.CallbackTarget(p))
	if !at.IsZero() {
		clock.Reset()
	}
	if resp.Code != 302 {
		return nil, fmt.Errorf("callback status %d: %s", resp.Code, vfTrunc(vfErrText(resp.Body), 200))
	}
	var cs [][2]string
	for _, c := range b.Jar.All() {
		if c.Name == p.Opts.Cookie.Name {
			cs = append(cs, [2]string{c.Name, c.Value})
		}
	}
	if len(cs) != 1 {
		return nil, fmt.Errorf("expected one session cookie named %s, got %d", p.Opts.Cookie.Name, len(cs))
	}
	s := &c01Sess{Value: cs[0][1]}
	if redis {
		s.Key, s.Val = sh.newKey(before)
		if s.Key == "" {
			return nil, fmt.Errorf("redis login created no key")
		}
	}
	return s, nil
}

// keysBefore / newKey attribute the Redis entry a login creates (callers hold redisMu). Entries that other goroutines
// remove and restore meanwhile are recognised by the registry of keys already attributed.
func (sh *c01Shared) keysBefore() map[string]bool {
	before := map[string]bool{}
	for _, k := range sh.W.Redis().Keys() {
		before[k] = true
	}
	return before
}

func (sh *c01Shared) newKey(before map[string]bool) (key, val string) {
	if sh.owned == nil {
		sh.owned = map[string]bool{}
	}
	for _, k := range sh.W.Redis().Keys() {
		if !before[k] && !sh.owned[k] {
			key = k
		}
	}
	if key != "" {
		sh.owned[key] = true
		val, _ = sh.W.Redis().Get(key)
	}
	return
}

func (sh *c01Shared) restore(s *c01Sess) {
	if s != nil && s.Key != "" && !sh.W.Redis().Exists(s.Key) {
		_ = sh.W.Redis().Set(s.Key, s.Val)
	}
}

func c01Basic(user, pw string) string {
	return "Basic " + base64.StdEncoding.EncodeToString([]byte(user+":"+pw))
}

func c01SHA(pw string) string {
	s := sha1.Sum([]byte(pw))
	return "{SHA}" + base64.StdEncoding.EncodeToString(s[:])
}

func c01Setup(run *vfRun, w *vfWorld, cfgs []c01Cfg) *c01Shared {
	sh := &c01Shared{W: w, IdP2: vfNewIdP(), UpB: w.Upstream("b"), Issuer: map[string]*vfProxy{}, Sibling: map[string]*vfProxy{},
		Old400: map[string]*c01Sess{}, Old3: map[string]*c01Sess{}, Cross: map[string]*c01Sess{}, Sib: map[string]*c01Sess{}, Renamed: map[string]*c01Sess{}, Tok: map[string]string{}}
	w.OnClose(sh.IdP2.Close)
	sh.Htpasswd = w.File("c01-htpasswd", "bob:"+c01SHA("pw1")+"\ncarl:"+c01SHA("pw-carl")+"\n")
	must := func(s *c01Sess, err error) *c01Sess {
		if err != nil {
			run.T.Fatalf("c01 set-up: %v", err)
		}
		return s
	}
	now := time.Now()
	for _, store := range []string{"cookie", "redis"} {
		sh.Issuer[store] = w.MustProxy("--session-store-type="+store, "--redis-connection-url="+w.RedisURL())
		sh.Sibling[store] = w.MustProxy("--session-store-type="+store, "--redis-connection-url="+w.RedisURL(), "--cookie-secret="+c01Secret2)
	}
	sh.mintStale(run, cfgs) // first, so that their short-lived ID tokens expire while the rest of the set-up runs
	for _, store := range []string{"cookie", "redis"} {
		sh.Old400[store] = must(sh.mint(sh.Issuer[store], c01Alice, now.Add(-400*time.Hour)))
		sh.Old3[store] = must(sh.mint(sh.Issuer[store], c01Alice, now.Add(-3*time.Hour)))
		sh.Cross[store] = must(sh.mint(sh.Issuer[store], c01Alice, time.Time{}))
		sh.Sib[store] = must(sh.mint(sh.Sibling[store], c01Alice, time.Time{}))
		other := w.MustProxy("--session-store-type="+store, "--redis-connection-url="+w.RedisURL(), "--cookie-name=_other_proxy")
		sh.Renamed[store] = must(sh.mint(other, c01Alice, time.Time{}))
	}
	for k := 0; k < 4; k++ {
		sh.Aged = append(sh.Aged, must(sh.mint(sh.Issuer["redis"], c01Alice, now.Add(-3*time.Hour))))
	}
	sh.Deleted = must(sh.mint(sh.Issuer["redis"], c01Alice, time.Time{}))
	if !w.Redis().Del(sh.Deleted.Key) {
		run.T.Fatalf("c01 set-up: could not delete %s", sh.Deleted.Key)
	}
	sh.Deleted.Key = "" // never restored

	// bearer tokens; margins are hours
	claims := func(iss, aud, sub, email string, groups []string, exp time.Time) map[string]interface{} {
		return map[string]interface{}{"iss": iss, "aud": aud, "sub": sub, "email": email, "groups": groups, "preferred_username": sub + "-pu",
			"exp": exp.Unix(), "iat": now.Add(-time.Minute).Unix()}
	}
	main, second := w.IdP.Issuer, sh.IdP2.Issuer
	good := claims(main, "cid", "sub-b", "bearer@example.com", []string{"g1"}, now.Add(6*time.Hour))
	sh.Tok["valid"] = vfMint(good, vfMintOpts{})
	sh.Tok["valid-unauth"] = vfMint(claims(main, "cid", "sub-m", "bm@evil.org", []string{"g9"}, now.Add(6*time.Hour)), vfMintOpts{})
	sh.Tok["extra-valid"] = vfMint(claims(second, "aud2", "sub-x", "bx@example.com", []string{"g1"}, now.Add(6*time.Hour)), vfMintOpts{})
	sh.Tok["wrongkey"] = vfMint(good, vfMintOpts{Key: vfKeyB})
	sh.Tok["expired"] = vfMint(claims(main, "cid", "sub-b", "bearer@example.com", []string{"g1"}, now.Add(-2*time.Hour)), vfMintOpts{})
	sh.Tok["wrongaud"] = vfMint(claims(main, "someone-else", "sub-b", "bearer@example.com", []string{"g1"}, now.Add(6*time.Hour)), vfMintOpts{})
	sh.Tok["wrongiss"] = vfMint(claims("https://evil.invalid", "cid", "sub-b", "bearer@example.com", []string{"g1"}, now.Add(6*time.Hour)), vfMintOpts{})
	sh.Tok["extra-wrongaud"] = vfMint(claims(second, "cid", "sub-x", "bx@example.com", []string{"g1"}, now.Add(6*time.Hour)), vfMintOpts{})
	sh.Tok["extra-expired"] = vfMint(claims(second, "aud2", "sub-x", "bx@example.com", []string{"g1"}, now.Add(-2*time.Hour)), vfMintOpts{})
	sh.Tok["alg-none"] = vfMint(good, vfMintOpts{Alg: "none"})
	sh.Tok["hs256-pubkey"] = vfMint(good, vfMintOpts{Alg: "HS256", HMACKey: vfPubPEM(&vfKeyA.PublicKey)})
	sh.Tok["badsig"] = vfMint(good, vfMintOpts{BadSig: true})
	unv := claims(main, "cid", "sub-b", "bearer@example.com", []string{"g1"}, now.Add(6*time.Hour))
	unv["email_verified"] = false
	sh.Tok["unverified-email"] = vfMint(unv, vfMintOpts{})
	// e-mail not verified, as JSON false and as the string "false" (some providers serialise it that way), from the
	// provider's issuer and from the extra issuer (which is verified by a different code path)
	unvs := claims(main, "cid", "sub-b", "bearer@example.com", []string{"g1"}, now.Add(6*time.Hour))
	unvs["email_verified"] = "false"
	sh.Tok["unverified-email-string"] = vfMint(unvs, vfMintOpts{})
	for _, v := range []interface{}{false, "false", "False"} {
		x := claims(second, "aud2", "sub-x", "bx@example.com", []string{"g1"}, now.Add(6*time.Hour))
		x["email_verified"] = v
		sh.Tok[fmt.Sprintf("extra-unverified-email-%T-%v", v, v)] = vfMint(x, vfMintOpts{})
	}
	return sh
}

// mintStale runs in the serial set-up phase (it imposes the issue time and shortens the IdP's ID-token lifetime).
func (sh *c01Shared) mintStale(run *vfRun, cfgs []c01Cfg) {
	sh.Stale = map[int]*c01Sess{}
	sh.W.IdP.Set(func(c *vfIdPCfg) { c.IDTokenTTL = 3 * time.Second })
	defer sh.W.IdP.Set(func(c *vfIdPCfg) { c.IDTokenTTL = time.Hour })
	id := c01Alice
	id.NoRefreshToken = true
	at := time.Now().Add(-3 * time.Hour)
	one := func(idx int, store string) {
		s, err := sh.mint(sh.Issuer[store], id, at)
		if err != nil {
			run.T.Fatalf("c01 set-up (stale session): %v", err)
		}
		sh.Stale[idx] = s
	}
	one(-1, "cookie")
	for i, c := range cfgs {
		if c.Store == "redis" {
			one(i, "redis")
		}
	}
	sh.staleReady = time.Now().Add(5 * time.Second) // their 3 s ID tokens have expired by then, with seconds of margin
}

func (c c01Cfg) flags(sh *c01Shared) []string {
	w := sh.W
	f := []string{"--session-store-type=" + c.Store, "--cookie-expire=" + c.Expire, "--cookie-refresh=" + c.Refresh}
	if c.Store == "redis" {
		f = append(f, "--redis-connection-url="+w.RedisURL())
	}
	if c.Static {
		f = append(f, "--upstream=static://202", "--upstream="+sh.UpB.URL()+"/b/") // legacy flags register a static upstream at "/"
	} else {
		f = append(f, "--upstream="+w.Up.URL()+"/", "--upstream="+sh.UpB.URL()+"/b/")
	}
	switch c.JWT {
	case "on":
		f = append(f, "--skip-jwt-bearer-tokens=true")
	case "extra":
		f = append(f, "--skip-jwt-bearer-tokens=true", "--extra-jwt-issuers="+sh.IdP2.Issuer+"=aud2")
	}
	switch c.Htpasswd {
	case "on":
		f = append(f, "--htpasswd-file="+sh.Htpasswd)
	case "on+group":
		f = append(f, "--htpasswd-file="+sh.Htpasswd, "--htpasswd-user-group=g1")
	}
	switch c.Rules {
	case "domain":
		f = append(f, "--email-domain=example.com")
	case "group":
		f = append(f, "--allowed-group=g1")
	}
	switch c.ErrMode {
	case "api":
		f = append(f, "--api-route=^/api/")
	case "json":
		f = append(f, "--force-json-errors=true")
	case "button":
		f = append(f, "--skip-provider-button=true")
	}
	if c.Bypass == "route" || c.Bypass == "all" {
		f = append(f, "--skip-auth-route=GET=^/pub/ok$", "--skip-auth-route=POST=^/api/hook$")
	}
	if c.Bypass == "ip" || c.Bypass == "all" {
		f = append(f, "--trusted-ip=10.0.0.0/8")
	}
	if c.Bypass == "preflight" || c.Bypass == "all" {
		f = append(f, "--skip-auth-preflight=true")
	} else {
		f = append(f, "--skip-auth-preflight=false")
	}
	return f
}

// ---------------------------------------------------------------------------------------------------------
// credentials

type c01Cred struct {
	Kind        string      `json:"kind"`
	How         string      `json:"how"` // bookkeeping: how it was forged
	Cookies     [][2]string `json:"cookies,omitempty"`
	Auth        string      `json:"authorization,omitempty"`
	Valid       bool        `json:"valid"`
	Ident       c01Ident    `json:"identity"`
	Authorised  bool        `json:"authorised"`
	Undecodable bool        `json:"undecodable_ticket,omitempty"` // a cookie under the session name that is no valid ticket (matters for the Redis store's clear path)
	sess        *c01Sess
}

const c01B64 = "ABCDEFGHIJKLMNOPQRSTUVWXYZabcdefghijklmnopqrstuvwxyz0123456789-_"

// c01Violation forwards at most two witnesses per signature to the run (the rig stops writing witnesses after 25
// violations in total, so a flood of one class must not hide the first witness of another); everything is counted.
var (
	c01ViolMu   sync.Mutex
	c01ViolSeen = map[string]int{}
)

func c01Violation(run *vfRun, sig, summary string, detail interface{}) {
	c01ViolMu.Lock()
	c01ViolSeen[sig]++
	n := c01ViolSeen[sig]
	c01ViolMu.Unlock()
	run.Count("violations["+sig+"]", 1)
	if n <= 2 {
		run.Violation(sig, summary, detail)
	}
}

// c01Tamper changes exactly one character of a signed cookie value "payload|timestamp|signature" such that the decoded
// content really differs (the last payload character of a base64 string may carry unused bits and is avoided).
func c01Tamper(v string, part int, rng *mrand.Rand) (string, string) {
	parts := strings.Split(v, "|")
	if len(parts) != 3 {
		return v + "x", "appended x"
	}
	p := []byte(parts[part])
	switch part {
	case 1:
		k := rng.Intn(len(p))
		p[k] = '0' + (p[k]-'0'+1+byte(rng.Intn(8)))%10
		parts[1] = string(p)
		return strings.Join(parts, "|"), fmt.Sprintf("timestamp digit %d changed", k)
	default:
		n := len(strings.TrimRight(string(p), "=")) - 2
		if n < 1 {
			n = 1
		}
		k := rng.Intn(n)
		for {
			c := c01B64[rng.Intn(64)]
			if c != p[k] {
				p[k] = c
				break
			}
		}
		parts[part] = string(p)
		return strings.Join(parts, "|"), fmt.Sprintf("character %d of part %d changed", k, part)
	}
}

func c01RandB64(rng *mrand.Rand, n int) string {
	b := make([]byte, n)
	_, _ = rng.Read(b)
	return base64.URLEncoding.EncodeToString(b)
}

func c01BuildCreds(run *vfRun, sh *c01Shared, cfg c01Cfg, idx int, p *vfProxy, rng *mrand.Rand) ([]*c01Cred, error) {
	var out []*c01Cred
	ck := func(v string) [][2]string { return [][2]string{{c01CookieName, v}} }
	other := "redis"
	if cfg.Store == "redis" {
		other = "cookie"
	}
	add := func(c *c01Cred) *c01Cred {
		if c.Valid {
			c.Authorised = cfg.authorised(c.Ident)
		}
		out = append(out, c)
		return c
	}
	own := func(id vfIdentity, kind, how string, at *vfProxy) (*c01Cred, error) {
		s, err := sh.mint(at, id, time.Time{})
		if err != nil {
			return nil, fmt.Errorf("%s: %w", kind, err)
		}
		return add(&c01Cred{Kind: kind, How: how, Cookies: ck(s.Value), Valid: true, Ident: c01IdentOf(id), sess: s}), nil
	}

	add(&c01Cred{Kind: "none", How: "no credential at all"})

	// --- sessions
	alice, err := own(c01Alice, "session", "real login of alice at this very instance", p)
	if err != nil {
		return nil, err
	}
	if _, err := own(c01Erin, "session-mixedcase", "real login at this instance; e-mail with upper-case domain and plus tag, allowed group is the second one", p); err != nil {
		return nil, err
	}
	iss := sh.Issuer[cfg.Store]
	for _, x := range []struct {
		id   vfIdentity
		kind string
	}{{c01Mallory, "session-foreign-domain"}, {c01Carol, "session-other-groups"}, {c01Dave, "session-lookalike-domain"}} {
		if _, err := own(x.id, x.kind, "real login at a permissive instance sharing secret and store (operator restart with stricter rules)", iss); err != nil {
			return nil, err
		}
	}
	v := alice.Cookies[0][1]
	for part := 0; part < 3; part++ {
		for k := 0; k < run.Env.Pick(1, 3); k++ {
			tv, how := c01Tamper(v, part, rng)
			add(&c01Cred{Kind: fmt.Sprintf("tampered-part%d", part), How: "valid session cookie of this instance, " + how, Cookies: ck(tv), Undecodable: true})
		}
	}
	parts := strings.Split(v, "|")
	oldParts := strings.Split(sh.Old400[cfg.Store].Value, "|")
	nowTS := fmt.Sprint(time.Now().Unix())
	if len(parts) == 3 && len(oldParts) == 3 {
		for _, x := range [][3]string{
			{"sig-stripped", "valid cookie with the signature removed (payload|ts|)", parts[0] + "|" + parts[1] + "|"},
			{"sig-stripped", "valid cookie cut after the timestamp (payload|ts)", parts[0] + "|" + parts[1]},
			{"sig-stripped", "valid cookie with the timestamp removed", parts[0] + "||" + parts[2]},
			{"sig-stripped", "valid payload only", parts[0]},
			{"sig-foreign", "valid payload and timestamp, signature of an all-zero MAC", parts[0] + "|" + parts[1] + "|" + base64.URLEncoding.EncodeToString(make([]byte, 32))},
			{"expired-redated", "payload of the 400 h old cookie with a fresh timestamp and no signature", oldParts[0] + "|" + nowTS + "|"},
			{"expired-redated", "payload and signature of the 400 h old cookie with a fresh timestamp", oldParts[0] + "|" + nowTS + "|" + oldParts[2]},
			{"expired-redated", "400 h old payload and timestamp with the signature of the live cookie", oldParts[0] + "|" + oldParts[1] + "|" + parts[2]},
		} {
			add(&c01Cred{Kind: x[0], How: x[1], Cookies: ck(x[2]), Undecodable: true})
		}
	}
	add(&c01Cred{Kind: "random", How: "random bytes in cookie format base64|now|base64(32 bytes)", Cookies: ck(c01RandB64(rng, 300) + "|" + nowTS + "|" + c01RandB64(rng, 32)), Undecodable: true})
	tick := base64.URLEncoding.EncodeToString([]byte("v2." + base64.RawURLEncoding.EncodeToString([]byte(c01CookieName+"-"+fmt.Sprintf("%032x", rng.Int63()))) + "." + base64.RawURLEncoding.EncodeToString(make([]byte, 16))))
	add(&c01Cred{Kind: "random", How: "well-formed ticket text with a random signature", Cookies: ck(tick + "|" + nowTS + "|" + c01RandB64(rng, 32)), Undecodable: true})
	for _, g := range []string{"x", "||", "a|b|c", "|" + nowTS + "|", "%41"} {
		add(&c01Cred{Kind: "garbage", How: "literal cookie value " + g, Cookies: ck(g), Undecodable: true})
	}
	add(&c01Cred{Kind: "expired-400h", How: "real login at a sibling sharing secret and store, issue time imposed 400 h ago", Cookies: ck(sh.Old400[cfg.Store].Value), Undecodable: true})
	old3 := &c01Cred{Kind: "aged-3h", How: "real login at a sibling sharing secret and store, issue time imposed 3 h ago", Cookies: ck(sh.Old3[cfg.Store].Value), Ident: c01IdentOf(c01Alice)}
	if cfg.Expire == "168h" {
		old3.Valid, old3.sess = true, sh.Old3[cfg.Store] // shared between instances: this session is only ever presented where nothing clears it (authorised everywhere, never to sign_out)
	} else {
		old3.Kind, old3.Undecodable = "expired-3h", true
	}
	if cfg.Refresh == "0" || !old3.Valid {
		add(old3) // with a refresh period the outcome would depend on the provider's refresh protocol (C12), not on entitlement
	}
	// issued 3 h ago, ID token expired, no refresh token: good while no refresh period is configured (the cookie lifetime
	// governs), dead as soon as sessions older than the refresh period are re-validated before use
	stale := sh.Stale[-1]
	if cfg.Store == "redis" {
		stale = sh.Stale[idx]
	}
	if stale != nil {
		c := &c01Cred{Kind: "stale-idtoken-expired", How: "real login 3 h ago (imposed) whose ID token expired after 3 s and which has no refresh token", Cookies: ck(stale.Value), Ident: c01IdentOf(c01Alice)}
		switch {
		case cfg.Expire != "168h":
			c.Undecodable = true
		case cfg.Refresh == "0":
			c.Valid, c.sess = true, stale
		default:
			c.sess = stale // refused after re-validation; the Redis entry it loses is put back before the next request
		}
		add(c)
	}
	add(&c01Cred{Kind: "other-secret", How: "real login at a sibling instance with another --cookie-secret (same store)", Cookies: ck(sh.Sib[cfg.Store].Value), Undecodable: true})
	add(&c01Cred{Kind: "other-store", How: "live session cookie of a " + other + "-store instance with the same secret", Cookies: ck(sh.Cross[other].Value), Undecodable: true})
	add(&c01Cred{Kind: "other-store", How: "session cookie of a " + other + "-store instance with another secret", Cookies: ck(sh.Sib[other].Value), Undecodable: true})
	add(&c01Cred{Kind: "deleted-ticket", How: "redis ticket whose entry was deleted from Redis", Cookies: ck(sh.Deleted.Value), Undecodable: cfg.Store != "redis"})
	add(&c01Cred{Kind: "other-name-same-secret", How: "live session cookie of a sibling with the same --cookie-secret and store but --cookie-name=_other_proxy, presented under this instance's cookie name (a cookie is issued for its name)", Cookies: ck(sh.Renamed[cfg.Store].Value), Undecodable: true})
	add(&c01Cred{Kind: "other-name-same-secret", How: "the same cookie under its own name _other_proxy", Cookies: [][2]string{{"_other_proxy", sh.Renamed[cfg.Store].Value}}})
	add(&c01Cred{Kind: "wrong-name", How: "valid session value under the cookie name _oauth2_proxyx", Cookies: [][2]string{{c01CookieName + "x", v}}})
	// CSRF cookie of this instance under the session cookie name
	st := p.Do(vfGET("/oauth2/start?rd=/"))
	for _, line := range st.SetCookies() {
		if c, err := http.ParseSetCookie(line); err == nil && strings.HasSuffix(c.Name, "_csrf") && c.Value != "" {
			add(&c01Cred{Kind: "csrf-as-session", How: "value of the CSRF cookie issued by /oauth2/start presented under the session cookie name", Cookies: ck(c.Value), Undecodable: true})
			add(&c01Cred{Kind: "csrf-as-session", How: "CSRF cookie presented under its own name only", Cookies: [][2]string{{c.Name, c.Value}}})
			break
		}
	}

	// --- bearer
	jwtOn := cfg.JWT != "off"
	bearer := c01Ident{User: "sub-b", Email: "bearer@example.com", Groups: []string{"g1"}}
	add(&c01Cred{Kind: "bearer-valid", How: "JWT signed by the configured issuer for this client, 6 h to live", Auth: "Bearer " + sh.Tok["valid"], Valid: jwtOn, Ident: bearer})
	add(&c01Cred{Kind: "bearer-valid-foreign-domain", How: "valid JWT whose e-mail/groups fail the rules", Auth: "Bearer " + sh.Tok["valid-unauth"], Valid: jwtOn, Ident: c01Ident{User: "sub-m", Email: "bm@evil.org", Groups: []string{"g9"}}})
	add(&c01Cred{Kind: "bearer-extra-issuer", How: "JWT signed by the second issuer for audience aud2", Auth: "Bearer " + sh.Tok["extra-valid"], Valid: cfg.JWT == "extra", Ident: c01Ident{User: "sub-x", Email: "bx@example.com", Groups: []string{"g1"}}})
	for _, k := range []string{"wrongkey", "expired", "wrongaud", "wrongiss", "extra-wrongaud", "extra-expired", "alg-none", "hs256-pubkey", "badsig", "unverified-email", "unverified-email-string"} {
		add(&c01Cred{Kind: "bearer-" + k, How: "JWT: " + k, Auth: "Bearer " + sh.Tok[k]})
	}
	var extraUnv []string
	for k := range sh.Tok {
		if strings.HasPrefix(k, "extra-unverified-email-") {
			extraUnv = append(extraUnv, k)
		}
	}
	sort.Strings(extraUnv)
	for _, k := range extraUnv {
		add(&c01Cred{Kind: "bearer-extra-unverified-email", How: "JWT of the extra issuer whose e-mail is not verified: " + k, Auth: "Bearer " + sh.Tok[k]})
		add(&c01Cred{Kind: "bearer-extra-unverified-email", How: "the same as Basic password: " + k, Auth: c01Basic("anyone", sh.Tok[k])})
	}
	add(&c01Cred{Kind: "bearer-not-a-jwt", How: "not a JWT at all", Auth: "Bearer abc.def.ghi"})
	add(&c01Cred{Kind: "jwt-in-basic", How: "valid JWT as Basic user with empty password", Auth: c01Basic(sh.Tok["valid"], ""), Valid: jwtOn, Ident: bearer})
	add(&c01Cred{Kind: "jwt-in-basic", How: "valid JWT as Basic user with password x-oauth-basic", Auth: c01Basic(sh.Tok["valid"], "x-oauth-basic"), Valid: jwtOn, Ident: bearer})
	add(&c01Cred{Kind: "jwt-in-basic", How: "valid JWT as Basic password", Auth: c01Basic("anyone", sh.Tok["valid"]), Valid: jwtOn, Ident: bearer})
	add(&c01Cred{Kind: "badjwt-in-basic", How: "JWT signed with a foreign key as Basic user", Auth: c01Basic(sh.Tok["wrongkey"], "")})
	add(&c01Cred{Kind: "badjwt-in-basic", How: "expired JWT as Basic password", Auth: c01Basic("anyone", sh.Tok["expired"])})
	add(&c01Cred{Kind: "badjwt-in-basic", How: "JWT for another audience as Basic user, x-oauth-basic", Auth: c01Basic(sh.Tok["wrongaud"], "x-oauth-basic")})

	// --- htpasswd
	htOn := cfg.Htpasswd != "off"
	bob := c01Ident{User: "bob"}
	if cfg.Htpasswd == "on+group" {
		bob.Groups = []string{"g1"}
	}
	add(&c01Cred{Kind: "basic-valid", How: "htpasswd user bob with his password", Auth: c01Basic("bob", "pw1"), Valid: htOn, Ident: bob})
	for _, x := range [][3]string{{"bob", "pw2", "wrong password"}, {"bob", "", "empty password"}, {"eve", "pw1", "unknown user"}, {"bob", "pw-carl", "another user's password"},
		{"BOB", "pw1", "user name in upper case"}, {"", "pw1", "empty user"}, {"bob", c01SHA("pw1"), "the stored hash as password"}} {
		add(&c01Cred{Kind: "basic-invalid", How: "htpasswd: " + x[2], Auth: c01Basic(x[0], x[1])})
	}
	add(&c01Cred{Kind: "basic-malformed", How: "Basic with text that is not base64", Auth: "Basic !!!not-base64!!!"})
	add(&c01Cred{Kind: "basic-malformed", How: "Basic without colon", Auth: "Basic " + base64.StdEncoding.EncodeToString([]byte("bobpw1"))})
	add(&c01Cred{Kind: "basic-malformed", How: "unknown scheme carrying bob's credentials", Auth: "Digest " + base64.StdEncoding.EncodeToString([]byte("bob:pw1"))})

	// htpasswd form login (valid -> session cookie that is a credential; invalid -> must not yield a session cookie)
	if htOn {
		sh.redisMu.Lock()
		before := sh.keysBefore()
		r := p.Do(vfNewReq("POST", "/oauth2/sign_in").WithBody("application/x-www-form-urlencoded", []byte("username=bob&password=pw1&rd=%2F")))
		s := &c01Sess{}
		if cfg.Store == "redis" {
			s.Key, s.Val = sh.newKey(before)
		}
		sh.redisMu.Unlock()
		for _, line := range r.SetCookies() {
			if c, err := http.ParseSetCookie(line); err == nil && c.Name == c01CookieName && c.Value != "" {
				s.Value = c.Value
			}
		}
		if r.Code != 302 || s.Value == "" {
			c01Violation(run, "c01:valid-credential-not-served", fmt.Sprintf("htpasswd form login with the right password was not accepted (status %d)", r.Code), map[string]interface{}{"flags": p.Flags, "config": cfg.String(), "status": r.Code})
		} else {
			add(&c01Cred{Kind: "session-htpasswd-form", How: "session cookie obtained by POSTing bob's user name and password to /oauth2/sign_in", Cookies: ck(s.Value), Valid: true, Ident: bob, sess: s})
		}
	}
	for _, body := range []string{"username=bob&password=pw2", "username=bob&password=", "username=eve&password=pw1", "username=bob", "username=&password=pw1"} {
		if !htOn {
			body = "username=bob&password=pw1"
		}
		r := p.Do(vfNewReq("POST", "/oauth2/sign_in").WithBody("application/x-www-form-urlencoded", []byte(body)))
		run.Count("form_logins_invalid", 1)
		if c01IssuesSession(r) {
			c01Violation(run, "c01:session-cookie-issued-without-credential", "POST /oauth2/sign_in with "+body+" (htpasswd "+cfg.Htpasswd+") answered with a session cookie", map[string]interface{}{"flags": p.Flags, "config": cfg.String(), "body": body, "status": r.Code, "set_cookie": r.SetCookies()})
		}
		if !htOn {
			break
		}
	}

	// --- several credentials at once (exactly one of them valid)
	if c, err := own(c01Alice, "badbearer+session", "JWT signed with a foreign key plus a valid session cookie of this instance", p); err != nil {
		return nil, err
	} else {
		c.Auth = "Bearer " + sh.Tok["wrongkey"]
	}
	if c, err := own(c01Alice, "badbasic+session", "wrong htpasswd password plus a valid session cookie of this instance", p); err != nil {
		return nil, err
	} else {
		c.Auth = c01Basic("bob", "nope")
	}
	add(&c01Cred{Kind: "garbagecookie+bearer", How: "garbage session cookie plus a valid JWT", Cookies: ck("garbage|1|x"), Auth: "Bearer " + sh.Tok["valid"], Valid: jwtOn, Ident: bearer, Undecodable: true})
	add(&c01Cred{Kind: "expiredcookie+basic", How: "400 h old session cookie plus valid htpasswd credentials", Cookies: ck(sh.Old400[cfg.Store].Value), Auth: c01Basic("bob", "pw1"), Valid: htOn, Ident: bob, Undecodable: true})
	return out, nil
}

func c01IssuesSession(r *vfResp) bool {
	for _, line := range r.SetCookies() {
		if c, err := http.ParseSetCookie(line); err == nil && strings.HasPrefix(c.Name, c01CookieName) && !strings.Contains(c.Name, "csrf") && c.Value != "" && c.MaxAge >= 0 {
			return true
		}
	}
	return false
}

// ---------------------------------------------------------------------------------------------------------
// requests

type c01Spec struct {
	Method, Target, Accept, From string
	Wire                         bool
}

var c01Endpoints = []string{"/x", "/b/y?q=1", "/api/y", "/api/hook", "/pub/ok", "/pub/okx", "/oauth2/auth", "/oauth2/userinfo", "/oauth2/sign_out"}

const (
	c01Untrusted = "203.0.113.9:54321"
	c01Trusted   = "10.1.2.3:4444"
	c01NearMiss  = "11.0.0.1:4444"
)

func c01Specs(thorough bool) []c01Spec {
	var out []c01Spec
	for _, ep := range c01Endpoints {
		for _, m := range []string{"GET", "POST", "OPTIONS", "HEAD"} {
			for _, acc := range []string{"", "application/json"} {
				out = append(out, c01Spec{Method: m, Target: ep, Accept: acc, From: c01Untrusted})
				if thorough {
					out = append(out, c01Spec{Method: m, Target: ep, Accept: acc, From: c01Trusted}, c01Spec{Method: m, Target: ep, Accept: acc, From: c01NearMiss})
				}
			}
			if !thorough && (m == "GET" || m == "OPTIONS") {
				out = append(out, c01Spec{Method: m, Target: ep, From: c01Trusted})
			}
		}
		if !thorough {
			out = append(out, c01Spec{Method: "GET", Target: ep, From: c01NearMiss})
		}
	}
	return out
}

func c01EndpointClass(target string) string {
	switch {
	case strings.HasPrefix(target, "/oauth2/auth"):
		return "auth"
	case strings.HasPrefix(target, "/oauth2/userinfo"):
		return "userinfo"
	case strings.HasPrefix(target, "/oauth2/sign_out"):
		return "signout"
	}
	return "proxy"
}

type c01Witness struct {
	Config     string      `json:"config"`
	Flags      []string    `json:"flags"`
	Credential *c01Cred    `json:"credential"`
	Request    *vfReq      `json:"request"`
	Driver     string      `json:"driver"`
	Bypass     string      `json:"reference_bypass"`
	Entitled   bool        `json:"reference_entitled"`
	Status     int         `json:"status"`
	Location   string      `json:"location,omitempty"`
	SetCookie  []string    `json:"set_cookie,omitempty"`
	Body       string      `json:"body,omitempty"`
	Upstream   interface{} `json:"upstream_hits,omitempty"`
	Panic      string      `json:"panic,omitempty"`
}

type c01Desc struct {
	sp             c01Spec
	remote, driver string
	cred           *c01Cred
	cfg            c01Cfg
}

func (d *c01Desc) String() string {
	return fmt.Sprintf("%s %s (accept=%q from=%s, %s) with credential %q [%s] at {%s}", d.sp.Method, d.sp.Target, d.sp.Accept, d.remote, d.driver, d.cred.Kind, d.cred.How, d.cfg.String())
}

type c01Inst struct {
	creds []*c01Cred
	idx   int
	run   *vfRun
	sh    *c01Shared
	cfg   c01Cfg
	p     *vfProxy
	byp   c01BypassRef
	label string
}

func (in *c01Inst) do(cred *c01Cred, sp c01Spec, id string) { in.doAttempt(cred, sp, id, 0) }

func (in *c01Inst) doAttempt(cred *c01Cred, sp c01Spec, id string, attempt int) {
	run, sh, cfg := in.run, in.sh, in.cfg
	if cred.sess != nil {
		sh.restore(cred.sess)
	}
	req := vfNewReq(sp.Method, sp.Target, "X-Vf-Id", id)
	if sp.Accept != "" {
		req.H("Accept", sp.Accept)
	}
	if cred.Auth != "" {
		req.H("Authorization", cred.Auth)
	}
	for _, c := range cred.Cookies {
		req.Cookie(c[0], c[1])
	}
	remote := sp.From
	var resp *vfResp
	driver := "direct"
	if sp.Wire {
		driver, remote = "wire", "127.0.0.1:1"
		resp = in.p.Wire(req)
		if resp.Err != "" && resp.Panic == "" {
			run.Inconclusive("wire driver error: " + vfTrunc(resp.Err, 60))
			return
		}
	} else {
		req.From(sp.From)
		resp = in.p.Do(req)
	}
	if resp.Invalid != "" {
		run.T.Errorf("c01: request rejected by the rig: %s", resp.Invalid)
		return
	}
	class := c01EndpointClass(sp.Target)
	hits := append(sh.W.Up.FindHit(id), sh.UpB.FindHit(id)...)
	bypass := in.byp.match(sp.Method, sp.Target, remote)
	entitled := bypass != "" || (cred.Valid && cred.Authorised)
	mustServe := cred.Valid && cred.Authorised
	if entitled && class == "proxy" && (resp.Code == 502 || resp.Code == 504) && attempt < 3 {
		// the proxy did forward the (entitled) request but the fake upstream could not be reached: an overloaded box,
		// not a verdict about entitlement. Try again; a persistent failure makes the case inconclusive.
		run.Count("upstream_unreachable_retries", 1)
		time.Sleep(200 * time.Millisecond)
		in.doAttempt(cred, sp, fmt.Sprintf("%s-r%d", id, attempt+1), attempt+1)
		return
	}
	if entitled && class == "proxy" && (resp.Code == 502 || resp.Code == 504) {
		run.Eval("")
		run.Inconclusive("fake upstream unreachable (502/504) for an entitled request, 4 attempts")
		return
	}

	wit := func() c01Witness {
		return c01Witness{Config: cfg.String(), Flags: in.p.Flags, Credential: cred, Request: req, Driver: driver, Bypass: bypass, Entitled: entitled, Status: resp.Code,
			Location: resp.Location(), SetCookie: resp.SetCookies(), Body: vfTrunc(strings.Join(strings.Fields(vfErrText(resp.Body)), " "), 300), Upstream: hits, Panic: vfTrunc(resp.Panic, 300)}
	}
	desc := &c01Desc{sp: sp, remote: remote, driver: driver, cred: cred, cfg: cfg}

	bstate := "nobypass"
	if cfg.Bypass != "none" {
		bstate = "miss"
		if bypass != "" {
			bstate = bypass + "-match"
		}
	}
	cell := ""
	if cred.Kind != "none" || bypass != "" {
		cell = fmt.Sprintf("%s|%s|%s|%s", cred.Kind, class, bstate, cfg.Store)
	}
	run.Eval(cell)
	run.Count("requests_"+class, 1)
	if n := atomic.AddInt64(&sh.sampleCtr, 1); n%3989 == 1 {
		run.Sample(wit()) // actual cases, spread over the run
	}

	if resp.Panic != "" {
		c01Violation(run, "c01:panic", "request handling panicked: "+desc.String(), wit())
		return
	}
	defer func() {
		sh.statMu.Lock()
		if sh.kindStat == nil {
			sh.kindStat = map[string]*[3]int64{}
		}
		st := sh.kindStat[cred.Kind]
		if st == nil {
			st = &[3]int64{}
			sh.kindStat[cred.Kind] = st
		}
		st[0]++
		if len(hits) > 0 || resp.Code == 202 || (class == "userinfo" && resp.Code == 200) {
			st[1]++
		} else if class != "signout" {
			st[2]++
		}
		sh.statMu.Unlock()
	}()

	// what was observed
	served, ident, hasIdent := false, c01Ident{}, false
	switch class {
	case "proxy":
		served = len(hits) > 0 || (cfg.Static && resp.Code == 202)
		if len(hits) > 0 {
			ident = c01Ident{User: hits[0].Header.Get("X-Forwarded-User"), Email: hits[0].Header.Get("X-Forwarded-Email")}
			hasIdent = ident.User != "" || ident.Email != ""
			if len(hits) != 1 {
				c01Violation(run, "c01:upstream-hit-count", fmt.Sprintf("%d upstream requests for one client request: %s", len(hits), desc.String()), wit())
			}
		}
	case "auth":
		served = resp.Code == 202
	case "userinfo":
		if body := strings.TrimSpace(string(resp.Body)); resp.Code == 200 && body != "" && body != "{}" {
			var ui struct {
				User  string `json:"user"`
				Email string `json:"email"`
			}
			if err := json.Unmarshal(resp.Body, &ui); err != nil {
				c01Violation(run, "c01:refusal-shape", "userinfo answered 200 with a body that is neither {} nor user info: "+desc.String(), wit())
				return
			}
			ident, hasIdent, served = c01Ident{User: ui.User, Email: ui.Email}, true, true
		}
	}
	if class != "proxy" && len(hits) > 0 {
		c01Violation(run, "c01:served-without-entitlement", "an endpoint of the proxy itself reached an upstream: "+desc.String(), wit())
		return
	}

	// (1) served => entitled
	if served && !entitled {
		run.Count("violations_served", 1)
		c01Violation(run, "c01:served-without-entitlement", "served although the reference model does not entitle it: "+desc.String(), wit())
		return
	}
	// (2) identity only from a presented valid credential
	if hasIdent {
		if !cred.Valid {
			c01Violation(run, "c01:identity-without-credential", fmt.Sprintf("identity %+v disclosed/forwarded although no presented credential is valid: %s", ident, desc.String()), wit())
			return
		}
		if ident.User != cred.Ident.User || ident.Email != cred.Ident.Email {
			c01Violation(run, "c01:wrong-identity-served", fmt.Sprintf("identity %+v instead of %+v: %s", ident, cred.Ident, desc.String()), wit())
			return
		}
	}
	if class == "signout" {
		// sign-out never serves anything (checked above: no upstream request, no identity without a credential)
		run.Count(fmt.Sprintf("signout_status_%d", resp.Code), 1)
		return
	}
	// (3) the converse
	if mustServe {
		ok := served
		if class == "userinfo" && len(resp.Body) == 0 { // HEAD over the wire: no body to look at
			ok = resp.Code == 200
		}
		if ok && (class == "proxy" && len(hits) > 0 || class == "userinfo" && len(resp.Body) > 0) && !hasIdent {
			c01Violation(run, "c01:wrong-identity-served", "served without the identity of the valid credential: "+desc.String(), wit())
			return
		}
		if !ok {
			c01Violation(run, "c01:valid-credential-not-served", fmt.Sprintf("valid and authorised credential refused with status %d: %s", resp.Code, desc.String()), wit())
			return
		}
		run.Count("served_valid_credential", 1)
		return
	}
	if entitled {
		// bypass without (authorised) credential: being served is C15's subject; only counted here
		if served || (class == "userinfo" && resp.Code == 200) {
			run.Count("served_by_bypass_"+bypass, 1)
		} else {
			run.Count("bypass_not_served", 1)
		}
		return
	}
	// (4) refusal shape
	run.Count("refused", 1)
	if c01IssuesSession(resp) {
		c01Violation(run, "c01:session-cookie-issued-without-credential", "a refused request was answered with a session cookie: "+desc.String(), wit())
		return
	}
	okShape := resp.Code == 401 || resp.Code == 403
	if class == "proxy" && resp.Code == 302 && strings.HasPrefix(resp.Location(), sh.W.IdP.Issuer+"/authorize?") {
		okShape = true
		run.Count("refused_by_redirect_to_idp", 1)
	}
	if !okShape {
		if resp.Code == 500 && cfg.Store == "redis" && cred.Undecodable && class == "proxy" {
			c01Violation(run, "c01:redis-undecodable-ticket-500", "Redis store: a request whose session cookie is not a valid ticket is answered 500 instead of the sign-in page (cookie is cleared, nothing is served): "+desc.String(), wit())
			return
		}
		c01Violation(run, "c01:refusal-shape", fmt.Sprintf("refused with status %d (expected 401, 403 or a redirect to the IdP): %s", resp.Code, desc.String()), wit())
		return
	}
}

// c01Primary credentials get the full request matrix, the others a seeded sixth (quick) / half (thorough) of it.
var c01Primary = map[string]bool{"none": true, "session": true, "session-foreign-domain": true, "bearer-valid": true, "basic-valid": true,
	"tampered-part2": true, "stale-idtoken-expired": true}

func (in *c01Inst) runCred(ci int, specs []c01Spec) {
	run := in.run
	cred := in.creds[ci]
	thin := uint64(0) // keep one request in `thin` of the matrix for the secondary credential kinds
	if !c01Primary[cred.Kind] {
		thin = uint64(run.Env.Pick(6, 2))
	}
	for si, sp := range specs {
		if cred.Kind == "aged-3h" && cred.Valid && (c01EndpointClass(sp.Target) == "signout" || !cred.Authorised) {
			continue // this one session is shared by all instances of a store; never present it where it would be cleared
		}
		if thin > 0 && (uint64(in.idx)*7919+uint64(ci)*104729+uint64(si)*31+uint64(run.Env.Seed))%thin != 0 {
			continue
		}
		in.do(cred, sp, fmt.Sprintf("%s-%d-%d", in.label, ci, si))
	}
	// a thin slice over a real http.Server and raw socket client
	switch cred.Kind {
	case "none", "session", "tampered-part2", "bearer-valid", "basic-valid", "other-secret":
		for si, t := range []string{"/x", "/oauth2/auth", "/oauth2/userinfo"} {
			in.do(cred, c01Spec{Method: "GET", Target: t, Wire: true}, fmt.Sprintf("%s-%d-w%d", in.label, ci, si))
			run.Count("wire_requests", 1)
		}
	}
}

// c01RunBatch: instances are built one after the other while nothing else runs (building an instance configures
// process-global logger state), then all (instance, credential) pairs of the batch run in parallel. Requests of one
// credential are sequential: a request that legitimately consumes a session (sign-out, refusal by rules in the Redis
// store) is followed by a restore of that credential's own Redis entry and never races with another credential.
func c01RunBatch(run *vfRun, sh *c01Shared, cfgs []c01Cfg, base int) {
	var insts []*c01Inst
	t0 := time.Now()
	for i, cfg := range cfgs {
		p, err := sh.W.NewProxy(cfg.flags(sh)...)
		if err != nil {
			run.T.Fatalf("c01: instance {%s}: %v", cfg.String(), err)
		}
		insts = append(insts, &c01Inst{run: run, sh: sh, cfg: cfg, p: p, byp: cfg.bypassRef(), idx: base + i, label: fmt.Sprintf("c01-%d", base+i)})
	}
	t1 := time.Now()
	vfParallel(len(insts), 16, func(i int) {
		in := insts[i]
		rng := mrand.New(mrand.NewSource(run.Env.Seed*1000003 + int64(in.idx)))
		creds, err := c01BuildCreds(run, sh, in.cfg, in.idx, in.p, rng)
		if err != nil {
			run.T.Errorf("c01: credentials for {%s}: %v", in.cfg.String(), err)
			return
		}
		in.creds = creds
		run.Count("instances", 1)
		run.Count("credentials", int64(len(creds)))
	})
	t2 := time.Now()
	type job struct {
		in *c01Inst
		ci int
	}
	var jobs []job
	for _, in := range insts {
		for ci := range in.creds {
			jobs = append(jobs, job{in, ci})
		}
	}
	specs := c01Specs(run.Env.Thorough())
	if d := time.Until(sh.staleReady); d > 0 {
		time.Sleep(d) // set-up only: lets the short-lived ID tokens of the stale sessions expire; no verdict depends on timing
	}
	vfParallel(len(jobs), 16, func(k int) { jobs[k].in.runCred(jobs[k].ci, specs) })
	run.Count("ms_building_instances", t1.Sub(t0).Milliseconds())
	run.Count("ms_making_credentials", t2.Sub(t1).Milliseconds())
	run.Count("ms_requests", time.Since(t2).Milliseconds())
}

// ---------------------------------------------------------------------------------------------------------
// histories

// c01PasswordRotation: an htpasswd credential is valid only while it verifies against the file as it is NOW.
// user:old is used (served), the operator replaces the user's hash (atomic rename), the harness waits (bounded) until
// user:new validates, then user:old is presented again on every endpoint: it must be refused and never forwarded.
func c01PasswordRotation(run *vfRun, sh *c01Shared) {
	hash := func(kind, pw string) string {
		if kind == "sha" {
			return c01SHA(pw)
		}
		h, err := bcrypt.GenerateFromPassword([]byte(pw), bcrypt.MinCost)
		if err != nil {
			run.T.Fatalf("c01: bcrypt: %v", err)
		}
		return string(h)
	}
	users := []struct{ name, kind string }{{"rot-bcrypt", "bcrypt"}, {"rot-sha", "sha"}, {"rot-removed", "bcrypt"}}
	fileFor := func(gen int) string {
		var b strings.Builder
		b.WriteString("witness:" + hash("bcrypt", fmt.Sprintf("w-%d", gen)) + "\n")
		for _, u := range users {
			if u.name == "rot-removed" && gen%2 == 1 {
				continue // this user disappears in odd generations and comes back with a new password
			}
			b.WriteString(u.name + ":" + hash(u.kind, fmt.Sprintf("pw-%s-%d", u.name, gen)) + "\n")
		}
		return b.String()
	}
	for ii, extra := range [][]string{{"--session-store-type=cookie"}, {"--session-store-type=redis", "--redis-connection-url=" + sh.W.RedisURL(), "--skip-jwt-bearer-tokens=true"}} {
		path := sh.W.File(fmt.Sprintf("c01-rotation-%d", ii), fileFor(0))
		p, err := sh.W.NewProxy(append([]string{"--htpasswd-file=" + path, "--upstream=" + sh.W.Up.URL() + "/", "--upstream=" + sh.UpB.URL() + "/b/"}, extra...)...)
		if err != nil {
			run.T.Fatalf("c01: rotation instance: %v", err)
		}
		served := func(auth, target, method, id string) (bool, *vfResp) {
			r := p.Do(vfNewReq(method, target, "X-Vf-Id", id, "Authorization", auth))
			hit := len(sh.W.Up.FindHit(id))+len(sh.UpB.FindHit(id)) > 0
			return hit || r.Code == 202 || (strings.HasPrefix(target, "/oauth2/userinfo") && r.Code == 200 && strings.TrimSpace(string(r.Body)) != "{}"), r
		}
		gens := run.Env.Pick(3, 8)
		for gen := 0; gen < gens; gen++ {
			// the current passwords are used (this is what puts them into any cache a validator may keep)
			for _, u := range users {
				if u.name == "rot-removed" && gen%2 == 1 {
					continue
				}
				for k, target := range []string{"/x", "/oauth2/auth"} {
					id := fmt.Sprintf("c01rot-%d-%d-%s-cur-%d", ii, gen, u.name, k)
					ok, r := served(c01Basic(u.name, fmt.Sprintf("pw-%s-%d", u.name, gen)), target, "GET", id)
					run.Eval("rotation|current-password|" + u.kind)
					if !ok {
						c01Violation(run, "c01:valid-credential-not-served", fmt.Sprintf("htpasswd user %s (%s entry) with the password currently in the file was refused (status %d, generation %d)", u.name, u.kind, r.Code, gen),
							map[string]interface{}{"flags": p.Flags, "user": u.name, "generation": gen, "status": r.Code})
					} else {
						run.Count("rotation_current_password_served", 1)
					}
				}
			}
			// the operator rotates every password
			tmp := path + ".tmp"
			if err := os.WriteFile(tmp, []byte(fileFor(gen+1)), 0o600); err != nil {
				run.T.Fatalf("c01: %v", err)
			}
			if err := os.Rename(tmp, path); err != nil {
				run.T.Fatalf("c01: %v", err)
			}
			visible := false
			for k := 0; k < 400 && !visible; k++ {
				if p.Do(vfGET("/oauth2/auth", "Authorization", c01Basic("witness", fmt.Sprintf("w-%d", gen+1)))).Code == 202 {
					visible = true
				} else {
					time.Sleep(25 * time.Millisecond)
				}
			}
			if !visible {
				run.Eval("")
				run.Inconclusive("htpasswd reload not visible after 10 s")
				break
			}
			run.Count("rotation_reloads_observed", 1)
			// every password of every earlier generation is dead now
			n := 0
			for _, u := range users {
				for old := 0; old <= gen; old++ {
					if u.name == "rot-removed" && old%2 == 1 {
						continue
					}
					auth := c01Basic(u.name, fmt.Sprintf("pw-%s-%d", u.name, old))
					for _, target := range []string{"/x", "/b/y", "/oauth2/auth", "/oauth2/userinfo"} {
						for _, method := range []string{"GET", "POST"} {
							n++
							id := fmt.Sprintf("c01rot-%d-%d-%s-old%d-%d", ii, gen, u.name, old, n)
							ok, r := served(auth, target, method, id)
							run.Eval(fmt.Sprintf("rotation|rotated-away-password|%s|%s|user-present=%v", u.kind, c01EndpointClass(target), !(u.name == "rot-removed" && (gen+1)%2 == 1)))
							if ok {
								c01Violation(run, "c01:rotated-away-password-still-accepted", fmt.Sprintf("htpasswd user %s (%s entry): the password of generation %d still opens %s %s after the file was rewritten to generation %d and the reload was observed (status %d)",
									u.name, u.kind, old, method, target, gen+1, r.Code), map[string]interface{}{"flags": p.Flags, "user": u.name, "password_generation": old, "file_generation": gen + 1,
									"history": "password used successfully, file rewritten (atomic rename) with a new hash, reload observed with another user's new password, old password presented again", "request": method + " " + target, "status": r.Code})
							} else if r.Code != 401 && r.Code != 403 {
								c01Violation(run, "c01:refusal-shape", fmt.Sprintf("rotated-away htpasswd password refused with status %d", r.Code), map[string]interface{}{"flags": p.Flags, "request": method + " " + target, "status": r.Code})
							} else {
								run.Count("rotation_old_password_refused", 1)
							}
						}
					}
					// the sign-in form must not turn it into a session either
					r := p.Do(vfNewReq("POST", "/oauth2/sign_in").WithBody("application/x-www-form-urlencoded", []byte("username="+u.name+"&password="+fmt.Sprintf("pw-%s-%d", u.name, old))))
					run.Eval("rotation|rotated-away-password|form")
					if c01IssuesSession(r) {
						c01Violation(run, "c01:rotated-away-password-still-accepted", fmt.Sprintf("htpasswd user %s: the sign-in form accepted the password of generation %d after rotation to generation %d", u.name, old, gen+1),
							map[string]interface{}{"flags": p.Flags, "user": u.name, "password_generation": old, "file_generation": gen + 1, "status": r.Code, "set_cookie": r.SetCookies()})
					}
				}
			}
		}
	}
}

// c01RemovedMidRequest: Redis store with a refresh period; a session old enough to be refreshed is presented while
// "somebody else" (a sign-out on another connection, played by the RedisFront hook) removes it from Redis between the
// first load and the re-load under the refresh lock. The credential no longer exists when the decision is taken:
// the request must not be served and must not revive the session.
func c01RemovedMidRequest(run *vfRun, sh *c01Shared) {
	hub := vfNewRedisHub(sh.W.Redis())
	defer hub.Close()
	front := hub.Front(0)
	p, err := sh.W.NewProxy("--session-store-type=redis", "--redis-connection-url="+front.URL("max_retries=0"), "--cookie-refresh=1h", "--upstream="+sh.W.Up.URL()+"/", "--upstream="+sh.UpB.URL()+"/b/")
	if err != nil {
		run.T.Fatalf("c01: instance behind the Redis front: %v", err)
	}
	for k, target := range []string{"/x", "/oauth2/auth", "/oauth2/userinfo", "/b/y"} {
		s := sh.Aged[k%len(sh.Aged)]
		if k >= len(sh.Aged) {
			sh.restore(s)
		}
		var mu sync.Mutex
		gets, deleted := 0, false
		hub.SetHooks(func(c *vfRedisCmd) vfRedisDecision {
			mu.Lock()
			defer mu.Unlock()
			if c.Op == "GET" && c.Key == s.Key {
				gets++
				if gets == 2 && !deleted {
					deleted = hub.MR.Del(s.Key) // removed by another connection right before the re-load
				}
			}
			return vfRedisDecision{}
		}, nil)
		id := fmt.Sprintf("c01mid-%d", k)
		r := p.Do(vfGET(target, "X-Vf-Id", id).Cookie(c01CookieName, s.Value))
		hub.SetHooks(nil, nil)
		hit := len(sh.W.Up.FindHit(id))+len(sh.UpB.FindHit(id)) > 0
		served := hit || r.Code == 202 || (strings.HasPrefix(target, "/oauth2/userinfo") && r.Code == 200 && strings.TrimSpace(string(r.Body)) != "{}")
		mu.Lock()
		g, d := gets, deleted
		mu.Unlock()
		run.Eval("removed-mid-request|" + c01EndpointClass(target))
		if !d {
			run.Inconclusive(fmt.Sprintf("the session was not re-loaded under the refresh lock (%d reads of its key): nothing to remove in between", g))
			continue
		}
		run.Count("sessions_removed_mid_request", 1)
		wit := map[string]interface{}{"flags": p.Flags, "history": "real login 3 h ago (imposed) at an instance sharing secret and Redis; --cookie-refresh=1h; the Redis entry is deleted between the first GET and the GET under the refresh lock",
			"request": "GET " + target, "status": r.Code, "reads_of_the_key": g, "set_cookie": r.SetCookies(), "key_exists_afterwards": sh.W.Redis().Exists(s.Key)}
		switch {
		case r.Panic != "":
			c01Violation(run, "c01:panic", "request handling panicked: "+vfTrunc(r.Panic, 200), wit)
		case served:
			c01Violation(run, "c01:served-after-session-removed", fmt.Sprintf("GET %s was served (status %d) although the session had been removed from Redis before the decision was taken", target, r.Code), wit)
		case c01IssuesSession(r) || sh.W.Redis().Exists(s.Key):
			c01Violation(run, "c01:served-after-session-removed", fmt.Sprintf("GET %s was refused (status %d) but the removed session was written back / a new session cookie was handed out", target, r.Code), wit)
		case r.Code != 401 && r.Code != 403 && !(r.Code == 302 && strings.HasPrefix(r.Location(), sh.W.IdP.Issuer+"/authorize?")):
			c01Violation(run, "c01:refusal-shape", fmt.Sprintf("session removed mid-request: refused with status %d", r.Code), wit)
		}
	}
}

// c01ForwardedSpoof: reverse-proxy mode with a trusted network. The client address is what the CONFIGURED client-IP
// header says, nothing else: a credential-less request from an untrusted peer that carries a trusted address in any
// OTHER forwarding header (with the configured header absent or naming an untrusted client) is not entitled.
// One instance per configurable header, plus one without reverse-proxy mode where no header counts at all.
func c01ForwardedSpoof(run *vfRun, sh *c01Shared) {
	configurable := []string{"X-Real-IP", "X-Forwarded-For", "X-ProxyUser-IP", "X-Envoy-External-Address", "CF-Connecting-IP"}
	const trusted, untrusted = "10.1.2.3", "198.51.100.7"
	type inst struct {
		configured string // "" = reverse-proxy mode off
		p          *vfProxy
	}
	var insts []inst
	for _, h := range append([]string{""}, configurable...) {
		flags := []string{"--trusted-ip=10.0.0.0/8", "--upstream=" + sh.W.Up.URL() + "/", "--upstream=" + sh.UpB.URL() + "/b/"}
		if h != "" {
			flags = append(flags, "--reverse-proxy=true", "--real-client-ip-header="+h)
		}
		p, err := sh.W.NewProxy(flags...)
		if err != nil {
			run.T.Fatalf("c01: reverse-proxy instance (%s): %v", h, err)
		}
		insts = append(insts, inst{h, p})
	}
	type job struct {
		in      inst
		headers [][2]string
		label   string
		bypass  bool // reference: the configured header names a trusted client
		method  string
		target  string
	}
	var jobs []job
	for _, in := range insts {
		var cases []job
		for _, own := range []string{"absent", "untrusted", "untrusted-then-trusted"} {
			var base [][2]string
			if in.configured != "" {
				switch own {
				case "untrusted":
					base = [][2]string{{in.configured, untrusted}}
				case "untrusted-then-trusted":
					base = [][2]string{{in.configured, untrusted + ", " + trusted}}
				}
			} else if own != "absent" {
				continue
			}
			var all [][2]string
			for _, other := range append(append([]string{}, configurable...), "Forwarded", "X-Forwarded-Host", "X-Client-IP", "True-Client-IP") {
				if other == in.configured {
					continue
				}
				for _, val := range []string{trusted, trusted + ", " + untrusted, trusted + ":4711"} {
					v := val
					if other == "Forwarded" {
						v = "for=" + val + ";proto=http"
					}
					cases = append(cases, job{headers: append(append([][2]string{}, base...), [2]string{other, v}), label: "configured " + own + ", " + other + " trusted"})
				}
				if other == "Forwarded" {
					all = append(all, [2]string{other, "for=" + trusted})
				} else {
					all = append(all, [2]string{other, trusted})
				}
			}
			cases = append(cases, job{headers: append(append([][2]string{}, base...), all...), label: "configured " + own + ", every other header trusted"})
			cases = append(cases, job{headers: base, label: "configured " + own + ", no other header"})
		}
		if in.configured != "" {
			cases = append(cases, job{headers: [][2]string{{in.configured, trusted}}, label: "configured header trusted", bypass: true},
				job{headers: [][2]string{{in.configured, trusted + ", " + untrusted}}, label: "configured header trusted (list)", bypass: true})
		}
		for _, c := range cases {
			for _, mt := range [][2]string{{"GET", "/x"}, {"POST", "/b/y"}, {"GET", "/oauth2/auth"}, {"GET", "/oauth2/userinfo"}} {
				c.in, c.method, c.target = in, mt[0], mt[1]
				jobs = append(jobs, c)
			}
		}
	}
	vfParallel(len(jobs), 16, func(i int) {
		j := jobs[i]
		id := fmt.Sprintf("c01fwd-%d", i)
		req := vfNewReq(j.method, j.target, "X-Vf-Id", id).From(c01Untrusted)
		for _, h := range j.headers {
			req.H(h[0], h[1])
		}
		if i%3 == 1 {
			req.Cookie(c01CookieName, "garbage|1|x")
		}
		r := j.in.p.Do(req)
		hits := append(sh.W.Up.FindHit(id), sh.UpB.FindHit(id)...)
		class := c01EndpointClass(j.target)
		served := len(hits) > 0 || (class == "auth" && r.Code == 202)
		mode := "reverse-proxy, configured header " + j.in.configured
		if j.in.configured == "" {
			mode = "reverse-proxy mode off"
		}
		cellMode := "rp-on"
		if j.in.configured == "" {
			cellMode = "rp-off"
		}
		run.Eval(fmt.Sprintf("forwarded-spoof|%s|%s|bypass=%v", cellMode, class, j.bypass))
		run.Count("forwarded_header_requests", 1)
		wit := map[string]interface{}{"flags": j.in.p.Flags, "request": req, "case": j.label, "reference_bypass": j.bypass, "status": r.Code, "upstream_hits": hits}
		switch {
		case r.Panic != "":
			c01Violation(run, "c01:panic", "request handling panicked: "+vfTrunc(r.Panic, 200), wit)
		case j.bypass:
			if served || (class == "userinfo" && r.Code == 200) {
				run.Count("served_by_bypass_configured_client_ip_header", 1)
			} else {
				run.Count("bypass_not_served", 1)
			}
		case served || (class == "userinfo" && r.Code == 200):
			c01Violation(run, "c01:served-without-entitlement", fmt.Sprintf("%s: %s %s without credential from untrusted peer %s was served (status %d) because of forwarding headers that are not the configured one [%s]: %v",
				mode, j.method, j.target, c01Untrusted, r.Code, j.label, j.headers), wit)
		case r.Code != 401 && r.Code != 403:
			c01Violation(run, "c01:refusal-shape", fmt.Sprintf("%s: refused with status %d [%s]", mode, r.Code, j.label), wit)
		default:
			run.Count("forwarded_header_spoof_refused", 1)
		}
	})
}

// c01SymlinkedHtpasswd: the htpasswd file behind a symlink whose target is swapped on update (Kubernetes Secret layout:
// <dir>/htpasswd -> ..data/htpasswd, ..data -> ..rev-N/, update = new revision + atomic swap of ..data + removal of the
// old revision). After the swap the new password must start to work (bounded poll, 4 s) and the old one must be dead.
// Two independent instances: never reloaded in both = violation, in one = inconclusive.
func c01SymlinkedHtpasswd(run *vfRun, sh *c01Shared) {
	must := func(err error) {
		if err != nil {
			run.T.Fatalf("c01: secret volume layout: %v", err)
		}
	}
	bc := func(pw string) string {
		h, err := bcrypt.GenerateFromPassword([]byte(pw), bcrypt.MinCost)
		must(err)
		return string(h)
	}
	never := 0
	var wits []interface{}
	for hi := 0; hi < 2; hi++ {
		dir := filepath.Join(sh.W.Dir, fmt.Sprintf("c01-secret-%d", hi))
		content := func(gen int) string {
			return "vol-bcrypt:" + bc(fmt.Sprintf("vb-%d", gen)) + "\nvol-sha:" + c01SHA(fmt.Sprintf("vs-%d", gen)) + "\nwitness:" + c01SHA(fmt.Sprintf("w-%d", gen)) + "\n"
		}
		must(os.MkdirAll(filepath.Join(dir, "..rev-0"), 0o755))
		must(os.WriteFile(filepath.Join(dir, "..rev-0", "htpasswd"), []byte(content(0)), 0o600))
		must(os.Symlink("..rev-0", filepath.Join(dir, "..data")))
		must(os.Symlink(filepath.Join("..data", "htpasswd"), filepath.Join(dir, "htpasswd")))
		p, err := sh.W.NewProxy("--htpasswd-file="+filepath.Join(dir, "htpasswd"), "--upstream="+sh.W.Up.URL()+"/", "--upstream="+sh.UpB.URL()+"/b/")
		if err != nil {
			run.T.Fatalf("c01: instance with the htpasswd file behind a symlink: %v", err)
		}
		served := func(auth, target, id string) (bool, int) {
			r := p.Do(vfGET(target, "X-Vf-Id", id, "Authorization", auth))
			return len(sh.W.Up.FindHit(id))+len(sh.UpB.FindHit(id)) > 0 || r.Code == 202, r.Code
		}
	updates:
		for gen := 0; gen < 2; gen++ {
			for _, u := range [][2]string{{"vol-bcrypt", "vb"}, {"vol-sha", "vs"}} {
				if ok, code := served(c01Basic(u[0], fmt.Sprintf("%s-%d", u[1], gen)), "/x", fmt.Sprintf("c01vol-%d-%d-%s-cur", hi, gen, u[0])); !ok {
					c01Violation(run, "c01:valid-credential-not-served", fmt.Sprintf("htpasswd file behind a symlink: user %s with the current password refused (status %d, revision %d)", u[0], code, gen), map[string]interface{}{"flags": p.Flags, "revision": gen})
				}
				run.Eval("secret-volume|current-password")
			}
			old, cur := fmt.Sprintf("..rev-%d", gen), fmt.Sprintf("..rev-%d", gen+1)
			must(os.MkdirAll(filepath.Join(dir, cur), 0o755))
			must(os.WriteFile(filepath.Join(dir, cur, "htpasswd"), []byte(content(gen+1)), 0o600))
			must(os.Symlink(cur, filepath.Join(dir, "..data_tmp")))
			must(os.Rename(filepath.Join(dir, "..data_tmp"), filepath.Join(dir, "..data")))
			must(os.RemoveAll(filepath.Join(dir, old)))
			visible := false
			for k := 0; k < 160 && !visible; k++ {
				if p.Do(vfGET("/oauth2/auth", "Authorization", c01Basic("witness", fmt.Sprintf("w-%d", gen+1)))).Code == 202 {
					visible = true
				} else {
					time.Sleep(25 * time.Millisecond)
				}
			}
			run.Eval(fmt.Sprintf("secret-volume|update-%d", gen+1))
			if !visible {
				if gen == 0 {
					never++
					wits = append(wits, map[string]interface{}{"flags": p.Flags, "layout": "<dir>/htpasswd -> ..data/htpasswd, ..data -> ..rev-N", "history": "new revision directory, atomic swap of ..data, old revision removed",
						"probe": "Basic witness:<new password> on /oauth2/auth still refused after 4 s"})
				} else {
					run.Inconclusive("second update of a symlinked htpasswd file not visible after 4 s (the first was)")
				}
				break updates
			}
			run.Count("secret_volume_reloads_observed", 1)
			for _, u := range [][2]string{{"vol-bcrypt", "vb"}, {"vol-sha", "vs"}} {
				for k, target := range []string{"/x", "/b/y", "/oauth2/auth"} {
					ok, code := served(c01Basic(u[0], fmt.Sprintf("%s-%d", u[1], gen)), target, fmt.Sprintf("c01vol-%d-%d-%s-old-%d", hi, gen, u[0], k))
					run.Eval("secret-volume|rotated-away-password|" + c01EndpointClass(target))
					if ok {
						c01Violation(run, "c01:rotated-away-password-still-accepted", fmt.Sprintf("htpasswd file behind a symlink: user %s: the password of revision %d still opens GET %s after the swap to revision %d was observed (status %d)", u[0], gen, target, gen+1, code),
							map[string]interface{}{"flags": p.Flags, "user": u[0], "revision": gen + 1, "request": "GET " + target, "status": code})
					} else {
						run.Count("rotation_old_password_refused", 1)
					}
				}
			}
		}
	}
	switch {
	case never >= 2:
		c01Violation(run, "c01:symlinked-htpasswd-never-reloaded", "in 2 independent histories an htpasswd file behind a symlink (Secret volume layout) was not reloaded within 4 s of the atomic swap: rotated-away passwords keep working, new ones are refused", wits)
	case never == 1:
		run.Inconclusive("a symlinked htpasswd file was not reloaded within 4 s in one history only (slow reload?)")
	}
}

// c01OverrideHeaders: reverse-proxy mode OFF. The bypass rules (CORS preflight, method-scoped skip-auth routes) apply to
// the method and path of the request line; a client-supplied header that merely NAMES an exempt method or path
// (X-Forwarded-Method, X-HTTP-Method-Override, X-Forwarded-Uri, X-Original-URI, ...) entitles nobody.
func c01OverrideHeaders(run *vfRun, sh *c01Shared) {
	methodHdrs := []string{"X-Forwarded-Method", "X-HTTP-Method-Override", "X-Http-Method", "X-Method-Override", "X-Original-Method"}
	uriHdrs := []string{"X-Forwarded-Uri", "X-Original-URI", "X-Original-Url", "X-Rewrite-Url", "X-Forwarded-Path", "X-Forwarded-Prefix"}
	type job struct {
		cfg     c01Cfg
		p       *vfProxy
		byp     c01BypassRef
		method  string
		target  string
		headers [][2]string
		label   string
	}
	var jobs []job
	for _, bypass := range []string{"preflight", "route", "all"} {
		cfg := c01Cfg{Store: "cookie", JWT: "off", Htpasswd: "off", Rules: "none", ErrMode: "page", Bypass: bypass, Expire: "168h", Refresh: "0"}
		if bypass == "route" {
			cfg.ErrMode = "api"
		}
		p, err := sh.W.NewProxy(cfg.flags(sh)...)
		if err != nil {
			run.T.Fatalf("c01: override-header instance: %v", err)
		}
		byp := cfg.bypassRef()
		for _, m := range []string{"GET", "POST", "PUT", "DELETE", "HEAD", "OPTIONS"} {
			for _, target := range []string{"/x", "/b/y", "/pub/ok", "/api/hook", "/pub/okx", "/oauth2/auth", "/oauth2/userinfo"} {
				var sets [][][2]string
				for _, h := range methodHdrs {
					for _, v := range []string{"OPTIONS", "options", "GET", "POST"} {
						sets = append(sets, [][2]string{{h, v}})
					}
				}
				for _, h := range uriHdrs {
					for _, v := range []string{"/pub/ok", "/api/hook", "/pub/ok?x=1"} {
						sets = append(sets, [][2]string{{h, v}})
					}
				}
				sets = append(sets, [][2]string{{"X-Forwarded-Method", "GET"}, {"X-Forwarded-Uri", "/pub/ok"}}, [][2]string{{"X-Forwarded-Method", "POST"}, {"X-Forwarded-Uri", "/api/hook"}},
					[][2]string{{"X-Forwarded-Method", "OPTIONS"}, {"Access-Control-Request-Method", "GET"}, {"Origin", "http://evil.example"}})
				for si, hs := range sets {
					if !run.Env.Thorough() && (si+len(jobs))%3 != 0 && hs[0][0] != "X-Forwarded-Method" && hs[0][0] != "X-Forwarded-Uri" {
						continue
					}
					jobs = append(jobs, job{cfg, p, byp, m, target, hs, fmt.Sprint(hs)})
				}
			}
		}
	}
	vfParallel(len(jobs), 16, func(i int) {
		j := jobs[i]
		id := fmt.Sprintf("c01ovr-%d", i)
		req := vfNewReq(j.method, j.target, "X-Vf-Id", id).From(c01Untrusted)
		for _, h := range j.headers {
			req.H(h[0], h[1])
		}
		r := j.p.Do(req)
		hits := append(sh.W.Up.FindHit(id), sh.UpB.FindHit(id)...)
		class := c01EndpointClass(j.target)
		bypass := j.byp.match(j.method, j.target, c01Untrusted) // the REAL method and path
		served := len(hits) > 0 || (class == "auth" && r.Code == 202) || (class == "userinfo" && r.Code == 200)
		run.Eval(fmt.Sprintf("override-header|%s|%s|%s|bypass=%s", j.cfg.Bypass, j.headers[0][0], class, bypass))
		run.Count("override_header_requests", 1)
		wit := map[string]interface{}{"config": j.cfg.String(), "flags": j.p.Flags, "request": req, "reference_bypass_from_real_method_and_path": bypass, "status": r.Code, "upstream_hits": hits}
		switch {
		case r.Panic != "":
			c01Violation(run, "c01:panic", "request handling panicked: "+vfTrunc(r.Panic, 200), wit)
		case bypass != "":
			if served {
				run.Count("served_by_bypass_"+bypass, 1)
			} else {
				run.Count("bypass_not_served", 1)
			}
		case served:
			c01Violation(run, "c01:served-without-entitlement", fmt.Sprintf("reverse-proxy mode off, bypass=%s: %s %s without credential was served (status %d) because of client-supplied header(s) %s naming an exempt method/path",
				j.cfg.Bypass, j.method, j.target, r.Code, j.label), wit)
		case r.Code != 401 && r.Code != 403:
			c01Violation(run, "c01:refusal-shape", fmt.Sprintf("refused with status %d (%s %s, headers %s)", r.Code, j.method, j.target, j.label), wit)
		default:
			run.Count("override_header_refused", 1)
		}
	})
}

// c01SupersededAfterSignOut (Redis store, --cookie-refresh): cookie C0 is issued 3 h ago, a request refreshes the
// session (the browser now holds C1), the browser signs out. Neither C1 nor the superseded C0 is a credential any more.
func c01SupersededAfterSignOut(run *vfRun, sh *c01Shared) {
	p, err := sh.W.NewProxy("--session-store-type=redis", "--redis-connection-url="+sh.W.RedisURL(), "--cookie-refresh=1h", "--upstream="+sh.W.Up.URL()+"/", "--upstream="+sh.UpB.URL()+"/b/")
	if err != nil {
		run.T.Fatalf("c01: superseded-cookie instance: %v", err)
	}
	for k := 0; k < run.Env.Pick(3, 8); k++ {
		b := vfNewBrowser("")
		id := c01Alice
		id.Sub = fmt.Sprintf("u-superseded-%d", k)
		l, err := b.StartLogin(p, id, "/")
		if err != nil {
			run.T.Fatalf("c01: %v", err)
		}
		clock.Set(time.Now().Add(-3 * time.Hour))
		cb := b.Get(p, l.CallbackTarget(p))
		clock.Reset()
		c0 := c01SessionCookies(b)
		if cb.Code != 302 || len(c0) != 1 {
			run.T.Fatalf("c01: superseded-cookie login: status %d, %d cookies", cb.Code, len(c0))
		}
		a0, _ := sh.W.IdP.RefreshGrants()
		rid := fmt.Sprintf("c01sup-%d-refresh", k)
		r := b.Get(p, "/x", "X-Vf-Id", rid)
		a1, ok1 := sh.W.IdP.RefreshGrants()
		_ = ok1
		run.Eval("superseded|refreshing-request")
		if len(sh.W.Up.FindHit(rid)) == 0 {
			c01Violation(run, "c01:valid-credential-not-served", fmt.Sprintf("session issued 3 h ago with a working refresh token refused (status %d) at --cookie-refresh=1h", r.Code), map[string]interface{}{"flags": p.Flags, "status": r.Code})
			continue
		}
		if a1 == a0 {
			run.Inconclusive("the stale session was not refreshed (no refresh grant reached the IdP)")
			continue
		}
		c1 := c01SessionCookies(b)
		so := b.Get(p, "/oauth2/sign_out")
		run.Count("superseded_histories", 1)
		creds := map[string][][2]string{"cookie issued BEFORE the refresh (superseded)": c0, "cookie held at sign-out": c1}
		for label, cs := range creds {
			for t, target := range []string{"/x", "/oauth2/auth", "/oauth2/userinfo"} {
				if len(cs) == 0 {
					continue
				}
				qid := fmt.Sprintf("c01sup-%d-%d-%d", k, len(label), t)
				req := vfGET(target, "X-Vf-Id", qid)
				for _, c := range cs {
					req.Cookie(c[0], c[1])
				}
				q := p.Do(req)
				hits := append(sh.W.Up.FindHit(qid), sh.UpB.FindHit(qid)...)
				served := len(hits) > 0 || q.Code == 202 || (strings.HasPrefix(target, "/oauth2/userinfo") && q.Code == 200 && strings.TrimSpace(string(q.Body)) != "{}")
				run.Eval("superseded|after-sign-out|" + c01EndpointClass(target))
				if served {
					c01Violation(run, "c01:signed-out-cookie-still-valid", fmt.Sprintf("Redis store: after sign-out (status %d) the %s still opens GET %s (status %d)", so.Code, label, target, q.Code),
						map[string]interface{}{"flags": p.Flags, "history": "login 3 h ago (imposed), one request refreshes the session (cookie re-issued), sign-out with the browser's cookies, then the named cookie is presented again",
							"credential": label, "request": req, "status": q.Code, "sign_out_status": so.Code, "upstream_hits": hits})
				} else {
					run.Count("signed_out_cookie_refused", 1)
				}
			}
		}
	}
}

// c01UnixPeer: reverse-proxy mode off, peer address "@" (a unix-domain socket peer has no IP address). Such a peer lies
// in no network, whatever --trusted-ip lists (loopback included): without credential it is not entitled.
func c01UnixPeer(run *vfRun, sh *c01Shared) {
	n := 0
	for _, nets := range [][]string{{"127.0.0.0/8"}, {"127.0.0.1", "::1"}, {"0.0.0.0/0", "::/0"}, {"10.0.0.0/8"}} {
		flags := []string{"--upstream=" + sh.W.Up.URL() + "/", "--upstream=" + sh.UpB.URL() + "/b/"}
		for _, t := range nets {
			flags = append(flags, "--trusted-ip="+t)
		}
		p, err := sh.W.NewProxy(flags...)
		if err != nil {
			run.T.Fatalf("c01: unix-peer instance %v: %v", nets, err)
		}
		for _, peer := range []string{"@", "@oauth2-proxy-client"} {
			for _, mt := range [][2]string{{"GET", "/x"}, {"POST", "/b/y"}, {"OPTIONS", "/x"}, {"GET", "/oauth2/auth"}, {"GET", "/oauth2/userinfo"}} {
				n++
				id := fmt.Sprintf("c01unix-%d", n)
				req := vfNewReq(mt[0], mt[1], "X-Vf-Id", id).From(peer)
				r := p.Do(req)
				hits := append(sh.W.Up.FindHit(id), sh.UpB.FindHit(id)...)
				class := c01EndpointClass(mt[1])
				served := len(hits) > 0 || (class == "auth" && r.Code == 202) || (class == "userinfo" && r.Code == 200)
				run.Eval("unix-peer|" + class + "|trusted=" + nets[0])
				wit := map[string]interface{}{"flags": p.Flags, "request": req, "peer_address": peer, "status": r.Code, "upstream_hits": hits}
				switch {
				case r.Panic != "":
					c01Violation(run, "c01:panic", "request handling panicked: "+vfTrunc(r.Panic, 200), wit)
				case served:
					c01Violation(run, "c01:served-without-entitlement", fmt.Sprintf("reverse-proxy mode off, --trusted-ip=%v: %s %s without credential from the unix-socket peer %q (no IP address) was served (status %d)", nets, mt[0], mt[1], peer, r.Code), wit)
				case r.Code != 401 && r.Code != 403:
					c01Violation(run, "c01:refusal-shape", fmt.Sprintf("unix-socket peer %q refused with status %d", peer, r.Code), wit)
				default:
					run.Count("unix_peer_refused", 1)
				}
			}
		}
	}
}

func TestVerif_C01(t *testing.T) {
	run := vfNewRun(t, "C01", "exploration")
	run.SetRule("per instance: every credential state (none; real sessions of 5 identities; tampered/stripped/re-dated/random/garbage cookies; expired; other secret; other store; deleted ticket; CSRF value; wrong name; " +
		"bearer valid/extra issuer/wrong key/expired/wrong aud/wrong iss/alg none/HS256/bad sig/unverified; JWT in Basic; htpasswd valid/invalid/malformed; form login; two credentials at once) " +
		"x 9 endpoints x GET/POST/OPTIONS/HEAD x Accept x client address (untrusted, trusted, near-miss); instances = pairwise covering array over (store, jwt, htpasswd, rules, error mode, bypass, lifetime) plus seeded full tuples plus static-upstream instances. " +
		"histories: htpasswd password rotation (bcrypt/SHA entries, atomic rename, every earlier password must be dead once the reload is observed); a Redis session removed by another connection between the first load and the re-load under the refresh lock; reverse-proxy mode: trusted addresses in every forwarding header other than the configured one; htpasswd file behind a swapped symlink; reverse-proxy off: client-supplied method/URI override headers naming an exempt method or path; Redis cookie superseded by a refresh, after sign-out. " +
		"cell = (credential kind, endpoint class, bypass state, store); non-trivial = credential != none or a bypass rule matched")
	run.Assume("validity of a credential is the harness's bookkeeping of how it was made; margins around lifetimes are hours",
		"being served because of a bypass alone is counted, not demanded (C15)", "inotify limit: at most 50 htpasswd instances per process")
	w := vfNewWorld(t)
	defer w.Close()
	cfgs := c01Configs(run)
	run.Extra("configurations", len(cfgs))
	sh := c01Setup(run, w, cfgs)
	batch := 16
	for lo := 0; lo < len(cfgs); lo += batch {

		hi := lo + batch
		if hi > len(cfgs) {
			hi = len(cfgs)
		}
		c01RunBatch(run, sh, cfgs[lo:hi], lo)
		w.Up.Reset()
		sh.UpB.Reset()
	}
	t0 := time.Now()
	c01PasswordRotation(run, sh)
	c01RemovedMidRequest(run, sh)
	c01ForwardedSpoof(run, sh)
	c01SymlinkedHtpasswd(run, sh)
	c01OverrideHeaders(run, sh)
	c01SupersededAfterSignOut(run, sh)
	c01UnixPeer(run, sh)
	run.Count("ms_histories", time.Since(t0).Milliseconds())
	w.Up.Reset()
	sh.UpB.Reset()
	var names []string
	for _, c := range cfgs {
		names = append(names, c.String())
	}
	sort.Strings(names)
	if len(names) > 40 {
		names = names[:40]
	}
	run.Extra("configurations_sample", names)
	sh.statMu.Lock()
	stat := map[string]string{}
	for k, v := range sh.kindStat {
		stat[k] = fmt.Sprintf("requests=%d served=%d refused=%d", v[0], v[1], v[2])
	}
	sh.statMu.Unlock()
	run.Extra("per_credential_kind", stat)
	// a run that saw (almost) nothing served or nothing refused proves nothing
	for _, c := range []string{"served_valid_credential", "refused", "served_by_bypass_route", "served_by_bypass_ip", "served_by_bypass_preflight", "refused_by_redirect_to_idp", "wire_requests", "rotation_old_password_refused", "rotation_current_password_served", "forwarded_header_spoof_refused", "served_by_bypass_configured_client_ip_header", "override_header_refused", "unix_peer_refused"} {
		if run.Counter(c) < 20 && run.Violations() == 0 {
			fmt.Printf("INCONCLUSIVE property=C01 reason=counter %s=%d: the workload did not exercise this outcome\n", c, run.Counter(c))
			t.Fail()
		}
	}
	run.Finish(int64(run.Env.Pick(25000, 200000)), run.Env.Pick(750, 800))
}
