//go:build verif

package main

// C02, opacity half: "cookie values and server-side store entries never reveal tokens, e-mail addresses or user
// names in recoverable plain text".
//
// The scanner plays an observer WITHOUT the key: it takes a raw Set-Cookie value or a raw Redis value and derives
// every "stage" that can be reached with public transformations only — splitting on the field separators `|` and
// `.`, base64 decoding (std/url alphabet, with/without padding), LZ4 decompression (frame and block format, also
// behind a 12/16-byte prefix where a nonce/IV would sit), msgpack decoding (all strings and byte strings found) —
// recursively, and searches each stage for every secret the harness knows, in raw, hex and base64 form (all three
// base64 alignments). It is written against the public formats only and shares no code with the repository.

import (
	"bytes"
	"crypto/aes"
	"crypto/cipher"
	"crypto/sha256"
	"encoding/base64"
	"encoding/hex"
	"fmt"
	"io"
	"strings"
	"sync"

	"github.com/pierrec/lz4/v4"
	"github.com/vmihailenco/msgpack/v5"
)

// Windows: secrets shorter than 64 bytes (e-mail, user, preferred username, opaque access / refresh tokens) are
// searched by every 8-byte window; long ones (JWTs, which are base64 of low-entropy JSON) by every 16-byte window —
// an 8-character window of base64-of-hex text has only 2^24 values and collides by chance with the (public, hex)
// ticket id. hex form = hex of the window; base64 form = base64 of a 9- resp. 15-byte window (a whole number of
// characters), taken at EVERY start offset, which covers all three alignments.
type c02Secrets struct {
	mu   sync.Mutex
	win  map[int]map[string]c02Win // window length in the searched text -> window -> what it is
	lens []int
	n    int
}

type c02Win struct{ Label, Form string }

func c02NewSecrets() *c02Secrets { return &c02Secrets{win: map[int]map[string]c02Win{}} }

func (s *c02Secrets) put(w, label, form string) {
	m := s.win[len(w)]
	if m == nil {
		m = map[string]c02Win{}
		s.win[len(w)] = m
		s.lens = append(s.lens, len(w))
	}
	m[w] = c02Win{label, form}
}

func (s *c02Secrets) Add(label, secret string) {
	raw, b64 := 8, 9
	if len(secret) >= 64 {
		raw, b64 = 16, 15
	}
	if len(secret) < b64 {
		return
	}
	s.mu.Lock()
	defer s.mu.Unlock()
	s.n++
	for k := 0; k+raw <= len(secret); k++ {
		w := secret[k : k+raw]
		s.put(w, label, "raw")
		h := hex.EncodeToString([]byte(w))
		s.put(h, label, "hex")
		s.put(strings.ToUpper(h), label, "hex")
	}
	for k := 0; k+b64 <= len(secret); k++ {
		w := []byte(secret[k : k+b64])
		s.put(base64.StdEncoding.EncodeToString(w), label, "base64")
		s.put(base64.URLEncoding.EncodeToString(w), label, "base64")
	}
}

func (s *c02Secrets) Count() int { s.mu.Lock(); defer s.mu.Unlock(); return s.n }

type c02Leak struct {
	Secret string `json:"secret"` // label of the secret
	Form   string `json:"form"`   // raw | hex | base64
	Stage  string `json:"stage"`  // how the stage was derived
	Window string `json:"window"`
}

// scan searches one stage.
func (s *c02Secrets) scan(path string, b []byte) *c02Leak {
	s.mu.Lock()
	defer s.mu.Unlock()
	for i := 0; i < len(b); i++ {
		for _, n := range s.lens {
			if i+n <= len(b) {
				if w, ok := s.win[n][string(b[i:i+n])]; ok {
					return &c02Leak{Secret: w.Label, Form: w.Form, Stage: path, Window: string(b[i : i+n])}
				}
			}
		}
	}
	return nil
}

type c02Stage struct {
	Path string
	Data []byte
}

// c02Stages derives every stage reachable from v without a key (bounded depth, de-duplicated).
func c02Stages(v []byte) []c02Stage {
	seen := map[[32]byte]bool{}
	var out []c02Stage
	var rec func(path string, b []byte, depth int)
	add := func(path string, b []byte, depth int) {
		if len(b) < 8 {
			return
		}
		h := sha256.Sum256(b)
		if seen[h] {
			return
		}
		seen[h] = true
		out = append(out, c02Stage{path, b})
		if depth < 5 && len(out) < 400 {
			rec(path, b, depth)
		}
	}
	rec = func(path string, b []byte, depth int) {
		// textual: split on the separators, base64-decode
		if c02Printable(b) {
			s := string(b)
			for _, sep := range []string{"|", "."} {
				if strings.Contains(s, sep) {
					for i, f := range strings.Split(s, sep) {
						add(fmt.Sprintf("%s/split(%q)[%d]", path, sep, i), []byte(f), depth+1)
					}
				}
			}
			t := strings.TrimRight(s, "=")
			for name, enc := range map[string]*base64.Encoding{"b64url": base64.RawURLEncoding, "b64std": base64.RawStdEncoding} {
				if d, err := enc.DecodeString(t); err == nil {
					add(path+"/"+name, d, depth+1)
				}
			}
			if d, err := hex.DecodeString(s); err == nil {
				add(path+"/hex", d, depth+1)
			}
		}
		// binary: decompress / unpack, also behind where a nonce (12) or IV (16) would sit
		for _, off := range []int{0, 12, 16} {
			if len(b) <= off+4 {
				continue
			}
			bb := b[off:]
			if d, err := io.ReadAll(io.LimitReader(lz4.NewReader(bytes.NewReader(bb)), 4<<20)); len(d) >= 8 && (err == nil || len(d) > 16) {
				add(fmt.Sprintf("%s/lz4frame@%d", path, off), d, depth+1)
			}
			if len(bb) < 1<<15 {
				dst := make([]byte, 1<<16)
				if n, err := lz4.UncompressBlock(bb, dst); err == nil && n >= 8 {
					add(fmt.Sprintf("%s/lz4block@%d", path, off), dst[:n], depth+1)
				}
			}
			if flat, ok := c02MsgpackStrings(bb); ok {
				for i, f := range flat {
					add(fmt.Sprintf("%s/msgpack@%d[%d]", path, off, i), f, depth+1)
				}
			}
		}
	}
	add("raw", v, 0)
	return out
}

func c02Printable(b []byte) bool {
	for _, c := range b {
		if c < 0x20 || c > 0x7e {
			return false
		}
	}
	return len(b) > 0
}

// c02MsgpackStrings walks b as one msgpack value (own bounded walker: the generic decoder of the library
// pre-allocates whatever a hostile length prefix announces) and returns every str / bin payload in it.
// ok = b starts with a well-formed value that contains at least one str / bin of >= 8 bytes.
func c02MsgpackStrings(b []byte) (out [][]byte, ok bool) {
	out, _ = c02MsgpackParse(b)
	return out, len(out) > 0
}

// c02MsgpackParse: complete = b is exactly one well-formed msgpack value (nothing missing, nothing left over).
func c02MsgpackParse(b []byte) (out [][]byte, complete bool) {
	pos, budget := 0, 100000
	var walk func(depth int) bool
	need := func(n int) bool { return n >= 0 && pos+n <= len(b) }
	be := func(n int) (int, bool) {
		if !need(n) {
			return 0, false
		}
		v := 0
		for i := 0; i < n; i++ {
			v = v<<8 | int(b[pos+i])
		}
		pos += n
		return v, v >= 0
	}
	take := func(n int, keep bool) bool {
		if !need(n) {
			return false
		}
		if keep && n >= 8 {
			out = append(out, b[pos:pos+n])
		}
		pos += n
		return true
	}
	seq := func(n, depth int) bool {
		if n > len(b)-pos { // every element takes at least one byte
			return false
		}
		for i := 0; i < n; i++ {
			if !walk(depth + 1) {
				return false
			}
		}
		return true
	}
	walk = func(depth int) bool {
		budget--
		if depth > 12 || budget < 0 || !need(1) {
			return false
		}
		c := b[pos]
		pos++
		switch {
		case c <= 0x7f || c >= 0xe0 || c == 0xc0 || c == 0xc2 || c == 0xc3:
			return true
		case c >= 0xa0 && c <= 0xbf:
			return take(int(c&0x1f), true)
		case c >= 0x90 && c <= 0x9f:
			return seq(int(c&0x0f), depth)
		case c >= 0x80 && c <= 0x8f:
			return seq(2*int(c&0x0f), depth)
		}
		switch c {
		case 0xc4, 0xd9:
			n, k := be(1)
			return k && take(n, true)
		case 0xc5, 0xda:
			n, k := be(2)
			return k && take(n, true)
		case 0xc6, 0xdb:
			n, k := be(4)
			return k && take(n, true)
		case 0xc7:
			n, k := be(1)
			return k && take(n+1, false)
		case 0xc8:
			n, k := be(2)
			return k && take(n+1, false)
		case 0xc9:
			n, k := be(4)
			return k && take(n+1, false)
		case 0xca, 0xce, 0xd2:
			return take(4, false)
		case 0xcb, 0xcf, 0xd3:
			return take(8, false)
		case 0xcc, 0xd0:
			return take(1, false)
		case 0xcd, 0xd1:
			return take(2, false)
		case 0xd4:
			return take(2, false)
		case 0xd5:
			return take(3, false)
		case 0xd6:
			return take(5, false)
		case 0xd7:
			return take(9, false)
		case 0xd8:
			return take(17, false)
		case 0xdc:
			n, k := be(2)
			return k && seq(n, depth)
		case 0xdd:
			n, k := be(4)
			return k && seq(n, depth)
		case 0xde:
			n, k := be(2)
			return k && seq(2*n, depth)
		case 0xdf:
			n, k := be(4)
			return k && n < 1<<30 && seq(2*n, depth)
		}
		return false
	}
	if !walk(0) {
		// a truncated / trailing-garbage document still yields what was readable so far
		return out, false
	}
	return out, pos == len(b)
}

// Recover runs the whole key-less recovery on one value; nil = nothing recognisable.
func (s *c02Secrets) Recover(v string) (*c02Leak, int) {
	st := c02Stages([]byte(v))
	for _, x := range st {
		if l := s.scan(x.Path, x.Data); l != nil {
			return l, len(st)
		}
	}
	return nil, len(st)
}

// c02ScannerSelfTest plants a secret behind every encoding chain a careless implementation could plausibly use and
// demands that the scanner finds it — a scanner that cannot see is a rig failure, not a pass.
func c02ScannerSelfTest() error {
	sec := c02NewSecrets()
	const email, at = "carol.selftest@corp.example", "at-77-0011223344556677"
	idt := "eyJhbGciOiJSUzI1NiJ9." + base64.RawURLEncoding.EncodeToString([]byte(`{"sub":"u-selftest","blob":"00112233445566778899aabbccddeeff00112233445566778899"}`)) + ".c2lnbmF0dXJlc2lnbmF0dXJl"
	sec.Add("email", email)
	sec.Add("access_token", at)
	sec.Add("id_token", idt)
	packed, err := msgpack.Marshal(map[string]interface{}{"e": email, "at": at, "g": []string{"x", "y"}, "n": []byte{1, 2, 3}})
	if err != nil {
		return err
	}
	var zb bytes.Buffer
	zw := lz4.NewWriter(&zb)
	_, _ = zw.Write(packed)
	_ = zw.Close()
	lz := zb.Bytes()
	iv := bytes.Repeat([]byte{0xA7}, 16)
	u, sd := base64.URLEncoding, base64.StdEncoding
	plant := map[string]string{
		"plain":                     "x" + email + "y",
		"jwt plain":                 "|" + idt[5:90] + "|",
		"jwt b64":                   sd.EncodeToString([]byte("z" + idt[3:])),
		"jwt b64(lz4(msgpack))":     u.EncodeToString(c02SelfLZ4(c02SelfPack(map[string]interface{}{"it": idt}))) + "|17|x",
		"hex":                       hex.EncodeToString([]byte("pad" + at)),
		"b64 align0":                u.EncodeToString([]byte(email)) + "|1700000000|c2ln",
		"b64 align1":                sd.EncodeToString([]byte("1" + email)),
		"b64 align2":                base64.RawStdEncoding.EncodeToString([]byte("12" + at + "zz")),
		"b64(msgpack)":              u.EncodeToString(packed) + "|1700000000|c2ln",
		"b64(lz4(msgpack))":         u.EncodeToString(lz) + "|1700000000|c2lnbmF0dXJl",
		"b64(iv+lz4(msgpack))":      u.EncodeToString(append(append([]byte{}, iv...), lz...)) + "|1700000000|c2ln",
		"b64(nonce+msgpack)":        u.EncodeToString(append(append([]byte{}, iv[:12]...), packed...)) + "|17|x",
		"raw msgpack (store value)": string(packed),
		"raw lz4 (store value)":     string(lz),
		"b64(b64(msgpack))":         u.EncodeToString([]byte(sd.EncodeToString(packed))),
		"ticket-like":               u.EncodeToString([]byte("v2."+base64.RawURLEncoding.EncodeToString([]byte(email))+".c2VjcmV0c2VjcmV0")) + "|1700000000|c2ln",
	}
	for name, v := range plant {
		if l, _ := sec.Recover(v); l == nil {
			return fmt.Errorf("opacity scanner self-test: planted secret not found behind %q", name)
		}
	}
	// and silence on values that contain none
	for _, v := range []string{strings.Repeat("QUJDREVGR0hJSktMTU5PUA", 20) + "|1700000000|c2ln", string(bytes.Repeat([]byte{0x13, 0x37, 0xfe}, 300))} {
		if l, _ := sec.Recover(v); l != nil {
			return fmt.Errorf("opacity scanner self-test: false positive %+v", l)
		}
	}
	return nil
}

func c02SelfPack(v interface{}) []byte { b, _ := msgpack.Marshal(v); return b }

func c02SelfLZ4(b []byte) []byte {
	var zb bytes.Buffer
	zw := lz4.NewWriter(&zb)
	_, _ = zw.Write(b)
	_ = zw.Close()
	return zb.Bytes()
}

// ---------------------------------------------------------------------------------------------------------
// Beyond plain text: what an observer of the store / of the cookies can do with SEVERAL values, and with the
// store's own contents as key material. Written against the documented formats only (store value = 12-byte GCM
// nonce ‖ ciphertext ‖ 16-byte tag under the per-ticket key; cookie / CSRF payload = 16-byte CFB IV ‖ ciphertext
// under the cookie secret); no repository code is called.

// c02CookieIV returns the IV of a cookie-store session cookie / CSRF cookie value (first 16 bytes of the decoded
// first field). ok=false when the value does not start with 24 base64url characters.
func c02CookieIV(value string) (string, bool) {
	f := value
	if k := strings.IndexByte(f, '|'); k >= 0 {
		f = f[:k]
	}
	if len(f) < 24 {
		return "", false
	}
	b, err := base64.URLEncoding.DecodeString(f[:24])
	if err != nil || len(b) < 16 {
		return "", false
	}
	return string(b[:16]), true
}

type c02KeyCand struct {
	From string
	Key  []byte
}

// c02StoreKeyCandidates derives candidate AES keys ONLY from what a reader of the store sees of one entry: every
// 16/24/32-byte window of (a) the hex-decoded hex runs of the key name, (b) the raw key-name bytes, (c) the leading
// bytes of the value itself.
func c02StoreKeyCandidates(name string, val []byte) []c02KeyCand {
	var out []c02KeyCand
	windows := func(from string, b []byte) {
		for _, n := range []int{16, 24, 32} {
			for i := 0; i+n <= len(b); i++ {
				out = append(out, c02KeyCand{fmt.Sprintf("%s[%d:%d]", from, i, i+n), b[i : i+n]})
			}
		}
	}
	isHex := func(c byte) bool { return (c >= '0' && c <= '9') || (c >= 'a' && c <= 'f') || (c >= 'A' && c <= 'F') }
	for i := 0; i < len(name); {
		j := i
		for j < len(name) && isHex(name[j]) {
			j++
		}
		if j-i >= 32 {
			run := name[i:j]
			for _, r := range []string{run, run[1:]} { // both nibble alignments
				r = r[:len(r)/2*2]
				if b, err := hex.DecodeString(r); err == nil {
					windows("hex-decoded key name", b)
				}
			}
		}
		if j == i {
			j++
		}
		i = j
	}
	for _, n := range []int{16, 24, 32} { // keys everybody knows
		out = append(out, c02KeyCand{fmt.Sprintf("%d zero bytes", n), make([]byte, n)}, c02KeyCand{fmt.Sprintf("%d 0xff bytes", n), bytes.Repeat([]byte{0xff}, n)})
	}
	windows("key name bytes", []byte(name))
	lead := val
	if len(lead) > 72 {
		lead = lead[:72]
	}
	windows("leading bytes of the value", lead)
	return out
}

// c02OpenGCM tries to open a store value (nonce = first 12 bytes) with key.
func c02OpenGCM(key, val []byte) ([]byte, bool) {
	if len(val) < 12+16 {
		return nil, false
	}
	blk, err := aes.NewCipher(key)
	if err != nil {
		return nil, false
	}
	g, err := cipher.NewGCM(blk)
	if err != nil {
		return nil, false
	}
	pt, err := g.Open(nil, val[:12], val[12:], nil)
	return pt, err == nil
}

// c02DecryptFromStoreContents: does the entry open with a key that is itself readable from the store?
func c02DecryptFromStoreContents(name string, val []byte) (from string, plaintext []byte, tried int, ok bool) {
	cands := c02StoreKeyCandidates(name, val)
	for _, cd := range cands {
		if pt, ok := c02OpenGCM(cd.Key, val); ok {
			return cd.From, pt, len(cands), true
		}
	}
	return "", nil, len(cands), false
}

type c02PadResult struct {
	ZeroRun   int      // longest run of equal bytes at equal offsets of the two ciphertext bodies
	Recovered *c02Leak // a known secret of one version recovered from body1 XOR body2 XOR (known secret of the other version)
	Using     string
	Offset    int
}

// c02TwoTimePad plays the observer who holds two versions of one store entry and knows (parts of) the OLDER one:
// if both were encrypted with the same key stream, body1 XOR body2 XOR old-plaintext = new plaintext.
func c02TwoTimePad(v1, v2 []byte, known map[string]string, sec *c02Secrets) c02PadResult {
	var res c02PadResult
	if len(v1) < 12+16+8 || len(v2) < 12+16+8 {
		return res
	}
	a, b := v1[12:len(v1)-16], v2[12:len(v2)-16]
	n := len(a)
	if len(b) < n {
		n = len(b)
	}
	x := make([]byte, n)
	run := 0
	for i := 0; i < n; i++ {
		x[i] = a[i] ^ b[i]
		if x[i] == 0 {
			run++
			if run > res.ZeroRun {
				res.ZeroRun = run
			}
		} else {
			run = 0
		}
	}
	for label, s := range known {
		if len(s) < 12 || len(s) > 64 {
			continue
		}
		y := make([]byte, len(s))
	next:
		for off := 0; off+len(s) <= n; off++ {
			nz := 0
			for i := range y {
				y[i] = x[off+i] ^ s[i]
				if y[i] < 0x20 || y[i] > 0x7e {
					continue next
				}
				if x[off+i] != 0 {
					nz++
				}
			}
			if nz < 8 { // (nearly) identical plaintext in both versions: nothing NEW is learnt here
				continue
			}
			// only windows in which the two versions really differ count: where they agree, y is just the known secret again
			for k := 0; k+8 <= len(y); k++ {
				d := 0
				for i := k; i < k+8; i++ {
					if x[off+i] != 0 {
						d++
					}
				}
				if d < 5 {
					continue
				}
				if l := sec.scan("version1 XOR version2 XOR "+label, y[k:k+8]); l != nil {
					res.Recovered, res.Using, res.Offset = l, label, off+k
					return res
				}
			}
		}
	}
	return res
}

// c02CryptoSelfTest: the three observers must see what they are meant to see, and nothing in sound material.
func c02CryptoSelfTest() error {
	seal := func(key, nonce, pt []byte) []byte {
		blk, _ := aes.NewCipher(key)
		g, _ := cipher.NewGCM(blk)
		return g.Seal(append([]byte{}, nonce...), nonce, pt, nil)
	}
	id := []byte("0123456789abcdef")
	key2 := []byte("fedcba9876543210")
	nonce := []byte("nonce-nonce-")
	p1 := []byte("\x8a\xa2at\xb6at-11-00112233445566aa\xa1e\xb3dora.selftest@x.example....")
	p2 := []byte("\x8a\xa2at\xb6at-12-8899aabbccddeeff\xa1e\xb3dora.selftest@x.example....")
	name := "_oauth2_proxy-" + hex.EncodeToString(id)
	if _, _, _, ok := c02DecryptFromStoreContents(name, seal(id, nonce, p1)); !ok {
		return fmt.Errorf("crypto self-test: entry encrypted under the bytes of its own key name was not opened")
	}
	if _, _, _, ok := c02DecryptFromStoreContents(name, seal(key2, nonce, p1)); ok {
		return fmt.Errorf("crypto self-test: entry under an unrelated key was opened")
	}
	sec := c02NewSecrets()
	sec.Add("new token", "at-12-8899aabbccddeeff")
	r := c02TwoTimePad(seal(key2, nonce, p1), seal(key2, nonce, p2), map[string]string{"old token": "at-11-00112233445566aa"}, sec)
	if r.Recovered == nil || r.ZeroRun < 16 {
		return fmt.Errorf("crypto self-test: two-time pad not exploited (zero run %d)", r.ZeroRun)
	}
	r = c02TwoTimePad(seal(key2, nonce, p1), seal(key2, []byte("another-nonc"), p2), map[string]string{"old token": "at-11-00112233445566aa"}, sec)
	if r.Recovered != nil || r.ZeroRun >= 8 {
		return fmt.Errorf("crypto self-test: false two-time-pad alarm")
	}
	return nil
}

// ---------------------------------------------------------------------------------------------------------
// Known-answer check of the cookie cipher, independent of the repository's cipher code: the documentation says
// cookies are encrypted with AES-CFB under the cookie secret (16/24/32 bytes, optionally given base64url-encoded).
// The harness knows the secret, so it decrypts every payload itself with Go's crypto/cipher CFB: the result must be
// the documented plaintext (session: LZ4 frame of the msgpack session; CSRF cookie: the msgpack CSRF record).

func c02AESKey(secret string) []byte {
	if b, err := base64.RawURLEncoding.DecodeString(strings.TrimRight(secret, "=")); err == nil && (len(b) == 16 || len(b) == 24 || len(b) == 32) {
		return b
	}
	return []byte(secret)
}

func c02StdCFB(key, payload []byte, decrypt bool) ([]byte, error) {
	if len(payload) < 16 {
		return nil, fmt.Errorf("payload of %d bytes has no room for an IV", len(payload))
	}
	blk, err := aes.NewCipher(key)
	if err != nil {
		return nil, err
	}
	out := make([]byte, len(payload)-16)
	if decrypt {
		cipher.NewCFBDecrypter(blk, payload[:16]).XORKeyStream(out, payload[16:])
	} else {
		cipher.NewCFBEncrypter(blk, payload[:16]).XORKeyStream(out, payload[16:])
	}
	return out, nil
}

// c02PayloadOf returns the decoded first field of a signed cookie value.
func c02PayloadOf(full string) ([]byte, error) {
	f := full
	if k := strings.IndexByte(f, '|'); k >= 0 {
		f = f[:k]
	}
	return base64.URLEncoding.DecodeString(f)
}

// c02CheckCookieCipher: nil = payload is standard AES-CFB(IV, documented plaintext). mustContain (optional) has to
// appear in the decoded session.
func c02CheckCookieCipher(kind string, key []byte, full string, mustContain string) error {
	payload, err := c02PayloadOf(full)
	if err != nil {
		return fmt.Errorf("first field is not base64url: %v", err)
	}
	pt, err := c02StdCFB(key, payload, true)
	if err != nil {
		return err
	}
	switch kind {
	case "csrf":
		strs, complete := c02MsgpackParse(pt)
		if !complete || len(pt) == 0 || pt[0]&0xf0 != 0x80 || len(strs) < 2 {
			return fmt.Errorf("AES-CFB decryption under the cookie secret does not yield a complete msgpack map with the nonces (first bytes % x)", pt[:c02Min(len(pt), 24)])
		}
	default:
		if len(pt) < 4 || pt[0] != 0x04 || pt[1] != 0x22 || pt[2] != 0x4d || pt[3] != 0x18 {
			return fmt.Errorf("AES-CFB decryption under the cookie secret does not start with the LZ4 frame magic (first bytes % x)", pt[:c02Min(len(pt), 16)])
		}
		dec, err := io.ReadAll(io.LimitReader(lz4.NewReader(bytes.NewReader(pt)), 4<<20))
		if err != nil {
			return fmt.Errorf("AES-CFB decryption under the cookie secret starts like an LZ4 frame but does not decompress: %v", err)
		}
		if _, complete := c02MsgpackParse(dec); !complete || len(dec) == 0 || dec[0]&0xf0 != 0x80 {
			return fmt.Errorf("the decompressed plaintext is not a complete msgpack map")
		}
		if mustContain != "" && !bytes.Contains(dec, []byte(mustContain)) {
			return fmt.Errorf("the decoded session does not contain %q", mustContain)
		}
	}
	return nil
}

func c02Min(a, b int) int {
	if a < b {
		return a
	}
	return b
}

// c02EqualRun: longest run of equal bytes at equal offsets >= from.
func c02EqualRun(a, b []byte, from int) (run, at int) {
	n := c02Min(len(a), len(b))
	cur := 0
	for i := from; i < n; i++ {
		if a[i] == b[i] {
			cur++
			if cur > run {
				run, at = cur, i-cur+1
			}
		} else {
			cur = 0
		}
	}
	return
}

func c02CipherSelfTest() error {
	key := []byte("0123456789abcdef01234567")
	packed := c02SelfPack(map[string]interface{}{"e": "erin.selftest@x.example", "at": "at-1-0011223344556677", "it": strings.Repeat("eyJhbGciOiJSUzI1NiJ9", 20)})
	plain := c02SelfLZ4(packed)
	iv1, iv2 := bytes.Repeat([]byte{0x11}, 16), bytes.Repeat([]byte{0x77}, 16)
	enc := func(iv []byte, swapped bool) string {
		ct, _ := c02StdCFB(key, append(append([]byte{}, iv...), plain...), swapped) // swapped = "encrypting" with the decrypter
		return base64.URLEncoding.EncodeToString(append(append([]byte{}, iv...), ct...)) + "|1700000000|c2ln"
	}
	if err := c02CheckCookieCipher("session", key, enc(iv1, false), "erin.selftest@x.example"); err != nil {
		return fmt.Errorf("cipher self-test: standard AES-CFB rejected: %v", err)
	}
	if err := c02CheckCookieCipher("session", key, enc(iv1, true), ""); err == nil {
		return fmt.Errorf("cipher self-test: a cipher with the stream directions swapped passed the known-answer check")
	}
	pa, _ := c02PayloadOf(enc(iv1, true))
	pb, _ := c02PayloadOf(enc(iv2, true))
	if r, _ := c02EqualRun(pa, pb, 16); r < 24 {
		return fmt.Errorf("cipher self-test: plaintext-keyed stream not visible as ciphertext similarity (run %d)", r)
	}
	pa, _ = c02PayloadOf(enc(iv1, false))
	pb, _ = c02PayloadOf(enc(iv2, false))
	if r, _ := c02EqualRun(pa, pb, 16); r >= 8 {
		return fmt.Errorf("cipher self-test: false similarity alarm (run %d)", r)
	}
	return nil
}
