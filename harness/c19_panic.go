//go:build verif

package main

// C19 — No request can crash request handling.
//
// Monitor: recover() around ServeHTTP invoked directly (net/http's own recover would hide a panic);
// http.ErrAbortHandler is the one whitelisted value. Requests are admitted only if net/http's server would hand
// them to the handler (vfReq.parse applies the same checks), so every panic reported is reachable over the wire.
// Workload: (i) whole requests assembled from per-field hostile pools, in a sweep of configurations that
// covers every injectable claim name as request and response header, every session source, both stores,
// csrf-per-request, encode-state, reverse-proxy with each client-IP header, ...; the harness knows the cookie
// secret, so besides attacker-forgeable bytes it also presents *validly signed* cookies with hostile payloads at
// every decoding layer (cipher, lz4, msgpack, ticket) and corrupted Redis values.  (ii) thorough tier: the same
// decoder driven by Go's coverage-guided fuzzer (FuzzVerif_C19, run by ./check from a scratch cwd).

import (
	"sync"
	"golang.org/x/crypto/bcrypt"
	"bytes"
	"crypto/sha1"
	"encoding/base64"
	"encoding/binary"
	"fmt"
	"math/rand"
	"strings"
	"testing"
	"time"

	"github.com/oauth2-proxy/oauth2-proxy/v7/pkg/apis/sessions"
	"github.com/oauth2-proxy/oauth2-proxy/v7/pkg/encryption"
	"github.com/pierrec/lz4/v4"
	"github.com/vmihailenco/msgpack/v5"
)

type c19Cfg struct {
	Name  string
	Flags []string
	Alpha string // extra alpha YAML (headers); "" = legacy instance
	Redis bool
}

var c19Claims = []string{"access_token", "id_token", "created_at", "expires_on", "refresh_token", "email", "user", "groups", "preferred_username", "no_such_claim"}

func c19HeaderYAML() string {
	var b strings.Builder
	for _, kind := range []string{"injectRequestHeaders", "injectResponseHeaders"} {
		b.WriteString(kind + ":\n")
		for _, c := range c19Claims {
			n := "X-Inj-" + strings.ReplaceAll(c, "_", "-")
			fmt.Fprintf(&b, "- name: %s\n  values:\n  - claim: %s\n", n, c)
			fmt.Fprintf(&b, "- name: %s-Prefixed\n  values:\n  - claim: %s\n    prefix: \"P \"\n", n, c)
			fmt.Fprintf(&b, "- name: %s-Basic\n  preserveRequestValue: true\n  values:\n  - claim: %s\n    basicAuthPassword:\n      value: c2VjcmV0\n", n, c)
		}
	}
	return b.String()
}

func c19Configs(w *vfWorld, idp2 *vfIdP, htp string) []c19Cfg {
	bearer := []string{"--skip-jwt-bearer-tokens=true", "--extra-jwt-issuers=" + idp2.Issuer + "=aud2"}
	cfgs := []c19Cfg{
		{Name: "base-cookie", Flags: []string{}},
		{Name: "redis", Flags: []string{"--session-store-type=redis"}, Redis: true},
		{Name: "csrf-per-request+encode-state+pkce", Flags: []string{"--cookie-csrf-per-request=true", "--encode-state=true", "--code-challenge-method=S256"}},
		{Name: "skip-provider-button+json-errors", Flags: []string{"--skip-provider-button=true", "--force-json-errors=true", "--api-route=^/api/"}},
		{Name: "bearer+htpasswd", Flags: append([]string{"--htpasswd-file=" + htp, "--htpasswd-user-group=hg", "--display-htpasswd-form=true"}, bearer...)},
		{Name: "bearer+htpasswd+redis+refresh", Flags: append([]string{"--htpasswd-file=" + htp, "--session-store-type=redis", "--cookie-refresh=1m", "--cookie-expire=2h", "--prefer-email-to-user=true"}, bearer...), Redis: true},
		{Name: "legacy-headers-bearer", Flags: []string{"--pass-access-token=true", "--pass-authorization-header=true", "--set-xauthrequest=true", "--set-authorization-header=true", "--pass-basic-auth=false", "--pass-user-headers=true", "--skip-auth-strip-headers=false"}},
		{Name: "legacy-headers-basic", Flags: []string{"--pass-access-token=true", "--set-xauthrequest=true", "--set-basic-auth=true", "--pass-basic-auth=true", "--basic-auth-password=pw", "--pass-user-headers=false", "--prefer-email-to-user=true"}},
		{Name: "bypass+domains", Flags: []string{"--skip-auth-route=GET=^/public", "--skip-auth-route=!=^/priv", "--skip-auth-preflight=true", "--trusted-ip=10.0.0.0/8", "--trusted-ip=2001:db8::/32", "--whitelist-domain=.good.test", "--whitelist-domain=good.test:*", "--cookie-domain=proxy.test", "--cookie-domain=test", "--cookie-path=/", "--cookie-samesite=lax"}},
		{Name: "upstreams", Flags: []string{"--upstream=" + w.Up.URL() + "/x/", "--upstream=static://202", "--upstream=file://" + w.Dir + "#/files/", "--pass-host-header=false", "--signature-key=sha1:secretkey", "--allow-query-semicolons=true"}},
		{Name: "no-websockets", Flags: []string{"--proxy-websockets=false", "--htpasswd-file=" + htp}},
		{Name: "authz", Flags: []string{"--email-domain=example.com", "--allowed-group=g1", "--cookie-refresh=1m", "--cookie-expire=2h", "--gcp-healthchecks=true", "--ready-path=/ready", "--ping-user-agent=pinger"}},
		{Name: "minimal-cookie", Flags: []string{"--session-cookie-minimal=true", "--pass-access-token=false", "--cookie-samesite=strict", "--cookie-httponly=false", "--proxy-prefix=/oauth2"}},
		{Name: "alpha-all-claims", Alpha: c19HeaderYAML(), Flags: append([]string{"--htpasswd-file=" + htp, "--skip-auth-route=^/public"}, bearer...)},
		{Name: "alpha-all-claims-redis", Alpha: c19HeaderYAML(), Flags: append([]string{"--htpasswd-file=" + htp, "--session-store-type=redis", "--skip-auth-route=^/public", "--cookie-csrf-per-request=true"}, bearer...), Redis: true},
	}
	// reverse-proxy mode WITHOUT trusted IPs (and without bypass rules): the trusted-IP machinery must cope with being unconfigured
	cfgs = append(cfgs, c19Cfg{Name: "reverse-proxy/no-trusted-ip", Flags: []string{"--reverse-proxy=true", "--real-client-ip-header=X-Real-IP"}},
		c19Cfg{Name: "reverse-proxy/no-trusted-ip-xff-redis", Flags: []string{"--reverse-proxy=true", "--real-client-ip-header=X-Forwarded-For", "--session-store-type=redis", "--cookie-samesite=none"}, Redis: true})
	for _, h := range []string{"X-Forwarded-For", "X-Real-IP", "X-ProxyUser-IP", "X-Envoy-External-Address", "CF-Connecting-IP"} {
		cfgs = append(cfgs, c19Cfg{Name: "reverse-proxy/" + h, Flags: []string{"--reverse-proxy=true", "--real-client-ip-header=" + h, "--trusted-ip=10.0.0.0/8", "--trusted-ip=::1", "--whitelist-domain=.good.test", "--cookie-domain=.test", "--skip-auth-route=^/public", "--request-logging=true", "--auth-logging=true", "--standard-logging=true"}})
	}
	return cfgs
}

type c19Ctx struct {
	Cfg        c19Cfg
	P          *vfProxy
	CookieName string
	Secret     string
	Sess       []string // valid "name=value[; name_1=value]" cookie strings of real sessions
	CSRFCookie string   // "name=value" of an outstanding login
	State      string
	LoginURL   string
	Bearers    []string
	Basics     []string
	SignedJunk []string // validly signed cookie values with hostile payloads
	HeavyJunk  map[string]bool // those that make a decoder allocate megabytes: presented once each
	W          *vfWorld
}

var (
	c19BcryptOnce sync.Once
	c19BcryptTab  []string
)

// c19Bcrypt: bcrypt (minimum cost) of "pw-<k>"
func c19Bcrypt(k int) string {
	c19BcryptOnce.Do(func() {
		c19BcryptTab = make([]string, 13)
		for i := range c19BcryptTab {
			h, _ := bcrypt.GenerateFromPassword([]byte(fmt.Sprintf("pw-%d", i)), bcrypt.MinCost)
			c19BcryptTab[i] = string(h)
		}
	})
	return c19BcryptTab[k]
}

func c19SHA(pw string) string {
	h := sha1.Sum([]byte(pw))
	return "{SHA}" + base64.StdEncoding.EncodeToString(h[:])
}

func c19LZ4(b []byte) []byte {
	var buf bytes.Buffer
	zw := lz4.NewWriter(&buf)
	_ = zw.Apply(lz4.BlockSizeOption(lz4.Block64Kb)) // as the repository does; the default 4 MiB block makes every decode allocate 4 MiB
	_, _ = zw.Write(b)
	_ = zw.Close()
	return buf.Bytes()
}

// c19Junk builds validly signed cookie values whose payload is hostile at some decoding layer.
func c19Junk(rng *rand.Rand, secret, name string, redis bool, n int) []string {
	cfb, _ := encryption.NewCFBCipher(encryption.SecretBytes(secret))
	sign := func(payload []byte, ts time.Time) string {
		v, _ := encryption.SignedValue(secret, name, payload, ts)
		return v
	}
	now := time.Now()
	created := now.Add(-time.Minute)
	good := &sessions.SessionState{Email: "j@example.com", User: "j", AccessToken: "at", IDToken: "it", RefreshToken: "rt", Groups: []string{"g1"}, CreatedAt: &created, ExpiresOn: &now, Nonce: []byte{1, 2, 3}}
	packed, _ := msgpack.Marshal(good)
	var out []string
	add := func(p []byte) { out = append(out, sign(p, now)) }
	enc := func(p []byte) []byte { c, _ := cfb.Encrypt(p); return c }
	// layer 0: raw payloads
	for _, l := range []int{0, 1, 15, 16, 17, 31, 64} {
		b := make([]byte, l)
		rng.Read(b)
		add(b)
	}
	// layer 1: decrypts, lz4 garbage / truncated frames
	add(enc(nil))
	add(enc([]byte{0x04, 0x22, 0x4d, 0x18}))
	z := c19LZ4(packed)
	for _, k := range []int{1, 4, 5, 7, 8, len(z) / 2, len(z) - 1} {
		if k < len(z) {
			add(enc(z[:k]))
		}
	}
	add(enc(c19LZ4(bytes.Repeat([]byte{0}, 1<<20)))) // 4 MiB of zeros
	// layer 2: valid lz4, hostile msgpack
	wrong := []interface{}{
		map[string]interface{}{"ca": "not-a-time", "eo": 5, "e": 123, "g": "str", "n": []int{1, 2}, "u": map[string]int{"a": 1}},
		map[string]interface{}{"g": []interface{}{1, nil, map[string]string{"a": "b"}, []string{"x"}}},
		map[string]interface{}{"ca": nil, "eo": nil, "at": nil, "e": nil, "g": nil, "n": nil},
		[]interface{}{1, 2, 3}, "just a string", 42, nil, map[int]int{1: 2},
		map[string]interface{}{"e": strings.Repeat("x", 1<<16), "g": make([]string, 5000)},
	}
	for _, v := range wrong {
		b, err := msgpack.Marshal(v)
		if err == nil {
			add(enc(c19LZ4(b)))
		}
	}
	// msgpack time extension with odd lengths, large declared lengths. NB msgpack v5.4.1 allocates the DECLARED
	// length of a str32/bin32 up front (readN): a validly signed payload declaring 4 GiB makes the process allocate
	// 4 GiB. That is a memory-exhaustion hazard of the library reachable only with the cookie secret, not a panic;
	// payloads declaring more than 16 MiB are therefore screened out (c19HugeDecl) so that the harness cannot
	// exhaust the sandbox's memory.
	for _, raw := range [][]byte{
		{0x81, 0xa2, 'c', 'a', 0xd6, 0xff, 0, 0, 0, 0}, {0x81, 0xa2, 'c', 'a', 0xc7, 0x03, 0xff, 1, 2, 3}, {0x81, 0xa2, 'c', 'a', 0xc7, 0x0c, 0xff, 0xff, 0xff, 0xff, 0xff, 0xff, 0xff, 0xff, 0xff, 0xff, 0xff, 0xff, 0xff},
		{0x81, 0xa1, 'g', 0xdd, 0x00, 0xff, 0xff, 0xff}, {0x81, 0xa1, 'e', 0xdb, 0x00, 0xff, 0xff, 0xff}, {0xdf, 0x00, 0xff, 0xff, 0xff}, {0x81, 0xa1, 'n', 0xc6, 0x00, 0xff, 0xff, 0xf0},
	} {
		add(enc(c19LZ4(raw)))
	}
	// random mutations of a valid packed session (bit flips, truncations, splices)
	for k := 0; k < n; k++ {
		m := append([]byte{}, packed...)
		switch rng.Intn(4) {
		case 0:
			for f := 0; f < 1+rng.Intn(3); f++ {
				m[rng.Intn(len(m))] ^= byte(1 << uint(rng.Intn(8)))
			}
		case 1:
			m = m[:rng.Intn(len(m))]
		case 2:
			p := rng.Intn(len(m))
			m[p] = byte(rng.Intn(256))
		case 3:
			p := rng.Intn(len(m))
			ins := make([]byte, 1+rng.Intn(6))
			rng.Read(ins)
			m = append(append(append([]byte{}, m[:p]...), ins...), m[p:]...)
		}
		if c19HugeDecl(m) {
			continue
		}
		add(enc(c19LZ4(m)))
	}
	// timestamps
	for _, ts := range []time.Time{time.Unix(0, 0), now.Add(10 * time.Minute), now.Add(-400 * 24 * time.Hour), time.Unix(1<<40, 0)} {
		out = append(out, sign(enc(c19LZ4(packed)), ts))
	}
	if redis {
		// hostile tickets, validly signed
		b64 := base64.RawURLEncoding.EncodeToString
		for _, tk := range []string{"", ".", "..", "...", "v2", "v2.", "v2..", "v2.!.!", "v2." + b64([]byte("id")) + ".", "v2." + b64([]byte("id")) + "." + b64([]byte("short")),
			"v2." + b64([]byte("id")) + "." + b64(make([]byte, 15)), "v2." + b64([]byte("id")) + "." + b64(make([]byte, 17)), "v2." + b64([]byte("id")) + "." + b64(make([]byte, 32)),
			"v2." + b64([]byte("_oauth2_proxy-"+strings.Repeat("a", 5000))) + "." + b64(make([]byte, 16)), "v2." + b64([]byte("k\r\nDEL x\r\n")) + "." + b64(make([]byte, 16)),
			"legacyid.!!", "legacyid." + b64(make([]byte, 16)), "v1.a.b", "v2.a.b.c", "v2." + b64([]byte{0xff, 0xfe}) + "." + b64(make([]byte, 16))} {
			add([]byte(tk))
		}
	}
	return out
}

func c19Fatal(run *vfRun, format string, a ...interface{}) {
	if run.T != nil {
		run.T.Fatalf(format, a...)
	}
	panic(fmt.Sprintf(format, a...))
}

// c19HugeDecl: does b contain a msgpack 32-bit length marker (str32, bin32, array32, map32, ext32) declaring > 16 MiB?
func c19HugeDecl(b []byte) bool {
	for i := 0; i+4 < len(b); i++ {
		switch b[i] {
		case 0xdb, 0xc6, 0xdd, 0xdf, 0xc9:
			if binary.BigEndian.Uint32(b[i+1:]) > 16<<20 {
				return true
			}
		}
	}
	return false
}

func c19Prepare(run *vfRun, w *vfWorld, idp2 *vfIdP, cfg c19Cfg, hub *vfRedisHub) *c19Ctx {
	flags := append([]string{}, cfg.Flags...)
	if cfg.Redis {
		flags = append(flags, "--redis-connection-url="+w.RedisURL())
	}
	var p *vfProxy
	var err error
	if cfg.Alpha != "" {
		p, err = w.NewProxyRaw(w.AlphaYAML("", cfg.Alpha), append(w.AlphaBaseFlags(), flags...))
	} else {
		p, err = w.NewProxy(flags...)
	}
	if err != nil {
		c19Fatal(run, "config %s: %v", cfg.Name, err)
	}
	c := &c19Ctx{Cfg: cfg, P: p, CookieName: p.Opts.Cookie.Name, Secret: p.Opts.Cookie.Secret, W: w}
	big := map[string]interface{}{"pad": vfRandHex(3500)} // forces a split cookie with the cookie store
	for k, id := range []vfIdentity{vfStdIdentity, {Sub: "u-big", Email: "big@example.com", Groups: []string{"g1"}, Extra: big}, {Sub: "u-norefresh", Email: "nr@example.com", NoRefreshToken: true, Groups: []string{"g1"}}} {
		b := vfNewBrowser("")
		if _, _, err := b.Login(p, id, "/"); err != nil {
			c19Fatal(run, "config %s: login %d: %v", cfg.Name, k, err)
		}
		c.Sess = append(c.Sess, vfCookieHeader(b.Jar.For("proxy.test", "/", false)))
	}
	// an outstanding login (CSRF cookie + state) for callback requests
	b := vfNewBrowser("")
	l, err := b.StartLogin(p, vfStdIdentity, "/after")
	if err != nil {
		c19Fatal(run, "config %s: start: %v", cfg.Name, err)
	}
	c.State, c.LoginURL = l.State, l.LoginURL
	c.CSRFCookie = vfCookieHeader(b.Jar.For("proxy.test", "/oauth2/callback", false))
	// bearer tokens: provider, extra issuer, and hostile ones
	mk := func(iss string, aud interface{}, extra map[string]interface{}, o vfMintOpts) string {
		cl := map[string]interface{}{"iss": iss, "aud": aud, "sub": "bearer-sub", "email": "b@example.com", "exp": time.Now().Add(time.Hour).Unix(), "iat": time.Now().Unix(), "groups": []string{"g1"}}
		for k, v := range extra {
			cl[k] = v
		}
		return vfMint(cl, o)
	}
	iss := w.IdP.Issuer
	c.Bearers = []string{
		mk(iss, "cid", nil, vfMintOpts{}), mk(idp2.Issuer, "aud2", nil, vfMintOpts{}), mk(idp2.Issuer, "aud2", map[string]interface{}{"email": nil, "groups": nil}, vfMintOpts{}),
		mk(iss, "cid", map[string]interface{}{"exp": "soon"}, vfMintOpts{}), mk(iss, 5, nil, vfMintOpts{}), mk(iss, []interface{}{1, "cid"}, nil, vfMintOpts{}), mk(iss, map[string]string{"a": "b"}, nil, vfMintOpts{}),
		mk(iss, "cid", map[string]interface{}{"email": map[string]string{"a": "b"}, "groups": map[string]interface{}{"x": []int{1}}, "sub": 7, "email_verified": "maybe", "preferred_username": []string{"a"}}, vfMintOpts{}),
		mk(idp2.Issuer, "aud2", map[string]interface{}{"email": 5, "groups": "g", "sub": nil, "email_verified": "x"}, vfMintOpts{}),
		mk(iss, "cid", map[string]interface{}{"email_verified": 1}, vfMintOpts{}), mk(iss, "cid", map[string]interface{}{"email_verified": 0}, vfMintOpts{}), mk(iss, "cid", map[string]interface{}{"email_verified": []bool{true}}, vfMintOpts{}),
		mk(iss, "cid", map[string]interface{}{"email_verified": map[string]bool{"v": true}}, vfMintOpts{}), mk(iss, "cid", map[string]interface{}{"email_verified": 1.5}, vfMintOpts{}), mk(idp2.Issuer, "aud2", map[string]interface{}{"email_verified": []interface{}{}}, vfMintOpts{}),
		mk(iss, "cid", map[string]interface{}{"email": []string{"a@b"}, "groups": 7, "preferred_username": 1e3, "email_verified": nil}, vfMintOpts{}),
		mk(iss, "cid", map[string]interface{}{"exp": 1e30, "iat": -1, "nbf": "x"}, vfMintOpts{}), mk(iss, "cid", nil, vfMintOpts{Alg: "none"}), mk(iss, "cid", nil, vfMintOpts{Key: vfKeyB}),
		mk(iss, "cid", nil, vfMintOpts{Kid: "unknown"}), mk(iss, "cid", nil, vfMintOpts{Alg: "HS256", HMACKey: vfPubPEM(&vfKeyA.PublicKey)}), mk(iss, "cid", nil, vfMintOpts{Alg: "ES256"}), mk(iss, "cid", nil, vfMintOpts{BadSig: true}),
		"ey.ey.x", "eyJhbGciOiJSUzI1NiJ9.eyJ.sig", "eyJhbGciOiJSUzI1NiJ9." + vfB64([]byte("not json")) + ".c2ln", "eyJhbGciOiJSUzI1NiJ9." + vfB64([]byte(`{"iss":`)) + ".c2ln",
		vfB64([]byte(`{"alg":5}`)) + "." + vfB64([]byte(`{}`)) + ".x", vfB64([]byte(`[]`)) + "." + vfB64([]byte(`[]`)) + ".x", "eyJ" + strings.Repeat("A", 70000) + ".eyJ9.x",
	}
	b64 := base64.StdEncoding.EncodeToString
	for k := 1; k <= 12; k++ {
		c.Basics = append(c.Basics, b64([]byte(fmt.Sprintf("bu%d:pw-%d", k, k))), b64([]byte(fmt.Sprintf("bu%d:pw-%d", k, k))), b64([]byte(fmt.Sprintf("bu%d:wrong", k))))
	}
	c.Basics = append(c.Basics, b64([]byte("hu:hp")), b64([]byte("hu:wrong")), b64([]byte("nouser:x")), b64([]byte("nocolon")), b64([]byte(":")), b64([]byte("hu:")), b64([]byte(":hp")), "!!!notbase64", "", b64([]byte("hu:hp:extra")),
		b64([]byte(c.Bearers[0] + ":")), b64([]byte(c.Bearers[0] + ":x-oauth-basic")), b64([]byte("x:" + c.Bearers[1])), b64([]byte(c.Bearers[7] + ":")), b64([]byte(strings.Repeat("u", 70000) + ":p")), b64([]byte("h\x00u:hp")))
	c.SignedJunk = c19Junk(rand.New(rand.NewSource(run.Env.Seed*77+int64(len(cfg.Name)))), c.Secret, c.CookieName, cfg.Redis, run.Env.Pick(100, 600))
	c.HeavyJunk = map[string]bool{}
	for _, j := range c.SignedJunk { // measure: one decode each, sequentially
		t0 := time.Now()
		p.Do(vfGET("/oauth2/userinfo").H("Cookie", c.CookieName+"="+j))
		if time.Since(t0) > 3*time.Millisecond {
			c.HeavyJunk[c.CookieName+"="+j] = true
		}
	}
	return c
}

// pools -----------------------------------------------------------------------------------------------------

var c19Methods = []string{"GET", "GET", "GET", "POST", "HEAD", "OPTIONS", "PUT", "DELETE", "PATCH", "get", "FOO", "CONNECT", "TRACE"}

var c19Paths = []string{"/", "/x", "/x/y/z", "/public/a", "/priv", "/api/v1", "/files/", "/files/a.txt", "/files/../x", "/oauth2/start", "/oauth2/callback", "/oauth2/sign_in", "/oauth2/sign_out", "/oauth2/auth",
	"/oauth2/userinfo", "/oauth2/static/css/bulma.min.css", "/oauth2/static/", "/oauth2/static/../x", "/robots.txt", "/ping", "/ready", "/liveness_check", "/oauth2/", "/oauth2", "/oauth2/callback/", "/oauth2/nope",
	"//x", "//evil.test/x", "/%2F/x", "/%2f%2fevil.test", "/a/../b", "/a/./b", "/x%20y", "/x%00y", "/%", "/x;y=1", "/x/", "/é", "/%C3%A9", "/" + strings.Repeat("a", 9000), "/" + strings.Repeat("a/", 2000), "*", "http://evil.test/x", "http://proxy.test/oauth2/sign_out", "/\\evil.test", "/.", "/..", "/oauth2/../x"}

var c19Rd = []string{"/", "/after?x=1", "//evil.test", "/\\evil.test", "https://evil.test", "https://good.test/x", "http://sub.good.test:8443/", "/\t/evil.test", "javascript:alert(1)", "", "%", "/%zz", strings.Repeat("/a", 5000), "http://[::1]:80/", "http://[::1", "http://a b/", "http://user:pw@good.test/", "https://good.test:99999/", "\x7f", "/x#frag", "?x", "#"}

func c19States(c *c19Ctx, rng *rand.Rand) []string {
	s := c.State
	out := []string{s, "", ":", "::", "x", "x:", ":/", s + ":" + s, strings.Repeat("A", 10000), "%zz", base64.RawURLEncoding.EncodeToString([]byte("n:/x")), base64.RawURLEncoding.EncodeToString([]byte("nocolon")), "!!!", "ÿ", "12345678", "123456789:/"}
	if len(s) > 9 {
		out = append(out, s[:8], s[:9], s[:len(s)/2], s[1:], strings.ToUpper(s))
	}
	// nonce parts of every length around the 8-character infix of per-request CSRF cookie names, plain and base64url (round 8)
	for n := 0; n <= 12; n++ {
		v := strings.Repeat("n", n) + ":/x"
		out = append(out, v, base64.RawURLEncoding.EncodeToString([]byte(v)))
	}
	return out
}

var c19Hosts = []string{"proxy.test", "proxy.test", "proxy.test", "proxy.test:8443", "sub.proxy.test", "[::1]:80", "[::1]", "127.0.0.1:4180", "UPPER.Test", "a..b", "x.test.", strings.Repeat("h", 300) + ".test", "proxy.test:", "-", "_", "xn--caf-dma.test"}

var c19FwdHost = []string{",", ",,", ", ,", ";", "good.test", "evil.test", "sub.good.test:8443", "", "a:b:c", "[::1", "[::1]:80", "evil.test:99999", "good.test, evil.test", " ", "@", "good.test/x", "é.test", strings.Repeat("a", 5000)}
var c19FwdProto = []string{",", ",,", " ,", "https", "http", "", "javascript", "https, http", "HTTPS", "ws", ":", "h t"}
var c19FwdURI = []string{",", "/app/%zz", "app", "/x", "/public/a", "/oauth2/auth", "", "no-slash", "//evil.test", "/x?%zz", "/x?a=1&b=2", "/\\evil", "?", "#", "/%", "http://evil.test/", strings.Repeat("/a", 4000), "/x y"}
var c19IPs = []string{"10.1.2.3", "203.0.113.5", "", "garbage", "1.2.3.4:99999", "1.2.3.4:80", "[::1]:80", "::1", "[::1]", "fe80::1%eth0", "1.2.3.4, 5.6.7.8", " 10.0.0.1 ", "::ffff:10.1.2.3", ",", ", 10.0.0.1", "999.1.1.1", "10.0.0.1,", "0x0a.1", "2001:db8::1", "[2001:db8::1", "10.0.0.1:", ":80", "unix:@", strings.Repeat("1", 400), "10.0.0.1\t"}
var c19Accept = []string{"application/json", "text/html", "", "application/json, text/plain", "*/*", ",,,", "application/json;q=0.9", " application/json "}
var c19RemoteAddrs = []string{"203.0.113.9:54321", "10.0.0.5:1", "[::1]:9", "[2001:db8::5]:9", "@", "", "garbage", "1.2.3.4", "[::1", "10.0.0.5:x", ":"}

func c19Pick(rng *rand.Rand, pool []string) string { return pool[rng.Intn(len(pool))] }

func c19CookiePool(c *c19Ctx, rng *rand.Rand) []string {
	name := c.CookieName
	out := []string{}
	for _, s := range c.Sess {
		out = append(out, s)
		// truncations / mutations of real cookies (attacker-forgeable)
		v := strings.SplitN(s, "=", 2)[1]
		for _, k := range []int{0, 1, len(v) / 3, len(v) / 2, len(v) - 2, len(v) - 1} {
			if k >= 0 && k < len(v) {
				out = append(out, name+"="+v[:k])
			}
		}
		if len(v) > 10 {
			p := rng.Intn(len(v))
			out = append(out, name+"="+v[:p]+"A"+v[p+1:], name+"="+v+"A", name+"="+strings.ReplaceAll(v, "|", "||"), name+"="+strings.ReplaceAll(v, "|", ""))
		}
	}
	out = append(out, "", name+"=", name+"=|", name+"=||", name+"=|||", name+"=a|b|c", name+"=a|1|c", name+"=YQ==|99999999999999999999|YQ==", name+"=YQ==|-5|YQ==", name+"=YQ==|1e9|", name+"=!|!|!",
		name+"=\"quoted\"", name+"_0=a; "+name+"_1=b; "+name+"_2=c", name+"_1=onlysecond", name+"_0=", name+"_csrf=x", name+"="+strings.Repeat("A", 70000), "=novalue", "noequals", ";;;", name+"=a; "+name+"=b",
		name+"=a|b|c|d", "a=b; "+name+"_999999999999999999999=x")
	// thousands of parts
	var many strings.Builder
	for k := 0; k < 700; k++ {
		fmt.Fprintf(&many, "%s_%d=p%d; ", name, k, k)
	}
	out = append(out, many.String())
	for _, j := range c.SignedJunk {
		out = append(out, name+"="+j)
	}
	// signed junk as split parts
	if len(c.SignedJunk) > 3 {
		j := c.SignedJunk[3]
		out = append(out, name+"_0="+j[:len(j)/2]+"; "+name+"_1="+j[len(j)/2:], name+"_0="+j+"; "+name+"_1="+j)
	}
	// CSRF cookie variants
	out = append(out, c.CSRFCookie, c.CSRFCookie+"x", strings.SplitN(c.CSRFCookie, "=", 2)[0]+"=", strings.SplitN(c.CSRFCookie, "=", 2)[0]+"=a|b|c")
	if len(c.SignedJunk) > 0 {
		cn := strings.SplitN(c.CSRFCookie, "=", 2)[0]
		for k := 0; k < 40 && k < len(c.SignedJunk); k++ {
			// junk signed for the session name is invalid under the CSRF name (name is MACed) -> sign specifically
			out = append(out, cn+"="+c.SignedJunk[k])
		}
	}
	return out
}

// c19CSRFJunk: validly signed CSRF cookies with hostile msgpack payloads.
func c19CSRFJunk(c *c19Ctx, rng *rand.Rand) []string {
	cn := strings.SplitN(c.CSRFCookie, "=", 2)[0]
	cfb, _ := encryption.NewCFBCipher(encryption.SecretBytes(c.Secret))
	var out []string
	for _, v := range []interface{}{map[string]interface{}{"s": "str", "n": 5, "cv": []int{1}}, map[string]interface{}{"s": nil}, []int{1}, "x", nil, map[string]interface{}{"s": []byte{}, "n": []byte{}}, map[string]interface{}{"cv": strings.Repeat("v", 1<<16)}} {
		b, err := msgpack.Marshal(v)
		if err != nil {
			continue
		}
		e, _ := cfb.Encrypt(b)
		s, _ := encryption.SignedValue(c.Secret, cn, e, time.Now())
		out = append(out, cn+"="+s)
	}
	for _, l := range []int{0, 1, 15, 16, 17} {
		b := make([]byte, l)
		rng.Read(b)
		s, _ := encryption.SignedValue(c.Secret, cn, b, time.Now())
		out = append(out, cn+"="+s)
	}
	return out
}

type c19Field struct {
	Name string
	Vals []string
}

func c19Fields(c *c19Ctx, rng *rand.Rand) []c19Field {
	var auth []string
	for _, b := range c.Bearers {
		auth = append(auth, "Bearer "+b)
	}
	for _, b := range c.Basics {
		auth = append(auth, "Basic "+b)
	}
	auth = append(auth, "Bearer", "Bearer ", "Basic", "Basic ", "bearer "+c.Bearers[0], "BEARER "+c.Bearers[0], "Digest x", " ", "Bearer  "+c.Bearers[0], "Bearer a b c", "Basic "+c.Bearers[0], strings.Repeat("x", 70000), "Bearer\t"+c.Bearers[0], "Token x")
	cookies := append(c19CookiePool(c, rng), c19CSRFJunk(c, rng)...)
	return []c19Field{
		{"method", c19Methods}, {"path", c19Paths}, {"host", c19Hosts}, {"cookie", cookies}, {"authorization", auth},
		{"state", c19States(c, rng)}, {"code", []string{"", "x", "code-1", strings.Repeat("c", 9000), "%00", "a&b=c"}}, {"rd", c19Rd}, {"error", []string{"access_denied", "", "<script>", strings.Repeat("e", 9000)}},
		{"xfh", c19FwdHost}, {"xfp", c19FwdProto}, {"xfu", c19FwdURI}, {"clientip", c19IPs}, {"accept", c19Accept}, {"remote", c19RemoteAddrs},
		{"xarr", c19Rd}, {"form", []string{"username=hu&password=hp", "username=hu&password=hp&rd=//evil.test", "username=&password=", "username=%zz", "username=hu;password=hp", "rd=/x", strings.Repeat("a=b&", 20000), "\x00\x01", "username=" + strings.Repeat("u", 70000)}},
		{"authq", []string{"allowed_groups=g1", "allowed_groups=,,", "allowed_emails=a@b", "allowed_email_domains=example.com,*.x", "allowed_email_domains=%zz", "allowed_groups=g1&allowed_groups=g2,", "allowed_email_domains=:", "allowed_email_domains=[::1]"}},
		{"upgrade", []string{"websocket", "h2c", "", "WebSocket", "websocket, h2c"}}, {"connection", []string{"Upgrade", "keep-alive, Upgrade", "upgrade", "close, Upgrade", "Upgrade, HTTP2-Settings", "keep-alive"}},
	}
}

type c19Choice map[string]string

// c19Build assembles a request from chosen field values (absent key = field left at its benign default).
func c19Build(c *c19Ctx, ch c19Choice) *vfReq {
	get := func(k, def string) string {
		if v, ok := ch[k]; ok {
			return v
		}
		return def
	}
	path := get("path", "/x")
	var q []string
	if strings.Contains(path, "/callback") || ch["state"] != "" || ch["code"] != "" {
		if v, ok := ch["state"]; ok {
			q = append(q, "state="+vfQueryEscape(v))
		} else if strings.Contains(path, "/callback") {
			q = append(q, "state="+vfQueryEscape(c.State))
		}
		if v, ok := ch["code"]; ok {
			q = append(q, "code="+vfQueryEscape(v))
		} else if strings.Contains(path, "/callback") {
			if code, _, err := c.W.IdP.Authorize(c.LoginURL, vfStdIdentity); err == nil {
				q = append(q, "code="+code)
			}
		}
	}
	if v, ok := ch["rd"]; ok {
		q = append(q, "rd="+vfQueryEscape(v))
	}
	if v, ok := ch["error"]; ok {
		q = append(q, "error="+vfQueryEscape(v))
	}
	if v, ok := ch["authq"]; ok {
		q = append(q, v)
	}
	target := path
	if len(q) > 0 && path != "*" {
		sep := "?"
		if strings.Contains(path, "?") {
			sep = "&"
		}
		target += sep + strings.Join(q, "&")
	}
	r := vfNewReq(get("method", "GET"), target)
	r.Host = get("host", "proxy.test")
	if v, ok := ch["cookie"]; ok {
		if v != "" {
			r.H("Cookie", v)
		}
	} else if strings.Contains(path, "/callback") {
		r.H("Cookie", c.CSRFCookie)
	}
	for k, h := range map[string]string{"authorization": "Authorization", "xfh": "X-Forwarded-Host", "xfp": "X-Forwarded-Proto", "xfu": "X-Forwarded-Uri", "accept": "Accept", "xarr": "X-Auth-Request-Redirect"} {
		if v, ok := ch[k]; ok {
			r.H(h, v)
		}
	}
	if v, ok := ch["clientip"]; ok {
		for _, h := range []string{"X-Forwarded-For", "X-Real-IP", "X-ProxyUser-IP", "X-Envoy-External-Address", "CF-Connecting-IP"} {
			r.H(h, v)
		}
	}
	if v, ok := ch["upgrade"]; ok && v != "" {
		conn := "Upgrade"
		if cv, ok := ch["connection"]; ok {
			conn = cv
		}
		r.H("Connection", conn).H("Upgrade", v)
	} else if cv, ok := ch["connection"]; ok {
		r.H("Connection", cv).H("Upgrade", "websocket")
	}
	if v, ok := ch["form"]; ok {
		r.WithBody("application/x-www-form-urlencoded", []byte(v))
		if _, ok := ch["method"]; !ok {
			r.Method = "POST"
		}
	}
	r.RemoteAddr = get("remote", "203.0.113.9:54321")
	if r.RemoteAddr == "" {
		r.RemoteAddr = " " // the direct driver substitutes a default for "", keep the hostile empty-ish value distinct
	}
	return r
}

func c19Serve(run *vfRun, c *c19Ctx, ch c19Choice, mutated string) {
	req := c19Build(c, ch)
	resp := c.P.Do(req)
	if resp.Invalid != "" {
		run.Count("rejected_by_net_http", 1)
		return
	}
	class := fmt.Sprintf("%dxx", resp.Code/100)
	run.Eval(fmt.Sprintf("%s|%s|%s", c.Cfg.Name, mutated, class))
	run.Count("requests_served", 1)
	run.Count("status_"+class, 1)
	if resp.Panic != "" {
		stack := resp.Stack
		site := c19PanicSite(stack)
		run.Violation("c19:panic", fmt.Sprintf("panic %q at %s (config %s, field %s)", vfTrunc(resp.Panic, 120), site, c.Cfg.Name, mutated),
			map[string]interface{}{"flags": c.P.Flags, "alpha": c.P.Alpha, "request": req, "choice": ch, "panic": resp.Panic, "stack": vfTrunc(stack, 6000)})
		return
	}
	if resp.Code < 100 || resp.Code > 599 {
		run.Violation("c19:no-response", fmt.Sprintf("handler returned without a valid status (%d)", resp.Code), map[string]interface{}{"flags": c.P.Flags, "request": req})
	}
	run.SampleEvery(7919, func() interface{} {
		return map[string]interface{}{"config": c.Cfg.Name, "mutated": mutated, "method": req.Method, "target": vfTrunc(req.Target, 120), "status": resp.Code}
	})
}

func c19PanicSite(stack string) string {
	lines := strings.Split(stack, "\n")
	for i, l := range lines {
		if strings.Contains(l, "panic(") {
			for j := i + 1; j+1 < len(lines); j++ {
				if strings.HasPrefix(lines[j], "\t") && strings.Contains(lines[j], "/repo/") && !strings.Contains(lines[j], "zz_verif_") {
					return strings.TrimSpace(strings.SplitN(lines[j], " +0x", 2)[0])
				}
			}
		}
	}
	return "?"
}

func TestVerif_C19(t *testing.T) {
	run := vfNewRun(t, "C19", "exploration")
	if vfPvOnly() { // VERIF_PV_ONLY=1: only the provider-type sweep (development / replay aid)
		pw := vfNewWorld(t)
		c19ProviderTypes(run, pw)
		pw.Close()
		run.Finish(0, 0)
		return
	}
	run.SetRule("whole requests assembled from per-field hostile pools (method, path, host, cookie [attacker-forgeable AND validly signed with hostile payloads at the cipher/lz4/msgpack/ticket layers], Authorization, state, code, rd, error, forwarding and client-IP headers, Accept, RemoteAddr, form body) in a sweep of configurations; " +
		"phase 1: every pool value once in an otherwise benign request; phase 2: seeded random combinations of 2-6 hostile fields; phase 3 (redis): corrupted stored values; " +
		"phase 4: sessions of unusual identities (e-mail without '@', empty parts, htpasswd/basic/bearer users without e-mail) x authorization query parameters; phase 5: clients giving up before/while a slow provider is called (callback, refresh, re-validation, backend logout, bearer); " +
		"phase 6: configuration space — every value of per-option pools once plus seeded combinations; each configuration that passes validation serves a smoke set incl. a complete login. cell = (configuration, field mutated, response class); every served request is non-trivial")
	run.Assume("requests that net/http's server rejects before calling the handler are not counted", "http.ErrAbortHandler is not a crash (stdlib idiom)")
	w := vfNewWorld(t)
	defer w.Close()
	idp2 := vfNewIdP()
	defer idp2.Close()
	htpContent := "hu:" + c19SHA("hp") + "\nother:" + c19SHA("x") + "\n"
	for k := 1; k <= 12; k++ { // bcrypt entries: verified on a slower path than the SHA ones; several users so that "first seen" happens under concurrency
		htpContent += fmt.Sprintf("bu%d:%s\n", k, c19Bcrypt(k))
	}
	htp := w.File("htpasswd", htpContent)
	w.File("a.txt", "file content")
	cfgs := c19Configs(w, idp2, htp)
	nRandom := run.Env.Pick(900, 8000)
	vfParallel(len(cfgs), 4, func(ci int) {
		cfg := cfgs[ci]
		c := c19Prepare(run, w, idp2, cfg, nil)
		rng := rand.New(rand.NewSource(run.Env.Seed*1000 + int64(ci)))
		fields := c19Fields(c, rng)
		// phase 1: one hostile field at a time, on the endpoints where that field is consumed
		type job struct {
			ch  c19Choice
			mut string
		}
		var jobs []job
		ctxPaths := map[string][]string{
			"cookie": {"/x", "/oauth2/userinfo", "/oauth2/sign_out", "/oauth2/callback", "/oauth2/auth"}, "authorization": {"/x", "/oauth2/auth", "/oauth2/userinfo", "/public/a"},
			"state": {"/oauth2/callback"}, "code": {"/oauth2/callback"}, "error": {"/oauth2/callback"}, "rd": {"/oauth2/start", "/oauth2/sign_out", "/oauth2/sign_in", "/x"},
			"xarr": {"/oauth2/start", "/oauth2/sign_out", "/x"}, "form": {"/oauth2/sign_in", "/x", "/oauth2/callback"}, "authq": {"/oauth2/auth"},
			"xfh": {"/x", "/oauth2/start", "/oauth2/sign_out", "/oauth2/callback", "/oauth2/auth"}, "xfp": {"/x", "/oauth2/start"}, "xfu": {"/x", "/oauth2/auth", "/oauth2/start", "/oauth2/sign_out"},
			"clientip": {"/x", "/oauth2/callback"}, "remote": {"/x", "/oauth2/callback"}, "host": {"/x", "/oauth2/start", "/oauth2/callback", "/oauth2/sign_out"},
			"accept": {"/x", "/api/v1"}, "method": {"/x", "/oauth2/sign_in", "/oauth2/callback", "/oauth2/auth"}, "path": {""}, "upgrade": {"/x", "/public/a"}, "connection": {"/x", "/public/a"},
		}
		sessCtx := []string{"", c.Sess[0], c.Sess[1]}
		rpOnly := map[string]bool{"clientip": true, "xfh": true, "xfp": true, "xfu": true, "remote": true, "host": true, "rd": true, "xarr": true, "path": true}
		for _, f := range fields {
			if strings.HasPrefix(cfg.Name, "reverse-proxy/") && !rpOnly[f.Name] {
				continue
			}
			for _, v := range f.Vals {
				for _, pth := range ctxPaths[f.Name] {
					for si, sc := range sessCtx {
						if f.Name == "cookie" && (si > 0 || (c.HeavyJunk[v] && pth != "/x")) {
							continue
						}
						if si == 2 && f.Name != "authorization" && f.Name != "path" {
							continue
						}
						ch := c19Choice{f.Name: v}
						if pth != "" {
							ch["path"] = pth
						}
						if sc != "" && f.Name != "cookie" {
							ch["cookie"] = sc
							if strings.Contains(pth, "callback") {
								ch["cookie"] = sc + "; " + c.CSRFCookie
							}
						}
						jobs = append(jobs, job{ch, f.Name})
					}
				}
			}
		}
		// phase 1b: systematic PAIRS of fields that are consumed together (peer address x client-IP header,
		// forwarded host x proto, forwarded URI x path, host x forwarded host)
		byName := map[string][]string{}
		for _, f := range fields {
			byName[f.Name] = f.Vals
		}
		pairs := [][3]string{{"remote", "clientip", "/x"}, {"remote", "clientip", "/oauth2/callback"}, {"xfh", "xfp", "/oauth2/start"}, {"xfh", "xfp", "/oauth2/sign_out"}, {"xfu", "xfh", "/oauth2/auth"}, {"host", "xfh", "/x"}, {"xfu", "rd", "/oauth2/start"}}
		if !strings.HasPrefix(cfg.Name, "reverse-proxy/") && !run.Env.Thorough() {
			pairs = pairs[:1] // outside reverse-proxy mode the forwarding headers are inert (C16): one pair family suffices in quick
		}
		for _, pr := range pairs {
			for _, a := range byName[pr[0]] {
				for _, b := range byName[pr[1]] {
					if len(a) > 500 || len(b) > 500 {
						continue
					}
					jobs = append(jobs, job{c19Choice{pr[0]: a, pr[1]: b, "path": pr[2]}, pr[0] + "+" + pr[1]})
				}
			}
		}
		// phase 2: random combinations
		nr := nRandom
		if strings.HasPrefix(cfg.Name, "reverse-proxy/") {
			nr /= 2
		}
		for k := 0; k < nr; k++ {
			ch := c19Choice{}
			n := 2 + rng.Intn(5)
			for m := 0; m < n; m++ {
				f := fields[rng.Intn(len(fields))]
				ch[f.Name] = c19Pick(rng, f.Vals)
				for c.HeavyJunk[ch[f.Name]] {
					ch[f.Name] = c19Pick(rng, f.Vals)
				}
			}
			if _, ok := ch["cookie"]; !ok && rng.Intn(2) == 0 {
				ch["cookie"] = c.Sess[rng.Intn(len(c.Sess))]
			}
			jobs = append(jobs, job{ch, "combo"})
		}
		vfParallel(len(jobs), 6, func(i int) { c19Serve(run, c, jobs[i].ch, jobs[i].mut) })
		// phase 3: corrupted values in the store under a valid ticket
		if cfg.Redis {
			c19RedisCorruption(run, w, c, rng)
		}
	})
	t4 := time.Now()
	c19OddIdentities(run, w, idp2, htp)
	t5 := time.Now()
	c19ClientGivesUp(run, t, htp)
	t6 := time.Now()
	c19ConfigSpace(run, w, htp)
	c19HostileFraming(run, t)
	t7 := time.Now()
	c19ProviderTypes(run, w) // provider-type sweep (c19_providers.go); sets the global clock mock, nothing else runs now
	run.Extra("provider_types_seconds", time.Since(t7).Seconds())
	run.Extra("phase_seconds", map[string]float64{"requests_grammar": t4.Sub(run.start).Seconds(), "odd_identities": t5.Sub(t4).Seconds(), "client_gives_up": t6.Sub(t5).Seconds(), "configuration_space": time.Since(t6).Seconds()})
	run.Extra("configurations", len(cfgs))
	// a data race between request handlers is a latent crash (concurrent map access is a fatal error no recover() sees)
	run.RaceCheck("c19:data-race-in-request-handling", "/repo/pkg/", "/repo/oauthproxy.go", "/repo/providers/", "/repo/validator.go")
	run.Finish(20000, 150)
}

func c19RedisCorruption(run *vfRun, w *vfWorld, c *c19Ctx, rng *rand.Rand) {
	mr := w.Redis()
	b := vfNewBrowser("")
	if _, _, err := b.Login(c.P, vfStdIdentity, "/"); err != nil {
		run.T.Fatalf("redis corruption login: %v", err)
	}
	ck := vfCookieHeader(b.Jar.For("proxy.test", "/", false))
	var key string
	before := map[string]bool{}
	for _, k := range mr.Keys() {
		before[k] = true
	}
	// find the key of this session: the newest key not ending in .lock; identify by elimination using a fresh login
	keys := mr.Keys()
	var orig string
	for _, k := range keys {
		if strings.HasSuffix(k, ".lock") {
			continue
		}
		v, _ := mr.Get(k)
		// try: corrupt and see whether this browser's session disappears
		_ = mr.Set(k, "x")
		r := c.P.Do(vfGET("/oauth2/userinfo").H("Cookie", ck))
		_ = mr.Set(k, v)
		if r.Code != 200 {
			key, orig = k, v
			break
		}
	}
	if key == "" {
		run.Inconclusive("redis key of the session not found")
		return
	}
	ttl := mr.TTL(key)
	vals := []string{"", "x", strings.Repeat("y", 11), strings.Repeat("y", 12), strings.Repeat("y", 13), strings.Repeat("y", 28), orig[:len(orig)/2], orig[:len(orig)-1], orig + "z", strings.Repeat(orig, 2)}
	for k := 0; k < run.Env.Pick(60, 600); k++ {
		m := []byte(orig)
		switch rng.Intn(3) {
		case 0:
			m[rng.Intn(len(m))] ^= byte(1 << uint(rng.Intn(8)))
		case 1:
			m = m[:rng.Intn(len(m))]
		case 2:
			binary.BigEndian.PutUint32(m[rng.Intn(len(m)-4):], rng.Uint32())
		}
		vals = append(vals, string(m))
	}
	for _, v := range vals {
		_ = mr.Set(key, v)
		mr.SetTTL(key, ttl)
		for _, pth := range []string{"/x", "/oauth2/userinfo", "/oauth2/auth", "/oauth2/sign_out"} {
			c19Serve(run, c, c19Choice{"path": pth, "cookie": ck}, "redis-value")
			_ = mr.Set(key, v)
		}
	}
	_ = mr.Set(key, orig)
}
