//go:build verif

package main

import "testing"

func TestVerif_C06Self(t *testing.T) {
	n, f := c06SelfTest()
	t.Logf("%d self-tests, %d failures", n, len(f))
	for _, x := range f {
		t.Error(x)
	}
}
