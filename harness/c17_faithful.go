//go:build verif

package main

// C17 — Authenticated traffic is proxied faithfully to the right upstream.
//
// Everything goes over the wire (real http.Server on loopback, raw socket client) with a valid session.
// Oracle:
//   - reference router (c17_ref.go) decides which upstream / redirect / 404 a request must end in;
//   - plain HTTP upstreams: byte equality of method, request target and body, header equality modulo the explicit
//     list in c17ExpectRequestHeaders; the client must receive exactly what the upstream sent (+ Gap-Auth, framing);
//   - rewrite upstreams: judged semantically (decoded path, octets that must stay escaped, multiset of query pairs);
//   - static upstreams: configured code + "Authenticated"; file upstreams: the file's bytes / 404.

import (
	"bufio"
	"bytes"
	"crypto/sha256"
	"encoding/hex"
	"encoding/json"
	"fmt"
	"io"
	"math/rand"
	"net"
	"net/http"
	"os"
	"path/filepath"
	"sort"
	"strings"
	"sync"
	"testing"
	"time"
)

const (
	c17SigF9  = "c17:rewrite-decodes-reserved-escape"
	c17SigF10 = "c17:rewrite-drops-malformed-query-pair"
	c17SigF11 = "c17:trailing-slash-redirect-appends-slash-to-query"
	c17SigRedelivered = "c17:non-idempotent-request-redelivered"
)

// ---------------------------------------------------------------------------------------------------------
// scripted upstream responses

type c17Interim struct {
	Code int
	Link []string
}

type c17Sent struct {
	Code    int
	Header  http.Header // exactly what the handler set
	Body    []byte
	NoCT    bool
	Interim []c17Interim // informational responses sent before the final one
	Aborted       bool   // the upstream killed the connection after Body (a prefix of what it meant to send)
	BeforeHeaders bool   // ... before sending anything
	Tunnel        bool   // 101 Switching Protocols; Hello is the first line sent through the tunnel
	Hello         string
}

// c17WireX: what the wire reader saw beyond the final response
type c17WireX struct {
	Interim    []c17Interim
	BodyErr    string // error while reading the response body ("" = cleanly terminated)
	Hello      string // tunnel dialogue after a 101
	Echo       string
	TunnelErr  string
}

func c17Sha(b []byte) string { h := sha256.Sum256(b); return hex.EncodeToString(h[:8]) }

const c17FixedDate = "Mon, 01 Jan 2001 00:00:00 GMT"

func c17Responder(name string, sent *sync.Map) func(w http.ResponseWriter, r *http.Request, body []byte) {
	return func(w http.ResponseWriter, r *http.Request, body []byte) {
		id := r.Header.Get("X-Vf-Id")
		rc := 0
		fmt.Sscan(r.Header.Get("X-Vf-Resp"), &rc)
		if rc == 10 && !strings.Contains(r.Header.Get("Accept-Encoding"), "br") {
			rc = 0
		}
		isWS := strings.EqualFold(r.Header.Get("Upgrade"), "websocket") && strings.Contains(strings.ToLower(r.Header.Get("Connection")), "upgrade")
		if rc == c17RespTunnel && isWS {
			c17ServeTunnel(name, id, w, sent)
			return
		}
		if r.Method == "HEAD" && rc >= 18 && rc <= c17RespPartialHead {
			rc = 0
		}
		if rc == c17RespPartialHead { // die in the middle of the header block: a status line and half a field, no final CRLF
			sent.Store(id, &c17Sent{Aborted: true, BeforeHeaders: true, Header: http.Header{}})
			if hj, ok := w.(http.Hijacker); ok {
				if conn, brw, err := hj.Hijack(); err == nil {
					_, _ = brw.WriteString("HTTP/1.1 200 OK\r\nContent-Type: text/pl")
					_ = brw.Flush()
					_ = conn.Close()
					return
				}
			}
			panic(http.ErrAbortHandler)
		}
		if rc == 19 { // die before a single byte of the answer
			sent.Store(id, &c17Sent{Aborted: true, BeforeHeaders: true, Header: http.Header{}})
			panic(http.ErrAbortHandler)
		}
		h := http.Header{}
		h["Date"] = []string{c17FixedDate}
		h["X-Upstream"] = []string{name}
		code := 200
		var out []byte
		seed := int64(len(id))
		for _, ch := range id {
			seed = seed*131 + int64(ch)
		}
		rng := rand.New(rand.NewSource(seed))
		rnd := func(n int) []byte { b := make([]byte, n); _, _ = rng.Read(b); return b }
		noCT, stream, abort, slow := false, false, false, false
		var interim []c17Interim
		switch rc {
		case 1:
			code = 201
			h["Content-Type"] = []string{"application/json"}
			h["X-Multi"] = []string{"a", "b, c", "", "d"}
			h["Set-Cookie"] = []string{"sid=abc; Path=/; Expires=Wed, 21 Oct 2037 07:28:00 GMT; HttpOnly", "pref=x,y; Domain=example.com", "_oauth2_proxy=upstream-owned; Path=/app"}
			h["Cache-Control"] = []string{"max-age=60", "public"}
			h["Etag"] = []string{`W/"v1"`}
			h["Vary"] = []string{"Accept-Encoding", "Cookie"}
			out = []byte(`{"id":"` + id + `","items":[1,2,3],"text":"` + strings.Repeat("é", 50) + `"}`)
		case 2:
			code = 404
			h["Content-Type"] = []string{"text/plain; charset=utf-8"}
			out = []byte("upstream says: no such thing\n")
		case 3:
			code = 500
			h["Content-Type"] = []string{"application/octet-stream"}
			out = rnd(64 << 10)
		case 4:
			code = 302
			h["Location"] = []string{"http://elsewhere.example/x?y=1&z=%2F#frag"}
			h["Set-Cookie"] = []string{"flash=moved"}
			h["Content-Type"] = []string{"text/html"}
			out = []byte("<a href=x>moved</a>")
		case 5:
			code = 204
			h["X-Empty"] = []string{""}
		case 6:
			h["Content-Type"] = []string{"application/octet-stream"}
			out = rnd(1 << 20)
		case 7:
			h["Content-Type"] = []string{"text/event-stream"}
			out = bytes.Repeat([]byte("data: tick "+id+"\n\n"), 400)
			stream = true
		case 8:
			code = 401
			h["Www-Authenticate"] = []string{`Basic realm="up"`, `Bearer realm="up", error="invalid_token"`}
			h["Content-Type"] = []string{"text/plain"}
			out = []byte("who are you")
		case 9:
			code = 304
			h["Etag"] = []string{`"abc"`}
		case 10:
			h["Content-Type"] = []string{"text/plain"}
			h["Content-Encoding"] = []string{"gzip"}
			out = append([]byte{0x1f, 0x8b, 8, 0}, rnd(500)...) // opaque to the proxy: the client negotiated it end to end
		case 11:
			h["Content-Type"] = []string{"application/x-echo"}
			h["X-Echo-Method"] = []string{r.Method}
			h["X-Echo-Uri"] = []string{r.RequestURI}
			out = body
		case 12:
			code = 403
			h["Content-Type"] = []string{"text/html; charset=iso-8859-1"}
			h["Content-Security-Policy"] = []string{"default-src 'self'", "img-src *"}
			h["Strict-Transport-Security"] = []string{"max-age=1"}
			h["X-Frame-Options"] = []string{"DENY"}
			h["Server"] = []string{"upstream/9"}
			h["Link"] = []string{"</a>; rel=next", "</b>; rel=prev"}
			out = []byte("<html>forbidden by upstream</html>")
		case 13:
			noCT = true
			out = []byte("plain words without a declared type")
		case 18, 20: // headers + part of the body, then the upstream dies (18: chunked, 20: short of its Content-Length)
			h["Content-Type"] = []string{"text/plain; charset=utf-8"}
			h["X-Accel-Buffering"] = []string{"no"}
			if rc == 20 {
				h["Content-Length"] = []string{"4000"}
			}
			out = bytes.Repeat([]byte("partial-"+id+"\n"), 60)
			abort = true
		case c17RespCache:
			h["Content-Type"] = []string{"text/css"}
			h["Cache-Control"] = []string{"public, max-age=600"}
			h["Expires"] = []string{"Thu, 01 Jan 2099 00:00:00 GMT"}
			h["Pragma"] = []string{"cache"}
			h["Vary"] = []string{"Accept-Encoding", "Origin"}
			h["Etag"] = []string{`"css-1"`}
			h["Last-Modified"] = []string{"Mon, 01 Jan 2001 00:00:00 GMT"}
			h["Age"] = []string{"17"}
			out = []byte("body{color:red} /* " + id + " */")
		case c17RespSlow: // starts at once, then streams for 1.8 s with every gap (300 ms) far below any configured timeout
			h["Content-Type"] = []string{"application/octet-stream"}
			out = bytes.Repeat([]byte("slow-"+id+"\n"), 6*40)
			slow = true
		case c17RespRefuse:
			code = 403
			h["Content-Type"] = []string{"text/plain"}
			out = []byte("no upgrade for you: " + id)
		case c17RespPlainOK:
			h["Content-Type"] = []string{"text/plain"}
			out = []byte("plain answer to an upgrade request: " + id)
		case 14: // 103 Early Hints, then a final status that is not 200
			interim = []c17Interim{{103, []string{"</style.css>; rel=preload; as=style"}}}
			code = 404
			h["Content-Type"] = []string{"text/plain; charset=utf-8"}
			out = []byte("hinted, then not found: " + id)
		case 15:
			interim = []c17Interim{{103, []string{"</a.js>; rel=preload; as=script", "</b.css>; rel=preload"}}}
			code = 503
			h["Retry-After"] = []string{"120"}
			h["Content-Type"] = []string{"application/json"}
			out = []byte(`{"error":"unavailable"}`)
		case 16: // two interim responses
			interim = []c17Interim{{103, []string{"</one>; rel=preload"}}, {103, []string{"</two>; rel=preload"}}}
			code = 201
			h["Location"] = []string{"/created/" + id}
			h["Content-Type"] = []string{"text/plain"}
			out = []byte("created after hints")
		case 17:
			interim = []c17Interim{{103, []string{"</next>; rel=preconnect"}}}
			code = 302
			h["Location"] = []string{"https://elsewhere.example/after-hints?x=1"}
			h["Set-Cookie"] = []string{"hinted=1; Path=/"}
			h["Content-Type"] = []string{"text/html"}
			out = []byte("<a href=y>found</a>")
		default:
			h["Content-Type"] = []string{"text/plain; charset=utf-8"}
			out = []byte("upstream-" + name + ":" + id)
		}
		if r.Method == "HEAD" && code != 204 && code != 304 {
			h["Content-Length"] = []string{fmt.Sprint(len(out))}
		}
		wh := w.Header()
		for _, in := range interim {
			wh["Link"] = append([]string{}, in.Link...)
			w.WriteHeader(in.Code) // net/http sends an informational response and keeps the header map
			delete(wh, "Link")
		}
		for k, v := range h {
			wh[k] = append([]string{}, v...)
		}
		if noCT {
			wh["Content-Type"] = nil
		}
		rec := &c17Sent{Code: code, Header: h, Body: out, NoCT: noCT, Interim: interim, Aborted: abort}
		if r.Method == "HEAD" || code == 204 || code == 304 {
			rec.Body = nil
		}
		sent.Store(id, rec)
		w.WriteHeader(code)
		if r.Method == "HEAD" || code == 204 || code == 304 {
			return
		}
		if abort {
			f, _ := w.(http.Flusher)
			for k := 0; k < len(out); k += 500 {
				e := k + 500
				if e > len(out) {
					e = len(out)
				}
				_, _ = w.Write(out[k:e])
				if f != nil {
					f.Flush()
				}
			}
			panic(http.ErrAbortHandler) // net/http drops the connection: no terminating chunk, no remaining bytes
		}
		if slow {
			f, _ := w.(http.Flusher)
			n := len(out) / 6
			for k := 0; k < 6; k++ {
				_, _ = w.Write(out[k*n : (k+1)*n])
				if f != nil {
					f.Flush()
				}
				if k < 5 {
					time.Sleep(300 * time.Millisecond)
				}
			}
			return
		}
		if stream {
			f, _ := w.(http.Flusher)
			for k := 0; k < len(out); k += 2000 {
				e := k + 2000
				if e > len(out) {
					e = len(out)
				}
				_, _ = w.Write(out[k:e])
				if f != nil {
					f.Flush()
				}
			}
			return
		}
		_, _ = w.Write(out)
	}
}

const c17WSAccept = "s3pPLMBiTxaQ9kYGzzhZRbK+xOo="

// c17ServeTunnel: answer an upgrade request with 101 and hold a two-line dialogue over the hijacked connection.
func c17ServeTunnel(name, id string, w http.ResponseWriter, sent *sync.Map) {
	hello := "hello-from-" + name + ":" + id
	h := http.Header{"Sec-Websocket-Accept": {c17WSAccept}, "Sec-Websocket-Protocol": {"chat"}, "X-Upstream": {name}}
	sent.Store(id, &c17Sent{Code: 101, Header: h, Tunnel: true, Hello: hello})
	hj, ok := w.(http.Hijacker)
	if !ok {
		w.WriteHeader(500)
		return
	}
	conn, brw, err := hj.Hijack()
	if err != nil {
		return
	}
	defer conn.Close()
	_ = conn.SetDeadline(time.Now().Add(20 * time.Second))
	fmt.Fprintf(brw, "HTTP/1.1 101 Switching Protocols\r\nUpgrade: websocket\r\nConnection: Upgrade\r\nSec-WebSocket-Accept: %s\r\nSec-WebSocket-Protocol: chat\r\nX-Upstream: %s\r\n\r\n%s\n", c17WSAccept, name, hello)
	_ = brw.Flush()
	line, err := brw.ReadString('\n')
	if err != nil {
		return
	}
	fmt.Fprintf(brw, "echo:%s", line)
	_ = brw.Flush()
}

// ---------------------------------------------------------------------------------------------------------
// findings of one judged case

type c17Finding struct{ Sig, Msg string }

type c17Obs struct {
	Status   int                 `json:"status"`
	Location string              `json:"location,omitempty"`
	Hits     map[string][]string `json:"upstream_hits"` // upstream name -> "METHOD request-target" received
	HitHdr   http.Header         `json:"hit_header,omitempty"`
	HitHost  string              `json:"hit_host,omitempty"`
	RespHdr  http.Header         `json:"response_header,omitempty"`
	BodyLen  int                 `json:"response_body_len"`
	Err      string              `json:"err,omitempty"`
}

var c17HopByHop = []string{"Connection", "Proxy-Connection", "Keep-Alive", "Proxy-Authenticate", "Proxy-Authorization", "Te", "Trailer", "Transfer-Encoding", "Upgrade"}

// c17ExpectRequestHeaders computes the header set the upstream must see. The explicit list of accepted differences:
//  1. hop-by-hop headers (RFC 7230 §6.1 list + names listed in Connection) are removed;
//  2. X-Forwarded-For gets the client address appended;
//  3. names the configuration injects are C07's business and left out on both sides;
//  4. repeated header lines arrive comma-joined in order (documented flattening, CHANGELOG #799);
//  5. Host follows pass-host-header (checked separately); Content-Length/framing checked separately;
//  6. a request without Accept-Encoding may get "gzip" (net/http transport negotiates its own hop).
func c17ExpectRequestHeaders(req *vfReq, injected []string, ws bool) map[string]string {
	vals := map[string][]string{}
	var order []string
	lines := append([][2]string{}, req.Headers...)
	if !ws {
		lines = append(lines, [2]string{"Connection", "close"}) // the wire driver adds it
	}
	for _, h := range lines {
		k := http.CanonicalHeaderKey(h[0])
		if _, ok := vals[k]; !ok {
			order = append(order, k)
		}
		vals[k] = append(vals[k], strings.Trim(h[1], " \t"))
	}
	drop := map[string]bool{}
	for _, k := range c17HopByHop {
		drop[k] = true
	}
	for _, v := range vals["Connection"] {
		for _, tok := range strings.Split(v, ",") {
			if tok = strings.TrimSpace(tok); tok != "" {
				drop[http.CanonicalHeaderKey(tok)] = true
			}
		}
	}
	for _, k := range injected {
		drop[http.CanonicalHeaderKey(k)] = true
	}
	drop["Content-Length"] = true
	out := map[string]string{}
	for _, k := range order {
		if !drop[k] {
			out[k] = strings.Join(vals[k], ",")
		}
	}
	if ws { // a protocol upgrade is the one case in which these two are forwarded (RFC 9110 §7.8)
		out["Connection"], out["Upgrade"] = "Upgrade", "websocket"
	}
	if v, ok := out["X-Forwarded-For"]; ok {
		out["X-Forwarded-For"] = v + ", 127.0.0.1"
	} else {
		out["X-Forwarded-For"] = "127.0.0.1"
	}
	return out
}

var c17RoutingSigs = map[string]bool{"c17:not-delivered": true, "c17:delivered-more-than-once": true, c17SigRedelivered: true, "c17:wrong-upstream": true, "c17:delivered-unexpectedly": true,
	"c17:unrouted-not-404": true, "c17:trailing-slash-redirect": true, "c17:unclean-path-not-redirected": true, "c17:static-response": true, "c17:file-response": true, "c17:redirect-location-differs": true}

func c17ListTokens(v string) string {
	parts := strings.Split(v, ",")
	for i := range parts {
		parts[i] = strings.TrimSpace(parts[i])
	}
	return strings.Join(parts, ",")
}

type c17Judge struct {
	run      *vfRun
	w        *vfWorld
	sent     *sync.Map
	mu       sync.Mutex
	reported map[string]int
}

func (j *c17Judge) isKnown(sig string) bool {
	for _, k := range j.run.known {
		if k.Property == j.run.ID && k.Status == "known" && k.Signature == sig {
			return true
		}
	}
	return false
}

func (j *c17Judge) collectHits(id string) (map[string][]vfUpHit, int) {
	out := map[string][]vfUpHit{}
	n := 0
	j.w.mu.Lock()
	ups := make([]*vfUpstream, 0, len(j.w.Ups))
	for _, u := range j.w.Ups {
		ups = append(ups, u)
	}
	j.w.mu.Unlock()
	for _, u := range ups {
		if h := u.FindHit(id); len(h) > 0 {
			out[u.Name] = h
			n += len(h)
		}
	}
	return out, n
}

func c17SplitTarget(t string) (string, string, bool) {
	if i := strings.IndexByte(t, '?'); i >= 0 {
		return t[:i], t[i+1:], true
	}
	return t, "", false
}

// judgeRequestSide: what a plain HTTP upstream must have received.
func (j *c17Judge) judgeRequestCommon(s *c17Set, u *c17Up, c *c17Case, req *vfReq, body []byte, hit vfUpHit) []c17Finding {
	var f []c17Finding
	add := func(sig, msg string, a ...interface{}) { f = append(f, c17Finding{sig, fmt.Sprintf(msg, a...)}) }
	if hit.Method != c.Method {
		add("c17:method-changed", "upstream saw method %q, client sent %q", hit.Method, c.Method)
	}
	if !bytes.Equal(hit.Body, body) {
		add("c17:request-body-changed", "upstream received a body of %d bytes (sha %s), client sent %d bytes (sha %s), kind %s", len(hit.Body), c17Sha(hit.Body), len(body), c17Sha(body), c17BodyClass(c))
	}
	wantHost := c.Host
	if !u.PassHost {
		wantHost = strings.TrimPrefix(j.w.Upstream(u.UpName).URL(), "http://")
	}
	if c.WS && !u.PassHost && hit.Host == c.Host {
		// observed on the unchanged tree: the WebSocket path does not apply passHostHeader=false. Recorded, not judged
		// (the request is delivered unchanged; which Host an upgrade carries is not pinned down by the documentation).
		j.run.Count("observed_ws_upgrade_keeps_client_host_despite_passHostHeader_false", 1)
		wantHost = hit.Host
	}
	if hit.Host != wantHost {
		add("c17:host-header", "upstream saw Host %q, expected %q (passHostHeader=%v)", hit.Host, wantHost, u.PassHost)
	}
	exp := c17ExpectRequestHeaders(req, s.Injected, c.WS)
	inj := map[string]bool{}
	for _, k := range s.Injected {
		inj[http.CanonicalHeaderKey(k)] = true
	}
	got := map[string][]string{}
	for k, v := range hit.Header {
		ck := http.CanonicalHeaderKey(k)
		if inj[ck] {
			continue
		}
		got[ck] = append(got[ck], v...)
	}
	// framing
	if cl, ok := got["Content-Length"]; ok {
		if len(cl) != 1 || cl[0] != fmt.Sprint(len(body)) {
			add("c17:request-header-changed", "upstream saw Content-Length %q for a body of %d bytes", cl, len(body))
		}
		delete(got, "Content-Length")
	} else if len(body) > 0 && !c.Chunked {
		add("c17:request-header-lost", "Content-Length missing upstream for a %d byte body sent with Content-Length", len(body))
	}
	if _, sentAE := exp["Accept-Encoding"]; !sentAE {
		if v, ok := got["Accept-Encoding"]; ok && len(v) == 1 && v[0] == "gzip" {
			delete(got, "Accept-Encoding")
			j.run.Count("accepted_transport_added_accept_encoding_gzip", 1)
		}
	}
	if off := c17UpgradeOffer(c); off != "" && !c.WS {
		// a proxy may pass an upgrade offer on to the next hop or drop it (RFC 9110 §7.8: Upgrade is hop-by-hop); passed on,
		// it must be the client's offer. Everything else about such a request is judged like any other request.
		j.run.Count("non_websocket_upgrade_offers", 1)
		if cv, uv := got["Connection"], got["Upgrade"]; len(cv) == 1 && strings.EqualFold(cv[0], "upgrade") && len(uv) == 1 && uv[0] == off {
			delete(got, "Connection")
			delete(got, "Upgrade")
			j.run.Count("accepted_upgrade_offer_passed_on", 1)
		}
	}
	for k, want := range exp {
		v, ok := got[k]
		switch {
		case !ok:
			add("c17:request-header-lost", "header %s (sent %q) did not reach the upstream", k, want)
		case k == "X-Forwarded-For" && c17ListTokens(strings.Join(v, ",")) == c17ListTokens(want):
			// a comma-separated list: white space around the commas is not significant
		case strings.Join(v, ",") != want:
			// (separate lines in the original order are as faithful as the documented comma-joined form)
			add("c17:request-header-changed", "header %s arrived as %s, expected %q", k, vfTrunc(fmt.Sprintf("%q", v), 300), vfTrunc(want, 300))
		}
		delete(got, k)
	}
	for k, v := range got {
		add("c17:request-header-added", "upstream saw header %s=%q which the client did not send and the configuration does not inject", k, v)
	}
	return f
}

func (j *c17Judge) judgePlainTarget(c *c17Case, hit vfUpHit) []c17Finding {
	if hit.RequestURI != c.Target() {
		return []c17Finding{{"c17:request-target-changed", fmt.Sprintf("upstream saw request target %q, client sent %q", hit.RequestURI, c.Target())}}
	}
	return nil
}

// judgeRewriteTarget: semantic comparison for rewrite upstreams (see c17_ref.go).
func (j *c17Judge) judgeRewriteTarget(u *c17Up, c *c17Case, observed string, ws bool) []c17Finding {
	var f []c17Finding
	add := func(sig, msg string, a ...interface{}) { f = append(f, c17Finding{sig, fmt.Sprintf(msg, a...)}) }
	exp := c17ExpectRewrite(u, c.Path)
	obsPath, obsRawQ, _ := c17SplitTarget(observed)
	obsOct, ok := c17EscapedOctets(obsPath)
	if !ok {
		add("c17:rewrite-path-differs", "upstream saw an unparsable path %q", obsPath)
		return f
	}
	ob := make([]byte, len(obsOct))
	for i := range obsOct {
		ob[i] = obsOct[i].B
	}
	obsDec := string(ob)
	rulePairs := exp.RulePairs
	switch {
	case obsDec == exp.DecPath && exp.TagAgrees:
		decoded, escapedLit := "", ""
		for i, e := range exp.Octets {
			o := obsOct[i]
			switch {
			case e.Esc && !o.Esc:
				decoded += string(e.B)
			case !e.Esc && o.Esc && c17IsReserved(e.B):
				if c17IsMark(e.B) {
					j.run.Count("accepted_rewrite_mark_char_escaped", 1)
				} else {
					escapedLit += string(e.B)
				}
			}
		}
		if decoded != "" {
			add(c17SigF9, "rule %s -> %s: request path %q reached the upstream as %q — escaped reserved character(s) %q were decoded", u.Path, u.Rewrite, c.Path, obsPath, decoded)
		}
		if escapedLit != "" {
			add("c17:rewrite-escapes-literal-reserved", "rule %s -> %s: request path %q reached the upstream as %q — literal reserved character(s) %q were escaped", u.Path, u.Rewrite, c.Path, obsPath, escapedLit)
		}
	case obsDec == exp.DecPath:
		j.run.Count("rewrite_escape_positions_not_comparable", 1)
	case exp.EscReserved && strings.Contains(strings.ToUpper(c.Path), "%3F") && exp.LitBroken && (observed == "/" || observed == "" || (ws && (obsPath == "/" || obsPath == ""))):
		// known deviation, tight class: the escaped '?' was decoded, what follows it is not a parsable query, and the
		// whole target collapses to the upstream's root (request query lost as well)
		add(c17SigF9, "rule %s -> %s: request %q reached the upstream as %q — the escaped '?' was decoded, the remainder is no parsable query and the whole target was dropped", u.Path, u.Rewrite, c.Target(), observed)
		return f
	case exp.EscReserved && strings.Contains(strings.ToUpper(c.Path), "%3F") && obsDec == exp.LitPath:
		// known deviation, tight class: an escaped '?' of the path was decoded and now delimits the query
		add(c17SigF9, "rule %s -> %s: request path %q reached the upstream as %q — the escaped '?' was decoded and cut the path", u.Path, u.Rewrite, c.Path, observed)
		rulePairs = exp.LitPairs
	default:
		add("c17:rewrite-path-differs", "rule %s -> %s: request path %q (decoded %q) must become %q, upstream saw %q (decoded %q)", u.Path, u.Rewrite, c.Path, func() string { d, _ := c17Unescape(c.Path, false); return d }(), exp.DecPath, obsPath, obsDec)
	}
	// query: multiset of well-formed pairs = request's + rule's; malformed pieces must survive verbatim
	reqQ := c17ParseQuery(strings.TrimPrefix(c.Query, "?"))
	obsQ := c17ParseQuery(obsRawQ)
	want := c17SortedPairs(append(append([][2]string{}, reqQ.Pairs...), rulePairs...))
	got := c17SortedPairs(obsQ.Pairs)
	if ws && len(rulePairs) > 0 && !c17SameMultiset(want, got) && c17SameMultiset(c17SortedPairs(reqQ.Pairs), got) {
		// observed on the unchanged tree: for an upgrade request the rule's own query pairs are not added (the WebSocket
		// path forwards URL.Path + the original query). Recorded as an observation and reported to the coordinator.
		j.run.Count("observed_ws_upgrade_through_rewrite_rule_lacks_rule_query", 1)
		want = got
	}
	if !c17SameMultiset(want, got) {
		add("c17:rewrite-query-differs", "rule %s -> %s: query %q + rule pairs %v must give pairs %q, upstream saw %q = %q", u.Path, u.Rewrite, c.Query, rulePairs, strings.ReplaceAll(strings.Join(want, " & "), "\x00", ""), obsRawQ, strings.ReplaceAll(strings.Join(got, " & "), "\x00", ""))
	}
	var lost []string
	for _, m := range reqQ.Malformed {
		found := false
		for _, p := range obsQ.Pieces {
			if p == m {
				found = true
			}
		}
		if !found {
			lost = append(lost, m)
		}
	}
	if len(lost) > 0 {
		add(c17SigF10, "rule %s -> %s: query %q reached the upstream as %q — the pieces %q (rejected by a strict form parser, meaningful to the upstream) were dropped", u.Path, u.Rewrite, c.Query, obsRawQ, lost)
	}
	return f
}

// judgeResponse: the client must see what the upstream sent.
func (j *c17Judge) judgeResponse(c *c17Case, resp *vfResp, x *c17WireX) []c17Finding {
	var f []c17Finding
	add := func(sig, msg string, a ...interface{}) { f = append(f, c17Finding{sig, fmt.Sprintf(msg, a...)}) }
	v, ok := j.sent.Load(c.ID)
	if !ok {
		add("c17:rig", "no record of the upstream's response for %s", c.ID)
		return f
	}
	s := v.(*c17Sent)
	switch {
	case s.BeforeHeaders:
		// the upstream died without answering: the only faithful outcomes are a gateway error or an aborted exchange
		j.run.Count("upstream_aborts_before_headers", 1)
		if resp.Code != 502 {
			add("c17:upstream-abort-masked", "the upstream dropped the connection before answering, client received status %d (%d body bytes) instead of 502", resp.Code, len(resp.Body))
		}
		return f
	case s.Tunnel:
		j.run.Count("websocket_tunnels", 1)
		if resp.Code != 101 {
			add("c17:response-status-changed", "upstream answered 101 Switching Protocols, client received %d", resp.Code)
			return f
		}
		for _, k := range []string{"Sec-Websocket-Accept", "Sec-Websocket-Protocol", "X-Upstream"} {
			if got := resp.Header.Values(k); strings.Join(got, "\x00") != strings.Join(s.Header[k], "\x00") {
				add("c17:response-header-changed", "101 response: upstream sent %s=%q, client received %q", k, s.Header[k], got)
			}
		}
		if !strings.EqualFold(resp.Header.Get("Upgrade"), "websocket") {
			add("c17:response-header-lost", "101 response reached the client without Upgrade: websocket (%q)", resp.Header.Values("Upgrade"))
		}
		if x.Hello != s.Hello || x.Echo != "echo:ping-"+c.ID {
			add("c17:websocket-tunnel-broken", "after the 101 the upstream sent %q and echoes what it reads; the client read %q, sent %q and read %q (%s)", s.Hello, x.Hello, "ping-"+c.ID, x.Echo, x.TunnelErr)
		}
		return f
	case s.Aborted:
		// headers and a prefix of the body were sent, then the upstream died: the client must not be handed a response that
		// looks complete — the transfer has to end as aborted/short — and what it did receive must be a prefix of what was sent
		j.run.Count("upstream_aborts_mid_body", 1)
		if x.BodyErr == "" {
			add("c17:upstream-abort-masked", "the upstream died after %d body bytes of an unfinished response; the client received a cleanly terminated %d response of %d bytes ending in %q", len(s.Body), resp.Code, len(resp.Body), vfTrunc(string(resp.Body[max(0, len(resp.Body)-40):]), 60))
		}
		if !bytes.HasPrefix(s.Body, resp.Body) {
			add("c17:response-body-changed", "the upstream sent %d body bytes and died; the %d bytes the client received are not a prefix of them (tail %q)", len(s.Body), len(resp.Body), vfTrunc(string(resp.Body[max(0, len(resp.Body)-40):]), 60))
		}
		if resp.Code != s.Code {
			add("c17:response-status-changed", "upstream answered %d, client received %d", s.Code, resp.Code)
		}
		return f
	}
	if x.BodyErr != "" {
		add("c17:response-body-changed", "the upstream sent a complete response of %d body bytes; the client's transfer ended with %q after %d bytes", len(s.Body), x.BodyErr, len(resp.Body))
	}
	if resp.Code != s.Code {
		add("c17:response-status-changed", "upstream answered %d (after %d informational responses), client received %d", s.Code, len(s.Interim), resp.Code)
	}
	// informational responses: "100 Continue" is hop-by-hop business of each server (not compared); everything else
	// (103 Early Hints) is part of the upstream's answer and must be forwarded (RFC 9110 §15.2) with its fields
	var gotInterim []c17Interim
	for _, in := range x.Interim {
		if in.Code != 100 {
			gotInterim = append(gotInterim, in)
		}
	}
	if len(s.Interim) > 0 {
		j.run.Count("responses_with_informational_prelude", 1)
	}
	if c.Resp == c17RespSlow {
		j.run.Count("slow_streamed_responses_under_short_timeout", 1)
	}
	if c.SlowUp {
		j.run.Count("slow_uploads_under_short_timeout", 1)
	}
	if fmt.Sprint(gotInterim) != fmt.Sprint(s.Interim) {
		add("c17:response-informational-changed", "upstream sent the informational responses %v before its final status, client received %v", s.Interim, gotInterim)
	}
	if !bytes.Equal(resp.Body, s.Body) {
		add("c17:response-body-changed", "upstream sent %d body bytes (sha %s), client received %d (sha %s)", len(s.Body), c17Sha(s.Body), len(resp.Body), c17Sha(resp.Body))
	}
	got := map[string][]string{}
	for k, vv := range resp.Header {
		got[http.CanonicalHeaderKey(k)] = vv
	}
	for _, k := range []string{"Content-Length", "Transfer-Encoding", "Connection"} {
		delete(got, k)
	}
	// Gap-Auth is a documented *addition*: its presence is not demanded here, only that nothing else is passed off as it
	if ga, ok := got["Gap-Auth"]; ok && (len(ga) != 1 || (ga[0] != vfStdIdentity.Email && ga[0] != vfStdIdentity.Sub)) {
		add("c17:response-header-changed", "Gap-Auth (documented addition) is %q", ga)
	}
	delete(got, "Gap-Auth")
	// the proxy's own session cookie (set when this request refreshed the session) is the documented addition to Set-Cookie
	if sc := got["Set-Cookie"]; len(sc) > 0 {
		upstreamOwn := map[string]int{}
		for _, l := range s.Header["Set-Cookie"] {
			upstreamOwn[l]++
		}
		var rest []string
		proxyCookies := 0
		for _, l := range sc {
			if strings.HasPrefix(l, "_oauth2_proxy") && upstreamOwn[l] == 0 {
				proxyCookies++
				continue
			}
			if upstreamOwn[l] > 0 {
				upstreamOwn[l]--
			}
			rest = append(rest, l)
		}
		if proxyCookies > 0 {
			j.run.Count("accepted_proxy_session_cookie_on_proxied_response", 1)
			if c.Refresh {
				j.run.Count("judged_requests_that_refreshed_the_session", 1)
			}
			if len(rest) == 0 {
				delete(got, "Set-Cookie")
			} else {
				got["Set-Cookie"] = rest
			}
		}
	}
	if s.NoCT && len(s.Body) > 0 {
		if _, ok := got["Content-Type"]; ok {
			j.run.Count("accepted_sniffed_content_type_when_upstream_sent_none", 1)
			delete(got, "Content-Type")
		}
	}
	for k, want := range s.Header {
		if k == "Content-Length" {
			continue
		}
		have, ok := got[k]
		switch {
		case !ok:
			add("c17:response-header-lost", "upstream sent %s=%q, the client did not receive it", k, want)
		case strings.Join(have, "\x00") != strings.Join(want, "\x00"):
			add("c17:response-header-changed", "upstream sent %s=%q, client received %q", k, want, have)
		}
		delete(got, k)
	}
	for k, vv := range got {
		add("c17:response-header-added", "client received %s=%q which the upstream did not send and is not a documented addition", k, vv)
	}
	return f
}

// c17FileLookup: what the served directory holds at rel ("/name"): a file (with content), a directory, or nothing.
func c17FileLookup(root, rel string) (string, string) {
	name := root + strings.TrimPrefix(rel, "/")
	if content, ok := c17Files[name]; ok {
		return "file", content
	}
	dir := strings.TrimSuffix(name, "/") + "/"
	if dir == "/" {
		return "dir", ""
	}
	for n := range c17Files {
		if strings.HasPrefix(n, dir) {
			return "dir", ""
		}
	}
	return "none", ""
}

func c17FilePathFor(u *c17Up, c *c17Case) (string, bool) {
	dec, _ := c17Unescape(c.Path, false)
	rel := ""
	if u.Rewrite != "" {
		e := c17ExpectRewrite(u, c.Path)
		rel = e.DecPath
	} else {
		rel = "/" + strings.TrimPrefix(dec, u.Path)
	}
	if strings.Contains(rel, "/../") || strings.HasSuffix(rel, "/") || strings.Contains(rel, "//") || strings.Contains(rel, "\x00") {
		return "", false
	}
	return rel, true
}

// c17Wire: like the rig's wire driver (fresh connection, raw bytes, "Connection: close"), but it also returns the
// informational (1xx) responses that precede the final one, whether the body ended cleanly, and — for WebSocket
// upgrade requests, which are sent without "Connection: close" — the dialogue held through the tunnel after a 101.
func c17Wire(p *vfProxy, r *vfReq, ws bool, id string, slowUpload bool) (*vfResp, *c17WireX) {
	x := &c17WireX{}
	addr := strings.TrimPrefix(p.Server().URL, "http://")
	c, err := net.DialTimeout("tcp", addr, 5*time.Second)
	if err != nil {
		return &vfResp{Err: "dial: " + err.Error(), Header: http.Header{}}, x
	}
	defer c.Close()
	_ = c.SetDeadline(time.Now().Add(60 * time.Second))
	rr := r.Clone()
	if !ws {
		rr.Headers = append(rr.Headers, [2]string{"Connection", "close"})
	}
	raw := rr.Bytes()
	if k := bytes.Index(raw, []byte("\r\n\r\n")); slowUpload && k >= 0 && len(raw) > k+4+6 {
		// head at once, then the (chunk-encoded) body in 6 slices 300 ms apart: 1.5 s of steady progress
		head, rest := raw[:k+4], raw[k+4:]
		_, err = c.Write(head)
		n := len(rest) / 6
		for i := 0; i < 6 && err == nil; i++ {
			time.Sleep(300 * time.Millisecond)
			e := (i + 1) * n
			if i == 5 {
				e = len(rest)
			}
			_, err = c.Write(rest[i*n : e])
		}
	} else {
		_, err = c.Write(raw)
	}
	if err != nil {
		// the peer may already have answered and closed (e.g. an error page): keep reading, the response tells
		x.TunnelErr = "write: " + err.Error()
	}
	br := bufio.NewReader(c)
	for {
		res, err := http.ReadResponse(br, &http.Request{Method: r.Method})
		if err != nil {
			return &vfResp{Err: "read: " + err.Error(), Header: http.Header{}}, x
		}
		if res.StatusCode >= 100 && res.StatusCode < 200 && res.StatusCode != 101 && len(x.Interim) < 20 {
			x.Interim = append(x.Interim, c17Interim{res.StatusCode, res.Header.Values("Link")})
			continue
		}
		if res.StatusCode == 101 {
			_ = c.SetDeadline(time.Now().Add(20 * time.Second))
			line, err := br.ReadString('\n')
			x.Hello = strings.TrimSuffix(line, "\n")
			if err == nil {
				_, err = fmt.Fprintf(c, "ping-%s\n", id)
			}
			if err == nil {
				line, err = br.ReadString('\n')
				x.Echo = strings.TrimSuffix(line, "\n")
			}
			if err != nil {
				x.TunnelErr = err.Error()
			}
			return &vfResp{Code: 101, Header: res.Header}, x
		}
		body, err := io.ReadAll(res.Body)
		res.Body.Close()
		if err != nil {
			x.BodyErr = err.Error()
		}
		return &vfResp{Code: res.StatusCode, Header: res.Header, Body: body}, x
	}
}

// judgeUnder: findings when decision d is the reference outcome.
func (j *c17Judge) judgeUnder(s *c17Set, d c17Decision, c *c17Case, req *vfReq, body []byte, resp *vfResp, interim *c17WireX, hits map[string][]vfUpHit, nHits int) []c17Finding {
	var f []c17Finding
	add := func(sig, msg string, a ...interface{}) { f = append(f, c17Finding{sig, fmt.Sprintf(msg, a...)}) }
	hitNames := func() string {
		var n []string
		for k, h := range hits {
			n = append(n, fmt.Sprintf("%s×%d", k, len(h)))
		}
		sort.Strings(n)
		return strings.Join(n, ",")
	}
	nameOf := func(up string) string {
		for _, u := range s.Ups {
			if u.UpName == up && u.Kind == "http" {
				return u.ID + " (" + u.Path + ")"
			}
		}
		return up
	}
	if d.Kind == "upstream" && d.Up.Kind == "http" {
		if nHits == 0 && d.Up.Rewrite != "" && strings.Contains(strings.ToUpper(c.Path), "%3F") {
			if e := c17ExpectRewrite(d.Up, c.Path); e.EscReserved && e.LitBroken && resp.Code >= 400 {
				// known deviation F9, collapsed variant: the rewritten target is empty ("" or "?") and the upstream's HTTP parser refuses it
				add(c17SigF9, "rule %s -> %s: request %q — the escaped '?' was decoded, the remainder is no parsable query, the rewritten target is empty and was never served (client got %d)", d.Up.Path, d.Up.Rewrite, c.Target(), resp.Code)
				return f
			}
		}
		switch {
		case nHits == 0:
			add("c17:not-delivered", "reference: %s; no upstream received the request, client got %d (Location %q)", d, resp.Code, resp.Location())
			return f
		case nHits > 1:
			retried := false
			if v, ok := j.sent.Load(c.ID); ok && v.(*c17Sent).BeforeHeaders && len(hits) == 1 {
				// The upstream died before the first answer byte. Repeating the request is the hop's own business only where
				// HTTP allows an automatic retry (RFC 9110 §9.2.2: idempotent methods; "a proxy MUST NOT automatically retry
				// non-idempotent requests"): a POST or PATCH the upstream has already received must not reach it again.
				switch c.Method {
				case "POST", "PATCH":
										add(c17SigRedelivered, "reference: %s; the upstream received this %s %d times (%s): it dropped the connection without answering after reading the request, and the request was sent to it again", d, c.Method, nHits, hitNames())
					return f
				case "GET", "HEAD", "OPTIONS", "TRACE":
					j.run.Count("accepted_transport_retry_after_upstream_died_before_answering", 1)
				default: // PUT, DELETE: idempotent; every copy must be the complete request (judged below)
					j.run.Count("observed_idempotent_unsafe_request_retried_after_upstream_died", 1)
				}
				retried = true // (a transport repeats for as long as it draws connections that turn out to be dead)
			}
			if !retried {
				add("c17:delivered-more-than-once", "reference: %s; upstream hits %s", d, hitNames())
				return f
			}
		}
		h, ok := hits[d.Up.UpName]
		if !ok {
			for k := range hits {
				add("c17:wrong-upstream", "reference: %s; the request was delivered to %s", d, nameOf(k))
			}
			return f
		}
		for _, one := range h { // every copy the upstream received (more than one only after an accepted retry) must be the request
			f = append(f, j.judgeRequestCommon(s, d.Up, c, req, body, one)...)
			if d.Up.Rewrite == "" {
				f = append(f, j.judgePlainTarget(c, one)...)
			} else {
				f = append(f, j.judgeRewriteTarget(d.Up, c, one.RequestURI, c.WS)...)
			}
		}
		if v, ok := j.sent.Load(c.ID); ok && v.(*c17Sent).BeforeHeaders && c.Method != "GET" && c.Method != "HEAD" && c.Method != "OPTIONS" {
			j.run.Count("unsafe_requests_whose_upstream_died_before_answering", 1)
		}
		f = append(f, j.judgeResponse(c, resp, interim)...)
		return f
	}
	if nHits > 0 {
		add("c17:delivered-unexpectedly", "reference: %s; yet upstream(s) %s received the request", d, hitNames())
		return f
	}
	loc := resp.Location()
	locPath, locQ, locHasQ := c17SplitTarget(loc)
	locDec, _ := c17Unescape(locPath, false)
	dec, _ := c17Unescape(c.Path, false)
	rawQ := strings.TrimPrefix(c.Query, "?")
	switch d.Kind {
	case "upstream":
		switch d.Up.Kind {
		case "static":
			if resp.Code != d.Up.StaticCode {
				add("c17:static-response", "static upstream %s must answer %d, client got %d", d.Up.ID, d.Up.StaticCode, resp.Code)
			}
			want := "Authenticated"
			if c.Method == "HEAD" || d.Up.StaticCode == 204 {
				want = ""
			}
			if string(resp.Body) != want {
				add("c17:static-response", "static upstream %s must answer body %q, client got %q", d.Up.ID, want, vfTrunc(string(resp.Body), 80))
			}
		case "file":
			rel, ok := c17FilePathFor(d.Up, c)
			if !ok {
				j.run.Count("file_path_not_judged", 1)
				return f
			}
			var ff []c17Finding
			kind, content := c17FileLookup(d.Up.FileRoot, rel)
			if kind == "file" {
				j.run.Count("files_on_disk_requested", 1)
				if strings.Contains("/"+d.Up.FileRoot+strings.TrimPrefix(rel, "/"), "/.") || strings.Contains(d.Up.Path, "/.") {
					j.run.Count("files_below_dot_names_requested", 1)
				}
			}
			switch {
			case kind == "file" && resp.Code != 200:
				ff = append(ff, c17Finding{"c17:file-response", fmt.Sprintf("file upstream %s: %q is the existing file %q, client got status %d", d.Up.ID, c.Path, rel, resp.Code)})
			case kind == "file" && c.Method != "HEAD" && string(resp.Body) != content:
				ff = append(ff, c17Finding{"c17:file-response", fmt.Sprintf("file upstream %s: %q must deliver the %d bytes of %q, client got %d bytes", d.Up.ID, c.Path, len(content), rel, len(resp.Body))})
			case kind == "none" && resp.Code != 404:
				ff = append(ff, c17Finding{"c17:file-response", fmt.Sprintf("file upstream %s: %q names no file (%q), client got status %d", d.Up.ID, c.Path, rel, resp.Code)})
			case kind == "dir":
				j.run.Count("file_path_not_judged", 1)
			}
			if len(ff) > 0 && d.Up.Rewrite != "" && strings.Contains(strings.ToUpper(c.Path), "%3F") {
				// known deviation F9 seen through a file upstream: the escaped '?' is decoded and cuts the rewritten path
				e := c17ExpectRewrite(d.Up, c.Path)
				lk, lc := c17FileLookup(d.Up.FileRoot, e.LitPath)
				if (lk == "file" && resp.Code == 200 && (c.Method == "HEAD" || string(resp.Body) == lc)) || (lk == "none" && resp.Code == 404) || (lk == "dir" && (resp.Code == 200 || resp.Code == 301)) || (e.LitBroken && (resp.Code == 500 || resp.Code == 200 || resp.Code == 301)) {
					ff = []c17Finding{{c17SigF9, fmt.Sprintf("rule %s -> %s (file upstream): %q names %q, but the escaped '?' was decoded and cut the path to %q: status %d", d.Up.Path, d.Up.Rewrite, c.Path, rel, e.LitPath, resp.Code)}}
				}
			}
			f = append(f, ff...)
		}
	case "notfound":
		if resp.Code != 404 {
			add("c17:unrouted-not-404", "no upstream is configured for %q, client got %d (Location %q)", c.Path, resp.Code, loc)
		}
	case "unclean-encoded":
		j.run.Count("unclean_encoded_paths_seen", 1)
		if resp.Code != 301 {
			add("c17:unclean-path-not-redirected", "path %q is not in canonical form; expected the documented 301, got %d", c.Path, resp.Code)
		}
	case "redirect-clean":
		switch {
		case resp.Code != 301:
			add("c17:unclean-path-not-redirected", "decoded path %q is not clean (no proxyRawPath): expected the documented 301, got %d", dec, resp.Code)
		case locDec != c17CleanPath(dec) || locQ != rawQ:
			add("c17:redirect-location-differs", "decoded path %q must be redirected to %q with query %q, Location is %q", dec, c17CleanPath(dec), rawQ, loc)
		}
	case "redirect-slash":
		switch {
		case resp.Code != 301:
			add("c17:trailing-slash-redirect", "%q only matches %s with a slash appended: expected 301 to %q, got %d", c.Path, d.Up.Path, c.Path+"/", resp.Code)
		case locDec == dec+"/" && locQ == rawQ && (locHasQ == (c.Query != "") || rawQ == ""):
			// correct
		case c.Query != "" && loc == c.Target()+"/":
			add(c17SigF11, "%s %q: Location is %q — the slash is appended after the query, not to the path (following it yields the same redirect again)", c.Method, c.Target(), loc)
		default:
			add("c17:redirect-location-differs", "%q must be redirected to %q, Location is %q", c.Target(), c.Path+"/"+c.Query, loc)
		}
	}
	return f
}

func (j *c17Judge) judge(s *c17Set, c *c17Case) {
	cookie := s.Cookie
	if c.Refresh {
		b := vfNewBrowser("")
		if _, _, err := b.Login(s.Proxy, vfStdIdentity, "/"); err != nil {
			j.run.Inconclusive("refresh case: login failed: " + vfTrunc(err.Error(), 60))
			return
		}
		cookie = vfCookieHeader(b.Jar.For("proxy.test", "/", false))
		// the age test truncates "now" to whole seconds (Age = trunc(now) - CreatedAt > 1s), so only after 2 s is the
		// session certainly "older than --cookie-refresh=1s"
		time.Sleep(2300 * time.Millisecond)
	}
	req, body := c17Request(c, cookie)
	resp, interim := c17Wire(s.Proxy, req, c.WS, c.ID, c.SlowUp)
	run := j.run
	if resp.Err != "" && strings.HasPrefix(resp.Err, "read:") && !strings.Contains(resp.Err, "timeout") {
		if v, ok := j.sent.Load(c.ID); ok && v.(*c17Sent).Aborted {
			// the upstream died mid-answer and the client's exchange was dropped before a status line: an aborted transfer,
			// which is a faithful way to surface it
			run.Count("upstream_abort_surfaced_as_dropped_connection", 1)
			run.Count("requests", 1)
			run.Eval(fmt.Sprintf("%s|upstream-abort-dropped|%s|resp=%d", s.Name, c.Method, c.Resp))
			return
		}
	}
	if resp.Err != "" {
		if strings.Contains(resp.Err, "timeout") {
			run.Violation("c17:no-answer", fmt.Sprintf("no answer within the wire driver's deadline for %s %s", c.Method, c.Target()), j.witness(s, c, nil, nil, resp, nil))
		} else {
			run.Inconclusive("wire error: " + vfTrunc(resp.Err, 60))
		}
		run.Eval("")
		return
	}
	if c.Refresh && os.Getenv("C17_DEBUG") != "" {
		fmt.Printf("NOTE refresh case %s %s -> %d set-cookie=%d err=%q idp.refresh=%s\n", c.ID, c.Target(), resp.Code, len(resp.SetCookies()), resp.Err, func() string { a, ok := j.w.IdP.RefreshGrants(); return fmt.Sprint(a, "/", ok) }())
	}
	hits, nHits := j.collectHits(c.ID)
	decisions := c17Decide(s.Ups, s.Raw, c.Path)
	if len(decisions) == 0 {
		run.T.Fatalf("c17: generated an undecodable path %q", c.Path)
	}
	// two acceptable outcomes exist only under proxyRawPath when no upstream matches (301 to path+"/" or 404)
	var best []c17Finding
	bestD := decisions[0]
	for k, d := range decisions {
		f := j.judgeUnder(s, d, c, req, body, resp, interim, hits, nHits)
		routingOK := true
		for _, x := range f {
			if c17RoutingSigs[x.Sig] {
				routingOK = false
			}
		}
		if k == 0 {
			best, bestD = f, d
		}
		if routingOK {
			best, bestD = f, d
			break
		}
	}
	if len(decisions) > 1 {
		run.Count("raw_mode_readings_differ", 1)
	}
	if c.Refresh && os.Getenv("C17_DEBUG") != "" {
		fmt.Printf("NOTE refresh case %s decision=%s findings=%v setcookie=%q\n", c.ID, bestD, best, vfTrunc(strings.Join(resp.SetCookies(), " | "), 150))
	}
	kind := bestD.Kind
	if bestD.Kind == "upstream" {
		kind = bestD.Up.Kind
		if bestD.Up.Rewrite != "" {
			kind += "+rewrite"
		}
	}
	run.Count("decision_"+kind, 1)
	run.Count("requests", 1)
	trivial := c.PathClass == "plain" && c.QClass == "none" && c.Method == "GET" && c.BodyKind == "none" && c.HdrClass == "plain" && c.Resp == 0
	cell := ""
	if !trivial {
		cell = fmt.Sprintf("%s|%s|path=%s|q=%s|%s|body=%s|hdr=%s|resp=%d", s.Name, kind, c.PathClass, c.QClass, c.Method, c17BodyClass(c), c.HdrClass, c.Resp)
	}
	run.Eval(cell)
	seen := map[string]bool{}
	for _, f := range best {
		if f.Sig == "c17:rig" {
			run.Inconclusive(f.Msg)
			continue
		}
		if seen[f.Sig] {
			continue
		}
		seen[f.Sig] = true
		run.Count("observed_"+f.Sig, 1)
		if !j.isKnown(f.Sig) {
			// at most three witnesses per signature, so that a frequent class cannot use up the rig's witness budget and
			// hide a different class that shows up in a later set (totals are in the observed_* counters)
			j.mu.Lock()
			j.reported[f.Sig]++
			over := j.reported[f.Sig] > 3
			j.mu.Unlock()
			if over {
				continue
			}
		}
		run.Violation(f.Sig, fmt.Sprintf("[set %s] %s %s: %s", s.Name, c.Method, vfTrunc(c.Target(), 120), vfTrunc(f.Msg, 700)), j.witness(s, c, req, &bestD, resp, hits))
	}
	run.SampleEvery(1499, func() interface{} {
		return map[string]interface{}{"set": s.Name, "case": c, "reference": bestD.String(), "status": resp.Code, "findings": len(best)}
	})
}

func (j *c17Judge) witness(s *c17Set, c *c17Case, req *vfReq, d *c17Decision, resp *vfResp, hits map[string][]vfUpHit) interface{} {
	o := c17Obs{Status: resp.Code, Location: resp.Location(), Hits: map[string][]string{}, RespHdr: resp.Header, BodyLen: len(resp.Body), Err: resp.Err}
	for k, hh := range hits {
		for _, h := range hh {
			o.Hits[k] = append(o.Hits[k], h.Method+" "+h.RequestURI)
			hdr := h.Header.Clone()
			if ck := hdr.Get("Cookie"); ck != "" {
				hdr.Set("Cookie", vfTrunc(ck, 40))
			}
			o.HitHdr, o.HitHost = hdr, h.Host
		}
	}
	w := map[string]interface{}{"set": s.Name, "proxy_flags": s.Proxy.Flags, "alpha_config": s.Proxy.Alpha, "case": c, "observed": o,
		"how_to_replay": "VERIF_REPLAY=<this file> ./check C17 re-sends exactly this case (the request is regenerated from 'case'; the session cookie comes from a fresh login)"}
	if d != nil {
		w["reference"] = d.String()
	}
	if req != nil {
		lines := []string{req.Method + " " + req.Target + " HTTP/1.1", "Host: " + req.Host}
		for _, h := range req.Headers {
			v := h[1]
			if strings.EqualFold(h[0], "Cookie") {
				v = vfTrunc(v, 40)
			}
			lines = append(lines, h[0]+": "+vfTrunc(v, 200))
		}
		w["request_head"] = lines
		w["request_body_len"] = len(req.Body)
	}
	return w
}

// ---------------------------------------------------------------------------------------------------------

func TestVerif_C17(t *testing.T) {
	run := vfNewRun(t, "C17", "exploration")
	run.SetRule("wire requests with a valid session over 16 upstream sets (6 of them the same overlapping rewrite rules in different configured orders; legacy: nested / sibling+exact / static+file / scrambled / wide(14); alpha: rewrite rules, proxyRawPath, raw+rewrite, file+static+rewrite with injected headers); " +
		"per set: exhaustive {a,b}-paths to depth 4 ± trailing slash ± one %2F separator, every base × 26 query shapes, then seeded random (base + 0–3 segments over the alphabet a b %2F %2f %2E %20 + ; : @ %C3%A9 ~ ! $ & ' ( ) * , = and escaped reserved characters) × query × 7 methods × bodies (none/form/text/binary, 0 B–1 MiB, Content-Length or chunked) × 13 header classes (incl. Expect: 100-continue uploads) × 18 scripted upstream responses (4 of them preceded by 103 Early Hints, 3 in which the upstream dies mid-answer), plus WebSocket upgrade requests (101 + tunnel dialogue, or a plain refusal) against upstreams whose URL carries a path; " +
		"per base: POST/PUT/PATCH/DELETE (no body, form, chunked, 40 KiB) whose upstream dies before answering or half-way through its header block (exactly-once delivery, complete body, 502), non-WebSocket upgrade offers (h2c, TLS/1.0, unknown token, Upgrade not listed in Connection), and under file upstreams (incl. two whose configured path / served directory is a dot directory, one behind a rewrite rule) every file of the tree with lenient and strict escaping. " +
		"cell = (set, reference outcome kind, path class, query class, method, body class, header class, response class); non-trivial = anything but a plain GET of a plain path")
	run.Assume("Go regexp engine for the rule semantics (regexp.ReplaceAllString is what the rule documentation promises)",
		"fake upstreams and the raw client parse HTTP with net/http: header-name case and the order of different header names are not observable",
		"accepted, listed differences: hop-by-hop headers removed; X-Forwarded-For appended; repeated request header lines comma-joined; Host per passHostHeader; Accept-Encoding: gzip may be added when the client sent none; Content-Type may be sniffed when the upstream sent none; Gap-Auth added to responses; Date/Content-Length/Transfer-Encoding/Connection framing",
		"rewrite upstreams: re-ordering of parameters, re-escaping of unreserved octets and of the mark characters !*'() are accepted",
		"proxyRawPath: prefixes and exact paths are matched on the escaped path only, rewrite patterns on the decoded path they rewrite; only when no upstream matches and the slash-appended courtesy test differs between the two forms are both a 301 to path+'/' and a 404 accepted",
		"upstream aborts: a response the upstream did not finish must reach the client as an aborted/short transfer (or 502 when nothing or only part of the header block had been sent), never as a cleanly terminated response; one repetition after a death before the first answer byte is accepted for idempotent methods only (RFC 9110 §9.2.2) and every copy must be the complete request — a POST or PATCH must be in the upstream's log exactly once",
		"protocol-upgrade offers other than WebSocket (h2c, TLS/1.0, unknown tokens; an Upgrade field not listed in Connection) are ordinary requests: the offer itself may be passed on or dropped, everything else is judged as usual",
		"file upstreams: every file the harness created below the served directory (dot-directories, dot-files, names with reserved and special characters) is requested with lenient and strict escaping and must come back 200 with its bytes",
		"WebSocket upgrades: Connection/Upgrade are forwarded; recorded but not judged (observed on the unchanged tree, documentation silent): passHostHeader=false is not applied to upgrades, and a rewrite rule's own query pairs are not added for upgrades",
		"informational responses: 100 Continue is per-hop and not compared; every other 1xx (103 Early Hints) must be forwarded with its Link fields before the final response",
		"paths whose *encoded* form is not canonical are outside the property's quantifier: only 'answered by a 301 and not delivered' is checked for them")
	w := vfNewWorld(t)
	defer w.Close()
	sent := &sync.Map{}
	for k := 0; k < 16; k++ {
		name := fmt.Sprintf("u%d", k)
		w.Upstream(name).SetRespond(c17Responder(name, sent))
	}
	j := &c17Judge{run: run, w: w, sent: sent, reported: map[string]int{}}
	sets := c17Sets(w)

	if rp := run.Env.Replay; rp != "" {
		c17Replay(j, sets, rp)
		run.Finish(1, 0)
		return
	}

	// All instances are built before the first request is served: option validation reconfigures the process-wide
	// logger, which a real process does once before serving (building later would race with request logging).
	for _, s := range sets {
		if err := s.build(w); err != nil {
			t.Fatalf("c17: %v", err)
		}
	}
	perSet := run.Env.Pick(400, 14000)
	// the slow-exchange cases (≈2 s each) of the short-timeout sets run side by side in one batch, on their own backends
	{
		type job struct {
			s *c17Set
			c *c17Case
		}
		var jobs []job
		for si, s := range sets {
			if s.Tiny {
				cs := c17CoreCases(s, run.Env.Thorough())
				c17Finalize(cs, fmt.Sprintf("c17-%d-%d", run.Env.Seed, si), s)
				for _, c := range cs {
					jobs = append(jobs, job{s, c})
				}
			}
		}
		vfParallel(len(jobs), len(jobs), func(i int) { j.judge(jobs[i].s, jobs[i].c) })
		for _, u := range w.Ups {
			u.Reset()
		}
		sent.Range(func(k, _ interface{}) bool { sent.Delete(k); return true })
	}
	for si, s := range sets {
		if s.Tiny {
			run.Count("sets", 1)
			s.Proxy.Server().Close()
			continue
		}
		cases := c17CoreCases(s, run.Env.Thorough())
		r := rand.New(rand.NewSource(run.Env.Seed*1000003 + int64(si)*7919 + 17))
		n := perSet
		if s.Light {
			n = perSet / 6
		}
		for k := 0; k < n; k++ {
			cases = append(cases, c17RandomCase(r, s, run.Env.Thorough()))
		}
		c17Finalize(cases, fmt.Sprintf("c17-%d-%d", run.Env.Seed, si), s)
		const batch = 1500
		for lo := 0; lo < len(cases); lo += batch {
			hi := lo + batch
			if hi > len(cases) {
				hi = len(cases)
			}
			part := cases[lo:hi]
			vfParallel(len(part), 16, func(i int) { j.judge(s, part[i]) })
			for _, u := range w.Ups {
				u.Reset()
			}
			sent.Range(func(k, _ interface{}) bool { sent.Delete(k); return true })
		}
		run.Count("sets", 1)
		s.Proxy.Server().Close() // waits for the connection goroutines of this instance
	}
	for _, must := range []string{"judged_requests_that_refreshed_the_session", "slow_streamed_responses_under_short_timeout", "slow_uploads_under_short_timeout", "websocket_tunnels", "upstream_aborts_mid_body", "upstream_aborts_before_headers", "unsafe_requests_whose_upstream_died_before_answering", "non_websocket_upgrade_offers", "files_below_dot_names_requested", "responses_with_informational_prelude", "decision_http", "decision_http+rewrite", "decision_static", "decision_file", "decision_file+rewrite", "decision_redirect-clean", "decision_redirect-slash", "decision_notfound"} {
		if run.Counter(must) == 0 {
			run.Inconclusive("no case exercised " + must)
			fmt.Printf("INCONCLUSIVE property=C17 reason=no case exercised %s\n", must)
			t.Fail()
		}
	}
	run.Finish(int64(run.Env.Pick(9000, 75000)), run.Env.Pick(4000, 50000))
}

func c17Replay(j *c17Judge, sets []*c17Set, file string) {
	b, err := os.ReadFile(file)
	if err != nil {
		if b, err = os.ReadFile(filepath.Join(j.run.Env.Root, file)); err != nil {
			j.run.T.Fatalf("c17 replay: %v", err)
		}
	}
	var wit struct {
		Detail struct {
			Set  string  `json:"set"`
			Case c17Case `json:"case"`
		} `json:"detail"`
	}
	if err := json.Unmarshal(b, &wit); err != nil || wit.Detail.Set == "" {
		j.run.T.Fatalf("c17 replay: cannot read case from %s: %v", file, err)
	}
	for _, s := range sets {
		if s.Name == wit.Detail.Set {
			if err := s.build(j.w); err != nil {
				j.run.T.Fatalf("c17 replay: %v", err)
			}
			c := wit.Detail.Case
			fmt.Printf("NOTE replaying set=%s %s %s\n", s.Name, c.Method, c.Target())
			j.judge(s, &c)
			return
		}
	}
	j.run.T.Fatalf("c17 replay: unknown set %q", wit.Detail.Set)
}
