//go:build verif

package main

// C11 — Sign-out ends the session.
//
// Technique: runtime monitoring of complete browser histories against real proxy instances:
//   login -> k requests (optionally with refreshes that grow / shrink the session) -> sign-out -> replay of every
//   cookie the browser ever held.
// The browser is the rig's RFC 6265 jar (name + domain + path identity, host-only vs domain cookies, path match);
// it keeps an archive of every cookie it ever stored.
//
// Oracle (history rules, from the property statement):
//   R1  every session cookie the browser presented with the sign-out request (all parts of a split session) is gone
//       from the jar once the response's Set-Cookie lines were applied — i.e. the deletions carry the same name, path
//       and domain the cookies were set with                                               [both stores]
//   R2  server-side store: after a sign-out answered with the success redirect, the ticket's key is gone from Redis and
//       no cookie of the archive (each alone, each generation together, the final jar) authenticates on
//       <prefix>/userinfo or on a protected path                                           [Redis store]
//   R3  server-side store: a sign-out after which the stored session still exists (DEL failed: injected by the RESP front)
//       is answered with an error (status >= 400), never with the success redirect        [Redis store]
//       Failure shapes: the DEL alone (5 kinds); reads only; the store failing for the whole request (reads of the session
//       chain AND every DEL: per-key pairs of kinds, and the whole store down on a front of its own); latency (the DEL is held
//       for seconds and then fails or succeeds: the answer must wait for the store's verdict). The verdict is the state after
//       the answer (key present + status), never a measured time.
//   R4  (title of the property; reported under its own signature) the browser as it is after a successful sign-out is
//       not authenticated on its next request                                              [both stores]
// For the cookie store a stateless cookie taken from the archive may still authenticate — not a violation, recorded.
// "Session cookie" = every cookie the proxy set in this browser that is not a CSRF cookie (observed, not computed from
// the code's naming scheme).

import (
	"encoding/base64"
	"fmt"
	"math/rand"
	"net/http/httptest"
	"runtime/debug"
	"sort"
	"strings"
	"sync"
	"sync/atomic"
	"testing"
	"time"
)

type c11Cfg struct {
	Label   string
	Store   string
	Name    string
	Flags   []string
	Prefix  string // proxy prefix
	Base    string // protected paths live under Base
	Domain  string // none | parent | parent-dot
	Path    string // cookie path
	Hosts   [][2]string // (login host, sign-out host)
	Domains []string    // configured cookie domains
	Rewritten [][2]string // (browser host, Host header seen by the proxy): front proxy that rewrites Host, no --reverse-proxy
	Fronted bool
	Special string      // "" | "slow" | "outage": fronted configuration with its own job list (not the general history list)
	hub     *vfRedisHub // outage configuration: its own hub, so that SetDown hits no other configuration
	BackendLogout bool    // --backend-logout-url=<provider>/logout?id_token_hint={id_token}
	ReverseProxy bool     // --reverse-proxy=true: the front proxy passes the public host in X-Forwarded-Host
	p2      *vfProxy      // Redis store: a second instance (replica) with the same flags sharing the same Redis
	p       *vfProxy
}

const c11NameAlphabet = "abcdefghijklmnopqrstuvwxyzABCDEFGHIJKLMNOPQRSTUVWXYZ0123456789-."

func c11Name(rng *rand.Rand, n int) string {
	b := make([]byte, n)
	for i := range b {
		b[i] = c11NameAlphabet[rng.Intn(len(c11NameAlphabet))]
	}
	b[0] = "stuvwxyz"[rng.Intn(8)]
	return string(b)
}

func c11NameClass(name string) string {
	switch {
	case strings.ContainsAny(name, "+$^*|"):
		return "meta"
	case len(name) >= 255:
		return fmt.Sprint(len(name))
	case len(name) > 200:
		return "long"
	}
	return "short"
}

func c11Configs(run *vfRun, w *vfWorld) []*c11Cfg {
	rng := rand.New(rand.NewSource(run.Env.Seed*15013 + 11))
	var out []*c11Cfg
	names := map[string][]string{
		"cookie": {"_oauth2_proxy", c11Name(rng, 255), c11Name(rng, 256), "my+cookie", "a.b$c|d^e*"},
		"redis":  {"_oauth2_proxy", c11Name(rng, 256), "my+cookie"},
	}
	if run.Env.Thorough() {
		names["cookie"] = append(names["cookie"], c11Name(rng, 254), c11Name(rng, 250)+"+.", "s_1", c11Name(rng, 1))
		names["redis"] = append(names["redis"], c11Name(rng, 255), "s_1")
	}
	redisCfgs := 0
	for _, store := range []string{"cookie", "redis"} {
		for _, name := range names[store] {
			for _, dom := range []string{"none", "parent", "parent-dot", "two", "two-rp"} {
				if dom == "two-rp" && !(name == "_oauth2_proxy" || (name == "my+cookie" && run.Env.Thorough()) || (len(name) == 256 && (store == "cookie" || run.Env.Thorough()))) {
					continue
				}
				if dom == "parent-dot" && !(run.Env.Thorough() && (name == "_oauth2_proxy" || len(name) == 256)) {
					continue
				}
				if dom == "two" && !(name == "_oauth2_proxy" || (len(name) == 256 && (store == "cookie" || run.Env.Thorough()))) {
					continue
				}
				for _, cpath := range []string{"/", "/app/"} {
					c := &c11Cfg{Store: store, Name: name, Domain: dom, Path: cpath, Prefix: "/oauth2", Base: "/"}
					c.Flags = []string{"--session-store-type=" + store, "--cookie-name=" + name, "--cookie-refresh=1m", "--insecure-oidc-skip-nonce=true"}
					if store == "redis" {
						// standalone, Cluster and Sentinel clients in turn (own builders / wrapper type in pkg/sessions/redis)
						mode := []string{"standalone", "cluster", "sentinel"}[redisCfgs%3]
						redisCfgs++
						c.Flags = append(c.Flags, w.RedisModeFlags(mode)...)
						run.Count("redis_configurations_client_"+mode, 1)
					}
					switch dom {
					case "none":
						c.Hosts = [][2]string{{"proxy.test", "proxy.test"}, {"proxy.test:8443", "proxy.test:8443"}}
						c.Rewritten = [][2]string{{"proxy.test", "internal-svc:4180"}}
					case "parent":
						c.Flags = append(c.Flags, "--cookie-domain=example.test")
						c.Domains = []string{"example.test"}
						// the proxy sees a host that matches none of the configured domains (documented: the shortest domain is used)
						c.Rewritten = [][2]string{{"app.example.test", "internal-svc:4180"}, {"app.example.test", "10.1.2.3:4180"}, {"example.test:8443", "localhost"}, {"a.b.example.test", "unrelated.invalid"}, {"app.example.test", "[::1]:4180"}}
						c.Hosts = [][2]string{{"proxy.example.test", "proxy.example.test"}, {"example.test", "example.test"}, {"deep.proxy.example.test:8443", "deep.proxy.example.test:8443"},
							{"a.example.test", "b.example.test"}, {"proxy.example.test", "deep.proxy.example.test"}}
					case "two":
						// several cookie domains: "the longest domain matching the request's host will be used"
						c.Flags = append(c.Flags, "--cookie-domain=proxy.example.test", "--cookie-domain=example.test")
						c.Domains = []string{"proxy.example.test", "example.test"}
						c.Rewritten = [][2]string{{"app.example.test", "internal-svc:4180"}, {"other.example.test", "192.0.2.7"}, {"app.example.test:8443", "localhost:4180"}, {"example.test", "svc.cluster.local"}}
						c.Hosts = [][2]string{{"other.example.test", "proxy.example.test"}, {"proxy.example.test", "proxy.example.test"}, {"other.example.test", "b.example.test"},
							{"deep.proxy.example.test", "proxy.example.test:8443"}, {"example.test", "a.proxy.example.test"}, {"other.example.test:8443", "other.example.test:8443"}}
					case "two-rp":
						// reverse-proxy mode behind a front proxy: Host is internal, the public host travels in X-Forwarded-Host; the
						// domain rule applies to the public host, and the matching domain is NOT always the fallback one
						c.Flags = append(c.Flags, "--cookie-domain=proxy.example.test", "--cookie-domain=example.test", "--reverse-proxy=true")
						c.Domains = []string{"proxy.example.test", "example.test"}
						c.ReverseProxy = true
						c.Rewritten = [][2]string{{"app.proxy.example.test", "internal-svc:4180"}, {"proxy.example.test:8443", "10.1.2.3:4180"}, {"other.example.test", "localhost"},
							{"deep.app.proxy.example.test", "svc.cluster.local:4180"}, {"proxy.example.test", "[::1]:4180"}}
						c.Hosts = [][2]string{{"proxy.example.test", "proxy.example.test"}, {"other.example.test", "other.example.test"}, {"a.proxy.example.test:8443", "a.proxy.example.test:8443"}}
					case "parent-dot":
						c.Flags = append(c.Flags, "--cookie-domain=.example.test")
						c.Hosts = [][2]string{{"proxy.example.test", "proxy.example.test"}, {"a.example.test", "b.a.example.test:8443"}}
					}
					if cpath != "/" {
						c.Flags = append(c.Flags, "--cookie-path="+cpath, "--proxy-prefix=/app/oauth2")
						c.Prefix, c.Base = "/app/oauth2", "/app/"
					} else {
						// half of the configurations call the provider's logout endpoint on sign-out (the rig's provider answers 404; the proxy only logs that)
						c.Flags = append(c.Flags, "--backend-logout-url="+w.IdP.Issuer+"/logout?id_token_hint={id_token}")
						c.BackendLogout = true
					}
					c.Label = fmt.Sprintf("%s/name=%s/domain=%s/path=%s", store, c11NameClass(name), dom, cpath)
					out = append(out, c)
				}
			}
		}
	}
	return out
}

// ---------------------------------------------------------------------------------------------------------
// IdP scripting: per subject, the ID token of the n-th issuance carries a pad of chosen size

type c11Table struct {
	mu     sync.Mutex
	pads   map[string][]int
	issued map[string]int
	stall  map[string]*c11Stall // subject -> the refresh grant for it is held inside the provider until released
	stream string
}

type c11Stall struct {
	entered chan struct{} // closed when the provider has the refresh request in hand
	release chan struct{}
	once    sync.Once
}

func c11NewTable(w *vfWorld, seed int64) *c11Table {
	const al = "ABCDEFGHIJKLMNOPQRSTUVWXYZabcdefghijklmnopqrstuvwxyz0123456789-_"
	rng := rand.New(rand.NewSource(seed))
	b := make([]byte, 80000) // offset < 20000 + the largest pad (c11HugePads)
	for i := range b {
		b[i] = al[rng.Intn(64)]
	}
	tab := &c11Table{pads: map[string][]int{}, issued: map[string]int{}, stall: map[string]*c11Stall{}, stream: string(b)}
	w.IdP.Set(func(c *vfIdPCfg) {
		c.MutateIDClaims = func(grant string, ar *vfAuthReq, claims map[string]interface{}) {
			sub, _ := claims["sub"].(string)
			tab.mu.Lock()
			st := tab.stall[sub]
			tab.mu.Unlock()
			if st != nil && grant == "refresh" {
				st.once.Do(func() { close(st.entered) })
				select {
				case <-st.release:
				case <-time.After(4 * time.Second):
				}
			}
			tab.mu.Lock()
			defer tab.mu.Unlock()
			pads, ok := tab.pads[sub]
			if !ok {
				return
			}
			g := tab.issued[sub]
			tab.issued[sub] = g + 1
			pad := pads[len(pads)-1]
			if g < len(pads) {
				pad = pads[g]
			}
			off := (g*1009 + len(sub)*31) % 20000
			claims["pad"] = tab.stream[off : off+pad]
			claims["email"] = fmt.Sprintf("g%d.%s@example.com", g, sub)
		}
	})
	return tab
}

func (t *c11Table) Issued(sub string) int { t.mu.Lock(); defer t.mu.Unlock(); return t.issued[sub] }

// ---------------------------------------------------------------------------------------------------------
// history

type c11Hist struct {
	Pads      []int  `json:"id_token_pad_per_issuance"`
	K         int    `json:"requests_before_sign_out"`
	RefreshAt []int  `json:"refresh_before_request"` // index K = the sign-out request itself
	Method    string `json:"method"`
	Rd        string `json:"rd"`
	HostLogin string `json:"host_login"`
	HostOut   string `json:"host_sign_out"`
	// ProxyHost: the Host header the PROXY sees when a front proxy rewrites it (the browser keeps addressing host_login /
	// host_sign_out, which is what its cookie jar goes by). Empty = the proxy sees the browser's host.
	ProxyHost string `json:"host_header_seen_by_proxy,omitempty"`
	Fault     string `json:"redis_del_fault,omitempty"`
	// Expired: the session's ExpiresOn is moved into the past (load + save through the store) right before the sign-out; no refresh is due.
	Expired bool `json:"session_expired_at_sign_out,omitempty"`
	// BothForms (cookie store): the jar holds the current plain session cookie AND the full set of parts of an earlier, split
	// generation at sign-out (the response that carried the split session reached the browser after the one with the smaller session).
	BothForms bool `json:"jar_holds_plain_cookie_and_parts,omitempty"`
	// Replica (Redis store): a second instance sharing the same Redis serves one request right before the sign-out (which goes to
	// the first instance); the replays after the sign-out go to the second instance first, immediately.
	Replica bool `json:"second_instance_serves_before_and_after_sign_out,omitempty"`
	// Users: one entry per consecutive login in the SAME browser without a sign-out in between (user index); the last login is the
	// one the requests / refreshes / sign-out belong to. Empty = one login. EarlierPads: ID-token pad of each earlier login.
	Users       []int `json:"logins_as_user,omitempty"`
	EarlierPads []int `json:"id_token_pad_of_earlier_logins,omitempty"`
}

func (h c11Hist) loginClass() string {
	if len(h.Users) < 2 {
		return "1"
	}
	same := true
	for _, u := range h.Users {
		if u != h.Users[0] {
			same = false
		}
	}
	if same {
		return fmt.Sprintf("%d-same-user", len(h.Users))
	}
	return fmt.Sprintf("%d-different-users", len(h.Users))
}

func (h c11Hist) refreshClass() string {
	mid, at := false, false
	for _, r := range h.RefreshAt {
		if r == h.K {
			at = true
		} else {
			mid = true
		}
	}
	switch {
	case mid && at:
		return "mid+at-sign-out"
	case at:
		return "at-sign-out"
	case mid:
		return "mid"
	}
	return "none"
}

var c11PadClasses = []int{0, 1500, 3800, 6000}

// c11HugePads: unusually large sessions for the cookie store (incompressible ID token): ~45 kB encoded = 11-13 cookies and
// ~60 kB = 15-17 cookies (part indices with two digits); thorough adds ~80 kB = 20+ cookies. Go's server accepts 1 MB of headers.
var c11HugePads = []int{25500, 33500, 45000}

func c11Histories(run *vfRun, cfg *c11Cfg, ci int) []c11Hist {
	rng := rand.New(rand.NewSource(run.Env.Seed*9973 + int64(ci)*131))
	var out []c11Hist
	n := 0
	var users []int // consecutive logins of the histories made next (nil = one login)
	both := false   // the histories made next end with a jar holding both cookie forms
	var huge []int  // the histories made next take the pad of each issuance from here (c11HugePads / ordinary sizes) instead of the class ladder
	mk := func(p0 int, k int, refreshAt []int, dir []int) {
		h := c11Hist{K: k, RefreshAt: refreshAt}
		if len(users) > 1 {
			h.Users = users
			for i := 0; i < len(users)-1; i++ {
				h.EarlierPads = append(h.EarlierPads, c11PadClasses[(p0+1+2*i)%4]+rng.Intn(40))
			}
		}
		cls := p0
		h.Pads = []int{c11PadClasses[cls] + rng.Intn(40)}
		for _, d := range dir {
			cls = ((cls+d)%4 + 4) % 4
			h.Pads = append(h.Pads, c11PadClasses[cls]+rng.Intn(40))
		}
		if huge != nil {
			h.Pads = nil
			for _, x := range huge {
				h.Pads = append(h.Pads, x+rng.Intn(40))
			}
		}
		h.Method = []string{"GET", "POST"}[n%2]
		// rd: none / allowed relative / foreign absolute (no whitelist) / "/" / scheme-relative / under the proxy prefix (both rejected by the validator)
		h.Rd = []string{"", "/after?x=1", "https://evil.example/", "/", "//evil.test/x", cfg.Prefix + "/sign_in"}[(n/2)%6]
		hp := cfg.Hosts[n%len(cfg.Hosts)]
		h.HostLogin, h.HostOut = hp[0], hp[1]
		if len(cfg.Rewritten) > 0 && (n%4 == 3 || (cfg.ReverseProxy && n%4 != 0)) {
			rw := cfg.Rewritten[(n/4+n%4)%len(cfg.Rewritten)]
			h.HostLogin, h.HostOut, h.ProxyHost = rw[0], rw[0], rw[1]
		}
		h.Replica = n%2 == 0
		h.BothForms = both
		atOut := false
		for _, x := range refreshAt {
			if x == k {
				atOut = true
			}
		}
		h.Expired = cfg.BackendLogout && !atOut && n%3 == 1
		n++
		out = append(out, h)
	}
	for p0 := 0; p0 < 4; p0++ {
		mk(p0, 0, nil, nil)
		mk(p0, 1, nil, nil)
		mk(p0, 2, []int{1}, []int{+1})                // grow in the middle
		mk(p0, 3, []int{1, 2}, []int{-1, +2})         // shrink, then grow
		mk(p0, 1, []int{1}, []int{0})                 // refresh on the sign-out request itself, same size
		mk(p0, 0, []int{0}, []int{+1})                // ... growing
		mk(p0, 2, []int{0, 2}, []int{+2, -1})         // grow in the middle, shrink on the sign-out request
		if run.Env.Thorough() {
			mk(p0, 3, []int{0, 1, 2}, []int{+1, +1, +1})
			mk(p0, 3, []int{0, 1, 2, 3}, []int{-1, -1, +3, -2})
			mk(p0, 2, []int{2}, []int{-1})
			mk(p0, 1, []int{0, 1}, []int{+3, -3})
		}
	}
	// cookie store: a split session shrinks to one that fits the plain cookie; at sign-out the jar holds both forms
	if cfg.Store == "cookie" {
		both = true
		mk(2, 2, []int{1}, []int{-2})
		mk(3, 2, []int{0}, []int{-3})
		mk(1, 3, []int{1}, []int{-1})
		both = false
		// unusually large sessions: more than 10 and more than 13 cookies at sign-out (two-digit part indices), reached at login,
		// by growing in the middle of the history, and by growing / shrinking on the sign-out request itself
		H := c11HugePads
		huge = []int{H[1]}
		mk(0, 1, nil, nil) // 14+ parts from the login on
		huge = []int{1500, H[0]}
		mk(0, 2, []int{1}, []int{0}) // grows from 2 to 11+ parts in the middle
		if ci%2 == 0 || run.Env.Thorough() {
			huge = []int{H[1], H[0]}
			mk(0, 1, []int{1}, []int{0}) // 14+ parts shrink to 11+ on the sign-out request itself
		}
		if ci%2 == 1 || run.Env.Thorough() {
			huge = []int{H[0], H[1]}
			mk(0, 0, []int{0}, []int{0}) // 11+ parts grow to 14+ on the sign-out request itself
		}
		if run.Env.Thorough() {
			huge = []int{H[2]}
			mk(0, 0, nil, nil)
			huge = []int{H[0], H[2], 1500}
			mk(0, 2, []int{0, 1}, []int{0, 0})
			huge = []int{H[1], 3800, H[1]}
			mk(0, 3, []int{1, 3}, []int{0, 0})
			both = true
			huge = []int{H[1], 0}
			mk(0, 2, []int{1}, []int{0}) // 14+ parts shrink to the plain cookie; the jar holds both forms
			both = false
		}
		huge = nil
	}
	// several consecutive logins in one browser without a sign-out in between: as different users and as the same user
	for p0 := 0; p0 < 4; p0++ {
		users = []int{0, 1}
		mk(p0, 1, nil, nil)
		users = []int{0, 1, 2}
		mk(p0, 2, []int{1}, []int{+1})
		users = []int{0, 0}
		mk(p0, 0, nil, nil)
		users = []int{0, 1, 0}
		mk(p0, 1, []int{1}, []int{-1}) // back to the first user, refresh on the sign-out request
		if run.Env.Thorough() {
			users = []int{0, 1}
			mk(p0, 2, []int{0, 2}, []int{+2, -1})
			users = []int{1, 0, 1}
			mk(p0, 0, nil, nil)
			users = []int{0, 0, 1}
			mk(p0, 3, []int{1}, []int{+1})
		}
	}
	users = nil
	for k := 0; k < run.Env.Pick(6, 160); k++ {
		if k%5 == 4 {
			users = [][]int{{0, 1}, {0, 1, 2}, {0, 0}, {1, 0, 1}}[rng.Intn(4)]
		} else {
			users = nil
		}
		kk := rng.Intn(4)
		var ra, dir []int
		for r := 0; r <= kk; r++ {
			if rng.Intn(3) == 0 {
				ra = append(ra, r)
				dir = append(dir, rng.Intn(7)-3)
			}
		}
		mk(rng.Intn(4), kk, ra, dir)
	}
	return out
}

// ---------------------------------------------------------------------------------------------------------

type c11Faults struct {
	mu sync.Mutex
	m  map[string]string // redis key -> fault kind for DEL
}

func (f *c11Faults) set(key, kind string) { f.mu.Lock(); f.m[key] = kind; f.mu.Unlock() }
func (f *c11Faults) del(key string)       { f.mu.Lock(); delete(f.m, key); f.mu.Unlock() }
func (f *c11Faults) get(key string) (string, bool) {
	f.mu.Lock()
	defer f.mu.Unlock()
	k, ok := f.m[key]
	return k, ok
}

// c11FaultFor: what a fault specification means for one command on the ticket's key.
//   "<kind>"               the DEL fails                                     (reads are served)
//   "GET:<kind>"           reads fail                                        (a DEL would succeed)
//   "ALL:<kindG>/<kindD>"  the store fails for the whole request: every GET fails with kindG and every DEL with kindD
//   "SLOW<ms>:<kind>"      latency, then failure: the DEL is held for <ms> milliseconds and then fails with <kind>;
//                          kind "late-ok" = it is held and then carried out normally
//   "DOWN"                 the whole store is down for the request (handled by the configuration's own hub, not per key)
// hold > 0: the command is held that long (outside the hub's mutex) before the fault / the execution.
func c11FaultFor(spec, op string) (kind string, hold time.Duration, hit bool) {
	switch {
	case spec == "" || spec == "DOWN":
		return "", 0, false
	case strings.HasPrefix(spec, "GET:"):
		if op == "GET" {
			return strings.TrimPrefix(spec, "GET:"), 0, true
		}
	case strings.HasPrefix(spec, "ALL:"):
		gd := strings.SplitN(strings.TrimPrefix(spec, "ALL:"), "/", 2)
		if op == "GET" {
			return gd[0], 0, true
		}
		if op == "DEL" {
			return gd[len(gd)-1], 0, true
		}
	case strings.HasPrefix(spec, "GETSLOW"):
		// reads of the ticket are held for <ms> milliseconds and then served; the DEL is not touched
		ms := 0
		fmt.Sscanf(spec[7:], "%d", &ms)
		if op == "GET" {
			return "", time.Duration(ms) * time.Millisecond, true
		}
	case strings.HasPrefix(spec, "SLOW"):
		k := strings.IndexByte(spec, ':')
		ms := 0
		fmt.Sscanf(spec[4:k], "%d", &ms)
		if op == "DEL" {
			kind = spec[k+1:]
			if kind == "late-ok" {
				kind = ""
			}
			return kind, time.Duration(ms) * time.Millisecond, true
		}
	default:
		if op == "DEL" {
			return spec, 0, true
		}
	}
	return "", 0, false
}

// c11FaultClass: the family of a fault specification (for cells, counters and signatures).
func c11FaultClass(spec string) string {
	switch {
	case spec == "":
		return ""
	case spec == "DOWN" || strings.HasPrefix(spec, "ALL:"):
		return "outage"
	case strings.HasPrefix(spec, "GET:"):
		return "read"
	case strings.HasPrefix(spec, "GETSLOW"):
		return "abandoned"
	case strings.HasPrefix(spec, "SLOW"):
		return "slow"
	}
	return "delete"
}

// c11TicketKey decodes the Redis key from a ticket cookie value: base64url("v2.<b64 id>.<b64 secret>")|ts|sig.
func c11TicketKey(cookieValue string) string {
	parts := strings.Split(cookieValue, "|")
	if len(parts) != 3 {
		return ""
	}
	raw, err := base64.URLEncoding.DecodeString(parts[0])
	if err != nil {
		return ""
	}
	tp := strings.Split(string(raw), ".")
	if len(tp) != 3 || tp[0] != "v2" {
		return ""
	}
	id, err := base64.RawURLEncoding.DecodeString(tp[1])
	if err != nil {
		return ""
	}
	return string(id)
}

func c11IsSession(c *vfCookie) bool { return !strings.HasSuffix(c.Name, "_csrf") }

func c11Short(name string) string {
	if len(name) > 24 {
		return name[:10] + "…" + name[len(name)-8:]
	}
	return name
}

func c11Describe(cs []*vfCookie) []string {
	var out []string
	for _, c := range cs {
		d := c.Domain
		if c.HostOnly {
			d = "host-only:" + d
		}
		out = append(out, fmt.Sprintf("%s (domain %s, path %s, %d bytes)", c11Short(c.Name), d, c.Path, len(c.Value)))
	}
	return out
}

// c11RefDomain: documented rule — the longest configured domain matching the request's host (port ignored), else the shortest.
func c11RefDomain(domains []string, hostport string) string {
	host := vfHostOnly(hostport)
	best := ""
	for _, d := range domains {
		dd := strings.TrimPrefix(d, ".")
		if (host == dd || strings.HasSuffix(host, "."+dd)) && len(d) > len(best) {
			best = d
		}
	}
	if best == "" {
		for _, d := range domains {
			if best == "" || len(d) < len(best) {
				best = d
			}
		}
	}
	return best
}

type c11Runner struct {
	run    *vfRun
	w      *vfWorld
	tab    *c11Table
	faults *c11Faults
	accMu  sync.Mutex
	acc    map[string]bool // Redis keys that may legitimately outlive the run (their browser never completed a successful sign-out)
}

func (r *c11Runner) accountFor(key string) {
	r.accMu.Lock()
	r.acc[key] = true
	r.accMu.Unlock()
}

var c11Seq int64

func (r *c11Runner) one(cfg *c11Cfg, h c11Hist) {
	run, p := r.run, cfg.p
	no := atomic.AddInt64(&c11Seq, 1)
	users := h.Users
	if len(users) == 0 {
		users = []int{0}
	}
	subOf := func(u int) string { return fmt.Sprintf("c11-%d-u%d", no, u) }
	sub := subOf(users[len(users)-1]) // the user of the last login: requests, refreshes and sign-out are theirs
	// pad of the n-th ID token issued to each subject, in order of issuance
	padsOf := map[string][]int{}
	for li, u := range users {
		if li < len(users)-1 {
			padsOf[subOf(u)] = append(padsOf[subOf(u)], h.EarlierPads[li])
		} else {
			padsOf[subOf(u)] = append(padsOf[subOf(u)], h.Pads...)
		}
	}
	r.tab.mu.Lock()
	for k, v := range padsOf {
		r.tab.pads[k] = v
	}
	r.tab.mu.Unlock()
	b := vfNewBrowser(h.HostLogin)
	// whatever happens, the tickets of a browser that did not complete a successful sign-out may legitimately stay in the store
	signedOut := false
	defer func() {
		if cfg.Store != "redis" || signedOut {
			return
		}
		for _, c := range b.Jar.Archive {
			if c11IsSession(c) {
				if k := c11TicketKey(c.Value); k != "" {
					r.accountFor(k)
				}
			}
		}
	}()
	var trace []string
	var gens [][]*vfCookie // session cookies stored by one response = one generation
	detail := func(extra map[string]interface{}) map[string]interface{} {
		d := map[string]interface{}{"config": cfg.Label, "flags": p.Flags, "cookie_name": cfg.Name, "history": h, "trace": trace, "subject": sub,
			"how_to_replay": "(when host_header_seen_by_proxy is set: send every request with that Host header but keep the cookie jar keyed by host_login / host_sign_out) login at host_login (ID token with a 'pad' claim of pads[0] random characters); before each request listed in refresh_before_request move the session's CreatedAt 10 minutes back (load + save through the store) so that the request refreshes (next pad); then <method> <prefix>/sign_out[?rd=] at host_sign_out; then replay the archived cookies"}
		for k, v := range extra {
			d[k] = v
		}
		return d
	}
	// wire: the Host header the proxy sees for a request the browser addresses to host
	wire := func(host string) string {
		if h.ProxyHost != "" {
			return h.ProxyHost
		}
		return host
	}
	// fwd: reverse-proxy deployment — the front proxy rewrites Host and hands the public host over in X-Forwarded-Host
	fwd := cfg.ReverseProxy && h.ProxyHost != ""
	front := func(rr *vfReq, publicHost string) *vfReq {
		rr.Host = wire(publicHost)
		if fwd {
			rr.Headers = append(rr.Headers, [2]string{"X-Forwarded-Host", publicHost}, [2]string{"X-Forwarded-Proto", "http"}, [2]string{"X-Forwarded-For", "198.51.100.23"})
		}
		return rr
	}
	// ruleHost: the host the documented cookie-domain rule applies to
	ruleHost := func(host string) string {
		if fwd {
			return host
		}
		return wire(host)
	}
	// the browser: cookies by its own URL host (b.Host), Host header possibly rewritten on the way to the proxy
	browserSend := func(req *vfReq) *vfResp {
		rr := front(req.Clone(), b.Host)
		if cs := b.Jar.For(b.Host, rr.Target, false); len(cs) > 0 {
			rr.Headers = append(rr.Headers, [2]string{"Cookie", vfCookieHeader(cs)})
		}
		resp := p.Do(rr)
		path := rr.Target
		if k := strings.IndexAny(path, "?#"); k >= 0 {
			path = path[:k]
		}
		for _, res := range b.Jar.Apply(b.Host, path, resp.SetCookies()) {
			if strings.HasPrefix(res, "ignored") {
				run.Count("set_cookie_ignored_by_browser:"+res, 1)
			}
		}
		return resp
	}
	send := func(req *vfReq) *vfResp {
		n0 := len(b.Jar.Archive)
		resp := browserSend(req)
		var g []*vfCookie
		for _, c := range b.Jar.Archive[n0:] {
			if c11IsSession(c) {
				g = append(g, c)
			}
		}
		if len(g) > 0 {
			gens = append(gens, g)
		}
		return resp
	}
	// --- login
	for li, u := range users {
		lsub := subOf(u)
		st := send(vfGET(cfg.Prefix + "/start?rd=" + vfQueryEscape(cfg.Base)))
		if st.Code != 302 {
			run.Inconclusive(fmt.Sprintf("login start answered %d", st.Code))
			return
		}
		code, ar, err := r.w.IdP.Authorize(st.Location(), vfIdentity{Sub: lsub, Email: "x@example.com", Groups: []string{"g"}, PreferredUsername: "pu-" + lsub})
		if err != nil {
			run.Inconclusive("login start failed: " + vfTrunc(err.Error(), 60))
			return
		}
		ng := len(gens)
		cb := send(vfGET(cfg.Prefix + "/callback?code=" + vfQueryEscape(code) + "&state=" + vfQueryEscape(ar.Params.Get("state"))))
		if cb.Code != 302 {
			run.Inconclusive(fmt.Sprintf("login callback answered %d", cb.Code))
			return
		}
		if len(gens) == ng {
			run.Inconclusive("login stored no session cookie in the browser")
			return
		}
		trace = append(trace, fmt.Sprintf("login %d as %s at %s (proxy sees Host %s): %d session cookie(s)", li+1, lsub, h.HostLogin, wire(h.HostLogin), len(gens[len(gens)-1])))
		if li < len(users)-1 {
			// the earlier user works a little before somebody else logs in over the session, without a sign-out
			resp := send(vfGET(cfg.Base+"probe?login="+fmt.Sprint(li), "X-Vf-Id", fmt.Sprintf("%s-l%d", lsub, li)))
			if resp.Code != 200 {
				run.Inconclusive(fmt.Sprintf("authenticated request answered %d", resp.Code))
				return
			}
			run.Count("logins_over_an_existing_session", 1)
		}
	}
	refreshAt := map[int]bool{}
	for _, x := range h.RefreshAt {
		refreshAt[x] = true
	}
	expireNext := false // the next call of age moves ExpiresOn into the past instead of CreatedAt
	age := func(host string) bool {
		req := httptest.NewRequest("GET", cfg.Prefix+"/userinfo", nil)
		req.Host = wire(host)
		if fwd {
			// SaveSession / LoadCookiedSession are called outside the middleware chain, where no request scope (reverse-proxy flag)
			// exists and X-Forwarded-Host is not consulted: give the store the host the chain would have derived
			req.Host = host
		}
		req.Header.Set("Cookie", vfCookieHeader(b.Jar.For(host, cfg.Prefix+"/userinfo", false)))
		s, err := p.P.LoadCookiedSession(req)
		if err != nil || s == nil {
			run.Inconclusive("ageing: session does not load")
			return false
		}
		t := time.Now().Add(-10 * time.Minute)
		if expireNext {
			t = time.Now().Add(-time.Minute)
			s.ExpiresOn = &t
		} else {
			s.CreatedAt = &t
		}
		rw := httptest.NewRecorder()
		if err := p.P.SaveSession(rw, req, s); err != nil {
			run.Inconclusive("ageing: save failed")
			return false
		}
		n0 := len(b.Jar.Archive)
		b.Jar.Apply(host, cfg.Prefix+"/userinfo", rw.Header().Values("Set-Cookie"))
		if g := b.Jar.Archive[n0:]; len(g) > 0 {
			gens = append(gens, append([]*vfCookie{}, g...))
		}
		return true
	}
	refreshes := 0
	for i := 0; i < h.K; i++ {
		before := r.tab.Issued(sub)
		if refreshAt[i] && !age(h.HostLogin) {
			return
		}
		id := fmt.Sprintf("%s-req-%d", sub, i)
		resp := send(vfGET(cfg.Base+"probe?i="+fmt.Sprint(i), "X-Vf-Id", id))
		if resp.Code != 200 {
			run.Inconclusive(fmt.Sprintf("authenticated request answered %d", resp.Code))
			return
		}
		if refreshAt[i] {
			if r.tab.Issued(sub) != before+1 {
				run.Inconclusive("refresh did not happen")
				return
			}
			refreshes++
			trace = append(trace, fmt.Sprintf("request %d refreshed: %d session cookie(s) in jar", i, len(c11SessionIn(b.Jar.For(h.HostLogin, cfg.Base, false)))))
		}
	}
	// --- sign-out
	b.Host = h.HostOut
	authedOn := func(px *vfProxy, cs []*vfCookie, both bool) (bool, string) {
		if len(cs) == 0 {
			return false, ""
		}
		hdr := vfCookieHeader(cs)
		ui := px.Do(front(vfGET(cfg.Prefix+"/userinfo", "Cookie", hdr), h.HostOut))
		run.Count("replay_requests", 1)
		if ui.Code == 200 {
			return true, fmt.Sprintf("userinfo %d %s", ui.Code, vfTrunc(strings.TrimSpace(string(ui.Body)), 80))
		}
		if !both {
			return false, ""
		}
		id := fmt.Sprintf("%s-replay-%d", sub, atomic.AddInt64(&c11Seq, 1))
		pr := px.Do(front(vfGET(cfg.Base+"replay", "Cookie", hdr, "X-Vf-Id", id), h.HostOut))
		run.Count("replay_requests", 1)
		hit := len(r.w.Up.FindHit(id)) > 0
		if hit || pr.Code == 200 {
			return true, fmt.Sprintf("userinfo %d, protected path %d upstream-hit=%v", ui.Code, pr.Code, hit)
		}
		return false, ""
	}
	authedFn := func(cs []*vfCookie, both bool) (bool, string) { return authedOn(p, cs, both) }
	replica := cfg.p2 != nil && h.Replica && h.Fault == ""
	if replica {
		// another instance sharing the store serves this browser right before the sign-out
		warm := cfg.p2.Do(front(vfGET(cfg.Prefix+"/userinfo", "Cookie", vfCookieHeader(b.Jar.For(h.HostOut, cfg.Prefix+"/userinfo", false))), h.HostOut))
		if warm.Code != 200 {
			run.Inconclusive(fmt.Sprintf("second instance answered %d before the sign-out", warm.Code))
			return
		}
		trace = append(trace, "second instance served /userinfo: 200")
	}
	if refreshAt[h.K] && !age(h.HostOut) {
		return
	}
	target := cfg.Prefix + "/sign_out"
	if h.Expired {
		expireNext = true
		if !age(h.HostOut) {
			return
		}
		expireNext = false
		run.Count("expired_at_sign_out_with_backend_logout", 1)
		trace = append(trace, "session's ExpiresOn moved one minute into the past (no refresh due)")
	}
	if h.BothForms {
		// the jar gets back the full set of parts of an earlier split generation next to the current plain cookie
		cur := c11SessionIn(b.Jar.For(h.HostOut, target, false))
		if len(cur) == 1 && cur[0].Name == cfg.Name {
			for gi := len(gens) - 1; gi >= 0; gi-- {
				g, ok := gens[gi], len(gens[gi]) >= 2
				var raws []string
				for _, c := range g {
					if c.Name == cfg.Name || c.Domain != cur[0].Domain || c.Path != cur[0].Path {
						ok = false
					}
					raws = append(raws, c.Raw)
				}
				if ok {
					b.Jar.Apply(h.HostOut, target, raws)
					run.Count("sign_outs_with_plain_cookie_and_parts_in_jar", 1)
					trace = append(trace, fmt.Sprintf("the response of generation %d (%d parts) reaches the browser late: the jar now holds the plain cookie and %d parts", gi, len(g), len(g)))
					break
				}
			}
		}
	}
	presented := c11SessionIn(b.Jar.For(h.HostOut, target, false))
	if len(presented) == 0 {
		run.Inconclusive("no session cookie to present at sign-out")
		return
	}
	// ticket keys of this browser (Redis)
	keys := map[string]bool{}
	if cfg.Store == "redis" {
		for _, c := range b.Jar.Archive {
			if c11IsSession(c) {
				if k := c11TicketKey(c.Value); k != "" {
					keys[k] = true
				}
			}
		}
		live := 0
		for k := range keys {
			if r.w.Redis().Exists(k) {
				live++
			}
		}
		if live == 0 {
			run.Inconclusive("no live ticket key before sign-out")
			return
		}
		if h.Fault == "DOWN" {
			if cfg.hub == nil {
				run.Inconclusive("outage history on a configuration without its own store front")
				return
			}
		} else if h.Fault != "" {
			for k := range keys {
				r.faults.set(k, h.Fault)
				defer r.faults.del(k)
			}
		}
	}
	var req *vfReq
	if h.Method == "POST" {
		req = vfNewReq("POST", target)
		body := ""
		if h.Rd != "" {
			body = "rd=" + vfQueryEscape(h.Rd)
		}
		req.WithBody("application/x-www-form-urlencoded", []byte(body))
	} else {
		if h.Rd != "" {
			target += "?rd=" + vfQueryEscape(h.Rd)
		}
		req = vfGET(target)
	}
	issuedBefore := r.tab.Issued(sub)
	n0 := len(b.Jar.Archive)
	if h.Fault == "DOWN" {
		cfg.hub.SetDown(true) // from the first command of the sign-out request on: established connections are closed, new ones get no answer
	}
	so := send(req)
	if h.Fault == "DOWN" {
		cfg.hub.SetDown(false)
	} else if h.Fault != "" {
		for k := range keys {
			r.faults.del(k) // the fault lasts for the sign-out request only: the store is healthy again for everything that follows
		}
	}
	// the sign-out response has been received: from here on nothing the browser ever held may authenticate on ANY instance
	replicaStale := ""
	if replica && so.Code == 302 {
		if ok, what := authedOn(cfg.p2, presented, false); ok {
			replicaStale = what
		}
		run.Count("immediate_replays_on_second_instance", 1)
	}
	refreshedAtSignOut := r.tab.Issued(sub) > issuedBefore
	setBySignOut := c11SessionIn(b.Jar.Archive[n0:])
	trace = append(trace, fmt.Sprintf("%s %s at %s (proxy sees Host %s) presenting %d session cookie(s) -> %d, %d Set-Cookie line(s), refreshed=%v", h.Method, target, h.HostOut, wire(h.HostOut), len(presented), so.Code, len(so.SetCookies()), refreshedAtSignOut))
	run.Count(fmt.Sprintf("sign_out_status_%d", so.Code), 1)
	if so.Panic != "" {
		run.Violation("c11:panic-in-sign-out", fmt.Sprintf("[%s] sign-out panicked: %s", cfg.Label, vfTrunc(so.Panic, 100)), detail(map[string]interface{}{"stack": so.Stack}))
		return
	}
	success := so.Code == 302
	dc := cfg.Domain + "," + cfg.Path
	if h.HostLogin != h.HostOut {
		dc += ",cross-host"
		if len(cfg.Domains) >= 2 && c11RefDomain(cfg.Domains, ruleHost(h.HostLogin)) != c11RefDomain(cfg.Domains, ruleHost(h.HostOut)) {
			dc += ",other-domain-selected"
		}
	}
	if h.ProxyHost != "" && fwd {
		dc += ",x-forwarded-host->" + c11RefDomain(cfg.Domains, h.HostOut)
	} else if h.ProxyHost != "" {
		dc += ",host-rewritten"
		if len(cfg.Domains) > 0 {
			dc += "-matching-no-domain"
		}
	}
	if cfg.ReverseProxy {
		dc += ",reverse-proxy"
	}
	cell := fmt.Sprintf("%s|parts=%d|refresh=%s|%s|%s|name=%s", cfg.Store, len(presented), h.refreshClass(), dc, h.Method, c11NameClass(cfg.Name))
	if h.Fault != "" {
		cell += "|fault=" + h.Fault
	}
	if len(h.Users) > 1 {
		cell += "|logins=" + h.loginClass()
	}
	if cfg.p2 != nil && h.Replica && h.Fault == "" {
		cell += "|two-instances"
	}
	if h.Expired {
		cell += "|expired+backend-logout"
	}
	if h.BothForms {
		cell += "|plain+parts-in-jar"
	}
	run.Eval(cell)
	run.Count("histories", 1)
	if cfg.Store == "cookie" && len(presented) >= 11 {
		run.Count("sign_outs_presenting_11+_session_cookies", 1)
		run.Count("sign_outs_presenting_11+_session_cookies:name="+c11NameClass(cfg.Name), 1)
	}
	if cfg.Store == "cookie" && len(presented) >= 14 {
		run.Count("sign_outs_presenting_14+_session_cookies", 1)
		run.Count("sign_outs_presenting_14+_session_cookies:name="+c11NameClass(cfg.Name), 1)
	}
	if h.ProxyHost != "" {
		run.Count("histories_host_rewritten", 1)
	}
	if no%400 == 0 {
		r.w.Up.Reset() // the upstream keeps every request (with its multi-kB Cookie header); replays also judge by status, so a lost record cannot hide anything
	}
	run.Count("refreshes", int64(refreshes))

	// --- R3: store state vs answer
	keyLeft := ""
	if cfg.Store == "redis" {
		for k := range keys {
			if r.w.Redis().Exists(k) {
				keyLeft = k
			}
		}
		switch {
		case keyLeft != "" && so.Code < 400 && strings.HasPrefix(h.Fault, "GET:"):
			run.Violation("c11:success-answer-although-session-still-stored-after-read-fault", fmt.Sprintf("[%s] reads of the ticket failed during the sign-out request (%s; a DEL would have succeeded): sign-out answered %d but the session is still stored", cfg.Label, h.Fault, so.Code),
				detail(map[string]interface{}{"redis_key_still_present": keyLeft, "status": so.Code, "location": so.Location()}))
		case keyLeft != "" && so.Code < 400 && c11FaultClass(h.Fault) == "outage":
			run.Violation("c11:success-answer-although-store-failed-throughout-sign-out", fmt.Sprintf("[%s] the store failed for the whole sign-out request (%s: the reads of the session chain and every DEL of the ticket failed) and the session is still stored, but sign-out answered %d instead of an error; the store is healthy again for the replays", cfg.Label, h.Fault, so.Code),
				detail(map[string]interface{}{"redis_key_still_present": keyLeft, "status": so.Code, "location": so.Location()}))
		case keyLeft != "" && so.Code < 400 && c11FaultClass(h.Fault) == "slow":
			run.Violation("c11:success-answer-although-slow-store-delete-not-done", fmt.Sprintf("[%s] the Redis DEL of the ticket was held by the store and then %s (%s; the client's read timeout is longer than that): sign-out answered %d although the session was still stored when the answer was there", cfg.Label, map[bool]string{true: "carried out", false: "failed"}[strings.HasSuffix(h.Fault, ":late-ok")], h.Fault, so.Code),
				detail(map[string]interface{}{"redis_key_still_present": keyLeft, "status": so.Code, "location": so.Location()}))
		case keyLeft != "" && so.Code < 400 && h.Fault != "":
			run.Violation("c11:success-answer-although-store-delete-failed", fmt.Sprintf("[%s] the Redis DEL of the ticket failed (%s) and the session is still stored, but sign-out answered %d instead of an error", cfg.Label, h.Fault, so.Code),
				detail(map[string]interface{}{"redis_key_still_present": keyLeft, "status": so.Code, "location": so.Location()}))
		case keyLeft != "" && so.Code < 400:
			run.Violation("c11:stored-session-survives-sign-out", fmt.Sprintf("[%s] sign-out answered %d but the ticket's key is still in Redis", cfg.Label, so.Code),
				detail(map[string]interface{}{"redis_key_still_present": keyLeft, "status": so.Code}))
		}
		if strings.HasPrefix(h.Fault, "GET:") {
			run.Count("read_fault_histories", 1)
			if so.Code == 302 {
				run.Count("read_fault_histories_answered_302", 1)
			}
		} else if h.Fault != "" {
			run.Count("fault_histories", 1)
			if fc := c11FaultClass(h.Fault); fc != "delete" {
				run.Count(fc+"_fault_histories", 1)
				if keyLeft != "" {
					run.Count(fc+"_fault_histories_key_survived", 1)
				}
				if so.Code >= 400 {
					run.Count(fc+"_fault_histories_answered_with_error", 1)
				}
			}
			if keyLeft != "" {
				run.Count("fault_histories_key_survived", 1)
			}
			if so.Code >= 400 {
				run.Count("fault_histories_answered_with_error", 1)
			}
		}
	}
	if !success && h.Fault == "" {
		// a well-formed sign-out of a logged-in browser against a healthy store was REFUSED (4xx): whatever the reason given
		// (e.g. the rd parameter), the property demands that a sign-out ends the session — with and without rd, allowed or not.
		if so.Code >= 400 && so.Code < 500 {
			if ok, what := authedFn(b.Jar.For(h.HostOut, cfg.Base+"replay", false), true); ok {
				run.Count("sign_outs_refused_session_kept", 1)
				run.Violation("c11:sign-out-refused-and-session-kept", fmt.Sprintf("[%s] %s sign-out with rd=%q against a healthy store was answered %d with %d Set-Cookie line(s); nothing was removed: the browser's next request is still authenticated (%s)", cfg.Label, h.Method, h.Rd, so.Code, len(so.SetCookies()), what),
					detail(map[string]interface{}{"status": so.Code, "rd": h.Rd, "redis_key_still_present": keyLeft, "set_cookie": c11Lines(so.SetCookies())}))
				return
			}
		}
		run.Inconclusive(fmt.Sprintf("fault-free sign-out answered %d", so.Code))
		return
	}

	authed := authedFn
	explained := false
	// --- R1: every presented session cookie must be gone from the jar
	if success || h.Fault == "" {
		// a cookie "is still there" when the jar holds a cookie of the same identity (name, domain, path, host-only flag),
		// whether the very one that was presented or one the sign-out response stored over it (refresh on the sign-out request)
		ident := func(c *vfCookie) string { return fmt.Sprintf("%s\x00%s\x00%s\x00%v", c.Name, c.Domain, c.Path, c.HostOnly) }
		left := map[*vfCookie]bool{}
		leftID := map[string]bool{}
		for _, c := range b.Jar.All() {
			left[c] = true
			leftID[ident(c)] = true
		}
		var survivors []*vfCookie
		presentedID := map[string]bool{}
		for _, c := range presented {
			presentedID[ident(c)] = true
			if leftID[ident(c)] {
				survivors = append(survivors, c)
			}
		}
		if len(survivors) > 0 {
			sig := "c11:presented-session-cookie-survives-sign-out"
			if d1, d2 := c11RefDomain(cfg.Domains, ruleHost(h.HostLogin)), c11RefDomain(cfg.Domains, ruleHost(h.HostOut)); len(cfg.Domains) >= 2 && h.HostLogin != h.HostOut && d1 != d2 {
				// known finding, kept tight: several cookie domains, the cookies were set while addressing a host for which the
				// domain rule selects d1, sign-out addressed a host for which it selects d2 != d1, and every survivor carries d1
				all := true
				for _, c := range survivors {
					if c.HostOnly || c.Domain != strings.TrimPrefix(d1, ".") {
						all = false
					}
				}
				if all {
					sig = "c11:multi-domain-sign-out-deletes-under-other-domain"
				}
			}
			run.Violation(sig, fmt.Sprintf("[%s] %d of %d presented session cookie(s) are still in the jar after the sign-out response: %v", cfg.Label, len(survivors), len(presented), c11Describe(survivors)),
				detail(map[string]interface{}{"presented": c11Describe(presented), "survivors": c11Describe(survivors), "set_cookie": c11Lines(so.SetCookies())}))
		}
		// session cookies the sign-out response itself stored (a refresh happened on the sign-out request) and did not delete
		var fresh []*vfCookie
		for _, c := range setBySignOut {
			if left[c] && !presentedID[ident(c)] {
				fresh = append(fresh, c)
			}
		}
		explained = len(survivors) > 0
		if len(fresh) > 0 && len(survivors) == 0 {
			explained = true
			still := ""
			if success {
				if ok, what := authedFn(b.Jar.For(h.HostOut, cfg.Base+"replay", false), true); ok {
					still = "; the browser's next request is STILL AUTHENTICATED (" + what + ")"
				}
			}
			run.Violation("c11:refresh-on-sign-out-leaves-new-session-cookies", fmt.Sprintf("[%s] the sign-out request refreshed the session: the response stored %d new session cookie(s) and deleted only the %d presented one(s); %v remain in the browser%s",
				cfg.Label, len(setBySignOut), len(presented), c11Describe(fresh), still),
				detail(map[string]interface{}{"presented": c11Describe(presented), "remaining": c11Describe(fresh), "set_cookie": c11Lines(so.SetCookies())}))
		}
	}

	// --- R2 / R4: replay
	if !success {
		return
	}
	signedOut = true
	if keyLeft != "" {
		for k := range keys {
			r.accountFor(k) // already reported above
		}
	}
	if replicaStale != "" {
		run.Violation("c11:other-instance-authenticates-after-sign-out", fmt.Sprintf("[%s] right after the 302 sign-out (served by instance A) the cookies the browser had presented are still authenticated by instance B, which shares the same Redis (%s)", cfg.Label, replicaStale),
			detail(map[string]interface{}{"replayed": c11Describe(presented), "note": "instance B = second proxy process with identical flags and the same --redis-connection-url; it served one /userinfo request of this browser right before the sign-out"}))
	}
	final := b.Jar.For(h.HostOut, cfg.Base+"replay", false)
	if ok, what := authed(final, true); ok && !explained {
		run.Violation("c11:browser-still-authenticated-after-sign-out", fmt.Sprintf("[%s] after the 302 sign-out the browser's own next request is authenticated (%s) with jar %v", cfg.Label, what, c11Describe(final)),
			detail(map[string]interface{}{"jar": c11Describe(final), "set_cookie": c11Lines(so.SetCookies())}))
	}
	type rp struct {
		what string
		cs   []*vfCookie
		both bool
	}
	var replays []rp
	for gi, g := range gens {
		replays = append(replays, rp{fmt.Sprintf("generation %d (%d cookie(s) together)", gi, len(g)), g, true})
	}
	for _, c := range b.Jar.Archive {
		replays = append(replays, rp{"single cookie " + c11Short(c.Name), []*vfCookie{c}, cfg.Store == "redis"})
	}
	for _, x := range replays {
		ok, what := authed(x.cs, x.both)
		if !ok && replica && replicaStale == "" {
			if ok, what = authedOn(cfg.p2, x.cs, false); ok {
				what += " — on the second instance"
			}
		}
		if !ok {
			continue
		}
		if cfg.Store == "redis" {
			run.Violation("c11:archived-cookie-authenticates-after-sign-out", fmt.Sprintf("[%s] replaying %s after the 302 sign-out is authenticated (%s)", cfg.Label, x.what, what),
				detail(map[string]interface{}{"replayed": c11Describe(x.cs)}))
			break
		}
		run.Count("cookie_store_archive_replays_still_valid(not_a_violation)", 1)
	}
	run.SampleEvery(211, func() interface{} { return map[string]interface{}{"config": cfg.Label, "history": h, "trace": trace} })
}

// race: Redis store, real concurrency. The session is stale; request R starts refreshing it and is held inside the provider's token
// endpoint; the sign-out is fired while R is in there; then R is let go. After both have been answered, a sign-out that answered 302
// must have ended the session: no ticket key of this browser in Redis, and no cookie the browser ever received — including what R's
// response set — authenticates on any instance. (The order in which the two responses reach the browser is arbitrary, so the jar
// itself is not judged here.)
func (r *c11Runner) race(cfg *c11Cfg, i int) {
	run, p := r.run, cfg.p
	no := atomic.AddInt64(&c11Seq, 1)
	sub := fmt.Sprintf("c11-race-%d", no)
	host := cfg.Hosts[i%len(cfg.Hosts)][0]
	pSO, soVia := p, "the same instance"
	if cfg.p2 != nil && i%2 == 1 {
		pSO, soVia = cfg.p2, "a second instance sharing the Redis"
	}
	pads := []int{c11PadClasses[i%4], c11PadClasses[(i+1)%4]}
	st := &c11Stall{entered: make(chan struct{}), release: make(chan struct{})}
	r.tab.mu.Lock()
	r.tab.pads[sub] = pads
	r.tab.mu.Unlock()
	b := vfNewBrowser(host)
	signedOut := false
	defer func() {
		r.tab.mu.Lock()
		delete(r.tab.stall, sub)
		r.tab.mu.Unlock()
		if signedOut {
			return
		}
		for _, c := range b.Jar.Archive {
			if k := c11TicketKey(c.Value); k != "" && c11IsSession(c) {
				r.accountFor(k)
			}
		}
	}()
	var trace []string
	start := b.Get(p, cfg.Prefix+"/start?rd="+vfQueryEscape(cfg.Base))
	if start.Code != 302 {
		run.Inconclusive(fmt.Sprintf("login start answered %d", start.Code))
		return
	}
	code, ar, err := r.w.IdP.Authorize(start.Location(), vfIdentity{Sub: sub, Email: "x@example.com", Groups: []string{"g"}, PreferredUsername: "pu-" + sub})
	if err != nil {
		run.Inconclusive("login start failed")
		return
	}
	if cb := b.Get(p, cfg.Prefix+"/callback?code="+vfQueryEscape(code)+"&state="+vfQueryEscape(ar.Params.Get("state"))); cb.Code != 302 {
		run.Inconclusive(fmt.Sprintf("login callback answered %d", cb.Code))
		return
	}
	// age the session through the store's own load + save
	cookies := func(path string) string { return vfCookieHeader(b.Jar.For(host, path, false)) }
	req := httptest.NewRequest("GET", cfg.Prefix+"/userinfo", nil)
	req.Host = host
	req.Header.Set("Cookie", cookies(cfg.Prefix+"/userinfo"))
	sess, err := p.P.LoadCookiedSession(req)
	if err != nil || sess == nil {
		run.Inconclusive("ageing: session does not load")
		return
	}
	old := time.Now().Add(-10 * time.Minute)
	sess.CreatedAt = &old
	rw := httptest.NewRecorder()
	if err := p.P.SaveSession(rw, req, sess); err != nil {
		run.Inconclusive("ageing: save failed")
		return
	}
	b.Jar.Apply(host, cfg.Prefix+"/userinfo", rw.Header().Values("Set-Cookie"))
	r.tab.mu.Lock()
	r.tab.stall[sub] = st
	r.tab.mu.Unlock()

	type done struct {
		resp *vfResp
		at   time.Time
	}
	rDone, soDone := make(chan done, 1), make(chan done, 1)
	rReq := vfGET(cfg.Base+"probe?race=1", "Cookie", cookies(cfg.Base+"probe"), "X-Vf-Id", sub+"-R").WithHost(host)
	soReq := vfGET(cfg.Prefix+"/sign_out", "Cookie", cookies(cfg.Prefix+"/sign_out")).WithHost(host)
	go func() { rDone <- done{p.Do(rReq), time.Now()} }()
	var entered time.Time
	select {
	case <-st.entered:
		entered = time.Now()
	case <-time.After(4 * time.Second):
		close(st.release)
		<-rDone
		run.Inconclusive("race: the refresh never reached the provider")
		return
	}
	go func() { soDone <- done{pSO.Do(soReq), time.Now()} }()
	// give the sign-out time to either finish or queue up behind the refresh, then let the refresh go
	var so, rr done
	soFirst := false
	select {
	case so = <-soDone:
		soFirst = true
	case <-time.After(150 * time.Millisecond):
	}
	close(st.release)
	rr = <-rDone
	if !soFirst {
		so = <-soDone
	}
	run.Count("races", 1)
	if soFirst {
		run.Count("races_sign_out_answered_while_refresh_in_flight", 1)
	} else {
		run.Count("races_sign_out_waited_for_the_refresh", 1)
	}
	trace = append(trace, fmt.Sprintf("R (refreshing, held in the provider) -> %d, %d Set-Cookie; sign-out via %s fired %.0f ms after the provider got the refresh -> %d (answered before R finished: %v)",
		rr.resp.Code, len(rr.resp.SetCookies()), soVia, float64(time.Since(entered).Milliseconds()), so.resp.Code, soFirst))
	// the browser receives both responses
	b.Jar.Apply(host, cfg.Base+"probe", rr.resp.SetCookies())
	b.Jar.Apply(host, cfg.Prefix+"/sign_out", so.resp.SetCookies())
	cell := fmt.Sprintf("race|%s|sign-out-via=%v|answered-first=%v|%s,%s|name=%s", cfg.Store, pSO != p, soFirst, cfg.Domain, cfg.Path, c11NameClass(cfg.Name))
	if rr.at.Sub(entered) > 1500*time.Millisecond {
		// the refresh lock lives 2 s: beyond that a second refresh is legitimate and the history is another one
		run.Inconclusive("race: the held refresh took longer than the lock's lifetime allows")
		return
	}
	run.Eval(cell)
	if so.resp.Code != 302 {
		run.Count(fmt.Sprintf("race_sign_out_status_%d", so.resp.Code), 1)
		return // answered with an error: the property demands nothing
	}
	signedOut = true
	detail := map[string]interface{}{"config": cfg.Label, "flags": p.Flags, "trace": trace, "subject": sub, "host": host,
		"how_to_replay": "Redis store, --cookie-refresh=1m: login; move the session's CreatedAt 10 minutes back; hold the provider's refresh grant; send GET <base>probe (starts the refresh); while the provider holds it send GET <prefix>/sign_out; release the provider; after both responses replay every cookie the browser ever received"}
	keyLeft := ""
	for _, c := range b.Jar.Archive {
		if k := c11TicketKey(c.Value); k != "" && c11IsSession(c) && r.w.Redis().Exists(k) {
			keyLeft = k
			r.accountFor(k)
		}
	}
	auth := ""
	for _, c := range b.Jar.Archive {
		if !c11IsSession(c) {
			continue
		}
		for _, px := range []*vfProxy{p, cfg.p2} {
			if px == nil {
				continue
			}
			ui := px.Do(vfGET(cfg.Prefix+"/userinfo", "Cookie", c.Name+"="+c.Value).WithHost(host))
			run.Count("replay_requests", 1)
			if ui.Code == 200 {
				auth = fmt.Sprintf("cookie #%d of the archive: userinfo 200 %s", c.Seq, vfTrunc(strings.TrimSpace(string(ui.Body)), 80))
			}
		}
	}
	if keyLeft != "" || auth != "" {
		detail["redis_key_still_present"] = keyLeft
		detail["replay"] = auth
		run.Violation("c11:session-survives-sign-out-racing-a-refresh", fmt.Sprintf("[%s] sign-out (via %s) answered 302 while another request of the same browser was refreshing the session; after both were answered the session is back: key present=%v, %s",
			cfg.Label, soVia, keyLeft != "", auth), detail)
	}
	run.SampleEvery(97, func() interface{} { return map[string]interface{}{"config": cfg.Label, "race": trace} })
}

// abandon: Redis store behind the RESP front. The client of the sign-out request gives up (its request context is CANCELLED, as
// net/http does when the connection goes away) while an earlier step of the same request — the session chain's read of the
// ticket — is held by the store; the handler runs on and reaches the deletion with a context that is already done. The answer
// it produces reaches nobody; what is judged is the state afterwards against that answer: EITHER the stored session is gone
// (no archived cookie authenticates) OR the handler answered with an error — never "success redirect + session still stored".
// Nothing is measured: if the cancellation lands late the sign-out is an ordinary one and is judged by the same rule.
func (r *c11Runner) abandon(cfg *c11Cfg, i int) {
	run, p := r.run, cfg.p
	no := atomic.AddInt64(&c11Seq, 1)
	sub := fmt.Sprintf("c11-abandon-%d", no)
	host := cfg.Hosts[i%len(cfg.Hosts)][0]
	method := []string{"GET", "POST"}[i%2]
	rd := []string{"", "/after?x=1", "https://evil.example/"}[(i/2)%3]
	holdMs := []int{1500, 2200}[(i/2)%2]
	r.tab.mu.Lock()
	r.tab.pads[sub] = []int{c11PadClasses[i%4]}
	r.tab.mu.Unlock()
	b := vfNewBrowser(host)
	defer func() {
		for _, c := range b.Jar.Archive {
			if k := c11TicketKey(c.Value); k != "" && c11IsSession(c) {
				r.accountFor(k) // whatever the outcome: no browser completed a sign-out it saw the answer of
			}
		}
	}()
	start := b.Get(p, cfg.Prefix+"/start?rd="+vfQueryEscape(cfg.Base))
	if start.Code != 302 {
		run.Inconclusive(fmt.Sprintf("login start answered %d", start.Code))
		return
	}
	code, ar, err := r.w.IdP.Authorize(start.Location(), vfIdentity{Sub: sub, Email: "x@example.com", Groups: []string{"g"}, PreferredUsername: "pu-" + sub})
	if err != nil {
		run.Inconclusive("login start failed")
		return
	}
	if cb := b.Get(p, cfg.Prefix+"/callback?code="+vfQueryEscape(code)+"&state="+vfQueryEscape(ar.Params.Get("state"))); cb.Code != 302 {
		run.Inconclusive(fmt.Sprintf("login callback answered %d", cb.Code))
		return
	}
	if ui := b.Get(p, cfg.Prefix+"/userinfo"); ui.Code != 200 {
		run.Inconclusive(fmt.Sprintf("abandon: not authenticated after login (%d)", ui.Code))
		return
	}
	keys := map[string]bool{}
	for _, c := range b.Jar.Archive {
		if k := c11TicketKey(c.Value); k != "" && c11IsSession(c) && r.w.Redis().Exists(k) {
			keys[k] = true
		}
	}
	if len(keys) == 0 {
		run.Inconclusive("no live ticket key before sign-out")
		return
	}
	spec := fmt.Sprintf("GETSLOW%d", holdMs)
	for k := range keys {
		r.faults.set(k, spec)
	}
	target := cfg.Prefix + "/sign_out"
	var req *vfReq
	if method == "POST" {
		body := ""
		if rd != "" {
			body = "rd=" + vfQueryEscape(rd)
		}
		req = vfNewReq("POST", target).WithBody("application/x-www-form-urlencoded", []byte(body))
	} else {
		if rd != "" {
			target += "?rd=" + vfQueryEscape(rd)
		}
		req = vfGET(target)
	}
	req.WithHost(host).H("Cookie", vfCookieHeader(b.Jar.For(host, cfg.Prefix+"/sign_out", false)))
	req.GiveUpAfter = 200 * time.Millisecond
	so := p.Do(req) // returns when the handler is done; the client left after 200 ms, so nothing of this reaches the jar
	for k := range keys {
		r.faults.del(k)
	}
	run.Count("abandoned_sign_outs", 1)
	run.Count(fmt.Sprintf("abandoned_sign_out_status_%d", so.Code), 1)
	detail := map[string]interface{}{"config": cfg.Label, "flags": p.Flags, "subject": sub, "host": host, "method": method, "rd": rd, "status": so.Code, "location": so.Location(),
		"how_to_replay": fmt.Sprintf("Redis store: login; %s <prefix>/sign_out with the browser's cookies on a request whose context is cancelled 200 ms after it started, while the store holds the GET of the ticket for %d ms (the DEL is served normally); wait for the handler to return; then look at the key and replay the cookies", method, holdMs)}
	if so.Panic != "" {
		detail["stack"] = so.Stack
		run.Violation("c11:panic-in-sign-out", fmt.Sprintf("[%s] abandoned sign-out panicked: %s", cfg.Label, vfTrunc(so.Panic, 100)), detail)
		return
	}
	keyLeft := ""
	for k := range keys {
		if r.w.Redis().Exists(k) {
			keyLeft = k
		}
	}
	auth := ""
	for _, c := range b.Jar.Archive {
		if !c11IsSession(c) {
			continue
		}
		ui := p.Do(vfGET(cfg.Prefix+"/userinfo", "Cookie", c.Name+"="+c.Value).WithHost(host))
		run.Count("replay_requests", 1)
		if ui.Code == 200 {
			auth = fmt.Sprintf("cookie #%d of the archive: userinfo 200 %s", c.Seq, vfTrunc(strings.TrimSpace(string(ui.Body)), 80))
		}
	}
	answer := "error"
	if so.Code < 400 {
		answer = "success"
	}
	run.Eval(fmt.Sprintf("abandoned|%s|%s|rd=%v|hold=%d|answer=%s|session-left=%v|%s,%s|name=%s", cfg.Store, method, rd != "", holdMs, answer, keyLeft != "" || auth != "", cfg.Domain, cfg.Path, c11NameClass(cfg.Name)))
	if keyLeft != "" || auth != "" {
		run.Count("abandoned_sign_outs_session_left", 1)
	}
	if so.Code >= 400 {
		run.Count("abandoned_sign_outs_answered_with_error", 1)
		return
	}
	if keyLeft != "" || auth != "" {
		detail["redis_key_still_present"] = keyLeft
		detail["replay"] = auth
		run.Violation("c11:success-answer-to-abandoned-sign-out-although-session-still-stored", fmt.Sprintf("[%s] the client of a %s sign-out gave up while the store was holding the read of the ticket; the handler went on, answered %d (success) and the session is still stored: key present=%v, %s",
			cfg.Label, method, so.Code, keyLeft != "", auth), detail)
	}
}

func c11SessionIn(cs []*vfCookie) []*vfCookie {
	var out []*vfCookie
	for _, c := range cs {
		if c11IsSession(c) {
			out = append(out, c)
		}
	}
	return out
}

func c11Lines(lines []string) []string {
	var out []string
	for _, l := range lines {
		name, rest := l, ""
		if k := strings.IndexByte(l, '='); k >= 0 {
			name, rest = l[:k], l[k:]
		}
		if k := strings.IndexByte(rest, ';'); k >= 0 && k > 40 {
			rest = rest[:20] + fmt.Sprintf("…(%d)", k) + rest[k:]
		}
		out = append(out, c11Short(name)+rest)
	}
	return out
}

func TestVerif_C11(t *testing.T) {
	run := vfNewRun(t, "C11", "exploration")
	run.SetRule("histories login -> k in 0..3 authenticated requests (with refreshes that grow / shrink the ID token, also on the sign-out request itself) -> sign-out (GET / POST, rd none / relative / foreign) -> " +
		"replay of every archived cookie alone, of each generation together and of the final jar on <prefix>/userinfo and a protected path; reverse-proxy deployments (Host internal, public host in X-Forwarded-Host, two cookie domains); Redis store with TWO instances sharing the store (one request on the second instance right before the sign-out, immediate replay there right after it); a sign-out fired while another request of the browser is held inside the provider refreshing the session (real concurrency); also 2-3 consecutive logins in one browser (different users / same user) before the sign-out, after which the cookies of EVERY earlier login must be dead and no key of the run may remain in Redis; " +
		"stores cookie and Redis; cookie-domain none / parent / two domains (login and sign-out hosts exact, sub-domain, with port, different hosts under the parent, hosts for which different configured domains are selected, and a Host-rewriting front proxy: the browser addresses app.example.test while the proxy sees internal-svc:4180 / an IP literal / localhost, matching none of the configured domains); cookie-path / and /app/; " +
		"cookie names default, 255, 256 characters and regexp metacharacters; sessions of 1..4+ cookies and, for the cookie store, unusually large ones of 11+ and 14+ cookies (two-digit part indices; reached at login, by growing mid-history and by growing / shrinking on the sign-out request); Redis DEL failing through the RESP front (error before effect, dropped connection, nil reply, effect then error / drop); the store failing for the WHOLE sign-out request (every GET and every DEL of the ticket fail, in pairs of kinds; the whole store down from the first command on) and healthy again for the replays; latency: the DEL held by the store for 1.1-4.3 s (client read timeout 15 s, no retries) and then failing or carried out. " +
		"cell = (store, session cookies presented at sign-out, refresh in history, domain/path configuration, method, name class[, fault]); non-trivial = every history (each ends in a judged sign-out)")
	run.Assume("the browser follows RFC 6265 (a deletion only hits a cookie of the same name, domain and path)",
		"cookie store: an archived cookie replayed by hand may still authenticate (stateless) — recorded, not judged",
		"refreshes are provoked by ageing the stored session through the store's own load/save (CreatedAt 10 minutes back, --cookie-refresh=1m)")
	defer debug.SetGCPercent(debug.SetGCPercent(200))
	defer debug.SetMemoryLimit(debug.SetMemoryLimit(3 << 30)) // keeps the laxer pace from growing the heap without bound // wall time only: large cookie headers under the race detector
	w := vfNewWorld(t)
	defer w.Close()
	tab := c11NewTable(w, run.Env.Seed*17+3)
	faults := &c11Faults{m: map[string]string{}}
	r := &c11Runner{run: run, w: w, tab: tab, faults: faults, acc: map[string]bool{}}
	keysBefore := map[string]bool{}
	for _, k := range w.Redis().Keys() {
		keysBefore[k] = true
	}

	cfgs := c11Configs(run, w)
	// Redis instances behind the fault-injecting front (error clause)
	hub := vfNewRedisHub(w.Redis())
	defer hub.Close()
	decide := func(c *vfRedisCmd) vfRedisDecision {
		if c.Op == "DEL" || c.Op == "GET" {
			if spec, ok := faults.get(c.Key); ok {
				if kind, hold, hit := c11FaultFor(spec, c.Op); hit {
					d := vfRedisDecision{Gate: hold > 0}
					if kind != "" {
						d.Fault = &vfRedisFault{Kind: kind}
					}
					return d
				}
			}
		}
		return vfRedisDecision{}
	}
	// held commands (latency): the decision — including the failure that follows — is taken before the hold
	var heldCmds int64
	hold := func(c *vfRedisCmd) {
		if spec, ok := faults.get(c.Key); ok {
			if _, d, hit := c11FaultFor(spec, c.Op); hit {
				atomic.AddInt64(&heldCmds, 1)
				time.Sleep(d)
			}
		}
	}
	hub.SetHooks(decide, hold)
	// a second front with its own hub: the WHOLE store can go down for one request without touching any other configuration
	hubOut := vfNewRedisHub(w.Redis())
	defer hubOut.Close()
	rng := rand.New(rand.NewSource(run.Env.Seed*523 + 1))
	for i, spec := range []struct{ name, dom, path, params, special string }{
		{"_oauth2_proxy", "none", "/", "max_retries=0", ""},
		{c11Name(rng, 256), "parent", "/app/", "max_retries=0", ""},
		{"my+cookie", "parent", "/", "", ""}, // default retries
		{"_oauth2_proxy", "none", "/app/", "max_retries=2", ""},
		// latency: the client waits longer than the store holds a command, and does not retry
		{"_oauth2_proxy", "none", "/", "read_timeout=15s&max_retries=-1", "slow"},
		{"my+cookie", "parent", "/app/", "read_timeout=15s&max_retries=-1", "slow"},
		// outage: the whole store is down for the sign-out request
		{"_oauth2_proxy", "parent", "/", "max_retries=1", "outage"},
	} {
		f := hub.Front(i)
		c := &c11Cfg{Store: "redis", Name: spec.name, Domain: spec.dom, Path: spec.path, Prefix: "/oauth2", Base: "/", Fronted: true, Special: spec.special}
		if spec.special == "outage" {
			f = hubOut.Front(i)
			c.hub = hubOut
		}
		c.Flags = []string{"--session-store-type=redis", "--cookie-name=" + spec.name, "--cookie-refresh=1m", "--insecure-oidc-skip-nonce=true", "--redis-connection-url=" + f.URL(spec.params)}
		c.Hosts = [][2]string{{"proxy.test", "proxy.test"}}
		if spec.dom == "parent" {
			c.Flags = append(c.Flags, "--cookie-domain=example.test")
			c.Hosts = [][2]string{{"proxy.example.test", "proxy.example.test"}, {"a.example.test", "b.example.test"}}
		}
		if spec.path != "/" {
			c.Flags = append(c.Flags, "--cookie-path="+spec.path, "--proxy-prefix=/app/oauth2")
			c.Prefix, c.Base = "/app/oauth2", "/app/"
		}
		c.Label = fmt.Sprintf("redis-front/name=%s/domain=%s/path=%s/%s", c11NameClass(spec.name), spec.dom, spec.path, spec.params)
		if spec.special != "" {
			c.Label += "/" + spec.special
		}
		cfgs = append(cfgs, c)
	}
	for _, c := range cfgs {
		p, err := w.NewProxy(c.Flags...)
		if err != nil {
			t.Fatalf("[%s] %v", c.Label, err)
		}
		c.p = p
		if c.Store == "redis" && !c.Fronted && (run.Env.Thorough() || c.Name == "_oauth2_proxy" || c.Domain == "two-rp") {
			if c.p2, err = w.NewProxy(c.Flags...); err != nil {
				t.Fatalf("[%s] second instance: %v", c.Label, err)
			}
		}
	}
	run.Extra("configurations", len(cfgs))

	type job struct {
		cfg  *c11Cfg
		h    c11Hist
		race int // > 0: the sign-out-races-a-refresh scenario number race-1
	}
	var jobs []job
	faultKinds := []string{"err-before", "drop-before", "nil", "effect-err", "effect-drop"}
	// the store fails for the WHOLE sign-out request: the reads of the session chain fail as well as every DEL (pairs of kinds)
	outagePairs := []string{"ALL:err-before/err-before", "ALL:drop-before/drop-before", "ALL:nil/err-before", "ALL:err-before/drop-before", "ALL:drop-before/nil", "ALL:nil/nil", "ALL:err-before/nil", "ALL:drop-before/err-before"}
	nSlowCfg := 0
	var abandonJobs []job          // abandoned sign-outs (the client gives up while the store holds a read): side by side with the slow ones
	var slowJobs, outageJobs []job // run next to the general job list (slow: each in its own goroutine; outage: one after the other)
	for ci, c := range cfgs {
		hs := c11Histories(run, c, ci)
		if c.Special == "slow" {
			// latency, not an error: the DEL of the sign-out is held by the store for longer than any reasonable patience of a handler
			// (the client's read timeout is 15 s, no retries) and then fails — or is carried out. Simple histories (no refresh due).
			holds := []string{"SLOW2600:err-before", "SLOW4300:drop-before", "SLOW1100:err-before", "SLOW2600:late-ok"}
			if run.Env.Thorough() {
				holds = append(holds, "SLOW2100:drop-before", "SLOW3300:nil", "SLOW6000:err-before", "SLOW700:drop-before", "SLOW5200:late-ok", "SLOW9000:err-before")
			}
			var simple []c11Hist
			for _, h := range hs {
				if len(h.RefreshAt) == 0 && len(h.Users) < 2 && !h.Expired {
					simple = append(simple, h)
				}
			}
			// quick: two held deletes per configuration (four in all, side by side); thorough: every hold on every configuration
			for n := 0; n < run.Env.Pick(2, len(holds)); n++ {
				h := simple[(n*5+nSlowCfg)%len(simple)]
				h.Fault = holds[(2*nSlowCfg+n)%len(holds)]
				slowJobs = append(slowJobs, job{cfg: c, h: h})
			}
			// quick: two abandoned sign-outs per configuration; thorough: six
			for n := 0; n < run.Env.Pick(2, 6); n++ {
				abandonJobs = append(abandonJobs, job{cfg: c, race: 2*n + nSlowCfg + 1})
			}
			nSlowCfg++
			continue
		}
		if c.Special == "outage" {
			for hi, h := range hs {
				if hi%run.Env.Pick(6, 2) == 0 {
					h.Fault = "DOWN"
					outageJobs = append(outageJobs, job{cfg: c, h: h})
				}
			}
			continue
		}
		for hi, h := range hs {
			if c.Fronted {
				if hi%2 == 1 || run.Env.Thorough() {
					h.Fault = outagePairs[(hi/2+ci)%len(outagePairs)]
					jobs = append(jobs, job{cfg: c, h: h})
				}
				// every history once without fault (the front itself must be transparent) and with each fault kind in turn
				if hi%3 == 0 {
					jobs = append(jobs, job{cfg: c, h: h})
				}
				h.Fault = faultKinds[hi%len(faultKinds)]
				jobs = append(jobs, job{cfg: c, h: h})
				if run.Env.Thorough() {
					h.Fault = faultKinds[(hi+2)%len(faultKinds)]
					jobs = append(jobs, job{cfg: c, h: h})
				}
				// reads of the ticket fail during the sign-out request only (a delete would succeed); healed before the replays
				if hi%2 == 0 || run.Env.Thorough() {
					h.Fault = []string{"GET:err-before", "GET:drop-before", "GET:nil"}[(hi/2)%3]
					jobs = append(jobs, job{cfg: c, h: h})
				}
				continue
			}
			jobs = append(jobs, job{cfg: c, h: h})
		}
	}
	for _, c := range cfgs {
		if c.Store == "redis" && !c.Fronted {
			for i := 0; i < run.Env.Pick(4, 12); i++ {
				jobs = append(jobs, job{cfg: c, race: i + 1})
			}
		}
	}
	var side sync.WaitGroup
	for _, j := range slowJobs {
		side.Add(1)
		go func(j job) { defer side.Done(); r.one(j.cfg, j.h) }(j)
	}
	for _, j := range abandonJobs {
		side.Add(1)
		go func(j job) { defer side.Done(); r.abandon(j.cfg, j.race-1) }(j)
	}
	side.Add(1)
	go func() {
		defer side.Done()
		for _, j := range outageJobs {
			r.one(j.cfg, j.h) // one after the other: the outage of one history must not hit the login of the next
		}
	}()
	perm := rand.New(rand.NewSource(7)).Perm(len(jobs))
	vfParallel(len(jobs), 16, func(i int) {
		if run.Violations() > 1000 {
			return // the verdict is settled and the witnesses are on disk
		}
		j := jobs[perm[i]]
		if j.race > 0 {
			r.race(j.cfg, j.race-1)
			return
		}
		r.one(j.cfg, j.h)
	})
	side.Wait()

	// key space of the store: before the first login vs after the last sign-out. Whatever is left must belong to a browser that
	// did not complete a successful sign-out (fault histories, aborted histories); anything else is a session no sign-out removed,
	// whether or not one of our browsers still holds a cookie for it.
	var orphans []string
	for _, k := range w.Redis().Keys() {
		if !keysBefore[k] && !r.acc[k] && !strings.HasSuffix(k, ".lock") {
			orphans = append(orphans, k)
		}
	}
	run.Count("redis_keys_left_unaccounted", int64(len(orphans)))
	run.Count("redis_keys_left_accounted(no successful sign-out)", int64(len(r.acc)))
	if len(orphans) > 0 {
		if len(orphans) > 10 {
			orphans = orphans[:10]
		}
		run.Violation("c11:stored-sessions-left-after-all-browsers-signed-out", fmt.Sprintf("%d session key(s) are still in Redis although every browser that could hold a ticket for them signed out successfully, e.g. %s", run.Counter("redis_keys_left_unaccounted"), vfTrunc(orphans[0], 60)),
			map[string]interface{}{"keys": orphans, "note": "key space compared before the first login and after the last sign-out; keys of browsers whose sign-out failed or whose history aborted are excluded"})
	}
	injected, injectedGet := 0, 0
	for _, c := range hub.Log() {
		if c.Op == "DEL" && c.Fault != "" {
			injected++
		}
		if c.Op == "GET" && c.Fault != "" {
			injectedGet++
		}
	}
	held, downCmds := int(atomic.LoadInt64(&heldCmds)), 0
	for _, c := range hubOut.Log() {
		if c.Fault == "down" {
			downCmds++
		}
	}
	run.Count("held_del_commands", int64(held))
	run.Count("commands_refused_while_store_down", int64(downCmds))
	if run.Counter("outage_fault_histories_key_survived") == 0 || downCmds == 0 || run.Counter("slow_fault_histories") == 0 || run.Counter("slow_fault_histories_key_survived") == 0 {
		fmt.Printf("INCONCLUSIVE property=C11 reason=no sign-out under a store failing for the whole request left the session stored / the store never went down / no held DEL observed: the error clause under outage and latency was not exercised\n")
		t.Fail()
	}
	if run.Counter("abandoned_sign_outs") == 0 || run.Counter("abandoned_sign_outs_session_left") == 0 {
		fmt.Printf("INCONCLUSIVE property=C11 reason=no abandoned sign-out observed / the client's give-up never landed before the deletion (no abandoned sign-out left the session stored): the error clause under a cancelled request was not exercised\n")
		t.Fail()
	}
	if run.Counter("sign_outs_presenting_11+_session_cookies") == 0 || run.Counter("sign_outs_presenting_14+_session_cookies") == 0 {
		fmt.Printf("INCONCLUSIVE property=C11 reason=no sign-out of a cookie-store session of more than 10 / more than 13 cookies observed\n")
		t.Fail()
	}
	run.Count("injected_del_faults", int64(injected))
	run.Count("injected_get_faults", int64(injectedGet))
	if injectedGet == 0 || run.Counter("expired_at_sign_out_with_backend_logout") == 0 || run.Counter("sign_outs_with_plain_cookie_and_parts_in_jar") == 0 {
		fmt.Printf("INCONCLUSIVE property=C11 reason=no read fault injected / no expired session at a sign-out with backend logout / no jar with both cookie forms observed\n")
		t.Fail()
	}
	if injected == 0 || run.Counter("fault_histories_key_survived") == 0 {
		fmt.Printf("INCONCLUSIVE property=C11 reason=no DEL fault was injected / no stored session survived a failed delete: the error clause was not exercised\n")
		t.Fail()
	}
	if run.Counter("replay_requests") == 0 || run.Counter("refreshes") == 0 || run.Counter("histories_host_rewritten") == 0 || run.Counter("logins_over_an_existing_session") == 0 || run.Counter("races") == 0 || run.Counter("immediate_replays_on_second_instance") == 0 {
		fmt.Printf("INCONCLUSIVE property=C11 reason=no replay / no refresh / no host-rewritten history / no second login / no sign-out-vs-refresh race / no second-instance replay observed\n")
		t.Fail()
	}
	run.Finish(int64(run.Env.Pick(1200, 9000)), run.Env.Pick(750, 1000))
}

var _ = sort.Strings
