//go:build verif

package main

// rig_core: environment (seed, tier), evidence writer, violation / known-finding reporting, replay files.
// Everything in the harness is prefixed vf so that it cannot collide with the repository's own test helpers.

import (
	"crypto/sha256"
	"encoding/hex"
	"encoding/json"
	"fmt"
	"io"
	"math/rand"
	"os"
	"path/filepath"
	"sort"
	"strconv"
	"strings"
	"sync"
	"testing"
	"time"

	"github.com/oauth2-proxy/oauth2-proxy/v7/pkg/logger"
)

func vfQuiet() {
	logger.SetOutput(io.Discard)
	logger.SetErrOutput(io.Discard)
}

type vfEnvT struct {
	Root    string // /verif
	Tier    string // quick | thorough
	Seed    int64
	Replay  string // replay file to re-execute (optional)
	WorkDir string
}

func vfEnv() vfEnvT {
	e := vfEnvT{Root: os.Getenv("VERIF_ROOT"), Tier: os.Getenv("VERIF_TIER"), Replay: os.Getenv("VERIF_REPLAY"), WorkDir: os.Getenv("VERIF_WORK")}
	if e.Root == "" {
		e.Root = "/verif"
	}
	if e.Tier != "thorough" {
		e.Tier = "quick"
	}
	e.Seed = 1
	if s := os.Getenv("VERIF_SEED"); s != "" {
		if n, err := strconv.ParseInt(s, 10, 64); err == nil {
			e.Seed = n
		}
	}
	if e.WorkDir == "" {
		e.WorkDir = filepath.Join(e.Root, "work")
	}
	return e
}

func (e vfEnvT) Thorough() bool { return e.Tier == "thorough" }

// vfPick returns q in the quick tier and t in the thorough tier.
func (e vfEnvT) Pick(q, t int) int {
	if e.Thorough() {
		return t
	}
	return q
}

// ---------------------------------------------------------------------------------------------------------
// known findings

type vfKnownFinding struct {
	Property  string `json:"property"`
	Signature string `json:"signature"`
	Status    string `json:"status"` // "known" suppresses (prints KNOWN-FINDING); "fixed" suppresses nothing
	What      string `json:"what"`
	Commit    string `json:"commit,omitempty"`
}

func vfLoadKnown(root string) []vfKnownFinding {
	b, err := os.ReadFile(filepath.Join(root, "known_findings.json"))
	if err != nil {
		return nil
	}
	var f struct {
		Findings []vfKnownFinding `json:"findings"`
	}
	if json.Unmarshal(b, &f) != nil {
		return nil
	}
	return f.Findings
}

// ---------------------------------------------------------------------------------------------------------
// run: one per TestVerif_Cxx

type vfRun struct {
	T     *testing.T
	ID    string
	Level string
	Env   vfEnvT
	Rng   *rand.Rand
	start time.Time

	mu           sync.Mutex
	evaluations  int64
	cells        map[string]int // distinct non-trivial abstract cells -> hits
	counters     map[string]int64
	samples      []interface{}
	maxSamples   int
	violations   int
	violSigs     map[string]int
	knownSeen    map[string]int
	inconclusive int64
	inconcNotes  map[string]int
	known        []vfKnownFinding
	rule         string
	assumptions  []string
	extra        map[string]interface{}
	exhaustive   bool
	maxViolFiles int
}

func vfNewRun(t *testing.T, id, level string) *vfRun {
	vfQuiet()
	e := vfEnv()
	r := &vfRun{T: t, ID: id, Level: level, Env: e, Rng: rand.New(rand.NewSource(e.Seed*7919 + int64(len(id)))), start: time.Now(),
		cells: map[string]int{}, counters: map[string]int64{}, maxSamples: 12, violSigs: map[string]int{}, knownSeen: map[string]int{},
		inconcNotes: map[string]int{}, known: vfLoadKnown(e.Root), extra: map[string]interface{}{}, maxViolFiles: 25}
	return r
}

func (r *vfRun) SetRule(s string)           { r.rule = s }
func (r *vfRun) Assume(s ...string)         { r.assumptions = append(r.assumptions, s...) }
func (r *vfRun) SetExhaustive(b bool)       { r.exhaustive = b }
func (r *vfRun) Extra(k string, v interface{}) { r.mu.Lock(); r.extra[k] = v; r.mu.Unlock() }

// Eval counts one evaluated case. cell != "" marks it non-trivial and attributes it to an abstract cell.
func (r *vfRun) Eval(cell string) {
	r.mu.Lock()
	r.evaluations++
	if cell != "" {
		r.cells[cell]++
	}
	r.mu.Unlock()
}

// EvalN counts n evaluated cases of one cell at once (for checks that aggregate millions of observations).
func (r *vfRun) EvalN(cell string, n int64) {
	r.mu.Lock()
	r.evaluations += n
	if cell != "" {
		r.cells[cell] += int(n)
	}
	r.mu.Unlock()
}

func (r *vfRun) Count(name string, n int64) {
	r.mu.Lock()
	r.counters[name] += n
	r.mu.Unlock()
}

func (r *vfRun) Counter(name string) int64 {
	r.mu.Lock()
	defer r.mu.Unlock()
	return r.counters[name]
}

func (r *vfRun) Sample(v interface{}) {
	r.mu.Lock()
	if len(r.samples) < r.maxSamples {
		r.samples = append(r.samples, v)
	}
	r.mu.Unlock()
}

// SampleEvery keeps a sample when the evaluation counter hits a multiple of n (spreads samples over the run).
func (r *vfRun) SampleEvery(n int64, v func() interface{}) {
	r.mu.Lock()
	take := len(r.samples) < r.maxSamples && (r.evaluations%n == 0)
	r.mu.Unlock()
	if take {
		r.Sample(v())
	}
}

func (r *vfRun) Inconclusive(note string) {
	r.mu.Lock()
	r.inconclusive++
	r.inconcNotes[note]++
	r.mu.Unlock()
}

type vfWitness struct {
	Property  string      `json:"property"`
	Signature string      `json:"signature"`
	Summary   string      `json:"summary"`
	Seed      int64       `json:"seed"`
	Tier      string      `json:"tier"`
	Detail    interface{} `json:"detail"`
}

// Violation reports a refuting observation. sig is the *class* signature used to match known findings
// (property + call site / input class); summary says what failed; detail is the witness (flags, requests, observed vs expected).
func (r *vfRun) Violation(sig, summary string, detail interface{}) {
	r.mu.Lock()
	defer r.mu.Unlock()
	for _, k := range r.known {
		if k.Property == r.ID && k.Status == "known" && k.Signature == sig {
			if r.knownSeen[sig] == 0 {
				r.writeWitness(sig, summary, detail, "known-")
			}
			r.knownSeen[sig]++
			return
		}
	}
	r.violations++
	r.violSigs[sig]++
	if r.violSigs[sig] > 3 || len(r.violSigs) > r.maxViolFiles {
		return // enough witnesses of that class on disk (budget is per signature, so a frequent class cannot hide others)
	}
	p := r.writeWitness(sig, summary, detail, "")
	fmt.Printf("VIOLATION property=%s replay=%s\n", r.ID, p)
	fmt.Printf("  what: [%s] %s\n", sig, summary)
}

func (r *vfRun) writeWitness(sig, summary string, detail interface{}, prefix string) string {
	w := vfWitness{Property: r.ID, Signature: sig, Summary: summary, Seed: r.Env.Seed, Tier: r.Env.Tier, Detail: detail}
	b, err := json.MarshalIndent(w, "", " ")
	if err != nil {
		b, _ = json.MarshalIndent(vfWitness{Property: r.ID, Signature: sig, Summary: summary, Seed: r.Env.Seed, Tier: r.Env.Tier, Detail: fmt.Sprintf("%+v", detail)}, "", " ")
	}
	h := sha256.Sum256(b)
	dir := filepath.Join(r.Env.Root, "replays", r.ID)
	_ = os.MkdirAll(dir, 0o755)
	p := filepath.Join(dir, prefix+hex.EncodeToString(h[:6])+".json")
	_ = os.WriteFile(p, b, 0o644)
	return p
}

func (r *vfRun) Violations() int {
	r.mu.Lock()
	defer r.mu.Unlock()
	return r.violations
}

// Finish writes the evidence file and fails the test on violations; minCells / minEvals below which the run is inconclusive.
func (r *vfRun) Finish(minEvals int64, minCells int) {
	r.mu.Lock()
	defer r.mu.Unlock()
	keys := make([]string, 0, len(r.cells))
	for k := range r.cells {
		keys = append(keys, k)
	}
	sort.Strings(keys)
	cellSample := keys
	if len(cellSample) > 40 {
		cellSample = append(append([]string{}, keys[:20]...), keys[len(keys)-20:]...)
	}
	cov := map[string]interface{}{
		"evaluations":         r.evaluations,
		"distinct_nontrivial": len(r.cells),
		"rule":                r.rule,
		"samples":             r.samples,
		"counters":            r.counters,
		"cells_sample":        cellSample,
		"inconclusive":        r.inconclusive,
		"inconclusive_notes":  r.inconcNotes,
		"known_findings_seen": r.knownSeen,
		"violation_signatures": r.violSigs,
		"exhaustive":          r.exhaustive,
	}
	for k, v := range r.extra {
		cov[k] = v
	}
	if len(r.samples) == 0 {
		cov["samples"] = []interface{}{"(no samples recorded)"}
	}
	if r.assumptions == nil {
		r.assumptions = []string{}
	}
	ev := map[string]interface{}{
		"property_id": r.ID, "tier": r.Env.Tier, "seed": r.Env.Seed, "level": r.Level,
		"coverage": cov, "assumptions": r.assumptions, "wall_s": time.Since(r.start).Seconds(), "violations": r.violations,
	}
	b, _ := json.MarshalIndent(ev, "", " ")
	dir := filepath.Join(r.Env.Root, "evidence")
	_ = os.MkdirAll(dir, 0o755)
	if err := os.WriteFile(filepath.Join(dir, r.ID+".json"), b, 0o644); err != nil {
		fmt.Printf("INCONCLUSIVE property=%s reason=cannot write evidence: %v\n", r.ID, err)
		r.T.Fail()
	}
	sigs := make([]string, 0, len(r.knownSeen))
	for s := range r.knownSeen {
		sigs = append(sigs, s)
	}
	sort.Strings(sigs)
	for _, s := range sigs {
		what := s
		for _, k := range r.known {
			if k.Property == r.ID && k.Signature == s {
				what = k.Signature + " — " + k.What
			}
		}
		fmt.Printf("KNOWN-FINDING: property=%s %s (observed %d times)\n", r.ID, strings.ReplaceAll(what, "\n", " "), r.knownSeen[s])
	}
	fmt.Printf("SUMMARY property=%s tier=%s seed=%d evaluations=%d cells=%d violations=%d inconclusive=%d wall=%.1fs\n",
		r.ID, r.Env.Tier, r.Env.Seed, r.evaluations, len(r.cells), r.violations, r.inconclusive, time.Since(r.start).Seconds())
	if r.violations > 0 {
		r.T.Fail()
		return
	}
	if r.evaluations < minEvals || len(r.cells) < minCells {
		fmt.Printf("INCONCLUSIVE property=%s reason=too few observations (evaluations=%d<%d or cells=%d<%d)\n", r.ID, r.evaluations, minEvals, len(r.cells), minCells)
		r.T.Fail()
		return
	}
	if r.evaluations > 0 && r.inconclusive*20 > r.evaluations {
		fmt.Printf("INCONCLUSIVE property=%s reason=inconclusive cases %d of %d %v\n", r.ID, r.inconclusive, r.evaluations, r.inconcNotes)
		r.T.Fail()
	}
}

// ---------------------------------------------------------------------------------------------------------
// race log (GORACE log_path=$VERIF_RACELOG, halt_on_error=0): reports are appended by the runtime as they occur

type vfRaceReport struct {
	Text   string
	Frames []string // function names + file:line of all stacks in the report
}

// vfRaceReports parses the report blocks written so far by this process.
func vfRaceReports() []vfRaceReport {
	base := os.Getenv("VERIF_RACELOG")
	if base == "" {
		return nil
	}
	files, _ := filepath.Glob(base + ".*")
	var out []vfRaceReport
	for _, f := range files {
		b, err := os.ReadFile(f)
		if err != nil {
			continue
		}
		for _, blk := range strings.Split(string(b), "==================") {
			if !strings.Contains(blk, "WARNING: DATA RACE") {
				continue
			}
			r := vfRaceReport{Text: strings.TrimSpace(blk)}
			for _, l := range strings.Split(blk, "\n") {
				l = strings.TrimSpace(l)
				if strings.HasPrefix(l, "/") || strings.Contains(l, "()") {
					r.Frames = append(r.Frames, l)
				}
			}
			out = append(out, r)
		}
	}
	return out
}

// RaceCheck inspects the race log. Reports with a frame matching one of the given substrings are violations of
// this run's property (sig); all others are printed as notes (the testing package fails the binary on any report,
// which ./check turns into INCONCLUSIVE unless a VIOLATION line exists).
func (r *vfRun) RaceCheck(sig string, frameSubstr ...string) {
	reps := vfRaceReports()
	r.Count("race_reports", int64(len(reps)))
	seen := map[string]bool{}
	for _, rep := range reps {
		mine := false
		for _, fr := range rep.Frames {
			if strings.Contains(fr, "zz_verif_") {
				continue
			}
			for _, sub := range frameSubstr {
				if strings.Contains(fr, sub) {
					mine = true
				}
			}
		}
		// de-duplicate by the set of repo frames with line numbers stripped
		var key []string
		for _, fr := range rep.Frames {
			if strings.Contains(fr, "/repo/") && !strings.Contains(fr, "zz_verif_") {
				key = append(key, strings.SplitN(fr, ":", 2)[0])
			}
		}
		k := strings.Join(key, "|")
		if seen[k] {
			continue
		}
		seen[k] = true
		if mine && sig != "" {
			r.Violation(sig, "race detector report: "+vfTrunc(strings.Join(key, " "), 300), map[string]interface{}{"report": vfTrunc(rep.Text, 8000)})
		} else {
			p := r.writeWitnessLocked(sig+":unattributed-race", rep.Text)
			fmt.Printf("NOTE race report not attributed to %s (kept in %s): %s\n", r.ID, p, vfTrunc(k, 200))
		}
	}
}

func (r *vfRun) writeWitnessLocked(sig, text string) string {
	r.mu.Lock()
	defer r.mu.Unlock()
	return r.writeWitness(sig, "race report", text, "note-")
}

// vfParallel runs f(i) for i in [0,n) on w workers.
func vfParallel(n, w int, f func(i int)) {
	if w < 1 {
		w = 1
	}
	var wg sync.WaitGroup
	ch := make(chan int, 256)
	for k := 0; k < w; k++ {
		wg.Add(1)
		go func() {
			defer wg.Done()
			for i := range ch {
				f(i)
			}
		}()
	}
	for i := 0; i < n; i++ {
		ch <- i
	}
	close(ch)
	wg.Wait()
}

func vfTrunc(s string, n int) string {
	if len(s) <= n {
		return s
	}
	return s[:n] + fmt.Sprintf("…(+%d)", len(s)-n)
}
