//go:build verif

package main

// C10 — A saved session is what the next request loads, across any save history.
//
// Technique: runtime monitoring of the REAL session stores (cookie store and Redis store behind the
// persistence manager), driven through the proxy's own exported SaveSession / LoadCookiedSession /
// ClearSessionCookie with a browser cookie jar (RFC 6265 semantics, rig's vfJar) carried across the steps of
// a history; plus a sample of the same histories through complete HTTP flows (login, refreshes that grow and
// shrink the session, sign-out).
//
// Oracle (history rule, written from the property statement):
//   after save(S) whose Set-Cookie lines were applied to the jar:
//        load(jar) succeeds and equals S in every serialised field          (timestamps with time.Equal)
//        every emitted Set-Cookie line is at most 4096 bytes long
//   after clear whose Set-Cookie lines were applied to the jar:
//        load(jar) yields no session
// S is compared as it is after Save returned (Save documents that it stamps CreatedAt when unset).
// nil and empty slices, and nil and zero timestamps, are the same value for this comparison (both mean "unset"
// everywhere in the code base and in the wire format); Lock and Clock are not part of the session.

import (
	"bytes"
	"encoding/json"
	"fmt"
	"math/rand"
	"net/http"
	"net/http/httptest"
	"regexp"
	"runtime/debug"
	"sort"
	"strings"
	"sync"
	"sync/atomic"
	"testing"
	"time"

	c10sess "github.com/oauth2-proxy/oauth2-proxy/v7/pkg/apis/sessions"
)

// ---------------------------------------------------------------------------------------------------------
// configurations

type c10Cfg struct {
	Label     string
	Store     string // cookie | redis
	Name      string // cookie name
	NameClass string
	Flags     []string
	Host      string
	WireHost  string // Host header the proxy sees when a front proxy rewrites it ("" = Host); the jar always goes by Host
	Path      string // request path of the store operations (inside the cookie path)
	HTTPS     bool   // the jar treats the connection as secure (cookie-secure=true)
	Heavy     bool   // gets the large enumerations
}

const c10NameAlphabet = "abcdefghijklmnopqrstuvwxyzABCDEFGHIJKLMNOPQRSTUVWXYZ0123456789-."

// c10Name: a valid cookie-name token of exactly n characters that does not end in _<digits>.
func c10Name(rng *rand.Rand, n int) string {
	b := make([]byte, n)
	for i := range b {
		b[i] = c10NameAlphabet[rng.Intn(len(c10NameAlphabet))]
	}
	b[0] = "stuvwxyz"[rng.Intn(8)]
	return string(b)
}

func c10NameClass(name string) string {
	if strings.ContainsAny(name, "+$^*|()[]?\\") {
		return "meta"
	}
	n := len(name)
	switch {
	case n == 1:
		return "1"
	case n < 64:
		return "2-63"
	case n < 250:
		return "64-249"
	case n < 254:
		return "250-253"
	default:
		return fmt.Sprint(n)
	}
}

func c10Configs(run *vfRun, w *vfWorld) []c10Cfg {
	rng := rand.New(rand.NewSource(run.Env.Seed*104729 + 10))
	var out []c10Cfg
	add := func(store, name string, heavy bool, label string, host, path string, https bool, flags ...string) {
		fl := append([]string{"--session-store-type=" + store, "--cookie-name=" + name}, flags...)
		if store == "redis" && !strings.Contains(strings.Join(flags, " "), "--redis-use-") {
			fl = append(fl, "--redis-connection-url="+w.RedisURL())
		}
		if host == "" {
			host = "proxy.test"
		}
		if path == "" {
			path = "/x"
		}
		out = append(out, c10Cfg{Label: fmt.Sprintf("%s/%s/len%d", store, label, len(name)), Store: store, Name: name, NameClass: c10NameClass(name),
			Flags: fl, Host: host, Path: path, HTTPS: https, Heavy: heavy})
	}
	// cookie store: name lengths 1..256, dense near the 256 limit
	lens := []int{1, 2, 64, 200, 247, 248, 249, 250, 251, 252, 253, 254, 255, 256}
	for k := 0; k < run.Env.Pick(3, 12); k++ {
		lens = append(lens, 3+rng.Intn(244))
	}
	if run.Env.Thorough() {
		for n := 232; n < 247; n++ {
			lens = append(lens, n)
		}
		for n := 8; n < 232; n += 28 {
			lens = append(lens, n)
		}
	}
	add("cookie", "_oauth2_proxy", true, "default", "", "", false)
	for _, n := range lens {
		add("cookie", c10Name(rng, n), n >= 255 || n == 1, "name", "", "", false)
	}
	// names with characters that are special in regular expressions or look like part suffixes
	for _, nm := range []string{"my+cookie", "a.b", "s$^*|~", "sess_1", "s_0_", "x_10", c10Name(rng, 250) + "+$", c10Name(rng, 249) + "_7", c10Name(rng, 254) + "_0", c10Name(rng, 254) + "_1", c10Name(rng, 253) + "_0"} {
		add("cookie", nm, false, "special", "", "", false)
	}
	// attribute variants move the thresholds (the attributes are part of the 4096 bytes)
	n256 := c10Name(rng, 256)
	add("cookie", "_oauth2_proxy", false, "domain", "proxy.example.test", "", false, "--cookie-domain=example.test")
	add("cookie", n256, false, "domain", "deep.proxy.example.test:8443", "", false, "--cookie-domain=example.test")
	add("cookie", "_oauth2_proxy", false, "path", "", "/app/x", false, "--cookie-path=/app/")
	add("cookie", c10Name(rng, 255), false, "path", "", "/app/x", false, "--cookie-path=/app/")
	add("cookie", "__Host-sess", false, "secure+strict", "", "", true, "--cookie-secure=true", "--cookie-samesite=strict")
	add("cookie", "_oauth2_proxy", false, "samesite-none", "", "", true, "--cookie-secure=true", "--cookie-samesite=none")
	// cookie lengths move in steps of four (base64): paths of length 2, 3, 4 shift the constant part so that, together with
	// "/", every residue — hence every exact length around the limit — is reached for these names
	for _, pth := range []string{"/a", "/ab", "/abc"} {
		add("cookie", n256, false, "residue"+pth, "", pth+"/x", false, "--cookie-path="+pth)
		add("cookie", "_oauth2_proxy", false, "residue"+pth, "", pth+"/x", false, "--cookie-path="+pth)
	}
	// Host-rewriting front proxy: the browser addresses app.example.test, the proxy sees a host matching none of the configured
	// domains (documented: the shortest configured domain is used) — sets and deletions must still agree
	add("cookie", "_oauth2_proxy", false, "host-rewritten", "app.example.test", "", false, "--cookie-domain=example.test")
	out[len(out)-1].WireHost = "internal-svc:4180"
	add("cookie", c10Name(rng, 255), false, "host-rewritten", "app.example.test:8443", "", false, "--cookie-domain=proxy.example.test", "--cookie-domain=example.test")
	out[len(out)-1].WireHost = "10.1.2.3:4180"
	add("cookie", "_oauth2_proxy", false, "no-httponly", "", "", false, "--cookie-httponly=false")
	add("cookie", "_oauth2_proxy", false, "expire0", "", "", false, "--cookie-expire=0")
	add("cookie", "_oauth2_proxy", false, "expire-30m", "", "", false, "--cookie-expire=30m")
	// cookie lifetimes 0 (browser-session cookies: no Max-Age / Expires on a saved cookie) and long, with a long name as well
	add("cookie", c10Name(rng, 200), false, "expire0", "", "", false, "--cookie-expire=0", "--cookie-refresh=0")
	add("cookie", "_oauth2_proxy", false, "expire-1y", "", "", false, "--cookie-expire=8760h")
	add("cookie", "_oauth2_proxy", false, "secret16", "", "", false, "--cookie-secret=0123456789abcdef")
	if run.Env.Thorough() {
		add("cookie", c10Name(rng, 254), false, "domain", "example.test", "", false, "--cookie-domain=example.test", "--cookie-samesite=lax")
		add("cookie", n256, false, "path+domain", "a.example.test", "/app/deep/x", true, "--cookie-path=/app/", "--cookie-domain=.example.test", "--cookie-secure=true")
	}
	// redis store
	add("redis", "_oauth2_proxy", true, "default", "", "", false)
	for _, nm := range []string{c10Name(rng, 1), c10Name(rng, 255), n256, "my+cookie"} {
		add("redis", nm, false, "name", "", "", false)
	}
	// the Cluster and Sentinel clients (own builders and, for the cluster, an own wrapper type in pkg/sessions/redis)
	add("redis", "_oauth2_proxy", true, "cluster-client", "", "", false, w.RedisModeFlags("cluster")...)
	add("redis", "_oauth2_proxy", true, "sentinel-client", "", "", false, w.RedisModeFlags("sentinel")...)
	add("redis", "_oauth2_proxy", false, "domain+path", "proxy.example.test", "/app/x", false, "--cookie-domain=example.test", "--cookie-path=/app/")
	add("redis", "_oauth2_proxy", false, "expire0", "", "", false, "--cookie-expire=0", "--cookie-refresh=0")
	return out
}

// ---------------------------------------------------------------------------------------------------------
// sessions

// c10Stream is incompressible text (random base64 alphabet) tokens are cut from.
type c10Stream struct{ s string }

func c10NewStream(seed int64, n int) *c10Stream {
	const al = "ABCDEFGHIJKLMNOPQRSTUVWXYZabcdefghijklmnopqrstuvwxyz0123456789-_"
	rng := rand.New(rand.NewSource(seed))
	b := make([]byte, n)
	for i := range b {
		b[i] = al[rng.Intn(64)]
	}
	return &c10Stream{s: string(b)}
}

func (st *c10Stream) cut(off, n int) string {
	if n <= 0 {
		return ""
	}
	off %= len(st.s) - n
	return st.s[off : off+n]
}

type c10Spec struct {
	L       int   // bulk length (the size knob)
	Variant int64 // 0 = base fields; otherwise seeds the field contents
	UID     string
}

func c10T(t time.Time) *time.Time { return &t }

// c10Make builds the session for a spec. Base sessions differ only in the token and the uid (constant width), so that
// the encoded size is a function of L alone.
func c10Make(st *c10Stream, sp c10Spec) *c10sess.SessionState {
	now := time.Now()
	s := &c10sess.SessionState{User: sp.UID, Email: "user@example.com"}
	if sp.Variant == 0 {
		s.AccessToken = st.cut(int(sp.L*7+13), sp.L)
		s.CreatedAt = c10T(now)
		s.ExpiresOn = c10T(now.Add(time.Hour))
		return s
	}
	r := rand.New(rand.NewSource(sp.Variant))
	off := r.Intn(50000)
	switch r.Intn(5) {
	case 0:
		s.AccessToken = st.cut(off, sp.L)
	case 1:
		s.IDToken = st.cut(off, sp.L)
	case 2:
		s.RefreshToken = st.cut(off, sp.L)
	case 3:
		a, b := sp.L/3, sp.L/2
		s.AccessToken, s.IDToken, s.RefreshToken = st.cut(off, a), st.cut(off+a, b-a), st.cut(off+b, sp.L-b)
	case 4: // arbitrary bytes, not valid UTF-8
		raw := make([]byte, sp.L)
		r.Read(raw)
		s.AccessToken = string(raw)
	}
	switch r.Intn(5) {
	case 0:
	case 1:
		s.Nonce = []byte{}
	case 2:
		s.Nonce = []byte{0}
	case 3:
		s.Nonce = make([]byte, 32)
		r.Read(s.Nonce)
		s.Nonce[3], s.Nonce[7] = 0, 0xff
	case 4:
		s.Nonce = []byte("plain-nonce|with;cookie=chars\r\n")
	}
	s.Email = []string{"", "alice@example.com", "üñï+çødé@exämple.co.jp", "用户@例え.テスト", "a\x00b@x.test", "🙂🙃@example.com",
		strings.Repeat("long.", 60) + "@example.com", "é@combining.test", "\xff\xfe@invalid-utf8.test"}[r.Intn(9)]
	switch g := r.Intn(24); {
	case g < 5:
	case g < 9:
		s.Groups = []string{}
	case g < 13:
		s.Groups = []string{"g"}
	case g < 20:
		s.Groups = []string{"", "a b", "gruppe-ü", "组", "x,y", "role:admin|ops"}
	case g < 23:
		for k := 0; k < 300; k++ {
			s.Groups = append(s.Groups, fmt.Sprintf("group-%04d-%s", k, st.cut(off+k*5, 6)))
		}
	default:
		s.Groups = []string{strings.Repeat("G", 70000)} // longer than a 16-bit length
	}
	s.PreferredUsername = []string{"", "pu-ü-" + sp.UID, "p\tu"}[r.Intn(3)]
	switch r.Intn(6) {
	case 0:
	case 1:
		s.CreatedAt = &time.Time{}
	case 2:
		s.CreatedAt = c10T(now)
	case 3:
		s.CreatedAt = c10T(now.Add(-10*time.Minute + 123456789))
	case 4:
		s.CreatedAt = c10T(now.In(time.FixedZone("IST", 19800)))
	case 5:
		s.CreatedAt = c10T(now.Add(2 * time.Minute).UTC())
	}
	switch r.Intn(8) {
	case 0:
	case 1:
		s.ExpiresOn = &time.Time{}
	case 2:
		s.ExpiresOn = c10T(now.Add(time.Hour))
	case 3:
		s.ExpiresOn = c10T(now.Add(-time.Hour))
	case 4:
		s.ExpiresOn = c10T(time.Date(2262, 4, 11, 23, 47, 16, 854775807, time.UTC))
	case 5:
		s.ExpiresOn = c10T(time.Date(9999, 12, 31, 23, 59, 59, 999999999, time.FixedZone("", -3600)))
	case 6:
		s.ExpiresOn = c10T(time.Unix(0, 0))
	case 7:
		s.ExpiresOn = c10T(time.Date(1969, 7, 20, 20, 17, 40, 1, time.UTC))
	}
	return s
}

// c10Snap is a value copy of the serialised fields.
type c10Snap struct {
	CreatedAt, ExpiresOn                          *time.Time
	AccessToken, IDToken, RefreshToken            string
	Nonce                                         []byte
	Email, User, PreferredUsername                string
	Groups                                        []string
}

func c10Snapshot(s *c10sess.SessionState) c10Snap {
	sn := c10Snap{AccessToken: s.AccessToken, IDToken: s.IDToken, RefreshToken: s.RefreshToken, Email: s.Email, User: s.User, PreferredUsername: s.PreferredUsername}
	if s.CreatedAt != nil {
		sn.CreatedAt = c10T(*s.CreatedAt)
	}
	if s.ExpiresOn != nil {
		sn.ExpiresOn = c10T(*s.ExpiresOn)
	}
	if s.Nonce != nil {
		sn.Nonce = append([]byte{}, s.Nonce...)
	}
	if s.Groups != nil {
		sn.Groups = append([]string{}, s.Groups...)
	}
	return sn
}

func c10TimeEq(a, b *time.Time) bool {
	au, bu := a == nil || a.IsZero(), b == nil || b.IsZero()
	if au || bu {
		return au == bu
	}
	return a.Equal(*b)
}

func c10ts(t *time.Time) string {
	if t == nil {
		return "nil"
	}
	return t.UTC().Format(time.RFC3339Nano)
}

// c10Diff lists the fields in which the loaded session differs from the saved one.
func c10Diff(saved c10Snap, got *c10sess.SessionState) []string {
	var d []string
	str := func(name, a, b string) {
		if a != b {
			d = append(d, fmt.Sprintf("%s: saved %d bytes %q, loaded %d bytes %q", name, len(a), vfTrunc(a, 24), len(b), vfTrunc(b, 24)))
		}
	}
	if !c10TimeEq(saved.CreatedAt, got.CreatedAt) {
		d = append(d, fmt.Sprintf("CreatedAt: saved %s, loaded %s", c10ts(saved.CreatedAt), c10ts(got.CreatedAt)))
	}
	if !c10TimeEq(saved.ExpiresOn, got.ExpiresOn) {
		d = append(d, fmt.Sprintf("ExpiresOn: saved %s, loaded %s", c10ts(saved.ExpiresOn), c10ts(got.ExpiresOn)))
	}
	str("AccessToken", saved.AccessToken, got.AccessToken)
	str("IDToken", saved.IDToken, got.IDToken)
	str("RefreshToken", saved.RefreshToken, got.RefreshToken)
	str("Email", saved.Email, got.Email)
	str("User", saved.User, got.User)
	str("PreferredUsername", saved.PreferredUsername, got.PreferredUsername)
	if !bytes.Equal(saved.Nonce, got.Nonce) {
		d = append(d, fmt.Sprintf("Nonce: saved %x, loaded %x", saved.Nonce, got.Nonce))
	}
	if len(saved.Groups) != len(got.Groups) {
		d = append(d, fmt.Sprintf("Groups: saved %d entries, loaded %d", len(saved.Groups), len(got.Groups)))
	} else {
		for i := range saved.Groups {
			if saved.Groups[i] != got.Groups[i] {
				d = append(d, fmt.Sprintf("Groups[%d]: saved %q, loaded %q", i, vfTrunc(saved.Groups[i], 24), vfTrunc(got.Groups[i], 24)))
				break
			}
		}
	}
	return d
}

// c10SelfTest: the comparator must see a change in every field (guards against an oracle that cannot fail).
func c10SelfTest(t *testing.T, st *c10Stream) {
	base := c10Make(st, c10Spec{L: 100, Variant: 0, UID: "self"})
	base.Nonce, base.Groups, base.IDToken, base.RefreshToken, base.PreferredUsername = []byte{1, 2}, []string{"a", "b"}, "i", "r", "p"
	snap := c10Snapshot(base)
	if d := c10Diff(snap, base); len(d) != 0 {
		t.Fatalf("c10 self-test: identical sessions differ: %v", d)
	}
	muts := []func(s *c10sess.SessionState){
		func(s *c10sess.SessionState) { s.CreatedAt = c10T(s.CreatedAt.Add(1)) },
		func(s *c10sess.SessionState) { s.CreatedAt = nil },
		func(s *c10sess.SessionState) { s.ExpiresOn = c10T(s.ExpiresOn.Add(-time.Second)) },
		func(s *c10sess.SessionState) { s.AccessToken = s.AccessToken[:len(s.AccessToken)-1] },
		func(s *c10sess.SessionState) { s.IDToken = "" },
		func(s *c10sess.SessionState) { s.RefreshToken = "R" },
		func(s *c10sess.SessionState) { s.Nonce = []byte{1, 3} },
		func(s *c10sess.SessionState) { s.Email = "User@example.com" },
		func(s *c10sess.SessionState) { s.User = "other" },
		func(s *c10sess.SessionState) { s.PreferredUsername = "" },
		func(s *c10sess.SessionState) { s.Groups = []string{"a"} },
		func(s *c10sess.SessionState) { s.Groups = []string{"a", "B"} },
	}
	for i, m := range muts {
		c := *base
		c.Nonce = append([]byte{}, base.Nonce...)
		m(&c)
		if d := c10Diff(snap, &c); len(d) != 1 {
			t.Fatalf("c10 self-test: mutation %d gives %v", i, d)
		}
	}
}

// ---------------------------------------------------------------------------------------------------------
// one browser driving the store

type c10Step struct {
	Op       string   `json:"op"` // save | resave (the loaded session is modified and saved by a request presenting the jar's cookies) | clear | load
	Fault    string   `json:"injected_store_fault,omitempty"`
	Ticket   string   `json:"ticket,omitempty"` // resave on a server-side store: reused | rotated | unknown
	L        int      `json:"token_len,omitempty"`
	Variant  int64    `json:"variant,omitempty"`
	UID      string   `json:"uid,omitempty"`
	Err      string   `json:"err,omitempty"`
	Emitted  []string `json:"emitted,omitempty"` // name:len(line):set|del
	Parts    int      `json:"parts"`
	JarAfter []string `json:"jar_after,omitempty"`
	Load     string   `json:"load,omitempty"`
}

type c10Browser struct {
	run   *vfRun
	cfg   *c10Cfg
	p     *vfProxy
	st    *c10Stream
	jar   *vfJar
	steps []c10Step
	saved []c10Snap // snapshots of every session saved so far (stale detection)
	parts int       // parts of the session the jar currently holds (0 after clear / at start)
	cur   *c10Snap  // the session of the last successful save (nil at start and after a clear)
	// store-fault histories: a save that fails while a fault is injected is recorded, not reported
	tolerateSaveErr bool
	fault           string
}

func c10NewBrowser(run *vfRun, cfg *c10Cfg, p *vfProxy, st *c10Stream) *c10Browser {
	return &c10Browser{run: run, cfg: cfg, p: p, st: st, jar: &vfJar{}}
}

func (b *c10Browser) request() *http.Request {
	req := httptest.NewRequest("GET", b.cfg.Path, nil)
	req.Host = b.cfg.Host
	if b.cfg.WireHost != "" {
		req.Host = b.cfg.WireHost
	}
	if cs := b.jar.For(b.cfg.Host, b.cfg.Path, b.cfg.HTTPS); len(cs) > 0 {
		req.Header.Set("Cookie", vfCookieHeader(cs))
	}
	return req
}

func (b *c10Browser) jarNames() []string {
	var out []string
	for _, c := range b.jar.For(b.cfg.Host, b.cfg.Path, b.cfg.HTTPS) {
		out = append(out, fmt.Sprintf("%s(%d)", vfTrunc(c.Name, 20)+c10Tail(c.Name), len(c.Value)))
	}
	return out
}

func c10Tail(name string) string {
	if len(name) > 20 {
		return name[len(name)-6:]
	}
	return ""
}

func (b *c10Browser) detail(extra map[string]interface{}) map[string]interface{} {
	d := map[string]interface{}{"config": b.cfg.Label, "flags": b.p.Flags, "host": b.cfg.Host, "host_header_seen_by_proxy": b.cfg.WireHost, "path": b.cfg.Path, "cookie_name": b.cfg.Name,
		"history": b.steps, "how_to_replay": "token = incompressible text of token_len bytes in AccessToken (variant 0) — see c10Make; drive p.SaveSession / p.LoadCookiedSession / p.ClearSessionCookie with one cookie jar; " +
			"resave = LoadCookiedSession(request with the jar's cookies), overwrite every field of the loaded session, SaveSession(same request, loaded session) — what a token refresh does; " +
			"injected_store_fault = the named Redis command of this step was failed once by the RESP front (err-before: -ERR reply, command not executed; drop-before: connection closed instead; effect-*: executed, reply lost / replaced by -ERR; corrupt / truncate: GET payload damaged)"}
	for k, v := range extra {
		d[k] = v
	}
	return d
}

func (b *c10Browser) histString() string {
	var sb strings.Builder
	for i, s := range b.steps {
		if i > 0 {
			sb.WriteString(" -> ")
		}
		switch {
		case s.Op == "clear":
			sb.WriteString("clear")
		case s.Op == "load":
			fmt.Fprintf(&sb, "load[%s => %s]", s.Fault, s.Load)
		default:
			fmt.Fprintf(&sb, "%s(len=%d,v=%d => %d cookie(s))", s.Op, s.L, s.Variant, s.Parts)
			if s.Fault != "" {
				fmt.Fprintf(&sb, "[%s => %s]", s.Fault, vfTrunc(s.Err, 40))
			}
		}
	}
	return sb.String()
}

// guarded runs f and converts a panic into an error string.
func c10Guarded(f func() error) (err error, panicked string) {
	defer func() {
		if x := recover(); x != nil {
			panicked = fmt.Sprintf("%v\n%s", x, debug.Stack())
		}
	}()
	return f(), ""
}

func (b *c10Browser) apply(lines []string) (emitted []string, sets int) {
	res := b.jar.Apply(b.cfg.Host, b.cfg.Path, lines)
	for i, l := range lines {
		name := l
		if k := strings.IndexByte(l, '='); k >= 0 {
			name = l[:k]
		}
		kind := res[i]
		if kind == "set" {
			sets++
		}
		emitted = append(emitted, fmt.Sprintf("%s%s:%d:%s", vfTrunc(name, 12), c10Tail(name), len(l), kind))
		b.run.Count("set_cookie_lines", 1)
		for {
			m := atomic.LoadInt64(&c10MaxLine)
			if int64(len(l)) <= m || atomic.CompareAndSwapInt64(&c10MaxLine, m, int64(len(l))) {
				break
			}
		}
		if len(l) > 4096 {
			b.run.Violation("c10:cookie-exceeds-4096", fmt.Sprintf("[%s] emitted cookie %q is %d bytes long (> 4096) in history %s", b.cfg.Label, vfTrunc(name, 40), len(l), b.histString()),
				b.detail(map[string]interface{}{"line_length": len(l), "line": vfTrunc(l, 300)}))
		}
		if strings.HasPrefix(kind, "ignored") {
			b.run.Count("set_cookie_ignored_by_jar", 1)
		}
	}
	return
}

// Save saves a NEW session for spec (as a login does) and judges the load that follows. It returns the number of cookies set.
func (b *c10Browser) Save(sp c10Spec) (parts int, ok bool) { return b.save(sp, false) }

// Resave does what a token refresh does: the session that the jar's cookies load is modified (every serialised field is
// replaced by the one of spec) and saved by a request that presents those cookies; the load that follows is judged like after
// any other save. On a server-side store this re-uses the ticket, i.e. writes a key that exists already. Without a loadable
// session (start of a history, after a clear) it is a plain Save.
func (b *c10Browser) Resave(sp c10Spec) (parts int, ok bool) { return b.save(sp, true) }

// c10TicketOf: the ticket part of a server-side store's session cookie ("" when it cannot be told): the cookie value is
// <base64 payload>|<timestamp>|<signature>; for one ticket the payload is constant, the other two parts change per save.
func (b *c10Browser) ticketOf() string {
	for _, c := range b.jar.For(b.cfg.Host, b.cfg.Path, b.cfg.HTTPS) {
		if c.Name == b.cfg.Name {
			if k := strings.IndexByte(c.Value, '|'); k > 0 {
				return c.Value[:k]
			}
		}
	}
	return ""
}

func (b *c10Browser) save(sp c10Spec, resave bool) (parts int, ok bool) {
	s := c10Make(b.st, sp)
	op, ticketBefore := "save", ""
	if resave {
		var loaded *c10sess.SessionState
		lreq := b.request()
		lerr, lpan := c10Guarded(func() error { var e error; loaded, e = b.p.P.LoadCookiedSession(lreq); return e })
		if lpan == "" && lerr == nil && loaded != nil {
			op, ticketBefore = "resave", b.ticketOf()
			loaded.CreatedAt, loaded.ExpiresOn = s.CreatedAt, s.ExpiresOn
			loaded.AccessToken, loaded.IDToken, loaded.RefreshToken = s.AccessToken, s.IDToken, s.RefreshToken
			loaded.Nonce, loaded.Email, loaded.User, loaded.Groups, loaded.PreferredUsername = s.Nonce, s.Email, s.User, s.Groups, s.PreferredUsername
			s = loaded // keeps whatever the store attached to the loaded session (its lock)
			b.run.Count("resaves", 1)
		} else {
			b.run.Count("resaves_without_a_loadable_session_done_as_plain_saves", 1)
		}
	}
	req := b.request()
	rw := httptest.NewRecorder()
	err, pan := c10Guarded(func() error { return b.p.P.SaveSession(rw, req, s) })
	step := c10Step{Op: op, L: sp.L, Variant: sp.Variant, UID: sp.UID, Fault: b.fault}
	if pan != "" {
		b.steps = append(b.steps, step)
		b.run.Violation("c10:panic-in-save", fmt.Sprintf("[%s] SaveSession panicked in history %s", b.cfg.Label, b.histString()), b.detail(map[string]interface{}{"panic": pan}))
		return 0, false
	}
	if err != nil && b.tolerateSaveErr {
		// a save that fails under an injected store fault is not a save; the browser still applies whatever the response carried
		step.Err = err.Error()
		b.steps = append(b.steps, step)
		cur := &b.steps[len(b.steps)-1]
		cur.Emitted, cur.Parts = b.apply(rw.Header().Values("Set-Cookie"))
		cur.JarAfter = b.jarNames()
		b.run.Count("saves_failed_under_injected_fault", 1)
		return 0, false
	}
	if err != nil {
		step.Err = err.Error()
		b.steps = append(b.steps, step)
		b.run.Violation("c10:save-fails", fmt.Sprintf("[%s] SaveSession failed: %v in history %s", b.cfg.Label, err, b.histString()), b.detail(nil))
		return 0, false
	}
	snap := c10Snapshot(s)
	lines := rw.Header().Values("Set-Cookie")
	b.steps = append(b.steps, step)
	cur := &b.steps[len(b.steps)-1]
	cur.Emitted, cur.Parts = b.apply(lines)
	cur.JarAfter = b.jarNames()
	parts = cur.Parts
	b.parts = parts
	b.run.Count("saves", 1)
	if op == "resave" && b.cfg.Store != "cookie" {
		switch after := b.ticketOf(); {
		case ticketBefore == "" || after == "":
			cur.Ticket = "unknown"
		case after == ticketBefore:
			cur.Ticket = "reused"
		default:
			cur.Ticket = "rotated"
		}
		b.run.Count("resaves_ticket_"+cur.Ticket, 1)
	}

	// the next request
	var got *c10sess.SessionState
	lreq := b.request()
	err, pan = c10Guarded(func() error { var e error; got, e = b.p.P.LoadCookiedSession(lreq); return e })
	b.run.Count("loads_after_save", 1)
	switch {
	case pan != "":
		cur.Load = "panic"
		b.run.Violation("c10:panic-in-load", fmt.Sprintf("[%s] LoadCookiedSession panicked after %s", b.cfg.Label, b.histString()), b.detail(map[string]interface{}{"panic": pan}))
	case err != nil || got == nil:
		cur.Load = fmt.Sprintf("error: %v", err)
		sig := "c10:load-fails-after-save"
		if len(b.steps) > 1 {
			sig = "c10:load-fails-after-save-with-history"
		}
		if parts > 1 && b.collides(lines) {
			// input class of its own: the name the store gave to one PART of the split session is the configured cookie name itself
			sig = "c10:split-part-named-like-the-unsplit-cookie"
		}
		b.run.Violation(sig, fmt.Sprintf("[%s] the saved session does not load (%v) after %s", b.cfg.Label, err, b.histString()), b.detail(nil))
	default:
		if d := c10Diff(snap, got); len(d) > 0 {
			cur.Load = "differs"
			sig, what := "c10:loaded-session-differs", "differs from the saved one"
			for k := len(b.saved) - 1; k >= 0; k-- {
				if len(c10Diff(b.saved[k], got)) == 0 {
					sig, what = "c10:stale-session-loads", fmt.Sprintf("is the session of an EARLIER save (step %d)", k+1)
					break
				}
			}
			b.run.Violation(sig, fmt.Sprintf("[%s] the loaded session %s after %s: %s", b.cfg.Label, what, b.histString(), strings.Join(d, "; ")), b.detail(map[string]interface{}{"differences": d}))
		} else {
			cur.Load = "equal"
			ok = true
		}
	}
	b.saved = append(b.saved, snap)
	b.cur = &b.saved[len(b.saved)-1]
	return parts, ok
}

// Load is a further request of the browser with no save or clear in between (fault = what was injected into the store read of
// this request, "" for none). judge=false: the outcome is only recorded (a request whose store read failed need not be served).
// judge=true: nothing was cleared since the last successful save, so exactly that session must load.
func (b *c10Browser) Load(fault string, judge bool) bool {
	var got *c10sess.SessionState
	lreq := b.request()
	err, pan := c10Guarded(func() error { var e error; got, e = b.p.P.LoadCookiedSession(lreq); return e })
	step := c10Step{Op: "load", Fault: fault, Parts: b.parts}
	switch {
	case pan != "":
		step.Load = "panic"
	case err != nil || got == nil:
		step.Load = "error: " + vfTrunc(fmt.Sprint(err), 80)
	case b.cur != nil && len(c10Diff(*b.cur, got)) == 0:
		step.Load = "equal"
	default:
		step.Load = "differs"
	}
	b.steps = append(b.steps, step)
	b.run.Count("loads_without_a_preceding_save_or_clear", 1)
	if pan != "" {
		b.run.Violation("c10:panic-in-load", fmt.Sprintf("[%s] LoadCookiedSession panicked after %s", b.cfg.Label, b.histString()), b.detail(map[string]interface{}{"panic": pan}))
		return false
	}
	if !judge || b.cur == nil {
		return step.Load == "equal"
	}
	switch {
	case err != nil || got == nil:
		b.run.Violation("c10:saved-session-gone-without-a-clear", fmt.Sprintf("[%s] the saved session no longer loads (%v) although nothing cleared it: %s", b.cfg.Label, err, b.histString()), b.detail(nil))
		return false
	case step.Load != "equal":
		d := c10Diff(*b.cur, got)
		sig, what := "c10:loaded-session-differs", "differs from the saved one"
		for k := len(b.saved) - 2; k >= 0; k-- {
			if len(c10Diff(b.saved[k], got)) == 0 {
				sig, what = "c10:stale-session-loads", fmt.Sprintf("is the session of an EARLIER save (%d of %d)", k+1, len(b.saved))
				break
			}
		}
		b.run.Violation(sig, fmt.Sprintf("[%s] the loaded session %s after %s: %s", b.cfg.Label, what, b.histString(), strings.Join(d, "; ")), b.detail(map[string]interface{}{"differences": d}))
		return false
	}
	return true
}

// collides: the configured name has 256 characters and ends in _<k>, and one of several cookies set by a save carries
// exactly that name (known finding; the input class is kept this tight on purpose).
func (b *c10Browser) collides(lines []string) bool {
	if len(b.cfg.Name) != 256 || !c10EndsInPartSuffix.MatchString(b.cfg.Name) {
		return false
	}
	for _, l := range lines {
		if c, err := http.ParseSetCookie(l); err == nil && c.MaxAge >= 0 && c.Name == b.cfg.Name {
			return true
		}
	}
	return false
}

// Clear clears the session and judges the load that follows.
func (b *c10Browser) Clear() bool {
	req := b.request()
	rw := httptest.NewRecorder()
	err, pan := c10Guarded(func() error { return b.p.P.ClearSessionCookie(rw, req) })
	step := c10Step{Op: "clear"}
	if pan != "" {
		b.steps = append(b.steps, step)
		b.run.Violation("c10:panic-in-clear", fmt.Sprintf("[%s] ClearSessionCookie panicked in history %s", b.cfg.Label, b.histString()), b.detail(map[string]interface{}{"panic": pan}))
		return false
	}
	if err != nil {
		step.Err = err.Error()
	}
	b.steps = append(b.steps, step)
	cur := &b.steps[len(b.steps)-1]
	cur.Emitted, cur.Parts = b.apply(rw.Header().Values("Set-Cookie"))
	cur.JarAfter = b.jarNames()
	b.parts, b.cur = 0, nil
	b.run.Count("clears", 1)
	var got *c10sess.SessionState
	lreq := b.request()
	lerr, pan := c10Guarded(func() error { var e error; got, e = b.p.P.LoadCookiedSession(lreq); return e })
	b.run.Count("loads_after_clear", 1)
	if pan != "" {
		b.run.Violation("c10:panic-in-load", fmt.Sprintf("[%s] LoadCookiedSession panicked after %s", b.cfg.Label, b.histString()), b.detail(map[string]interface{}{"panic": pan}))
		return false
	}
	if lerr == nil && got != nil {
		cur.Load = "session user=" + got.User
		b.run.Violation("c10:session-loads-after-clear", fmt.Sprintf("[%s] a session (user %q) still loads after %s (clear error: %v)", b.cfg.Label, got.User, b.histString(), err), b.detail(nil))
		return false
	}
	cur.Load = "none"
	return true
}

// ---------------------------------------------------------------------------------------------------------
// thresholds

type c10Thr struct {
	T     [3]int // smallest token length that yields >= 2, 3, 4 cookies (cookie store); borrowed values for redis
	Found bool
}

func c10FindThresholds(run *vfRun, cfg *c10Cfg, p *vfProxy, st *c10Stream) c10Thr {
	if cfg.Store != "cookie" {
		return c10Thr{T: [3]int{2900, 5880, 8860}}
	}
	probe := func(L int) int {
		req := httptest.NewRequest("GET", cfg.Path, nil)
		req.Host = cfg.Host
		if cfg.WireHost != "" {
			req.Host = cfg.WireHost
		}
		rw := httptest.NewRecorder()
		s := c10Make(st, c10Spec{L: L, UID: "thr-00000000"})
		if err := p.P.SaveSession(rw, req, s); err != nil {
			run.T.Fatalf("[%s] threshold probe: %v", cfg.Label, err)
		}
		run.Count("threshold_probes", 1)
		return len(rw.Header().Values("Set-Cookie"))
	}
	var th c10Thr
	for k := 0; k < 3; k++ {
		lo, hi := 0, 20000 // parts(lo) < k+2 <= parts(hi)
		if probe(hi) < k+2 || probe(lo) >= k+2 {
			run.T.Fatalf("[%s] cannot bracket threshold %d", cfg.Label, k+1)
		}
		for hi-lo > 1 {
			mid := (lo + hi) / 2
			if probe(mid) >= k+2 {
				hi = mid
			} else {
				lo = mid
			}
		}
		th.T[k] = hi
	}
	th.Found = true
	return th
}

func (th c10Thr) distClass(L int) string {
	best := 1 << 30
	for _, t := range th.T {
		d := L - t
		if d < 0 {
			d = -d
		}
		if d < best {
			best = d
		}
	}
	switch {
	case best == 0:
		return "at"
	case best == 1:
		return "1"
	case best <= 4:
		return "2-4"
	case best <= 24:
		return "5-24"
	}
	return "far"
}

// sizes: tiny, every length within ±24 of each threshold, 6–12 kB.
func (th c10Thr) allSizes() []int {
	out := []int{0, 1, 7, 100, 1000}
	for _, t := range th.T {
		for d := -24; d <= 24; d++ {
			out = append(out, t+d)
		}
	}
	out = append(out, 6000, 6144, 7001, 8191, 9000, 10240, 11111, 12000, 12288)
	return out
}

// manyParts: a token length that needs k cookies (k >= 3), placed in the middle of the k-cookie range (the ranges are as wide as
// the distance between the measured thresholds).
func (th c10Thr) manyParts(k int) int {
	step := th.T[1] - th.T[0]
	return th.T[0] + (k-2)*step + step/2
}

// boundary picks for pair / sequence enumeration.
func (th c10Thr) pickSizes(rng *rand.Rand, extra int) []int {
	out := []int{0}
	for _, t := range th.T {
		out = append(out, t-1, t, t+1)
	}
	out = append(out, 12288)
	for k := 0; k < extra; k++ {
		t := th.T[rng.Intn(3)]
		out = append(out, t-24+rng.Intn(49))
	}
	return out
}

// ---------------------------------------------------------------------------------------------------------

var c10uid, c10MaxLine int64

var c10EndsInPartSuffix = regexp.MustCompile(`_[0-9]+$`)

// c10Jobs collects the histories of all configurations so that one worker pool runs them.
type c10Jobs struct{ list []func() }

func (j *c10Jobs) each(n int, f func(i int)) {
	for i := 0; i < n; i++ {
		i := i
		j.list = append(j.list, func() { f(i) })
	}
}

func c10UID() string { return fmt.Sprintf("u%011d", atomic.AddInt64(&c10uid, 1)) }

func c10Cell(cfg *c10Cfg, th c10Thr, prev, now int, L int, op string) string {
	return fmt.Sprintf("%s|%d->%d|%s|d=%s|name=%s", cfg.Store, prev, now, op, th.distClass(L), cfg.NameClass)
}

func TestVerif_C10(t *testing.T) {
	run := vfNewRun(t, "C10", "exploration")
	run.SetRule("histories of save/clear on the real cookie and Redis stores through SaveSession/LoadCookiedSession/ClearSessionCookie with one RFC 6265 jar per history; " +
		"token lengths: tiny, EVERY length within ±24 of the first three split thresholds (found by bisection per configuration), 6–12 kB incompressible, and sessions of 9–22 cookies (thorough: up to ~101) going up and down across the 10/11-cookie boundary; " +
		"single saves over all sizes, all ordered pairs of boundary sizes, exhaustive class sequences and seeded random sequences with clears (length <= 4 quick, <= 6 thorough); " +
		"field contents from binary nonces, Unicode / invalid UTF-8 e-mail, nil/empty/300-entry/70 kB groups, nil/zero/past/future/far timestamps; cookie names of length 1..256 and regexp metacharacters; " +
		"histories with RE-SAVES (the jar's session is loaded, every field replaced, and saved by the request presenting it — a refresh; on Redis the ticket's key is written again) mixed with new sessions and clears, on every Redis configuration (standalone, Cluster, Sentinel client) and the heavy cookie configurations; " +
		"Redis histories with exactly ONE failing GET (then a further request must load the saved, never cleared session) or ONE failing SET (then the same save on the healthy store), 9 fault kinds x 3 client modes; " +
		"histories whose steps are COMBINED ON ONE RESPONSE (same request, same ResponseWriter: save/re-save then clear, clear then save, re-save twice, save-save-clear) after no / a one-cookie / a three-cookie session in the jar, with one-, two- and three-cookie sessions in the combined saves, on every configuration incl. cookie lifetimes 0 / default / 30m / 1y — the jar after the whole response decides; " +
		"plus login -> refresh (growing / shrinking ID token) -> sign-out flows over HTTP (the ageing re-save of the flow is itself judged). " +
		"cell = (store, cookies before -> cookies after, operation, distance of the token length to the nearest threshold, name length class); non-trivial = every case (each is a save or clear followed by a judged load)")
	run.Assume("lz4 does not compress random base64 text appreciably (thresholds are measured, not assumed)",
		"nil/empty slices and nil/zero timestamps are one value", "sessions are created inside the cookie validity window (expiry is C09's subject)",
		"--session-cookie-minimal is excluded (it strips tokens by design)")
	// the cookie store allocates lz4 block buffers and hash tables per call; with the race detector the default GC pace
	// spends most of the time in the kernel. A laxer pace changes nothing but the wall time.
	defer debug.SetGCPercent(debug.SetGCPercent(400))
	defer debug.SetMemoryLimit(debug.SetMemoryLimit(3 << 30)) // keeps the laxer pace from growing the heap without bound
	w := vfNewWorld(t)
	defer w.Close()
	st := c10NewStream(run.Env.Seed*31+7, 420000)
	c10SelfTest(t, st)

	cfgs := c10Configs(run, w)
	run.Extra("configurations", len(cfgs))
	t0 := time.Now()
	proxies := make([]*vfProxy, len(cfgs))
	for ci := range cfgs {
		p, err := w.NewProxy(cfgs[ci].Flags...)
		if err != nil {
			t.Fatalf("[%s] %v", cfgs[ci].Label, err)
		}
		proxies[ci] = p
	}
	ths := make([]c10Thr, len(cfgs))
	vfParallel(len(cfgs), 16, func(ci int) { ths[ci] = c10FindThresholds(run, &cfgs[ci], proxies[ci], st) })
	thrSample := map[string][3]int{}
	jobs := &c10Jobs{}
	for ci := range cfgs {
		cfg, p, th := &cfgs[ci], proxies[ci], ths[ci]
		if len(thrSample) < 12 || cfg.Heavy {
			thrSample[cfg.Label] = th.T
		}
		c10Singles(jobs, run, cfg, p, st, th)
		c10Pairs(jobs, run, cfg, p, st, th, ci)
		c10Sequences(jobs, run, cfg, p, st, th, ci)
		c10ManyParts(jobs, run, cfg, p, st, th, ci)
		c10Resaves(jobs, run, cfg, p, st, th, ci)
		c10Combined(jobs, run, cfg, p, st, th, ci)
	}
	c10StoreFaults(jobs, run, w, st)
	run.Extra("thresholds_token_length", thrSample)
	c10Flows(jobs, run, w, st)
	t1 := time.Now()
	// one pool over all configurations; a fixed permutation spreads the expensive histories over the workers
	perm := rand.New(rand.NewSource(99)).Perm(len(jobs.list))
	vfParallel(len(perm), 16, func(i int) {
		if run.Violations() > 1000 {
			return // the verdict is settled and the witnesses are on disk; do not spend minutes on more of the same
		}
		jobs.list[perm[i]]()
	})
	run.Extra("phase_seconds", map[string]float64{"setup": t1.Sub(t0).Seconds(), "histories": time.Since(t1).Seconds()})
	run.Extra("histories", len(jobs.list))
	run.Extra("max_set_cookie_line_bytes", atomic.LoadInt64(&c10MaxLine))
	run.Finish(int64(run.Env.Pick(25000, 280000)), run.Env.Pick(550, 700))
}

// c10Singles: one save on a fresh jar for every size; base fields (exact thresholds) and random fields.
func c10Singles(jobs *c10Jobs, run *vfRun, cfg *c10Cfg, p *vfProxy, st *c10Stream, th c10Thr) {
	sizes := th.allSizes()
	jobs.each(len(sizes)*2, func(i int) {
		L := sizes[i/2]
		sp := c10Spec{L: L, UID: c10UID()}
		if i%2 == 1 {
			if !run.Env.Thorough() && (i/2)%3 != 0 {
				return
			}
			sp.Variant = run.Env.Seed*1000003 + int64(i)*7919 + int64(len(cfg.Name))
		}
		b := c10NewBrowser(run, cfg, p, st)
		parts, _ := b.Save(sp)
		run.Eval(c10Cell(cfg, th, 0, parts, L, "save"))
		if cfg.Store == "redis" || i%8 == 0 {
			b.Clear()
			run.Eval(c10Cell(cfg, th, parts, 0, L, "clear"))
		}
		run.SampleEvery(3001, func() interface{} {
			return map[string]interface{}{"config": cfg.Label, "history": b.histString(), "emitted": b.steps[0].Emitted, "load": b.steps[0].Load}
		})
	})
}

// c10Pairs: all ordered pairs (earlier save, later save) over the boundary sizes (all sizes for heavy configurations in the thorough tier).
func c10Pairs(jobs *c10Jobs, run *vfRun, cfg *c10Cfg, p *vfProxy, st *c10Stream, th c10Thr, ci int) {
	rng := rand.New(rand.NewSource(run.Env.Seed*7907 + int64(ci)))
	sizes := th.pickSizes(rng, run.Env.Pick(1, 12))
	if cfg.Heavy {
		sizes = th.pickSizes(rng, run.Env.Pick(10, 50))
		if run.Env.Thorough() && (cfg.Label == "cookie/default/len13" || cfg.Label == "cookie/name/len256" || cfg.Store == "redis") {
			sizes = th.allSizes() // every size before every size
		}
	}
	n := len(sizes)
	jobs.each(n*n, func(i int) {
		a, c := sizes[i/n], sizes[i%n]
		b := c10NewBrowser(run, cfg, p, st)
		var v1, v2 int64
		if i%3 == 2 { // a third of the pairs with arbitrary field contents
			v1, v2 = run.Env.Seed*15485863+int64(i)*31+1, run.Env.Seed*32452843+int64(i)*17+2
		}
		p1, _ := b.Save(c10Spec{L: a, Variant: v1, UID: c10UID()})
		p2, _ := b.Save(c10Spec{L: c, Variant: v2, UID: c10UID()})
		run.Eval(c10Cell(cfg, th, 0, p1, a, "save"))
		run.Eval(c10Cell(cfg, th, p1, p2, c, "save"))
		run.Count("pair_histories", 1)
		if cfg.Store == "redis" {
			b.Clear()
			run.Eval(c10Cell(cfg, th, p2, 0, 0, "clear"))
		}
		run.SampleEvery(20011, func() interface{} {
			return map[string]interface{}{"config": cfg.Label, "history": b.histString(), "steps": b.steps}
		})
	})
}

// c10ManyParts: sessions of 9..22 (thorough: ~101) cookies on the cookie store — the part index gets a second and third digit — as
// single saves, as ordered pairs going up and down across the 10/11 boundary, and in random sequences with small sessions and clears.
func c10ManyParts(jobs *c10Jobs, run *vfRun, cfg *c10Cfg, p *vfProxy, st *c10Stream, th c10Thr, ci int) {
	if cfg.Store != "cookie" {
		return
	}
	ks := []int{10, 11, 21}
	if cfg.Heavy {
		ks = []int{9, 10, 11, 12, 21, 22}
	}
	if run.Env.Thorough() {
		ks = []int{9, 10, 11, 12, 13, 17, 21, 22, 31}
		if cfg.Heavy {
			ks = append(ks, 100, 101, 102)
		}
	}
	jobs.each(len(ks), func(i int) {
		b := c10NewBrowser(run, cfg, p, st)
		L := th.manyParts(ks[i])
		parts, _ := b.Save(c10Spec{L: L, UID: c10UID()})
		run.Eval(c10Cell(cfg, th, 0, parts, L, "save"))
		if parts == ks[i] {
			run.Count("many_part_sessions_as_planned", 1)
		}
		if parts >= 11 {
			run.Count("saves_of_11_or_more_cookies", 1)
		}
		b.Clear()
		run.Eval(c10Cell(cfg, th, parts, 0, L, "clear"))
	})
	small, two := 500, th.T[0]
	k := th.manyParts
	pairs := [][2]int{{k(10), k(11)}, {k(11), k(10)}, {k(11), two}, {small, k(11)}}
	if cfg.Heavy || run.Env.Thorough() {
		set := []int{small, two, k(10), k(11), k(12), k(21)}
		if run.Env.Thorough() {
			set = append(set, k(9), k(22))
		}
		pairs = nil
		for _, a := range set {
			for _, c := range set {
				if a > two || c > two {
					pairs = append(pairs, [2]int{a, c})
				}
			}
		}
	}
	jobs.each(len(pairs), func(i int) {
		b := c10NewBrowser(run, cfg, p, st)
		var v int64
		if i%3 == 2 {
			v = run.Env.Seed*86028121 + int64(i)*53 + int64(ci)
		}
		p1, _ := b.Save(c10Spec{L: pairs[i][0], UID: c10UID()})
		p2, _ := b.Save(c10Spec{L: pairs[i][1], Variant: v, UID: c10UID()})
		run.Eval(c10Cell(cfg, th, 0, p1, pairs[i][0], "save"))
		run.Eval(c10Cell(cfg, th, p1, p2, pairs[i][1], "save"))
		if p1 >= 11 || p2 >= 11 {
			run.Count("saves_of_11_or_more_cookies", 1)
		}
		run.Count("many_part_pair_histories", 1)
	})
	if !cfg.Heavy {
		return
	}
	rng := rand.New(rand.NewSource(run.Env.Seed*7723 + int64(ci)*29))
	classes := []int{-1, small, two, k(9), k(10), k(10), k(11), k(11), k(12), k(11), k(10), k(21)}
	var seqs [][]int
	for n := 0; n < run.Env.Pick(14, 300); n++ {
		l := 3 + rng.Intn(run.Env.Pick(2, 4))
		sq := make([]int, l)
		for j := range sq {
			sq[j] = classes[rng.Intn(len(classes))]
		}
		seqs = append(seqs, sq)
	}
	jobs.each(len(seqs), func(i int) {
		b := c10NewBrowser(run, cfg, p, st)
		for _, L := range seqs[i] {
			prev := b.parts
			if L < 0 {
				b.Clear()
				run.Eval(c10Cell(cfg, th, prev, 0, 0, "clear"))
				continue
			}
			parts, _ := b.Save(c10Spec{L: L, UID: c10UID()})
			run.Eval(c10Cell(cfg, th, prev, parts, L, "save"))
			if parts >= 11 {
				run.Count("saves_of_11_or_more_cookies", 1)
			}
		}
		run.Count("many_part_sequence_histories", 1)
		run.SampleEvery(40009, func() interface{} { return map[string]interface{}{"config": cfg.Label, "history": b.histString()} })
	})
}

// c10Sequences: exhaustive sequences over size classes + clear, and seeded random sequences.
func c10Sequences(jobs *c10Jobs, run *vfRun, cfg *c10Cfg, p *vfProxy, st *c10Stream, th c10Thr, ci int) {
	maxLen := run.Env.Pick(4, 6)
	// classes: 1 cookie, 2, 3, 4 cookies (at / just past each threshold) and clear (-1); the 12 kB class is in the random sequences
	classes := []int{500, th.T[0], th.T[1] + 3, th.T[2] + 1, -1}
	var seqs [][]int
	if cfg.Heavy {
		l := 4
		if run.Env.Thorough() {
			l = 5
			if cfg.Label == "cookie/default/len13" {
				l = 6
			}
		}
		var rec func(prefix []int)
		rec = func(prefix []int) {
			if len(prefix) == l {
				seqs = append(seqs, append([]int{}, prefix...))
				return
			}
			for _, c := range classes {
				if c == -1 && len(prefix) > 0 && prefix[len(prefix)-1] == -1 {
					continue // clear, clear adds nothing
				}
				rec(append(prefix, c))
			}
		}
		rec(nil)
	}
	rng := rand.New(rand.NewSource(run.Env.Seed*6151 + int64(ci)*13))
	pick := th.pickSizes(rng, 8)
	nRand := run.Env.Pick(30, 300)
	if cfg.Heavy {
		nRand = run.Env.Pick(150, 2000)
	}
	for k := 0; k < nRand; k++ {
		l := 3 + rng.Intn(maxLen-2)
		s := make([]int, l)
		for j := range s {
			if rng.Intn(5) == 0 {
				s[j] = -1
			} else {
				s[j] = pick[rng.Intn(len(pick))]
			}
		}
		seqs = append(seqs, s)
	}
	jobs.each(len(seqs), func(i int) {
		b := c10NewBrowser(run, cfg, p, st)
		for j, L := range seqs[i] {
			prev := b.parts
			if L < 0 {
				b.Clear()
				run.Eval(c10Cell(cfg, th, prev, 0, 0, "clear"))
				continue
			}
			var v int64
			if (i+j)%4 == 3 {
				v = run.Env.Seed*49979687 + int64(i)*101 + int64(j)
			}
			parts, _ := b.Save(c10Spec{L: L, Variant: v, UID: c10UID()})
			run.Eval(c10Cell(cfg, th, prev, parts, L, "save"))
		}
		run.Count("sequence_histories", 1)
		if cfg.Store == "redis" && b.parts > 0 {
			prev := b.parts
			b.Clear()
			run.Eval(c10Cell(cfg, th, prev, 0, 0, "clear"))
		}
		run.SampleEvery(30011, func() interface{} {
			return map[string]interface{}{"config": cfg.Label, "history": b.histString()}
		})
	})
}

// ---------------------------------------------------------------------------------------------------------
// histories with same-ticket re-saves (what a token refresh does)

// c10Resaves: histories in which the browser's current session is loaded, modified (other token lengths, other field
// contents) and saved again by the request that presented it, mixed with saves of new sessions and clears. On the Redis store a
// re-save writes the key of the presented ticket a second, third, ... time (every Redis configuration: standalone, Cluster and
// Sentinel client); the heavy cookie-store configurations run the same histories.
func c10Resaves(jobs *c10Jobs, run *vfRun, cfg *c10Cfg, p *vfProxy, st *c10Stream, th c10Thr, ci int) {
	if cfg.Store != "redis" && !cfg.Heavy {
		return
	}
	rng := rand.New(rand.NewSource(run.Env.Seed*9176 + int64(ci)*41 + 3))
	type op struct {
		kind byte // s = new session, r = re-save, c = clear
		L    int
	}
	var seqs [][]op
	// every (first size, second size) over the size classes, then back to the first size
	base := []int{0, 500, th.T[0], 12288}
	for _, a := range base {
		for _, c := range base {
			seqs = append(seqs, []op{{'s', a}, {'r', c}, {'r', a + 1}})
		}
	}
	pick := append(th.pickSizes(rng, 6), 100, 1000)
	n := run.Env.Pick(16, 200)
	if cfg.Store == "redis" && cfg.Heavy {
		n = run.Env.Pick(40, 800)
	}
	for k := 0; k < n; k++ {
		l := 3 + rng.Intn(run.Env.Pick(2, 4))
		sq := []op{{'s', pick[rng.Intn(len(pick))]}}
		for len(sq) < l {
			L := pick[rng.Intn(len(pick))]
			switch r := rng.Intn(10); {
			case r < 6:
				sq = append(sq, op{'r', L})
			case r < 8:
				sq = append(sq, op{'s', L})
			default:
				sq = append(sq, op{'c', 0})
			}
		}
		seqs = append(seqs, sq)
	}
	jobs.each(len(seqs), func(i int) {
		b := c10NewBrowser(run, cfg, p, st)
		for j, o := range seqs[i] {
			prev := b.parts
			if o.kind == 'c' {
				b.Clear()
				run.Eval(c10Cell(cfg, th, prev, 0, 0, "clear"))
				continue
			}
			var v int64
			if (i+j)%3 == 2 {
				v = run.Env.Seed*67867967 + int64(i)*211 + int64(j)
			}
			sp := c10Spec{L: o.L, Variant: v, UID: c10UID()}
			if o.kind == 'r' {
				parts, _ := b.Resave(sp)
				run.Eval(c10Cell(cfg, th, prev, parts, o.L, b.steps[len(b.steps)-1].Op))
			} else {
				parts, _ := b.Save(sp)
				run.Eval(c10Cell(cfg, th, prev, parts, o.L, "save"))
			}
		}
		run.Count("resave_histories", 1)
		if cfg.Store == "redis" && b.parts > 0 {
			prev := b.parts
			b.Clear()
			run.Eval(c10Cell(cfg, th, prev, 0, 0, "clear"))
		}
		run.SampleEvery(2003, func() interface{} {
			return map[string]interface{}{"config": cfg.Label, "history": b.histString(), "steps": b.steps}
		})
	})
}

// ---------------------------------------------------------------------------------------------------------
// histories whose steps are combined on one response

type c10RespOp struct {
	Kind byte // s = save a new session, r = re-save the session the request loads (plain save without one), c = clear
	L    int
	V    int64
}

// Respond performs ops one after the other with ONE request (the jar's cookies) and ONE ResponseWriter — what the proxy does when
// a session is refreshed while the request is a sign-out, is refreshed and then fails validation, or is saved twice by one
// handler — applies the response's Set-Cookie lines to the jar in order, and judges the next request by the LAST operation:
// a clear => nothing loads; a save => exactly that session loads.
func (b *c10Browser) Respond(ops []c10RespOp) (parts int, ok bool) {
	req := b.request()
	rw := httptest.NewRecorder()
	var loaded *c10sess.SessionState
	var name []string
	var snap *c10Snap
	nsaves := 0
	step := c10Step{}
	fail := func(sig, msg string, extra map[string]interface{}) (int, bool) {
		step.Op = "one-response[" + strings.Join(name, "+") + "]"
		b.steps = append(b.steps, step)
		b.run.Violation(sig, fmt.Sprintf("[%s] %s in history %s", b.cfg.Label, msg, b.histString()), b.detail(extra))
		return 0, false
	}
	for _, o := range ops {
		if o.Kind == 'c' {
			name = append(name, "clear")
			err, pan := c10Guarded(func() error { return b.p.P.ClearSessionCookie(rw, req) })
			if pan != "" {
				return fail("c10:panic-in-clear", "ClearSessionCookie panicked", map[string]interface{}{"panic": pan})
			}
			if err != nil {
				step.Err = err.Error()
			}
			snap = nil
			b.run.Count("clears", 1)
			continue
		}
		sp := c10Spec{L: o.L, Variant: o.V, UID: c10UID()}
		s := c10Make(b.st, sp)
		opName := "save"
		if o.Kind == 'r' {
			if loaded == nil {
				lreq := b.request()
				lerr, lpan := c10Guarded(func() error { var e error; loaded, e = b.p.P.LoadCookiedSession(lreq); return e })
				if lpan != "" || lerr != nil {
					loaded = nil
				}
			}
			if loaded != nil {
				opName = "resave"
				loaded.CreatedAt, loaded.ExpiresOn = s.CreatedAt, s.ExpiresOn
				loaded.AccessToken, loaded.IDToken, loaded.RefreshToken = s.AccessToken, s.IDToken, s.RefreshToken
				loaded.Nonce, loaded.Email, loaded.User, loaded.Groups, loaded.PreferredUsername = s.Nonce, s.Email, s.User, s.Groups, s.PreferredUsername
				s = loaded
			}
		}
		name = append(name, fmt.Sprintf("%s(len=%d,v=%d)", opName, o.L, o.V))
		step.L, step.Variant, step.UID = o.L, o.V, sp.UID
		err, pan := c10Guarded(func() error { return b.p.P.SaveSession(rw, req, s) })
		if pan != "" {
			return fail("c10:panic-in-save", "SaveSession panicked", map[string]interface{}{"panic": pan})
		}
		if err != nil {
			step.Err = err.Error()
			return fail("c10:save-fails", fmt.Sprintf("SaveSession failed: %v", err), nil)
		}
		sn := c10Snapshot(s)
		b.saved = append(b.saved, sn)
		snap = &b.saved[len(b.saved)-1]
		nsaves++
		b.run.Count("saves", 1)
	}
	step.Op = "one-response[" + strings.Join(name, "+") + "]"
	b.steps = append(b.steps, step)
	cur := &b.steps[len(b.steps)-1]
	cur.Emitted, _ = b.apply(rw.Header().Values("Set-Cookie"))
	cur.JarAfter = b.jarNames()
	cur.Parts = len(cur.JarAfter)
	parts = cur.Parts
	b.parts, b.cur = parts, snap
	b.run.Count("combined_responses", 1)

	var got *c10sess.SessionState
	lreq := b.request()
	lerr, pan := c10Guarded(func() error { var e error; got, e = b.p.P.LoadCookiedSession(lreq); return e })
	switch {
	case pan != "":
		cur.Load = "panic"
		b.run.Violation("c10:panic-in-load", fmt.Sprintf("[%s] LoadCookiedSession panicked after %s", b.cfg.Label, b.histString()), b.detail(map[string]interface{}{"panic": pan}))
	case snap != nil && nsaves > 1:
		// Two saves on one response followed by no clear: not something the proxy does (the handlers that save a NEW session —
		// sign-in, callback — are not behind the session-loading chain that refreshes; a refresh saves once), and the store, which
		// sees only the request's cookies, cannot know the parts its first save queued. Recorded, not judged.
		cur.Load = "equal (not judged)"
		if lerr != nil || got == nil || len(c10Diff(*snap, got)) > 0 {
			cur.Load = "not the last save (not judged: two saves on one response)"
			b.run.Count("two_saves_on_one_response_last_one_does_not_load_not_judged", 1)
			b.cur = nil // the steps that follow know no current session
			if lerr == nil && got != nil {
				b.cur = &c10Snap{}
				*b.cur = c10Snapshot(got)
			}
		}
		ok = true
	case snap == nil:
		b.run.Count("loads_after_clear", 1)
		if lerr == nil && got != nil {
			cur.Load = "session user=" + got.User
			b.run.Violation("c10:session-loads-after-response-ending-in-clear", fmt.Sprintf("[%s] a session (user %q) still loads after the response that ended with a clear: %s", b.cfg.Label, got.User, b.histString()), b.detail(nil))
			return parts, false
		}
		cur.Load = "none"
		ok = true
	case lerr != nil || got == nil:
		b.run.Count("loads_after_save", 1)
		cur.Load = fmt.Sprintf("error: %v", lerr)
		sig := "c10:load-fails-after-response-ending-in-save"
		if parts > 1 && b.collides(rw.Header().Values("Set-Cookie")) {
			// the known input class of its own (256-character name ending in _<k>): one PART of the split session carries the configured name
			sig = "c10:split-part-named-like-the-unsplit-cookie"
		}
		b.run.Violation(sig, fmt.Sprintf("[%s] the session saved last on the response does not load (%v) after %s", b.cfg.Label, lerr, b.histString()), b.detail(nil))
	default:
		b.run.Count("loads_after_save", 1)
		if d := c10Diff(*snap, got); len(d) > 0 {
			cur.Load = "differs"
			sig, what := "c10:loaded-session-differs", "differs from the one saved last"
			for k := len(b.saved) - 2; k >= 0; k-- {
				if len(c10Diff(b.saved[k], got)) == 0 {
					sig, what = "c10:stale-session-loads", fmt.Sprintf("is the session of an EARLIER save (%d of %d)", k+1, len(b.saved))
					break
				}
			}
			b.run.Violation(sig, fmt.Sprintf("[%s] the loaded session %s after %s: %s", b.cfg.Label, what, b.histString(), strings.Join(d, "; ")), b.detail(map[string]interface{}{"differences": d}))
		} else {
			cur.Load = "equal"
			ok = true
		}
	}
	return parts, ok
}

// c10Combined: (session in the jar before: none / one cookie / three cookies) x (combined response over one-, two- and
// three-cookie sessions), then one more ordinary save and clear so that whatever the combined response left in the jar meets a
// further step. Every configuration; the cookie-lifetime configurations and the heavy ones run the full product, the others a third.
func c10Combined(jobs *c10Jobs, run *vfRun, cfg *c10Cfg, p *vfProxy, st *c10Stream, th c10Thr, ci int) {
	sz := []int{500, th.T[0], th.T[1] + 3}
	var combos [][]c10RespOp
	for _, x := range sz {
		combos = append(combos, []c10RespOp{{Kind: 's', L: x}, {Kind: 'c'}}, []c10RespOp{{Kind: 'r', L: x}, {Kind: 'c'}}, []c10RespOp{{Kind: 'c'}, {Kind: 's', L: x}})
		for _, y := range sz {
			combos = append(combos, []c10RespOp{{Kind: 'r', L: x}, {Kind: 'r', L: y}}, []c10RespOp{{Kind: 'r', L: x}, {Kind: 'r', L: y}, {Kind: 'c'}})
			if run.Env.Thorough() {
				combos = append(combos, []c10RespOp{{Kind: 'c'}, {Kind: 'r', L: x}, {Kind: 'r', L: y}}, []c10RespOp{{Kind: 'r', L: x}, {Kind: 'c'}, {Kind: 's', L: y}})
			}
		}
	}
	priors := []int{-1, 500, th.T[1] + 3}
	full := cfg.Heavy || strings.Contains(cfg.Label, "expire")
	n := len(priors) * len(combos)
	jobs.each(n, func(i int) {
		if !full && !run.Env.Thorough() && (i+ci)%3 != 0 {
			return
		}
		prior, ops := priors[i/len(combos)], append([]c10RespOp{}, combos[i%len(combos)]...)
		if i%4 == 3 {
			for k := range ops {
				ops[k].V = run.Env.Seed*22801763 + int64(i)*389 + int64(k)
			}
		}
		b := c10NewBrowser(run, cfg, p, st)
		if prior >= 0 {
			p0, _ := b.Save(c10Spec{L: prior, UID: c10UID()})
			run.Eval(c10Cell(cfg, th, 0, p0, prior, "save"))
		}
		prev := b.parts
		kinds, lastL := "", 0
		for _, o := range ops {
			kinds += string(o.Kind)
			if o.Kind != 'c' {
				lastL = o.L
			}
		}
		now, _ := b.Respond(ops)
		run.Eval(c10Cell(cfg, th, prev, now, lastL, "one-response:"+kinds))
		run.Count("combined_response_histories", 1)
		if i%2 == 0 { // what the combined response left in the jar meets a further step
			L := sz[(i/2)%len(sz)]
			parts, _ := b.Save(c10Spec{L: L, UID: c10UID()})
			run.Eval(c10Cell(cfg, th, now, parts, L, "save"))
		} else if b.cur != nil {
			b.Clear()
			run.Eval(c10Cell(cfg, th, now, 0, 0, "clear"))
		}
		run.SampleEvery(1009, func() interface{} {
			return map[string]interface{}{"config": cfg.Label, "history": b.histString(), "steps": b.steps}
		})
	})
}

// ---------------------------------------------------------------------------------------------------------
// histories with ONE transient store failure

type c10Arm struct {
	mu   sync.Mutex
	op   string
	kind string
	left int
	hits int
}

func (a *c10Arm) set(op, kind string) { a.mu.Lock(); a.op, a.kind, a.left = op, kind, 1; a.mu.Unlock() }
func (a *c10Arm) clear() (delivered bool) {
	a.mu.Lock()
	defer a.mu.Unlock()
	delivered = a.op != "" && a.left == 0
	a.op, a.left = "", 0
	return
}

// c10StoreFaults: the Redis store behind the rig's RESP front (standalone, Cluster and Sentinel client), with exactly one
// command of a history failing and a healthy store before and after:
//   read fault:   save, [re-save,] a request whose GET fails (its outcome is recorded, not judged), a further request
//                 -> nothing was cleared, so the further request must load exactly the saved session
//   write fault:  [save,] a (re-)save whose SET fails (not a save when it reports the error; judged like any save when it
//                 reports success), the same (re-)save again on the healthy store -> judged like any save
// The histories of one client mode run one after the other (the fault is addressed to "the next GET / SET of this front").
func c10StoreFaults(jobs *c10Jobs, run *vfRun, w *vfWorld, st *c10Stream) {
	type scen struct{ op, kind, shape string }
	var scens []scen
	for _, k := range []string{"err-before", "drop-before", "effect-drop", "corrupt", "truncate"} {
		scens = append(scens, scen{"GET", k, "save,load!,load"}, scen{"GET", k, "save,resave,load!,load"})
	}
	for _, k := range []string{"err-before", "drop-before", "effect-err", "effect-drop"} {
		scens = append(scens, scen{"SET", k, "save,resave!,resave"}, scen{"SET", k, "save!,save"})
	}
	sizes := []int{0, 500, 2900, 12288}
	modes := []string{"standalone", "cluster", "sentinel"}
	for mi, mode := range modes {
		mi, mode := mi, mode
		hub := vfNewRedisHub(w.Redis())
		w.OnClose(hub.Close)
		front := hub.Front(1000 + mi)
		arm := &c10Arm{}
		hub.SetHooks(func(c *vfRedisCmd) vfRedisDecision {
			arm.mu.Lock()
			defer arm.mu.Unlock()
			if arm.left > 0 && c.Op == arm.op {
				arm.left--
				arm.hits++
				return vfRedisDecision{Fault: &vfRedisFault{Kind: arm.kind, N: 9}}
			}
			return vfRedisDecision{}
		}, nil)
		flags := append([]string{"--session-store-type=redis", "--cookie-name=_oauth2_proxy"}, front.ModeFlags(mode, "max_retries=-1")...)
		p, err := w.NewProxy(flags...)
		if err != nil {
			run.T.Fatalf("[store-fault %s] %v", mode, err)
		}
		cfg := &c10Cfg{Label: "redis/one-store-fault/" + mode, Store: "redis", Name: "_oauth2_proxy", NameClass: c10NameClass("_oauth2_proxy"), Flags: flags, Host: "proxy.test", Path: "/x"}
		rounds := run.Env.Pick(2, 12)
		jobs.each(1, func(int) {
			for r := 0; r < rounds; r++ {
				for si, sc := range scens {
					b := c10NewBrowser(run, cfg, p, st)
					spec := func(k int) c10Spec {
						sp := c10Spec{L: sizes[(r+si+k)%len(sizes)], UID: c10UID()}
						if (r+si+k)%3 == 1 {
							sp.Variant = run.Env.Seed*2750159 + int64(r*1000+si*10+k) + int64(mi)*100000
						}
						return sp
					}
					for k, stp := range strings.Split(sc.shape, ",") {
						faulty := strings.HasSuffix(stp, "!")
						if faulty {
							arm.set(sc.op, sc.kind)
							b.fault, b.tolerateSaveErr = sc.op+":"+sc.kind, true
						}
						switch strings.TrimSuffix(stp, "!") {
						case "save":
							b.Save(spec(k))
						case "resave":
							b.Resave(spec(k))
						case "load":
							if faulty {
								b.Load(sc.op+":"+sc.kind, false)
							} else {
								b.Load("", true)
							}
						}
						if faulty {
							b.fault, b.tolerateSaveErr = "", false
							if arm.clear() {
								run.Count("store_faults_delivered_"+sc.op, 1)
							} else {
								run.Count("store_faults_not_reached", 1)
							}
						}
					}
					run.Eval(fmt.Sprintf("one-store-fault|%s|%s:%s|%s", mode, sc.op, sc.kind, sc.shape))
					run.Count("store_fault_histories", 1)
					if b.parts > 0 {
						b.Clear()
					}
					run.SampleEvery(97, func() interface{} {
						return map[string]interface{}{"config": cfg.Label, "history": b.histString(), "steps": b.steps}
					})
				}
			}
		})
	}
}

// ---------------------------------------------------------------------------------------------------------
// HTTP flows: login -> refreshes with a growing / shrinking ID token -> sign-out

type c10Gen struct {
	Pad         int
	Email       string
	AccessToken string
}

type c10FlowTable struct {
	mu   sync.Mutex
	pads map[string][]int     // sub -> pad per issuance
	gens map[string][]c10Gen // sub -> what was issued
}

func c10Flows(jobs *c10Jobs, run *vfRun, w *vfWorld, st *c10Stream) {
	tab := &c10FlowTable{pads: map[string][]int{}, gens: map[string][]c10Gen{}}
	w.IdP.Set(func(c *vfIdPCfg) {
		c.MutateIDClaims = func(grant string, ar *vfAuthReq, claims map[string]interface{}) {
			sub, _ := claims["sub"].(string)
			tab.mu.Lock()
			defer tab.mu.Unlock()
			pads, ok := tab.pads[sub]
			if !ok {
				return
			}
			g := len(tab.gens[sub])
			pad := pads[len(pads)-1]
			if g < len(pads) {
				pad = pads[g]
			}
			email := fmt.Sprintf("g%d.%s@example.com", g, sub)
			claims["email"] = email
			claims["pad"] = st.cut(g*977+len(sub), pad)
			tab.gens[sub] = append(tab.gens[sub], c10Gen{Pad: pad, Email: email})
		}
		c.TokenResponseMutate = func(grant string, resp map[string]interface{}) {
			idt, _ := resp["id_token"].(string)
			cl := vfJWTClaims(idt)
			sub, _ := cl["sub"].(string)
			at, _ := resp["access_token"].(string)
			tab.mu.Lock()
			defer tab.mu.Unlock()
			if g := tab.gens[sub]; len(g) > 0 {
				g[len(g)-1].AccessToken = at
			}
		}
	})

	type fcfg struct {
		label string
		store string
		flags []string
	}
	rng := rand.New(rand.NewSource(run.Env.Seed*2741 + 5))
	fcfgs := []fcfg{
		{"cookie/default", "cookie", []string{"--session-store-type=cookie"}},
		{"cookie/name256", "cookie", []string{"--session-store-type=cookie", "--cookie-name=" + c10Name(rng, 256)}},
		{"cookie/name255+meta", "cookie", []string{"--session-store-type=cookie", "--cookie-name=" + c10Name(rng, 253) + "+."}},
		{"redis/default", "redis", []string{"--session-store-type=redis", "--redis-connection-url=" + w.RedisURL()}},
	}
	pads := []int{0, 1500, 3800, 6000, 9000}
	var flows [][]int
	for _, a := range pads {
		for _, b := range pads {
			flows = append(flows, []int{a, b})
			if run.Env.Thorough() {
				for _, c := range pads {
					flows = append(flows, []int{a, b, c})
				}
			}
		}
	}
	// ID tokens that need more than ten cookies, growing into and shrinking out of that range
	flows = append(flows, []int{0, 24000}, []int{24000, 1500}, []int{22000, 26000, 20000}, []int{9000, 40000, 24000})
	for k := 0; k < run.Env.Pick(10, 60); k++ {
		flows = append(flows, []int{pads[rng.Intn(5)] + rng.Intn(200), pads[rng.Intn(5)] + rng.Intn(200), pads[rng.Intn(5)] + rng.Intn(200)})
	}
	var flowNo int64
	for _, fc := range fcfgs {
		fc := fc
		p, err := w.NewProxy(append(fc.flags, "--cookie-refresh=1m", "--pass-access-token=true", "--insecure-oidc-skip-nonce=true")...)
		if err != nil {
			run.T.Fatalf("[flow %s] %v", fc.label, err)
		}
		var p2 *vfProxy
		if fc.store == "redis" {
			if p2, err = w.NewProxy(append(fc.flags, "--cookie-refresh=1m", "--pass-access-token=true", "--insecure-oidc-skip-nonce=true")...); err != nil {
				run.T.Fatalf("[flow %s] second instance: %v", fc.label, err)
			}
		}
		jobs.each(len(flows), func(i int) {
			c10OneFlow(run, w, p, p2, tab, fc.label, fc.store, flows[i], atomic.AddInt64(&flowNo, 1))
		})
	}
}

func c10SessionCookies(j *vfJar, host string) (n int) {
	for _, c := range j.For(host, "/", false) {
		if !strings.HasSuffix(c.Name, "_csrf") {
			n++
		}
	}
	return
}

func c10OneFlow(run *vfRun, w *vfWorld, p, p2 *vfProxy, tab *c10FlowTable, label, store string, pads []int, no int64) {
	sub := fmt.Sprintf("c10flow-%d", no)
	tab.mu.Lock()
	tab.pads[sub] = pads
	tab.mu.Unlock()
	b := vfNewBrowser("proxy.test")
	var trace []string
	fail := func(sig, what string) {
		run.Violation(sig, fmt.Sprintf("[flow %s] pads %v: %s (trace: %s)", label, pads, what, strings.Join(trace, " | ")),
			map[string]interface{}{"flags": p.Flags, "id_token_pad_per_issuance": pads, "trace": trace, "sub": sub,
				"how_to_replay": "login with an ID token carrying a 'pad' claim of pads[0] random characters, set the session's CreatedAt 10 minutes back (load+save), GET /probe (refresh issues an ID token with pads[1]), ..., GET /oauth2/sign_out"})
	}
	checkLines := func(resp *vfResp, what string) {
		for _, l := range resp.SetCookies() {
			run.Count("flow_set_cookie_lines", 1)
			if len(l) > 4096 {
				fail("c10:cookie-exceeds-4096", fmt.Sprintf("%s emitted a cookie of %d bytes", what, len(l)))
			}
		}
	}
	_, cb, err := b.Login(p, vfIdentity{Sub: sub, Email: "ignored@example.com", Groups: []string{"g1"}, PreferredUsername: "pu-" + sub}, "/")
	if err != nil {
		run.Inconclusive("flow login failed: " + vfTrunc(err.Error(), 80))
		return
	}
	checkLines(cb, "the callback")
	prevParts := 0
	// expect: the next request presents generation g
	expect := func(g int, what string) bool {
		tab.mu.Lock()
		gens := append([]c10Gen{}, tab.gens[sub]...)
		tab.mu.Unlock()
		if g >= len(gens) {
			run.Inconclusive("flow: issuance not recorded")
			return false
		}
		if p2 != nil {
			// server-side store: a second instance sharing the store serves the browser's next request — it loaded the
			// previous session a moment ago, and must now load what the first instance saved
			var info2 struct {
				Email string `json:"email"`
			}
			ui2 := b.Get(p2, "/oauth2/userinfo")
			_ = json.Unmarshal(ui2.Body, &info2)
			run.Count("flow_loads_on_second_instance", 1)
			if ui2.Code != 200 || info2.Email != gens[g].Email {
				trace = append(trace, fmt.Sprintf("%s: second instance userinfo %d email=%s", what, ui2.Code, info2.Email))
				fail("c10:flow-stale-session-on-second-instance", fmt.Sprintf("%s: a second instance sharing the Redis store does not load the session of issuance %d (%s) that the first instance saved: userinfo %d, e-mail %q", what, g, gens[g].Email, ui2.Code, info2.Email))
				return false
			}
		}
		ui := b.Get(p, "/oauth2/userinfo")
		var info struct {
			Email string `json:"email"`
			User  string `json:"user"`
		}
		_ = json.Unmarshal(ui.Body, &info)
		id := fmt.Sprintf("%s-%d-%s", sub, g, what)
		pr := b.Get(p, "/probe", "X-Vf-Id", id)
		hits := w.Up.FindHit(id)
		trace = append(trace, fmt.Sprintf("%s: userinfo %d email=%s, probe %d", what, ui.Code, info.Email, pr.Code))
		parts := c10SessionCookies(b.Jar, b.Host)
		run.Eval(fmt.Sprintf("flow|%s|%d->%d|%s", store, prevParts, parts, strings.SplitN(what, "#", 2)[0]))
		prevParts = parts
		switch {
		case ui.Code != 200 || pr.Code != 200 || len(hits) != 1:
			fail("c10:flow-session-lost", fmt.Sprintf("%s: the session of issuance %d does not load on the next request (userinfo %d, protected path %d)", what, g, ui.Code, pr.Code))
			return false
		case info.Email != gens[g].Email || hits[0].Header.Get("X-Forwarded-Email") != gens[g].Email || hits[0].Header.Get("X-Forwarded-Access-Token") != gens[g].AccessToken:
			fail("c10:flow-stale-session", fmt.Sprintf("%s: expected the session of issuance %d (%s), the next request presented e-mail %q / upstream saw %q with access token %q (issued: %q)", what, g, gens[g].Email,
				info.Email, hits[0].Header.Get("X-Forwarded-Email"), hits[0].Header.Get("X-Forwarded-Access-Token"), gens[g].AccessToken))
			return false
		}
		return true
	}
	if !expect(0, "after-login") {
		return
	}
	for g := 1; g < len(pads); g++ {
		// age the session: load it, move CreatedAt back, save it (the store's own operations), so that the next request refreshes
		req := httptest.NewRequest("GET", "/", nil)
		req.Host = b.Host
		req.Header.Set("Cookie", vfCookieHeader(b.Jar.For(b.Host, "/", false)))
		s, err := p.P.LoadCookiedSession(req)
		if err != nil || s == nil {
			fail("c10:flow-session-lost", fmt.Sprintf("before refresh %d the jar's session does not load: %v", g, err))
			return
		}
		s.CreatedAt = c10T(time.Now().Add(-10 * time.Minute))
		rw := httptest.NewRecorder()
		if err := p.P.SaveSession(rw, req, s); err != nil {
			fail("c10:save-fails", fmt.Sprintf("ageing save failed: %v", err))
			return
		}
		b.Jar.Apply(b.Host, "/", rw.Header().Values("Set-Cookie"))
		// this was a save like any other (of a loaded session, by the request that presented it): the next request loads it
		areq := httptest.NewRequest("GET", "/", nil)
		areq.Host = b.Host
		areq.Header.Set("Cookie", vfCookieHeader(b.Jar.For(b.Host, "/", false)))
		aged, aerr := p.P.LoadCookiedSession(areq)
		run.Count("flow_loads_after_resave", 1)
		if aerr != nil || aged == nil {
			fail("c10:flow-session-lost", fmt.Sprintf("before refresh %d: the session does not load after it was loaded, modified and saved again: %v", g, aerr))
			return
		}
		if d := c10Diff(c10Snapshot(s), aged); len(d) > 0 {
			fail("c10:flow-stale-session", fmt.Sprintf("before refresh %d: the session was loaded, its CreatedAt changed, and saved by the request that presented it; the next request loads something else: %s", g, strings.Join(d, "; ")))
			return
		}
		id := fmt.Sprintf("%s-refresh-%d", sub, g)
		rr := b.Get(p, "/probe", "X-Vf-Id", id)
		checkLines(rr, fmt.Sprintf("refresh %d", g))
		tab.mu.Lock()
		issued := len(tab.gens[sub])
		tab.mu.Unlock()
		if issued != g+1 {
			run.Inconclusive(fmt.Sprintf("flow: refresh did not happen (status %d)", rr.Code))
			return
		}
		run.Count("flow_refreshes", 1)
		if !expect(g, fmt.Sprintf("after-refresh#%d", g)) {
			return
		}
	}
	preSignOut := vfCookieHeader(b.Jar.For(b.Host, "/", false))
	so := b.Get(p, "/oauth2/sign_out")
	ui := b.Get(p, "/oauth2/userinfo")
	trace = append(trace, fmt.Sprintf("sign_out %d -> userinfo %d", so.Code, ui.Code))
	run.Eval(fmt.Sprintf("flow|%s|%d->0|sign-out", store, prevParts))
	if so.Code == 302 && ui.Code == 200 {
		fail("c10:session-loads-after-clear", "a session still loads after sign-out")
	}
	if p2 != nil && so.Code == 302 && preSignOut != "" {
		if ui2 := p2.Do(vfGET("/oauth2/userinfo", "Cookie", preSignOut).WithHost(b.Host)); ui2.Code == 200 {
			fail("c10:session-loads-after-clear", "a session still loads on a second instance sharing the store after sign-out")
		}
	}
	run.Count("flows_completed", 1)
	run.SampleEvery(501, func() interface{} { return map[string]interface{}{"flow": label, "pads": pads, "trace": trace} })
}

var _ = sort.Strings
