//go:build verif

package main

// C02: generators for the mutation classes. A credential is a list of (name, value) cookies (1 for an unsplit
// session / ticket / CSRF cookie, n for a split session). Every generator yields lazily-built variants so that the
// tens of thousands of variants of a 14 kB cookie are never held in memory at once.

import (
	"crypto/hmac"
	"crypto/md5"
	"crypto/sha1"
	"crypto/sha256"
	"crypto/sha512"
	"encoding/base64"
	"encoding/hex"
	"fmt"
	"hash"
	"strconv"
	"strings"
)

type c02CK struct {
	Name  string `json:"name"`
	Value string `json:"value"`
}

func c02Header(cks []c02CK) string {
	var b strings.Builder
	for i, c := range cks {
		if i > 0 {
			b.WriteString("; ")
		}
		b.WriteString(c.Name)
		b.WriteByte('=')
		b.WriteString(c.Value)
	}
	return b.String()
}

func c02Copy(cks []c02CK) []c02CK { return append([]c02CK{}, cks...) }

func c02Join(cks []c02CK) string {
	var b strings.Builder
	for _, c := range cks {
		b.WriteString(c.Value)
	}
	return b.String()
}

// c02Like re-splits full over the names and part sizes of the credential `like` (last part takes the rest;
// extra parts get the next split names).
func c02Like(like []c02CK, base, full string) []c02CK {
	if len(like) == 1 {
		return []c02CK{{like[0].Name, full}}
	}
	var out []c02CK
	for i := 0; len(full) > 0; i++ {
		n := len(full)
		if i < len(like)-1 && len(like[i].Value) < n {
			n = len(like[i].Value)
		} else if i >= len(like)-1 && n > 3950 {
			n = 3950
		}
		out = append(out, c02CK{fmt.Sprintf("%s_%d", base, i), full[:n]})
		full = full[n:]
	}
	return out
}

const c02Alphabet = "ABCDEFGHIJKLMNOPQRSTUVWXYZabcdefghijklmnopqrstuvwxyz0123456789-_"

// c02Subst returns the k-th substitute (k = 0: another character of the base64url alphabet, 1: one of `|=.`,
// 2: a character outside both) for the character orig at global offset g.
func c02Subst(orig byte, g int, k int, seed int64) byte {
	x := g*7 + int(seed)*13
	switch k {
	case 0:
		c := c02Alphabet[x%64]
		if c == orig {
			c = c02Alphabet[(x+1)%64]
		}
		return c
	case 1:
		s := "|=."
		c := s[x%3]
		if c == orig {
			c = s[(x+1)%3]
		}
		return c
	default:
		s := "!*~%$#@ ,:"
		return s[x%len(s)]
	}
}

type c02Fields struct {
	Value, TS, Sig string
	OK             bool
}

func c02Split3(full string) c02Fields {
	p := strings.Split(full, "|")
	if len(p) != 3 {
		return c02Fields{}
	}
	return c02Fields{p[0], p[1], p[2], true}
}

func (f c02Fields) String() string { return f.Value + "|" + f.TS + "|" + f.Sig }

// c02Bucket names the region of the signed value that global offset g falls into.
func c02Bucket(full string, g int) string {
	s1, s2 := strings.IndexByte(full, '|'), strings.LastIndexByte(full, '|')
	switch {
	case g >= len(full):
		return "end"
	case full[g] == '=':
		return "padding"
	case g == s1 || g == s2:
		return "separator"
	case g < s1:
		return "value"
	case g < s2:
		return "timestamp"
	default:
		return "signature"
	}
}

// c02MAC is the harness's own implementation of the documented signature: HMAC over name, value and timestamp,
// base64url with padding. Used only to make forgeries (other key, truncated MAC, other hash).
func c02MAC(h func() hash.Hash, key, name, value, ts string) []byte {
	m := hmac.New(h, []byte(key))
	m.Write([]byte(name))
	m.Write([]byte(value))
	m.Write([]byte(ts))
	return m.Sum(nil)
}

func c02Sig(key, name, value, ts string) string {
	return base64.URLEncoding.EncodeToString(c02MAC(sha256.New, key, name, value, ts))
}

type c02Variant struct {
	Must   bool   // must be rejected whatever it was derived from (the proxy cannot have produced it)
	Class  string // mutation class
	Bucket string // position bucket / sub-class
	Note   string
	Build  func() []c02CK
}

// c02Mut applies one edit to the joined value and re-splits it like the original (names of `base`).
func c02Mut(class, bucket, note string, cr *c02Cred, full func() string) c02Variant {
	return c02Variant{Class: class, Bucket: bucket, Note: note, Build: func() []c02CK { return c02Like(cr.Parts, cr.Owner.Name, full()) }}
}

// c02PositionVariants: every position x 3 substitutes and every truncation length of every part (+ truncation of the
// joined value). thin > 1 (quick tier, large cookies only): exhaustive within 48 characters of every structural
// boundary (start / end of every part, separators) and over the whole timestamp and signature; in the interior of
// the encrypted value every thin-th position (phase by seed) with one substitute (class rotating by position).
func c02PositionVariants(cr *c02Cred, thin int, seed int64, joinedTrunc bool) []c02Variant {
	var out []c02Variant
	g0 := 0
	s1 := strings.IndexByte(cr.Full, '|')
	for j := range cr.Parts {
		j := j
		val := cr.Parts[j].Value
		for p := 0; p < len(val); p++ {
			p, g := p, g0+p
			bucket := c02Bucket(cr.Full, g)
			ks := []int{0, 1, 2}
			if thin > 1 {
				hot := p < 48 || p >= len(val)-48 || g >= s1-48
				if !hot {
					if (g+int(seed))%thin != 0 {
						continue
					}
					ks = []int{(g/thin + int(seed)) % 3}
				}
			}
			for _, k := range ks {
				k := k
				out = append(out, c02Variant{Class: "subst-" + [...]string{"alphabet", "separator", "foreign"}[k], Bucket: bucket, Note: fmt.Sprintf("part %d offset %d", j, p),
					Build: func() []c02CK {
						c := c02Copy(cr.Parts)
						b := []byte(val)
						b[p] = c02Subst(b[p], g, k, seed)
						c[j].Value = string(b)
						return c
					}})
			}
			// truncation of this part to p characters, the other parts untouched
			out = append(out, c02Variant{Class: "truncate-part", Bucket: bucket, Note: fmt.Sprintf("part %d to %d chars", j, p),
				Build: func() []c02CK {
					c := c02Copy(cr.Parts)
					c[j].Value = val[:p]
					return c
				}})
			if joinedTrunc && len(cr.Parts) > 1 {
				out = append(out, c02Variant{Class: "truncate-joined", Bucket: bucket, Note: fmt.Sprintf("joined value to %d chars", g),
					Build: func() []c02CK {
						c := c02Copy(cr.Parts[:j+1])
						c[j].Value = val[:p]
						return c
					}})
			}
		}
		g0 += len(val)
	}
	return out
}

// c02EditVariants: appended / prepended characters, boundary shifts, timestamp edits, field-count edits.
func c02EditVariants(cr *c02Cred, lifetimeS int64, nowS int64) []c02Variant {
	var out []c02Variant
	for j := range cr.Parts {
		j := j
		for _, ext := range []string{"A", "AA", "AAA", "AAAA", "=", "==", "|", "|x", ".", "!", "0", "00", "000", "0000", "%3D", " "} {
			ext := ext
			out = append(out, c02Variant{Class: "append", Bucket: fmt.Sprintf("part%d-of-%d", j, len(cr.Parts)), Note: fmt.Sprintf("part %d + %q", j, ext), Build: func() []c02CK {
				c := c02Copy(cr.Parts)
				c[j].Value += ext
				return c
			}})
			if len(ext) <= 2 {
				out = append(out, c02Variant{Class: "prepend", Bucket: fmt.Sprintf("part%d-of-%d", j, len(cr.Parts)), Note: fmt.Sprintf("%q + part %d", ext, j), Build: func() []c02CK {
					c := c02Copy(cr.Parts)
					c[j].Value = ext + c[j].Value
					return c
				}})
			}
		}
	}
	out = append(out, c02Variant{Class: "quote", Bucket: "whole", Note: "value wrapped in double quotes", Build: func() []c02CK {
		c := c02Copy(cr.Parts)
		for i := range c {
			c[i].Value = `"` + c[i].Value + `"`
		}
		return c
	}})
	f := c02Split3(cr.Full)
	if !f.OK {
		return out
	}
	// boundary shifts: the MAC input is name ++ value ++ timestamp without delimiters, so moving characters across
	// the first separator leaves the MAC input unchanged; across the second it does not.
	for k := 1; k <= 4; k++ {
		k := k
		if len(f.Value) > k {
			out = append(out, c02Mut("boundary-shift", "value>timestamp", fmt.Sprintf("%d chars", k), cr, func() string {
				return c02Fields{f.Value[:len(f.Value)-k], f.Value[len(f.Value)-k:] + f.TS, f.Sig, true}.String()
			}))
		}
		if len(f.TS) > k {
			out = append(out, c02Mut("boundary-shift", "timestamp>value", fmt.Sprintf("%d chars", k), cr, func() string {
				return c02Fields{f.Value + f.TS[:k], f.TS[k:], f.Sig, true}.String()
			}))
			out = append(out, c02Mut("boundary-shift", "timestamp>signature", fmt.Sprintf("%d chars", k), cr, func() string {
				return c02Fields{f.Value, f.TS[:len(f.TS)-k], f.TS[len(f.TS)-k:] + f.Sig, true}.String()
			}))
		}
		if len(f.Sig) > k {
			out = append(out, c02Mut("boundary-shift", "signature>timestamp", fmt.Sprintf("%d chars", k), cr, func() string {
				return c02Fields{f.Value, f.TS + f.Sig[:k], f.Sig[k:], true}.String()
			}))
		}
	}
	// whole-group shifts of the value keep it decodable (4 characters = 3 bytes), also without its padding
	v := strings.TrimRight(f.Value, "=")
	for _, k := range []int{4, 8, 16, 24} {
		k := k
		if len(v) > k+4 {
			out = append(out, c02Mut("boundary-shift", "value>timestamp", fmt.Sprintf("%d unpadded chars", k), cr, func() string {
				return c02Fields{v[:len(v)-k], v[len(v)-k:] + f.TS, f.Sig, true}.String()
			}))
		}
	}
	ts, err := strconv.ParseInt(f.TS, 10, 64)
	if err == nil {
		edits := map[string]string{
			"+1": strconv.FormatInt(ts+1, 10), "-1": strconv.FormatInt(ts-1, 10),
			"+lifetime": strconv.FormatInt(ts+lifetimeS, 10), "-lifetime": strconv.FormatInt(ts-lifetimeS, 10), "+2lifetime": strconv.FormatInt(ts+2*lifetimeS, 10),
			"now": strconv.FormatInt(nowS, 10), "now-1": strconv.FormatInt(nowS-1, 10), "now+60": strconv.FormatInt(nowS+60, 10), "now-lifetime+60": strconv.FormatInt(nowS-lifetimeS+60, 10),
			"far-future-10": "9999999999", "far-future-14": "99999999999999", "maxint64": "9223372036854775807", "overflow": "92233720368547758070",
			"zero": "0", "negative": "-" + f.TS, "empty": "", "alpha": "abcdefghij", "exp-notation": "1e10", "plus-sign": "+" + f.TS, "leading-zero": "0" + f.TS,
			"hex": "0x" + strconv.FormatInt(ts, 16), "trailing-space": f.TS + " ", "float": f.TS + ".0", "underscore": f.TS[:3] + "_" + f.TS[3:],
		}
		for name, e := range edits {
			e := e
			out = append(out, c02Mut("timestamp", name, "timestamp := "+e, cr, func() string { return c02Fields{f.Value, e, f.Sig, true}.String() }))
		}
	}
	// the last character of a base64 block carries unused bits: every alphabet character in the last position before
	// the padding of the signature (some decode to the very same MAC — "exactly the session that was issued") and of the value
	lastOf := func(x string) int { return len(strings.TrimRight(x, "=")) - 1 }
	for ci := 0; ci < len(c02Alphabet); ci++ {
		ch := c02Alphabet[ci]
		if k := lastOf(f.Sig); k >= 0 && f.Sig[k] != ch {
			out = append(out, c02Mut("base64-last-char", "signature", fmt.Sprintf("last signature character %q -> %q", f.Sig[k], ch), cr, func() string {
				return c02Fields{f.Value, f.TS, f.Sig[:k] + string(ch) + f.Sig[k+1:], true}.String()
			}))
		}
		if k := lastOf(f.Value); k >= 0 && f.Value[k] != ch {
			out = append(out, c02Mut("base64-last-char", "value", fmt.Sprintf("last value character %q -> %q", f.Value[k], ch), cr, func() string {
				return c02Fields{f.Value[:k] + string(ch) + f.Value[k+1:], f.TS, f.Sig, true}.String()
			}))
		}
	}
	for name, s := range map[string]string{"signature-unpadded": strings.TrimRight(f.Sig, "="), "value-unpadded": strings.TrimRight(f.Value, "="), "signature-std-alphabet": strings.NewReplacer("-", "+", "_", "/").Replace(f.Sig)} {
		name, s := name, s
		out = append(out, c02Mut("base64-respelled", name, "", cr, func() string {
			switch name {
			case "value-unpadded":
				return c02Fields{s, f.TS, f.Sig, true}.String()
			}
			return c02Fields{f.Value, f.TS, s, true}.String()
		}))
	}
	// number of fields
	for name, s := range map[string]string{
		"no-signature-field": f.Value + "|" + f.TS, "value-only": f.Value, "extra-field": cr.Full + "|" + f.Sig, "extra-empty-field": cr.Full + "|",
		"leading-empty-field": "|" + cr.Full, "fields-reversed": f.Sig + "|" + f.TS + "|" + f.Value, "ts-sig-swapped": f.Value + "|" + f.Sig + "|" + f.TS,
		"double-separator": f.Value + "||" + f.TS + "|" + f.Sig, "empty-value": "|" + f.TS + "|" + f.Sig, "empty": "",
	} {
		s := s
		out = append(out, c02Mut("fields", name, "", cr, func() string { return s }))
	}
	return out
}

// c02SpliceVariants: all 2^3-2 recombinations of the fields of two credentials (both directions are covered by the masks).
func c02SpliceVariants(a, b *c02Cred, rel string) []c02Variant {
	fa, fb := c02Split3(a.Full), c02Split3(b.Full)
	if !fa.OK || !fb.OK {
		return nil
	}
	var out []c02Variant
	for mask := 1; mask < 7; mask++ {
		mask := mask
		pick := func(bit int, x, y string) string {
			if mask&bit != 0 {
				return y
			}
			return x
		}
		s := c02Fields{pick(1, fa.Value, fb.Value), pick(2, fa.TS, fb.TS), pick(4, fa.Sig, fb.Sig), true}.String()
		name := fmt.Sprintf("v%s-t%s-s%s", pick(1, "A", "B"), pick(2, "A", "B"), pick(4, "A", "B"))
		out = append(out, c02Mut("splice-"+rel, name, a.Label+" x "+b.Label, a, func() string { return s }))
	}
	// halves of the encrypted value recombined (aligned to base64 groups), with either tail
	for _, frac := range []int{1, 2, 3} {
		ka, kb := len(fa.Value)*frac/4/4*4, len(fb.Value)*frac/4/4*4
		s1 := fa.Value[:ka] + fb.Value[kb:] + "|" + fa.TS + "|" + fa.Sig
		s2 := fa.Value[:ka] + fb.Value[kb:] + "|" + fb.TS + "|" + fb.Sig
		out = append(out, c02Mut("splice-"+rel, "value-halves", fmt.Sprintf("%s[:%d]+%s[%d:] tail A", a.Label, ka, b.Label, kb), a, func() string { return s1 }))
		out = append(out, c02Mut("splice-"+rel, "value-halves", fmt.Sprintf("%s[:%d]+%s[%d:] tail B", a.Label, ka, b.Label, kb), a, func() string { return s2 }))
	}
	return out
}

func c02Perms(n int) [][]int {
	if n == 1 {
		return [][]int{{0}}
	}
	var out [][]int
	for _, p := range c02Perms(n - 1) {
		for i := 0; i <= len(p); i++ {
			q := append(append(append([]int{}, p[:i]...), n-1), p[i:]...)
			out = append(out, q)
		}
	}
	return out
}

// c02PartVariants: split cookies only — permutations (contents over names, and order in the Cookie header), every
// drop (all proper subsets), every duplication, parts of another session (all mixtures).
func c02PartVariants(cr *c02Cred, others []*c02Cred) []c02Variant {
	n := len(cr.Parts)
	var out []c02Variant
	if n < 2 {
		return out
	}
	kind := fmt.Sprintf("%dparts", n)
	for _, perm := range c02Perms(n) {
		perm := perm
		ident := true
		for i, x := range perm {
			ident = ident && i == x
		}
		if ident {
			continue
		}
		out = append(out, c02Variant{Class: "parts-permute-contents", Bucket: kind, Note: fmt.Sprint(perm), Build: func() []c02CK {
			c := c02Copy(cr.Parts)
			for i := range c {
				c[i].Value = cr.Parts[perm[i]].Value
			}
			return c
		}})
		out = append(out, c02Variant{Class: "parts-permute-header-order", Bucket: kind, Note: fmt.Sprint(perm), Build: func() []c02CK {
			c := make([]c02CK, n)
			for i := range c {
				c[i] = cr.Parts[perm[i]]
			}
			return c
		}})
	}
	for mask := 1; mask < (1<<n)-1; mask++ { // proper non-empty subsets kept
		mask := mask
		out = append(out, c02Variant{Class: "parts-drop", Bucket: kind, Note: fmt.Sprintf("keep mask %b", mask), Build: func() []c02CK {
			var c []c02CK
			for i := range cr.Parts {
				if mask&(1<<i) != 0 {
					c = append(c, cr.Parts[i])
				}
			}
			return c
		}})
		out = append(out, c02Variant{Class: "parts-drop-renumbered", Bucket: kind, Note: fmt.Sprintf("keep mask %b, names closed up", mask), Build: func() []c02CK {
			var c []c02CK
			for i := range cr.Parts {
				if mask&(1<<i) != 0 {
					c = append(c, c02CK{fmt.Sprintf("%s_%d", cr.Owner.Name, len(c)), cr.Parts[i].Value})
				}
			}
			return c
		}})
		out = append(out, c02Variant{Class: "parts-empty", Bucket: kind, Note: fmt.Sprintf("keep mask %b, others empty", mask), Build: func() []c02CK {
			c := c02Copy(cr.Parts)
			for i := range c {
				if mask&(1<<i) == 0 {
					c[i].Value = ""
				}
			}
			return c
		}})
	}
	for i := 0; i < n; i++ {
		i := i
		out = append(out, c02Variant{Class: "parts-duplicate", Bucket: kind, Note: fmt.Sprintf("part %d repeated under its own name, first", i), Build: func() []c02CK {
			return append([]c02CK{cr.Parts[i]}, cr.Parts...)
		}})
		out = append(out, c02Variant{Class: "parts-duplicate", Bucket: kind, Note: fmt.Sprintf("part %d repeated as extra trailing part", i), Build: func() []c02CK {
			return append(c02Copy(cr.Parts), c02CK{fmt.Sprintf("%s_%d", cr.Owner.Name, n), cr.Parts[i].Value})
		}})
		for j := 0; j < n; j++ {
			j := j
			if i != j {
				out = append(out, c02Variant{Class: "parts-duplicate", Bucket: kind, Note: fmt.Sprintf("part %d also in place of part %d", i, j), Build: func() []c02CK {
					c := c02Copy(cr.Parts)
					c[j].Value = cr.Parts[i].Value
					return c
				}})
				out = append(out, c02Variant{Class: "parts-duplicate", Bucket: kind, Note: fmt.Sprintf("part %d inserted before part %d (names renumbered)", i, j), Build: func() []c02CK {
					var vals []string
					for x := range cr.Parts {
						if x == j {
							vals = append(vals, cr.Parts[i].Value)
						}
						vals = append(vals, cr.Parts[x].Value)
					}
					var c []c02CK
					for x, v := range vals {
						c = append(c, c02CK{fmt.Sprintf("%s_%d", cr.Owner.Name, x), v})
					}
					return c
				}})
			}
		}
	}
	// the whole value additionally under the unsplit name / the unsplit cookie made of part 0 only
	out = append(out, c02Variant{Class: "parts-joined-under-base-name", Bucket: kind, Build: func() []c02CK { return []c02CK{{cr.Owner.Name, cr.Full}} }})
	out = append(out, c02Variant{Class: "parts-joined-under-base-name", Bucket: kind, Note: "part 0 under base name + parts", Build: func() []c02CK {
		return append([]c02CK{{cr.Owner.Name, cr.Parts[0].Value}}, cr.Parts...)
	}})
	for _, o := range others {
		o := o
		m := n
		if len(o.Parts) > m {
			m = len(o.Parts)
		}
		if m > 5 {
			continue
		}
		for mask := 1; mask < (1<<m)-1; mask++ {
			mask := mask
			out = append(out, c02Variant{Class: "parts-foreign", Bucket: kind, Note: fmt.Sprintf("%s with parts mask %b from %s", cr.Label, mask, o.Label), Build: func() []c02CK {
				var c []c02CK
				for i := 0; i < m; i++ {
					src := cr
					if mask&(1<<i) != 0 {
						src = o
					}
					if i < len(src.Parts) {
						c = append(c, c02CK{fmt.Sprintf("%s_%d", cr.Owner.Name, i), src.Parts[i].Value})
					}
				}
				return c
			}})
		}
		// both complete sets in one request, either order; and the other session unsplit-named in front
		out = append(out, c02Variant{Class: "parts-foreign", Bucket: kind, Note: "both complete sets, " + cr.Label + " first", Build: func() []c02CK { return append(c02Copy(cr.Parts), o.Parts...) }})
		out = append(out, c02Variant{Class: "parts-foreign", Bucket: kind, Note: "both complete sets, " + o.Label + " first", Build: func() []c02CK { return append(c02Copy(o.Parts), cr.Parts...) }})
	}
	return out
}

// c02ResignVariants: the same value and timestamp signed by somebody who does not hold the instance's secret.
func c02ResignVariants(cr *c02Cred, name string, otherKeys map[string]string) []c02Variant {
	f := c02Split3(cr.Full)
	if !f.OK {
		return nil
	}
	var out []c02Variant
	for kn, key := range otherKeys {
		kn, key := kn, key
		out = append(out, c02Mut("resign-other-key", kn, "HMAC-SHA256 keyed with "+kn, cr, func() string {
			return c02Fields{f.Value, f.TS, c02Sig(key, name, f.Value, f.TS), true}.String()
		}))
	}
	return out
}

// c02ForgedSigs: signatures for (name, value, ts) that are NOT the full correct MAC under key: nothing, garbage,
// every strict prefix of the correct MAC (a truncating / prefix-comparing verifier accepts those), every single-byte
// MAC, other hashes, other keys. The complete correct MAC is never included.
func c02ForgedSigs(key, name, value, ts, origSig string, otherKeys map[string]string) map[string]string {
	out := map[string]string{"empty": "", "pad-only": "=", "zeros": base64.URLEncoding.EncodeToString(make([]byte, 32)), "original-signature": origSig,
		"not-base64": strings.Repeat("!", 44), "sha1-same-key": base64.URLEncoding.EncodeToString(c02MAC(sha1.New, key, name, value, ts)),
		"plain-sha256-no-key": base64.URLEncoding.EncodeToString(c02MAC(sha256.New, "", name, value, ts))}
	mac := c02MAC(sha256.New, key, name, value, ts)
	for j := 1; j < len(mac); j++ {
		out[fmt.Sprintf("mac-prefix-%02d-bytes", j)] = base64.URLEncoding.EncodeToString(mac[:j])
	}
	full := base64.URLEncoding.EncodeToString(mac)
	for _, j := range []int{1, 2, 3, 4, 8, 20, 40, 42} {
		out[fmt.Sprintf("sig-prefix-%02d-chars", j)] = full[:j]
	}
	flipped := append([]byte{}, mac...)
	flipped[31] ^= 1
	out["mac-last-bit"] = base64.URLEncoding.EncodeToString(flipped)
	flipped = append([]byte{}, mac...)
	flipped[0] ^= 0x80
	out["mac-first-bit"] = base64.URLEncoding.EncodeToString(flipped)
	for _, b := range []byte{0x00, 0xff, mac[0] ^ 1, mac[1]} { // (the one single-byte MAC a length-truncating verifier accepts is mac-prefix-01-bytes)
		out[fmt.Sprintf("one-byte-%02x", b)] = base64.URLEncoding.EncodeToString([]byte{b})
	}
	for kn, k := range otherKeys {
		out["other-key:"+kn] = c02Sig(k, name, value, ts)
	}
	// the MAC computed over fewer inputs (a verifier that does not cover all three fields)
	out["mac-without-name"] = c02Sig(key, "", value, ts)
	out["mac-without-timestamp"] = c02Sig(key, name, value, "")
	out["mac-without-value"] = c02Sig(key, name, "", ts)
	return out
}

// c02PublicSigs: signatures that somebody who does NOT know the cookie secret can compute — every plausible keyless
// or public-key construction over the public parts of the cookie (name, value, timestamp): HMAC-{SHA1,SHA256,SHA512,MD5}
// keyed with the cookie name, the empty key, the value, the timestamp, host names and well-known strings, and the
// plain (unkeyed) hashes, over ALL orderings of the three public parts and of (value, timestamp); thorough adds the
// remaining pairs and the single parts. Encodings: base64url padded (what the proxy emits) for all; unpadded, std
// alphabet and hex for the constructions keyed with the name / empty key / unkeyed (thorough: for all).
// The proxy cannot have produced any of them (genuine is excluded by the caller): all must be rejected.
func c02PublicSigs(name, value, ts string, thorough bool) map[string]string {
	hashes := []struct {
		n string
		f func() hash.Hash
	}{{"sha1", sha1.New}, {"sha256", sha256.New}, {"sha512", sha512.New}, {"md5", md5.New}}
	keys := []struct{ n, k string }{{"name", name}, {"empty", ""}, {"value", value}, {"timestamp", ts}, {"host-localhost", "localhost"}, {"host-127.0.0.1", "127.0.0.1"},
		{"secret", "secret"}, {"oauth2-proxy", "oauth2-proxy"}, {"unkeyed", ""}}
	parts := map[byte]string{'n': name, 'v': value, 't': ts}
	orders := []string{"nvt", "ntv", "vnt", "vtn", "tnv", "tvn", "vt", "tv"}
	if thorough {
		orders = append(orders, "nv", "vn", "nt", "tn", "n", "v", "t")
	}
	out := map[string]string{}
	for _, h := range hashes {
		for _, k := range keys {
			for _, o := range orders {
				var m hash.Hash
				if k.n == "unkeyed" {
					m = h.f()
				} else {
					if strings.IndexByte(o, 'n') >= 0 && k.n == "name" && len(o) == 3 && !thorough && o != "nvt" {
						// name as key AND in the message: keep one ordering in quick
						continue
					}
					m = hmac.New(h.f, []byte(k.k))
				}
				for i := 0; i < len(o); i++ {
					m.Write([]byte(parts[o[i]]))
				}
				sum := m.Sum(nil)
				label := fmt.Sprintf("public:%s/key=%s/msg=%s", h.n, k.n, o)
				out[label+"/b64url"] = base64.URLEncoding.EncodeToString(sum)
				if thorough || k.n == "name" || k.n == "empty" || k.n == "unkeyed" {
					out[label+"/b64url-nopad"] = base64.RawURLEncoding.EncodeToString(sum)
					out[label+"/b64std"] = base64.StdEncoding.EncodeToString(sum)
					out[label+"/hex"] = hex.EncodeToString(sum)
				}
			}
		}
	}
	return out
}
