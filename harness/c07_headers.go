//go:build verif

package main

// C07 — Upstreams see identity headers only as derived from the authenticated session.
//
// Oracle (reference rendering, written from the property statement and docs/docs/configuration/{overview,alpha_config}.md):
//   for each configured header name, expected values =
//       [client's own values first, only when preserveRequestValue]
//     + for each value source in order: secret -> the secret; claim -> each NON-EMPTY claim value of the session,
//       with its prefix, or as "Basic base64(value:password)"
//   and what the upstream receives under that name (case-insensitively, all occurrences) must be exactly that list,
//   comma-joined in ONE header line; the header must be ABSENT when the list is empty (no session on a bypassed request,
//   empty claim). Same comparison for the response headers of /oauth2/auth (202); on a refusal (401/403) no claim-derived
//   response header may appear. Client request headers never show up in the response headers.
// The sessions are known by construction (identity given to the fake IdP / claims of the minted bearer token /
// htpasswd user), the tokens by recording what the fake IdP issued; nothing is read back from the proxy.
//
// Spoofed headers always travel over the wire driver (raw socket) so that letter case and multiplicity are real.

import (
	"crypto/sha1"
	"encoding/base64"
	"encoding/json"
	"fmt"
	"math/rand"
	"net/http"
	"os"
	"regexp"
	"sort"
	"strings"
	"sync"
	"sync/atomic"
	"testing"
	"time"
)

// ---------------------------------------------------------------------------------------------------------
// configuration model (what the operator wrote)

type c07Val struct {
	Kind   string `json:"kind"`             // secret | claim
	Secret string `json:"secret,omitempty"` // secret text
	Src    string `json:"src,omitempty"`    // value | fromFile | fromEnv: how the secret / the password is supplied
	Claim  string `json:"claim,omitempty"`
	Prefix string `json:"prefix,omitempty"`
	Basic  bool   `json:"basic,omitempty"` // basicAuthPassword given
	Pw     string `json:"pw,omitempty"`
}

type c07Hdr struct {
	Name     string   `json:"name"`
	Preserve bool     `json:"preserve,omitempty"`
	Vals     []c07Val `json:"values"`
	// Optional: the documentation leaves open whether the value is injected at all (X-Forwarded-Email under
	// --prefer-email-to-user); the client's value must be gone either way.
	Optional bool `json:"optional,omitempty"`
}

type c07Cfg struct {
	Label       string   `json:"label"`
	Kind        string   `json:"kind"` // legacy | alpha
	Flags       []string `json:"flags"`
	YAML        string   `json:"alpha_yaml,omitempty"`
	Req         []c07Hdr `json:"reference_request_headers"`
	Resp        []c07Hdr `json:"reference_response_headers"`
	PreferEmail bool     `json:"prefer_email,omitempty"`
	Bucket      string   `json:"bucket"`
	Htpasswd    bool     `json:"htpasswd,omitempty"`
	HtGroups    []string `json:"htpasswd_groups,omitempty"`
	ExpectRejected bool  `json:"expect_rejected,omitempty"`
	NotJudged   []string `json:"not_judged,omitempty"`
}

// ---------------------------------------------------------------------------------------------------------
// reference session

type c07Sess struct {
	Label   string   `json:"label"`
	Source  string   `json:"source"` // cookie | bearer | basic | form | none | invalid
	User    string   `json:"user"`
	Email   string   `json:"email"`
	PU      string   `json:"preferred_username"`
	Groups  []string `json:"groups"`
	AT      string   `json:"access_token,omitempty"`
	IDT     string   `json:"id_token,omitempty"`
	RT      string   `json:"refresh_token,omitempty"`
	Created string   `json:"created_at"` // one | none | any
	Expires string   `json:"expires_on"`
	Cookie  string   `json:"cookie,omitempty"` // credential: Cookie header
	Authz   string   `json:"authz,omitempty"`  // credential: Authorization header
	// EmailAlt: sessions built from a credential that carries no e-mail (htpasswd Basic under --prefer-email-to-user,
	// bearer token without e-mail claim) get the user name as stand-in e-mail on the unchanged tree; the docs are
	// silent, so both readings ("" and the stand-in) are accepted.
	EmailAlt string   `json:"email_alt,omitempty"`
	Class   string   `json:"class"`            // which fields are empty / multi (for the cell)
	HasSession bool  `json:"has_session"`
}

// c07ClaimVals: the documented claims. wild != "" for the two time claims (their text is not predicted).
func c07ClaimVals(s *c07Sess, claim string) (vals []string, wild string) {
	if s == nil || !s.HasSession {
		return nil, ""
	}
	switch claim {
	case "user":
		return []string{s.User}, ""
	case "email":
		return []string{s.Email}, ""
	case "email-or-user": // --prefer-email-to-user: "Will only use Username if Email is unavailable, e.g. htaccess authentication"
		if s.Email != "" {
			return []string{s.Email}, ""
		}
		// session without e-mail: the property only demands "no value when the claim is empty"; the documented fall-back
		// to the user name is accepted as well (wild "opt-user": either nothing or exactly the user name)
		return []string{s.User}, "opt-user"
	case "groups":
		return s.Groups, ""
	case "preferred_username":
		return []string{s.PU}, ""
	case "access_token":
		return []string{s.AT}, ""
	case "id_token":
		return []string{s.IDT}, ""
	case "refresh_token":
		return []string{s.RT}, ""
	case "created_at":
		return nil, s.Created
	case "expires_on":
		return nil, s.Expires
	}
	return nil, ""
}

type c07Part struct {
	Lit  string `json:"lit,omitempty"`
	Wild bool   `json:"wild,omitempty"` // one non-empty value whose text is not predicted (time claims)
	V    c07Val `json:"-"`
}

func c07RenderVal(v c07Val, x string) string {
	if v.Basic {
		return "Basic " + base64.StdEncoding.EncodeToString([]byte(x+":"+v.Pw))
	}
	return v.Prefix + x
}

// c07Expect is the reference rendering. It returns the acceptable alternatives (more than one only for the time
// claims of sessions for which the docs do not say whether a timestamp exists, and for Optional headers).
func c07Expect(h c07Hdr, s *c07Sess, client []string) [][]c07Part {
	var pre []c07Part
	if h.Preserve {
		for _, v := range client {
			pre = append(pre, c07Part{Lit: v})
		}
	}
	alts := [][]c07Part{append([]c07Part{}, pre...)}
	add := func(p c07Part, optional bool) {
		var out [][]c07Part
		for _, a := range alts {
			if optional {
				out = append(out, append([]c07Part{}, a...))
			}
			out = append(out, append(append([]c07Part{}, a...), p))
		}
		alts = out
	}
	for _, v := range h.Vals {
		if v.Kind == "secret" {
			add(c07Part{Lit: v.Secret}, false)
			continue
		}
		vals, wild := c07ClaimVals(s, v.Claim)
		switch wild {
		case "one":
			add(c07Part{Wild: true, V: v}, false)
		case "any":
			add(c07Part{Wild: true, V: v}, true)
		}
		for _, x := range vals {
			if x != "" {
				add(c07Part{Lit: c07RenderVal(v, x)}, wild == "opt-user")
			}
		}
	}
	if h.Optional {
		alts = append(alts, pre)
	}
	return alts
}

var c07B64 = regexp.MustCompile(`^[A-Za-z0-9+/]+=*$`)

// c07MatchParts: does the comma-joined text equal the parts (wild parts match one non-empty comma-free value)?
func c07MatchParts(parts []c07Part, joined string) bool {
	var re strings.Builder
	re.WriteString("^")
	var wilds []c07Val
	for k, p := range parts {
		if k > 0 {
			re.WriteString(",")
		}
		if !p.Wild {
			re.WriteString(regexp.QuoteMeta(p.Lit))
			continue
		}
		wilds = append(wilds, p.V)
		if p.V.Basic {
			re.WriteString("Basic ([A-Za-z0-9+/=]+)")
		} else {
			re.WriteString(regexp.QuoteMeta(p.V.Prefix) + "([^,]+)")
		}
	}
	re.WriteString("$")
	m := regexp.MustCompile(re.String()).FindStringSubmatch(joined)
	if m == nil {
		return false
	}
	for k, v := range wilds {
		got := m[k+1]
		if v.Basic {
			if !c07B64.MatchString(got) {
				return false
			}
			b, err := base64.StdEncoding.DecodeString(got)
			if err != nil || !strings.HasSuffix(string(b), ":"+v.Pw) || len(b) <= len(v.Pw)+1 {
				return false
			}
		} else if strings.TrimSpace(got) == "" {
			return false
		}
	}
	return true
}

// c07Judge compares the header lines observed under one name with the alternatives. "" = fine.
func c07Judge(alts [][]c07Part, lines []string) string {
	joined := strings.Join(lines, ",")
	matched := false
	for _, a := range alts {
		if len(a) == 0 {
			if len(lines) == 0 {
				return ""
			}
			continue
		}
		if len(lines) > 0 && c07MatchParts(a, joined) {
			matched = true
		}
	}
	if matched {
		if len(lines) > 1 {
			return "not-flattened"
		}
		return ""
	}
	return "differ"
}

// c07ExpectS: c07Expect over the acceptable readings of the session (see c07Sess.EmailAlt).
func c07ExpectS(h c07Hdr, s *c07Sess, client []string) [][]c07Part {
	alts := c07Expect(h, s, client)
	if s != nil && s.EmailAlt != "" && s.Email == "" {
		v := *s
		v.Email = s.EmailAlt
		alts = append(alts, c07Expect(h, &v, client)...)
	}
	return alts
}

func c07Describe(alts [][]c07Part) []string {
	var out []string
	for _, a := range alts {
		if len(a) == 0 {
			out = append(out, "(absent)")
			continue
		}
		var ps []string
		for _, p := range a {
			if p.Wild {
				ps = append(ps, "<"+p.V.Claim+" text>")
			} else {
				ps = append(ps, p.Lit)
			}
		}
		out = append(out, strings.Join(ps, ","))
	}
	return out
}

// ---------------------------------------------------------------------------------------------------------
// legacy options: the reference conversion, from the option table in docs/docs/configuration/overview.md

type c07Legacy struct {
	PassUser, PassBasic, PassAT, PassAuthz, SetX, SetBasic, SetAuthz, PreferEmail, Strip bool
	Pw                                                                                    string
}

func c07LegacyFromBits(bits int, pw string) c07Legacy {
	b := func(k uint) bool { return bits&(1<<k) != 0 }
	return c07Legacy{PassUser: b(0), PassBasic: b(1), PassAT: b(2), PassAuthz: b(3), SetX: b(4), SetBasic: b(5), SetAuthz: b(6), PreferEmail: b(7), Strip: b(8), Pw: pw}
}

func (l c07Legacy) flags() []string {
	f := []string{
		fmt.Sprintf("--pass-user-headers=%v", l.PassUser), fmt.Sprintf("--pass-basic-auth=%v", l.PassBasic),
		fmt.Sprintf("--pass-access-token=%v", l.PassAT), fmt.Sprintf("--pass-authorization-header=%v", l.PassAuthz),
		fmt.Sprintf("--set-xauthrequest=%v", l.SetX), fmt.Sprintf("--set-basic-auth=%v", l.SetBasic),
		fmt.Sprintf("--set-authorization-header=%v", l.SetAuthz), fmt.Sprintf("--prefer-email-to-user=%v", l.PreferEmail),
		fmt.Sprintf("--skip-auth-strip-headers=%v", l.Strip),
	}
	if l.Pw != "" {
		f = append(f, "--basic-auth-password="+l.Pw)
	}
	return f
}

func c07LegacyRef(l c07Legacy) (cfg c07Cfg) {
	claim := func(name, c string) c07Hdr { return c07Hdr{Name: name, Vals: []c07Val{{Kind: "claim", Claim: c}}} }
	userClaim := "user"
	if l.PreferEmail {
		userClaim = "email-or-user" // "Prefer to use the Email address as the Username ... Will only use Username if Email is unavailable"
	}
	nAuthzReq, nAuthzResp := 0, 0
	// --pass-basic-auth: "pass HTTP Basic Auth, X-Forwarded-User, X-Forwarded-Email and X-Forwarded-Preferred-Username";
	// --basic-auth-password: "the password to set when passing the HTTP Basic Auth header"
	if l.PassBasic {
		if l.Pw != "" {
			cfg.Req = append(cfg.Req, c07Hdr{Name: "Authorization", Vals: []c07Val{{Kind: "claim", Claim: userClaim, Basic: true, Pw: l.Pw}}})
			nAuthzReq++
		} else if !l.PassAuthz {
			// without a password no Basic header is produced on the unchanged tree, and the docs do not say that an
			// empty password is sent; Authorization is then not treated as a configured name
			cfg.NotJudged = append(cfg.NotJudged, "Authorization(request): pass-basic-auth without basic-auth-password")
		}
	}
	// --pass-user-headers: "pass X-Forwarded-User, X-Forwarded-Groups, X-Forwarded-Email and X-Forwarded-Preferred-Username"
	if l.PassBasic || l.PassUser {
		cfg.Req = append(cfg.Req, claim("X-Forwarded-Groups", "groups"), claim("X-Forwarded-User", userClaim))
		em := claim("X-Forwarded-Email", "email")
		em.Optional = l.PreferEmail // the pre-structured-header implementation deleted it in this mode; docs list it
		cfg.Req = append(cfg.Req, em, claim("X-Forwarded-Preferred-Username", "preferred_username"))
	}
	if l.PassAT {
		cfg.Req = append(cfg.Req, claim("X-Forwarded-Access-Token", "access_token"))
	}
	if l.PassAuthz {
		cfg.Req = append(cfg.Req, c07Hdr{Name: "Authorization", Vals: []c07Val{{Kind: "claim", Claim: "id_token", Prefix: "Bearer "}}})
		nAuthzReq++
	}
	for k := range cfg.Req {
		cfg.Req[k].Preserve = !l.Strip // "strips ... headers if they would be set by oauth2-proxy"
	}
	if l.SetX {
		cfg.Resp = append(cfg.Resp, claim("X-Auth-Request-User", "user"), claim("X-Auth-Request-Email", "email"),
			claim("X-Auth-Request-Preferred-Username", "preferred_username"), claim("X-Auth-Request-Groups", "groups"))
		if l.PassAT {
			cfg.Resp = append(cfg.Resp, claim("X-Auth-Request-Access-Token", "access_token"))
		}
	}
	if l.SetBasic {
		cfg.Resp = append(cfg.Resp, c07Hdr{Name: "Authorization", Vals: []c07Val{{Kind: "claim", Claim: userClaim, Basic: true, Pw: l.Pw}}})
		nAuthzResp++
	}
	if l.SetAuthz {
		cfg.Resp = append(cfg.Resp, c07Hdr{Name: "Authorization", Vals: []c07Val{{Kind: "claim", Claim: "id_token", Prefix: "Bearer "}}})
		nAuthzResp++
	}
	cfg.ExpectRejected = nAuthzReq > 1 || nAuthzResp > 1 // "Names should be unique within a list of Headers"
	if l.SetBasic && l.Pw == "" {
		cfg.ExpectRejected = true // --set-basic-auth needs "the password to set": the instance refuses to start without one
	}
	cfg.Kind, cfg.Flags, cfg.PreferEmail = "legacy", l.flags(), l.PreferEmail
	cfg.Bucket = fmt.Sprintf("legacy|strip=%v|preferEmail=%v|pw=%v|authz=%v|resp=%v", l.Strip, l.PreferEmail, l.Pw != "", l.PassAuthz || (l.PassBasic && l.Pw != ""), l.SetX || l.SetBasic || l.SetAuthz)
	return cfg
}

// ---------------------------------------------------------------------------------------------------------
// structured header lists (alpha configuration), seeded random

var c07Claims = []string{"user", "email", "groups", "preferred_username", "access_token", "id_token", "refresh_token", "created_at", "expires_on"}

const c07EnvName = "C07_VF_ENV_SECRET"
const c07EnvSecret = "env-secret-7Q"

// prefixes: ending in a separator, single characters, with inner space, non-ASCII
var c07Prefixes = []string{"p-", "Bearer ", "grp:", "ü=", "x y ", "oidc:", "x-", "g", ":", "role/"}

func c07RandVal(rng *rand.Rand, n *int) c07Val {
	*n++
	srcs := []string{"value", "fromFile", "fromEnv"}
	switch k := rng.Intn(10); {
	case k < 2:
		v := c07Val{Kind: "secret", Src: srcs[rng.Intn(3)], Secret: fmt.Sprintf("s3cret-%d", *n)}
		if v.Src == "fromEnv" {
			v.Secret = c07EnvSecret
		}
		return v
	default:
		v := c07Val{Kind: "claim", Claim: c07Claims[rng.Intn(len(c07Claims))]}
		if rng.Intn(12) == 0 {
			v.Claim = "no_such_claim"
		}
		if rng.Intn(3) == 0 {
			v.Claim = "groups" // multi-valued claim deserves weight
		}
		switch rng.Intn(5) {
		case 0:
			v.Prefix = c07Prefixes[rng.Intn(len(c07Prefixes))]
		case 1:
			v.Basic, v.Src, v.Pw = true, srcs[rng.Intn(3)], fmt.Sprintf("pw%d", *n)
			if v.Src == "fromEnv" {
				v.Pw = c07EnvSecret
			}
			if rng.Intn(2) == 0 {
				v.Prefix = "Basic " // the shape the legacy conversion produces
			}
		}
		return v
	}
}

var c07ReqNames = []string{"X-Forwarded-User", "X-Forwarded-Email", "X-Forwarded-Groups", "X-Forwarded-Preferred-Username", "X-Forwarded-Access-Token", "Authorization",
	"X-Custom-Id", "x-custom-USER", "X-LOWER-upper", "x-all-lower", "X-ID-TOKEN", "X-Session-Time", "x-Forwarded-email2", "X-Remote-User", "REMOTE-GROUPS"}
var c07RespNames = []string{"X-Auth-Request-User", "X-Auth-Request-Email", "X-Auth-Request-Groups", "X-Auth-Request-Access-Token", "Authorization", "X-R-Custom", "x-r-lower", "X-R-UPPER-mixed", "X-Auth-Time"}

func c07RandHdrs(rng *rand.Rand, pool []string, lo, hi int, request bool, n *int) []c07Hdr {
	cnt := lo + rng.Intn(hi-lo+1)
	perm := rng.Perm(len(pool))
	var out []c07Hdr
	for k := 0; k < cnt && k < len(perm); k++ {
		h := c07Hdr{Name: pool[perm[k]]}
		if request {
			h.Preserve = rng.Intn(3) == 0
		}
		nv := 1 + rng.Intn(3)
		if rng.Intn(8) == 0 {
			nv = 0 // strip-only entry
		}
		for j := 0; j < nv; j++ {
			h.Vals = append(h.Vals, c07RandVal(rng, n))
		}
		out = append(out, h)
	}
	return out
}

var c07FileSeq atomic.Int64

func c07YAMLStr(s string) string { b, _ := json.Marshal(s); return string(b) }

func c07SecretYAML(w *vfWorld, indent, src, secret string, n *int) string {
	c07FileSeq.Add(1)
	switch src {
	case "fromFile":
		*n++
		return indent + "fromFile: " + c07YAMLStr(w.File(fmt.Sprintf("c07-secret-%d", c07FileSeq.Load()), secret)) + "\n"
	case "fromEnv":
		return indent + "fromEnv: " + c07EnvName + "\n"
	}
	return indent + "value: " + base64.StdEncoding.EncodeToString([]byte(secret)) + "\n"
}

func c07HdrYAML(w *vfWorld, key string, hs []c07Hdr, n *int) string {
	if len(hs) == 0 {
		return ""
	}
	var b strings.Builder
	b.WriteString(key + ":\n")
	for _, h := range hs {
		b.WriteString("- name: " + c07YAMLStr(h.Name) + "\n")
		if h.Preserve {
			b.WriteString("  preserveRequestValue: true\n")
		}
		if len(h.Vals) == 0 {
			b.WriteString("  values: []\n")
			continue
		}
		b.WriteString("  values:\n")
		for _, v := range h.Vals {
			if v.Kind == "secret" {
				s := c07SecretYAML(w, "    ", v.Src, v.Secret, n)
				b.WriteString("  - " + strings.TrimPrefix(s, "    "))
				continue
			}
			b.WriteString("  - claim: " + c07YAMLStr(v.Claim) + "\n")
			if v.Prefix != "" {
				b.WriteString("    prefix: " + c07YAMLStr(v.Prefix) + "\n")
			}
			if v.Basic {
				b.WriteString("    basicAuthPassword:\n" + c07SecretYAML(w, "      ", v.Src, v.Pw, n))
			}
		}
	}
	return b.String()
}

func c07AlphaCfg(rng *rand.Rand, idx int, n *int) c07Cfg {
	cfg := c07Cfg{Kind: "alpha", Label: fmt.Sprintf("alpha-%d", idx)}
	cfg.Req = c07RandHdrs(rng, c07ReqNames, 1, 6, true, n)
	cfg.Resp = c07RandHdrs(rng, c07RespNames, 0, 4, false, n)
	// a value with basicAuthPassword AND another prefix than "Basic " is not generated: the docs do not say which wins
	pres, multi, nonCanon, stripOnly := 0, false, false, false
	for _, h := range cfg.Req {
		if h.Preserve {
			pres++
		}
		if len(h.Vals) > 1 {
			multi = true
		}
		if len(h.Vals) == 0 {
			stripOnly = true
		}
		if http.CanonicalHeaderKey(h.Name) != h.Name {
			nonCanon = true
		}
	}
	pc := "none"
	if pres == len(cfg.Req) {
		pc = "all"
	} else if pres > 0 {
		pc = "some"
	}
	cfg.Bucket = fmt.Sprintf("alpha|preserve=%s|multi=%v|noncanon=%v|striponly=%v|resp=%v", pc, multi, nonCanon, stripOnly, len(cfg.Resp) > 0)
	return cfg
}

// c07Materialize renders the world-dependent parts of a configuration (alpha YAML, secret files, htpasswd file).
func c07Materialize(w *vfWorld, cfg *c07Cfg, htFile string) {
	n := 0
	if cfg.Kind == "alpha" {
		cfg.YAML = w.AlphaYAML("", c07HdrYAML(w, "injectRequestHeaders", cfg.Req, &n)+c07HdrYAML(w, "injectResponseHeaders", cfg.Resp, &n))
		// the rig's skeleton says "userIDClaim: sub"; that deprecated option re-points the E-MAIL claim (user is always sub),
		// which would make session.email = sub. Keep e-mail = the e-mail claim, as with the legacy flags.
		cfg.YAML = strings.Replace(cfg.YAML, "userIDClaim: sub", "userIDClaim: email", 1)
		cfg.Flags = append(w.AlphaBaseFlags(), cfg.Flags...)
	}
	if cfg.Htpasswd {
		cfg.Flags = append(cfg.Flags, "--htpasswd-file="+htFile)
	}
}

// ---------------------------------------------------------------------------------------------------------
// tokens the fake IdP issued, by subject

type c07Tokens struct{ AT, IDT, RT string }

type c07TokenBook struct {
	mu sync.Mutex
	m  map[string]c07Tokens
}

func (b *c07TokenBook) hook(grant string, resp map[string]interface{}) {
	idt, _ := resp["id_token"].(string)
	at, _ := resp["access_token"].(string)
	rt, _ := resp["refresh_token"].(string)
	sub, _ := vfJWTClaims(idt)["sub"].(string)
	if sub == "" { // identity without user-id claim: keyed by its (unique) e-mail
		e, _ := vfJWTClaims(idt)["email"].(string)
		sub = "email:" + e
	}
	b.mu.Lock()
	b.m[sub] = c07Tokens{AT: at, IDT: idt, RT: rt}
	b.mu.Unlock()
}

func (b *c07TokenBook) get(sub string) (c07Tokens, bool) {
	b.mu.Lock()
	defer b.mu.Unlock()
	t, ok := b.m[sub]
	return t, ok
}

// ---------------------------------------------------------------------------------------------------------
// sessions

type c07Ident struct {
	Label, Class      string
	Sub, Email, PU    string
	Groups            []string
	GroupsClaimAbsent bool
	NoSub             bool // the IdP issues no user-id (sub) claim, neither in the ID token nor from the profile endpoint: session.User is empty
}

func c07CookieIdents() []c07Ident {
	many := []string{}
	for k := 0; k < 14; k++ {
		many = append(many, fmt.Sprintf("team-%02d", k))
	}
	many = append(many, "a,b", "dev ops", "", "role:admin", "x=y;z")
	return []c07Ident{
		{Label: "c-std", Class: "all-set", Sub: "alice", Email: "alice@example.com", PU: "alice-pu", Groups: []string{"g1", "g2"}},
		{Label: "c-nogroupsclaim", Class: "groups-empty", Sub: "bob", Email: "bob@example.com", PU: "bobby", GroupsClaimAbsent: true},
		{Label: "c-emptygroups", Class: "groups-empty", Sub: "carol", Email: "carol@example.com", PU: "caz", Groups: []string{}},
		{Label: "c-nopu", Class: "pu-empty", Sub: "dave", Email: "dave@example.com", Groups: []string{"solo"}},
		{Label: "c-minimal", Class: "groups+pu-empty", Sub: "erin", Email: "erin@example.com", GroupsClaimAbsent: true},
		{Label: "c-unicode", Class: "unicode", Sub: "zoë-ß", Email: "zoë@exämple.com", PU: "Ålice Ø ☃", Groups: []string{"größe", "日本語", "ünï"}},
		{Label: "c-manygroups", Class: "groups-multi+empty-element", Sub: "frank", Email: "frank@example.com", PU: "f", Groups: many},
		{Label: "c-nouser", Class: "user-empty", Sub: "", Email: "alice.nouser@corp.example", PU: "al", Groups: []string{"staff"}, NoSub: true},
		{Label: "c-colon", Class: "separators-in-values", Sub: "u:colon,comma", Email: "g+tag@example.com", PU: "p:u,x", Groups: []string{"", "only,one"}},
	}
}

// c07CfgPrefixes: the prefixes this configuration puts in front of identity claims.
func c07CfgPrefixes(cfg *c07Cfg) []string {
	var out []string
	seen := map[string]bool{}
	for _, hs := range [][]c07Hdr{cfg.Req, cfg.Resp} {
		for _, h := range hs {
			for _, v := range h.Vals {
				if v.Kind != "claim" || v.Basic || v.Prefix == "" || seen[v.Prefix] {
					continue
				}
				switch v.Claim {
				case "user", "email", "groups", "preferred_username":
					seen[v.Prefix] = true
					out = append(out, v.Prefix)
				}
			}
		}
	}
	if len(out) > 4 {
		out = out[:4]
	}
	return out
}

// c07PrefixIdents: identities correlated with the configuration — for every configured prefix P, values equal to P,
// starting with P, starting with P twice and containing P in the middle, in groups / user / e-mail / preferred_username.
// The reference stays prefix+value verbatim: a user in a group literally named "oidc:admin" must arrive as
// "oidc:oidc:admin", never as "oidc:admin" (which is what a member of "admin" looks like).
// Values that would END in white space are never placed last in a header line (HTTP trims it at the receiver).
func c07PrefixIdents(cfg *c07Cfg) []c07Ident {
	ps := c07CfgPrefixes(cfg)
	if len(ps) == 0 {
		return nil
	}
	endsWS := func(x string) bool { return strings.TrimRight(x, " \t") != x }
	var g1 []string
	for _, p := range ps {
		g1 = append(g1, p+"admin", p+p+"x", p, "mid"+p+"dle")
	}
	g1 = append(g1, "admin")
	p1 := ps[0]
	p2 := ps[len(ps)-1]
	eq := p1
	if endsWS(eq) {
		eq = p1 + p1 + "x"
	}
	out := []c07Ident{
		{Label: "c-prefix-start", Class: "values-start-with-configured-prefix", Sub: p1 + "admin", Email: p1 + "admin@example.com", PU: p1 + "admin", Groups: g1},
		{Label: "c-prefix-equal", Class: "values-equal-configured-prefix", Sub: "mid" + p1 + "dle", Email: p2 + p2 + "x@example.com", PU: eq, Groups: []string{p1, p2 + "admin", "tail"}},
	}
	if len(ps) > 1 {
		out = append(out, c07Ident{Label: "c-prefix-second", Class: "values-start-with-configured-prefix", Sub: p2 + p2 + "x", Email: "mid" + p2 + "dle@example.com", PU: p2 + "admin", Groups: []string{p2 + p2 + "x", "tail"}})
	}
	return out
}

func c07SHA(pw string) string {
	h := sha1.Sum([]byte(pw))
	return "{SHA}" + base64.StdEncoding.EncodeToString(h[:])
}

func c07HtpasswdFile(w *vfWorld) string {
	return w.File("c07-htpasswd", "hank:"+c07SHA("hank-pw")+"\nivy.user:"+c07SHA("ivy pw")+"\n")
}

// c07BuildSessions logs every identity in on this instance (unique subjects per instance so that the issued tokens are
// attributable) and prepares the credential-per-request sessions.
func c07BuildSessions(run *vfRun, w *vfWorld, p *vfProxy, cfg *c07Cfg, inst int, book *c07TokenBook) []*c07Sess {
	var out []*c07Sess
	base := c07CookieIdents()
	for k, id := range append(base, c07PrefixIdents(cfg)...) {
		// quick tier: the standard identity plus a rotating 3 of the other 8 per instance (all of them on the fixed
		// structured configurations); every identity meets every option bucket across the instances. The identities
		// correlated with this configuration's prefixes are always used.
		if !run.Env.Thorough() && k > 0 && k < len(base) && !strings.Contains(cfg.Label, "fixed") && (k-1+8-inst%8)%8 >= 3 {
			continue
		}
		if k >= len(base) {
			run.Count("sessions_correlated_with_prefix", 1)
		}
		sub := fmt.Sprintf("%s#%d", id.Sub, inst)
		vid := vfIdentity{Sub: sub, Email: id.Email, PreferredUsername: id.PU, Groups: id.Groups, Profile: map[string]interface{}{"sub": sub}}
		if id.GroupsClaimAbsent {
			vid.Groups = nil
		}
		key := sub
		if id.NoSub {
			// "empty claim => no value": the session has an e-mail but NO user; nothing may be derived for the user headers
			id.Email = fmt.Sprintf("alice.nouser+i%d@corp.example", inst)
			vid = vfIdentity{Email: id.Email, PreferredUsername: id.PU, Groups: id.Groups, Extra: map[string]interface{}{"sub": nil}, Profile: map[string]interface{}{"email": id.Email}}
			sub, key = "", "email:"+id.Email
		}
		b := vfNewBrowser("")
		if _, _, err := b.Login(p, vid, "/"); err != nil {
			run.Inconclusive("login failed: " + id.Label)
			run.Count("login_failed", 1)
			continue
		}
		tk, ok := book.get(key)
		if !ok {
			run.Inconclusive("no tokens recorded for " + id.Label)
			continue
		}
		if id.NoSub {
			run.Count("sessions_without_user", 1)
		}
		cs := b.Jar.For("proxy.test", "/", false)
		out = append(out, &c07Sess{Label: id.Label, Source: "cookie", Class: id.Class, HasSession: true, User: sub, Email: id.Email, PU: id.PU, Groups: id.Groups,
			AT: tk.AT, IDT: tk.IDT, RT: tk.RT, Created: "one", Expires: "one", Cookie: vfCookieHeader(cs)})
		run.Count("sessions_cookie", 1)
	}
	// bearer tokens (verified against the issuer's keys; --skip-jwt-bearer-tokens)
	now := time.Now()
	mk := func(label, class string, claims map[string]interface{}) {
		sub := fmt.Sprintf("%s#%d", claims["sub"], inst)
		claims["sub"] = sub
		claims["iss"], claims["aud"], claims["iat"], claims["exp"] = w.IdP.Issuer, "cid", now.Unix(), now.Add(2*time.Hour).Unix()
		tok := vfMint(claims, vfMintOpts{})
		s := &c07Sess{Label: label, Source: "bearer", Class: class, HasSession: true, User: sub, AT: tok, IDT: tok, Created: "any", Expires: "one", Authz: "Bearer " + tok}
		s.Email, _ = claims["email"].(string)
		if s.Email == "" {
			s.EmailAlt = sub // a bearer token without e-mail: the subject may stand in (no profile URL can be asked)
		}
		s.PU, _ = claims["preferred_username"].(string)
		s.Groups, _ = claims["groups"].([]string)
		out = append(out, s)
		run.Count("sessions_bearer", 1)
	}
	mk("b-full", "all-set", map[string]interface{}{"sub": "svc-full", "email": "svc@example.com", "preferred_username": "svc-pu", "groups": []string{"m1", "m2", "m3"}})
	mk("b-noemail", "email-from-sub", map[string]interface{}{"sub": "svc-noemail", "groups": []string{"m1"}})
	mk("b-bare", "groups+pu-empty", map[string]interface{}{"sub": "svc-bare", "email": "bare@example.com"})
	{ // a bearer token without user-id claim: e-mail only
		email := fmt.Sprintf("svc.nosub+i%d@corp.example", inst)
		claims := map[string]interface{}{"email": email, "groups": []string{"m9"}, "iss": w.IdP.Issuer, "aud": "cid", "iat": now.Unix(), "exp": now.Add(2 * time.Hour).Unix()}
		tok := vfMint(claims, vfMintOpts{})
		out = append(out, &c07Sess{Label: "b-nosub", Source: "bearer", Class: "user-empty", HasSession: true, Email: email, Groups: []string{"m9"}, AT: tok, IDT: tok, Created: "any", Expires: "one", Authz: "Bearer " + tok})
		run.Count("sessions_without_user", 1)
	}
	if ps := c07CfgPrefixes(cfg); len(ps) > 0 {
		p1 := ps[0]
		mk("b-prefix", "values-start-with-configured-prefix", map[string]interface{}{"sub": p1 + "svc", "email": p1 + "svc@example.com", "preferred_username": p1 + p1 + "x", "groups": []string{p1 + "admin", p1, "mid" + p1 + "dle", "tail"}})
	}
	if cfg.Htpasswd {
		for _, u := range [][2]string{{"hank", "hank-pw"}, {"ivy.user", "ivy pw"}} {
			s := &c07Sess{Label: "h-" + u[0], Source: "basic", Class: "user-only", HasSession: true, User: u[0], Groups: cfg.HtGroups, Created: "none", Expires: "none",
				Authz: "Basic " + base64.StdEncoding.EncodeToString([]byte(u[0]+":"+u[1]))}
			if len(cfg.HtGroups) > 0 {
				s.Class = "user+groups-only"
			}
			if cfg.PreferEmail {
				s.EmailAlt = s.User
			}
			out = append(out, s)
			run.Count("sessions_basic", 1)
		}
		// the sign-in form: a stored (cookie) session for an htpasswd user
		b := vfNewBrowser("")
		r := b.Send(p, vfNewReq("POST", "/oauth2/sign_in").WithBody("application/x-www-form-urlencoded", []byte("username=hank&password=hank-pw&rd=%2F")))
		if cs := b.Jar.For("proxy.test", "/", false); r.Code == 302 && len(cs) > 0 {
			s := &c07Sess{Label: "f-hank", Source: "form", Class: "user-only", HasSession: true, User: "hank", Groups: cfg.HtGroups, Created: "one", Expires: "none", Cookie: vfCookieHeader(cs)}
			if len(cfg.HtGroups) > 0 {
				s.Class = "user+groups-only"
			}
			out = append(out, s)
			run.Count("sessions_form", 1)
		} else {
			run.Inconclusive("form sign-in failed")
		}
	}
	out = append(out, &c07Sess{Label: "none", Source: "none", Class: "no-session", Created: "none", Expires: "none"})
	out = append(out, &c07Sess{Label: "invalid-cookie", Source: "invalid", Class: "no-session", Created: "none", Expires: "none", Cookie: "_oauth2_proxy=Z2FyYmFnZQ==|1|c2ln"})
	return out
}

// ---------------------------------------------------------------------------------------------------------
// spoofing

var c07SpoofStyles = []string{"none", "canonical-x1", "lower-x1", "UPPER-x2", "mIxEd-x3", "comma-joined", "case-mix-x3", "as-configured+lookalike", "connection-listed", "connection-multi-line", "other-hop-by-hop-headers-name-it", "first-line-empty"}

func c07Case(name, how string) string {
	switch how {
	case "lower":
		return strings.ToLower(name)
	case "upper":
		return strings.ToUpper(name)
	case "mixed":
		b := []byte(strings.ToLower(name))
		for k := range b {
			if k%2 == 1 && b[k] >= 'a' && b[k] <= 'z' {
				b[k] -= 32
			}
		}
		return string(b)
	case "configured":
		return name
	}
	return http.CanonicalHeaderKey(name)
}

// c07Spoof adds spoofed lines for every name to the request and returns the client's values per lower-cased name.
func c07Spoof(req *vfReq, style int, names []string, sess *c07Sess, tag string) (client map[string][]string, tokens []string, lines int) {
	client = map[string][]string{}
	n := 0
	val := func(name string) string {
		n++
		t := fmt.Sprintf("evil-%s-%d", tag, n)
		tokens = append(tokens, t)
		if strings.EqualFold(name, "Authorization") {
			if n%2 == 0 {
				return "Basic " + base64.StdEncoding.EncodeToString([]byte(t+":x"))
			}
			return "Bearer " + t
		}
		return t
	}
	put := func(spelling, name, v string) {
		req.H(spelling, v)
		client[strings.ToLower(name)] = append(client[strings.ToLower(name)], strings.TrimSpace(v)) // as received: optional white space is not part of the value
		lines++
	}
	authzCase := []string{"canonical", "canonical", "lower", "upper", "mixed", "canonical", "lower", "canonical", "canonical", "canonical", "canonical", "lower"}[style]
	if sess.Authz != "" { // the genuine credential comes first: it is the one the proxy reads
		put(c07Case("Authorization", authzCase), "Authorization", sess.Authz)
		lines--
	}
	if style == 8 && len(names) > 0 {
		// no spoofed value at all: the client declares the configured names hop-by-hop ("Connection: <names>"), which asks
		// every proxy on the way to drop them before forwarding
		var listed []string
		for i, name := range names {
			listed = append(listed, c07Case(name, []string{"lower", "configured", "upper", "mixed", "canonical"}[(i+int(tag[len(tag)-1]))%5]))
		}
		if int(tag[len(tag)-1])%2 == 0 {
			listed = append([]string{"keep-alive"}, listed...)
		}
		req.H("Connection", strings.Join(listed, ", "))
		lines++
	}
	if style == 9 && len(names) > 0 {
		// the same declaration spread over 2-3 Connection LINES, the configured names on each position, mixed case, next
		// to the usual tokens (keep-alive / close / upgrade / TE / an unrelated one)
		d := int(tag[len(tag)-1])
		var listed []string
		for i, name := range names {
			listed = append(listed, c07Case(name, []string{"configured", "lower", "upper", "mixed", "canonical"}[(i+d)%5]))
		}
		half := (len(listed) + 1) / 2
		all := strings.Join(listed, ", ")
		var conn []string
		switch d % 6 {
		case 0:
			conn = []string{"keep-alive", all}
		case 1:
			conn = []string{"x-unrelated-token", all, "keep-alive"}
		case 2:
			conn = []string{strings.Join(listed[:half], ","), "Keep-Alive", strings.Join(listed[half:], " , ")}
		case 3:
			conn = []string{"TE", "close", all}
		case 4:
			conn = []string{all, all}
		case 5:
			conn = []string{"keep-alive, x-unrelated-token", "upgrade, " + all}
		}
		for k, c := range conn {
			if c != "" {
				req.H([]string{"Connection", "connection", "CONNECTION"}[k%3], c)
				lines++
			}
		}
	}
	if style == 10 && len(names) > 0 {
		// the other hop-by-hop headers name the configured headers: none of them may make a proxy drop anything
		all := strings.Join(names, ", ")
		for _, h := range []string{"Keep-Alive", "Proxy-Connection", "TE", "Trailer", "Upgrade"} {
			req.H(h, all)
			lines++
		}
	}
	for _, name := range names {
		switch style {
		case 0, 8, 9, 10:
		case 1:
			put(c07Case(name, "canonical"), name, val(name))
		case 2:
			put(c07Case(name, "lower"), name, val(name))
		case 3:
			put(c07Case(name, "upper"), name, val(name))
			put(c07Case(name, "upper"), name, val(name))
		case 4:
			for k := 0; k < 3; k++ {
				put(c07Case(name, "mixed"), name, val(name))
			}
		case 5:
			a, b := val(name), val(name)
			put(c07Case(name, "canonical"), name, a+", "+b)
		case 6:
			put(c07Case(name, "lower"), name, val(name))
			put(c07Case(name, "upper"), name, val(name))
			put(c07Case(name, "canonical"), name, val(name))
		case 11:
			// the header repeated on 2-3 lines whose FIRST line is empty or blank-only; the value sits on the 2nd and/or 3rd line
			d := int(tag[len(tag)-1]) + len(name)
			sp := []string{"canonical", "lower", "upper", "mixed", "configured"}
			put(c07Case(name, sp[d%5]), name, []string{"", " ", "\t", "   "}[d%4])
			switch d % 3 {
			case 0:
				put(c07Case(name, sp[(d+1)%5]), name, val(name))
			case 1:
				put(c07Case(name, sp[(d+1)%5]), name, []string{"", " "}[d%2])
				put(c07Case(name, sp[(d+2)%5]), name, val(name))
			case 2:
				put(c07Case(name, sp[(d+1)%5]), name, val(name))
				put(c07Case(name, sp[(d+2)%5]), name, val(name))
			}
		case 7:
			put(c07Case(name, "configured"), name, val(name))
			look := strings.ReplaceAll(c07Case(name, "canonical"), "-", "_")
			if look != name {
				req.H(look, "lookalike-"+tag)
			}
		}
	}
	return client, tokens, lines
}

func c07Lines(h http.Header, name string) []string {
	var keys []string
	for k := range h {
		if strings.EqualFold(k, name) {
			keys = append(keys, k)
		}
	}
	sort.Strings(keys)
	var out []string
	for _, k := range keys {
		out = append(out, h[k]...)
	}
	return out
}

func c07ContainsAny(lines []string, tokens []string) string {
	for _, l := range lines {
		for _, t := range tokens {
			if strings.Contains(l, t) {
				return t
			}
			// a spoofed Basic credential travels base64-encoded
			if strings.Contains(l, base64.StdEncoding.EncodeToString([]byte(t+":x"))) {
				return t
			}
		}
	}
	return ""
}

// ---------------------------------------------------------------------------------------------------------

type c07Witness struct {
	Config     c07Cfg      `json:"config"`
	Session    *c07Sess    `json:"session"`
	Endpoint   string      `json:"endpoint"`
	SpoofStyle string      `json:"spoof_style"`
	Request    *vfReq      `json:"request"`
	RawRequest string      `json:"raw_request"`
	Status     int         `json:"status"`
	Header     string      `json:"header"`
	Side       string      `json:"side"` // upstream-request | auth-response
	Expected   []string    `json:"expected_alternatives"`
	Observed   []string    `json:"observed_lines"`
	Note       string      `json:"note,omitempty"`
	Extra      interface{} `json:"extra,omitempty"`
}

func c07Names(hs []c07Hdr) []string {
	var out []string
	for _, h := range hs {
		out = append(out, h.Name)
	}
	return out
}

func c07HasName(hs []c07Hdr, name string) bool {
	for _, h := range hs {
		if strings.EqualFold(h.Name, name) {
			return true
		}
	}
	return false
}

// c07Drive runs every (session, endpoint, spoof style) case against one instance and judges it.
func c07Drive(run *vfRun, w *vfWorld, p *vfProxy, cfg *c07Cfg, inst int, sessions []*c07Sess) {
	endpoints := []struct{ Name, Target string }{{"proxied", "/app/x?q=1"}, {"bypassed", "/open/x"}, {"auth-only", "/oauth2/auth"}, {"auth-only-denied", "/oauth2/auth?allowed_groups=c07-no-such-group"}}
	// names the client spoofs: all configured request names, all configured response names, and one unconfigured control
	spoofNames := append([]string{}, c07Names(cfg.Req)...)
	for _, n := range c07Names(cfg.Resp) {
		if !c07HasName(cfg.Req, n) {
			spoofNames = append(spoofNames, n)
		}
	}
	caseNo := 0
	for si, sess := range sessions {
		for ei, ep := range endpoints {
			for style := range c07SpoofStyles {
				// quick tier: "none" plus a rotating quarter of the styles per (instance, session, endpoint); every style
				// meets every session class and endpoint across the instances. thorough: all.
				// (the auth-only endpoints, where the client's request headers play no role for the response, rotate in both tiers)
				authEP := ep.Name == "auth-only" || ep.Name == "auth-only-denied"
				rot := 3
				if !run.Env.Thorough() {
					rot = 4 // twelve styles: a rotating quarter keeps the quick tier at its previous size
				}
				if style != 0 && (!run.Env.Thorough() || authEP) && (style+inst+si+ei)%rot != 0 {
					continue
				}
				caseNo++
				id := fmt.Sprintf("c07-%d-%d", inst, caseNo)
				tag := fmt.Sprintf("%d.%d", inst, caseNo)
				method := "GET"
				if ep.Name == "proxied" || ep.Name == "bypassed" {
					method = []string{"GET", "POST", "GET", "PUT", "GET", "DELETE", "GET", "PATCH", "GET", "HEAD"}[caseNo%10]
				}
				req := vfNewReq(method, ep.Target, "X-Vf-Id", id)
				if sess.Cookie != "" {
					req.H("Cookie", sess.Cookie)
				}
				client, tokens, nLines := c07Spoof(req, style, spoofNames, sess, tag)
				control := "control-" + tag
				req.H("x-vf-CONTROL", control)
				var resp *vfResp
				if style >= 8 && style <= 10 && caseNo%2 == 1 {
					resp = p.Do(req) // hop-by-hop styles also over the direct driver (no "Connection: close" appended by the client)
					run.Count("hop_by_hop_requests_direct", 1)
				} else {
					resp = p.Wire(req)
					if style >= 8 && style <= 10 {
						run.Count("hop_by_hop_requests_wire", 1)
					}
					if style == 11 {
						run.Count("first_line_empty_requests", 1)
					}
				}
				run.Count("requests", 1)
				run.Count("spoof_lines_sent", int64(nLines))
				wit := func(side, header string, exp [][]c07Part, obs []string, note string) c07Witness {
					return c07Witness{Config: *cfg, Session: sess, Endpoint: ep.Name, SpoofStyle: c07SpoofStyles[style], Request: req, RawRequest: string(req.Bytes()),
						Status: resp.Code, Header: header, Side: side, Expected: c07Describe(exp), Observed: obs, Note: note}
				}
				if resp.Panic != "" || resp.Err != "" {
					if resp.Panic != "" {
						run.Count("panics", 1)
						run.Violation("c07:panic", fmt.Sprintf("request handling panicked while injecting headers (%s session, %s, config %s)", sess.Source, ep.Name, cfg.Label),
							c07Witness{Config: *cfg, Session: sess, Endpoint: ep.Name, SpoofStyle: c07SpoofStyles[style], Request: req, RawRequest: string(req.Bytes()), Note: vfTrunc(resp.Panic, 3000)})
					} else {
						run.Inconclusive("wire error: " + vfTrunc(resp.Err, 60))
					}
					continue
				}
				hits := w.Up.FindHit(id)
				cell := fmt.Sprintf("%s|%s/%s|%s|spoof=%s", cfg.Bucket, sess.Source, sess.Class, ep.Name, c07SpoofStyles[style])
				if len(cfg.Req)+len(cfg.Resp) == 0 {
					cell = "" // nothing configured: trivial
				}
				switch ep.Name {
				case "auth-only", "auth-only-denied":
					if len(hits) > 0 {
						run.Inconclusive("auth-only request reached the upstream")
						continue
					}
					run.Eval(cell)
					accepted := resp.Code == 202
					wantCode := 401
					switch {
					case sess.HasSession && ep.Name == "auth-only":
						wantCode = 202
					case sess.HasSession:
						wantCode = 403 // authenticated, but not in the group the sub-request demands
					}
					if resp.Code != wantCode {
						run.Inconclusive(fmt.Sprintf("%s status %d for %s session", ep.Name, resp.Code, sess.Source))
						continue
					}
					run.Count(fmt.Sprintf("auth_only_%d", resp.Code), 1)
					for _, h := range cfg.Resp {
						obs := c07Lines(resp.Header, h.Name)
						var exp [][]c07Part
						if accepted {
							exp = c07ExpectS(c07Hdr{Name: h.Name, Vals: h.Vals}, sess, nil) // preserve has no meaning for responses
						} else {
							hasSecret := false
							for _, v := range h.Vals {
								hasSecret = hasSecret || v.Kind == "secret"
							}
							if hasSecret {
								run.Count("refusal_with_secret_header_not_judged", 1)
								continue
							}
							exp = [][]c07Part{{}}
						}
						run.Count("judged_response_names", 1)
						verdict := c07Judge(exp, obs)
						if verdict == "" {
							continue
						}
						sig, what := "c07:auth-response-header-values-differ", "values differ from the session's"
						switch {
						case c07ContainsAny(obs, tokens) != "":
							sig, what = "c07:auth-response-reflects-client-value", "a client-supplied request value appears"
						case !accepted:
							sig, what = "c07:auth-response-header-on-refusal", fmt.Sprintf("present on a %d", resp.Code)
						case verdict == "not-flattened":
							sig, what = "c07:auth-response-header-not-flattened", "values arrive on several lines instead of one comma-joined line"
						}
						run.Violation(sig, fmt.Sprintf("/oauth2/auth response header %s: %s (config %s, %s session %s): got %q, expected %q", h.Name, what, cfg.Label, sess.Source, sess.Label, obs, c07Describe(exp)),
							wit("auth-response", h.Name, exp, obs, ""))
					}
				default:
					wantHit := sess.HasSession || ep.Name == "bypassed"
					if (len(hits) > 0) != wantHit || len(hits) > 1 {
						run.Eval(cell)
						run.Inconclusive(fmt.Sprintf("%s: upstream hits %d for %s session (status %d)", ep.Name, len(hits), sess.Source, resp.Code))
						continue
					}
					run.Eval(cell)
					if len(hits) == 0 {
						run.Count("refused_no_upstream_hit", 1)
						continue
					}
					run.Count("upstream_hits", 1)
					up := hits[0].Header
					if got := c07Lines(up, "X-Vf-Control"); len(got) != 1 || got[0] != control {
						run.Inconclusive("control header did not arrive unchanged")
						continue
					}
					for _, h := range cfg.Req {
						obs := c07Lines(up, h.Name)
						cl := client[strings.ToLower(h.Name)]
						exp := c07ExpectS(h, sess, cl)
						run.Count("judged_request_names", 1)
						if h.Preserve {
							run.Count("judged_preserved_names", 1)
						}
						verdict := c07Judge(exp, obs)
						if verdict == "" {
							if style < 8 && cfg.PreferEmail && sess.HasSession && sess.Email == "" && len(h.Vals) == 1 && h.Vals[0].Claim == "email-or-user" && c07Judge(c07Expect(h, nil, cl), obs) == "" {
								run.Count("observed_prefer_email_session_without_email_gets_no_username_"+sess.Source, 1) // accepted: "no value when the claim is empty"
							}
							continue
						}
						sig, what := "c07:request-header-values-differ", "values differ from the session's"
						leak := ""
						if !h.Preserve {
							leak = c07ContainsAny(obs, tokens)
							if leak == "" && sess.Authz != "" && strings.EqualFold(h.Name, "Authorization") {
								for _, l := range obs {
									if strings.Contains(l, sess.Authz) && !c07MatchAny(exp, l) {
										leak = "(the client's own credential)"
									}
								}
							}
						}
						switch {
						case style >= 8 && style <= 10 && leak == "" && c07Judge(c07ExpectS(h, nil, cl), obs) == "" && len(obs) == 0:
							sig, what = "c07:connection-header-drops-injected-header", "the client listed the name in its Connection header and the injected value is dropped before the upstream"
						case leak != "" && cfg.Kind == "legacy" && cfg.PreferEmail && h.Optional && strings.EqualFold(h.Name, "X-Forwarded-Email"):
							sig, what = "c07:prefer-email:x-forwarded-email-not-stripped", "client-supplied value reaches the upstream (--prefer-email-to-user leaves X-Forwarded-Email unmanaged)"
						case leak != "":
							sig, what = "c07:spoofed-value-reaches-upstream", "client-supplied value "+leak+" reaches the upstream under a non-preserved name"
						case verdict == "not-flattened":
							sig, what = "c07:request-header-not-flattened", "values arrive on several lines instead of one comma-joined line"
						case h.Preserve && len(cl) > 0 && c07ContainsAny(obs, tokens) == "" && len(tokens) > 0 && style != 0:
							sig, what = "c07:preserved-value-lost", "the operator chose to preserve the client's values but they are gone"
						}
						run.Violation(sig, fmt.Sprintf("upstream header %s: %s (config %s, %s session %s, %s, spoof %s): got %q, expected %q", h.Name, what, cfg.Label, sess.Source, sess.Label, ep.Name, c07SpoofStyles[style], obs, c07Describe(exp)),
							wit("upstream-request", h.Name, exp, obs, ""))
					}
					// observations outside the property: response-only names and look-alikes pass through
					for _, h := range cfg.Resp {
						if !c07HasName(cfg.Req, h.Name) && len(c07Lines(up, h.Name)) > 0 && style != 0 {
							run.Count("observed_response_only_name_passes_to_upstream", 1)
						}
					}
					for k := range up {
						if strings.Contains(k, "_") {
							run.Count("observed_underscore_lookalike_passes_to_upstream", 1)
							break
						}
					}
				}
				run.SampleEvery(4001, func() interface{} {
					return map[string]interface{}{"config": cfg.Label, "flags": cfg.Flags, "session": sess.Label, "endpoint": ep.Name, "spoof": c07SpoofStyles[style], "status": resp.Code, "raw_request": vfTrunc(string(req.Bytes()), 700)}
				})
			}
		}
	}
}

func c07MatchAny(alts [][]c07Part, line string) bool {
	for _, a := range alts {
		if len(a) > 0 && c07MatchParts(a, line) {
			return true
		}
	}
	return false
}

// ---------------------------------------------------------------------------------------------------------

func c07UsesTimeClaim(c *c07Cfg) bool {
	for _, hs := range [][]c07Hdr{c.Req, c.Resp} {
		for _, h := range hs {
			for _, v := range h.Vals {
				if v.Claim == "created_at" || v.Claim == "expires_on" {
					return true
				}
			}
		}
	}
	return false
}

// c07FixedAlpha: structured configurations that do not depend on the seed, so that the combinations the property is
// most sensitive to are present in every run: time claims (with every session kind, including those without
// timestamps), non-canonical configured names with preserve on/off and strip-only entries, several values per header.
func c07FixedAlpha() []c07Cfg {
	cl := func(c string) c07Val { return c07Val{Kind: "claim", Claim: c} }
	out := []c07Cfg{
		{Label: "alpha-fixed-times", Bucket: "alpha|fixed|time-claims",
			Req: []c07Hdr{{Name: "X-Session-Created", Vals: []c07Val{cl("created_at")}}, {Name: "X-Session-Expires", Vals: []c07Val{{Kind: "claim", Claim: "expires_on", Prefix: "exp="}}},
				{Name: "x-session-both", Preserve: true, Vals: []c07Val{cl("user"), cl("created_at"), cl("expires_on")}}, {Name: "Authorization", Vals: []c07Val{{Kind: "claim", Claim: "created_at", Basic: true, Pw: "tpw", Src: "value"}}}},
			Resp: []c07Hdr{{Name: "X-Auth-Time", Vals: []c07Val{cl("created_at"), cl("expires_on")}}, {Name: "X-Auth-Request-User", Vals: []c07Val{cl("user")}}}},
		{Label: "alpha-fixed-noncanonical", Bucket: "alpha|fixed|noncanonical-names",
			Req: []c07Hdr{{Name: "x-custom-USER", Vals: []c07Val{cl("user")}}, {Name: "X-LOWER-upper", Preserve: true, Vals: []c07Val{cl("email")}}, {Name: "x-strip-only"},
				{Name: "X-fORWARDED-gROUPS", Vals: []c07Val{{Kind: "claim", Claim: "groups", Prefix: "grp:"}, {Kind: "secret", Secret: "static-1", Src: "value"}, cl("preferred_username")}}},
			Resp: []c07Hdr{{Name: "x-r-lower", Vals: []c07Val{cl("groups"), cl("email")}}, {Name: "X-Auth-Request-Preferred-Username", Vals: []c07Val{cl("preferred_username")}}}},
		{Label: "alpha-fixed-all-claims", Bucket: "alpha|fixed|all-claims",
			Req: []c07Hdr{{Name: "X-All", Vals: []c07Val{cl("user"), cl("email"), cl("groups"), cl("preferred_username"), cl("access_token"), cl("refresh_token"), cl("no_such_claim")}},
				{Name: "X-Id-Token", Vals: []c07Val{{Kind: "claim", Claim: "id_token", Prefix: "Bearer "}}}, {Name: "Authorization", Preserve: true, Vals: []c07Val{{Kind: "claim", Claim: "email", Basic: true, Pw: "from-file-pw", Src: "fromFile"}}}},
			Resp: []c07Hdr{{Name: "X-R-All", Vals: []c07Val{cl("user"), cl("groups"), {Kind: "secret", Secret: c07EnvSecret, Src: "fromEnv"}}}}},
	}
	out = append(out, c07Cfg{Label: "alpha-fixed-prefixes", Bucket: "alpha|fixed|prefixes",
		Req: []c07Hdr{{Name: "X-Groups", Vals: []c07Val{{Kind: "claim", Claim: "groups", Prefix: "oidc:"}}}, {Name: "X-User", Vals: []c07Val{{Kind: "claim", Claim: "user", Prefix: "x-"}}},
			{Name: "X-Email", Vals: []c07Val{{Kind: "claim", Claim: "email", Prefix: "m"}}}, {Name: "X-Pu", Vals: []c07Val{{Kind: "claim", Claim: "preferred_username", Prefix: "Bearer "}}},
			{Name: "X-Roles", Preserve: true, Vals: []c07Val{{Kind: "claim", Claim: "groups", Prefix: ":"}, {Kind: "claim", Claim: "groups", Prefix: "role/"}}},
			{Name: "Authorization", Vals: []c07Val{{Kind: "claim", Claim: "id_token", Prefix: "Bearer "}}}},
		Resp: []c07Hdr{{Name: "X-Auth-Request-Groups", Vals: []c07Val{{Kind: "claim", Claim: "groups", Prefix: "oidc:"}}}, {Name: "X-Auth-Request-User", Vals: []c07Val{{Kind: "claim", Claim: "user", Prefix: "x-"}}},
			{Name: "X-Auth-Request-Preferred-Username", Vals: []c07Val{{Kind: "claim", Claim: "preferred_username", Prefix: "g"}}}}})
	for k := range out {
		out[k].Kind = "alpha"
	}
	return out
}

func c07Configs(run *vfRun) []c07Cfg {
	var cfgs []c07Cfg
	rng := rand.New(rand.NewSource(run.Env.Seed*104729 + 7))
	// legacy flag vectors: all 2^9 with and without password (thorough) / covering sample of 64 (quick)
	var vectors [][2]int // bits, pw?
	if run.Env.Thorough() {
		for bits := 0; bits < 512; bits++ {
			vectors = append(vectors, [2]int{bits, 0}, [2]int{bits, 1})
		}
	} else {
		seen := map[int]bool{}
		def := 1<<0 | 1<<1 | 1<<8 // the defaults: pass-user-headers, pass-basic-auth, skip-auth-strip-headers
		for _, b := range []int{def, def | 1<<7, 0, 1 << 8, 0x1ff &^ (1<<3 | 1<<6), 0xff &^ (1<<1 | 1<<5)} {
			seen[b] = true
			vectors = append(vectors, [2]int{b, len(vectors) % 2})
		}
		for len(vectors) < 64 {
			b := rng.Intn(512)
			if seen[b] {
				continue
			}
			pw := rng.Intn(2)
			if c07LegacyRef(c07LegacyFromBits(b, strings.Repeat("x", pw))).ExpectRejected && rng.Intn(10) != 0 {
				continue // configurations the proxy refuses to start with: a few are kept in the sample, not a third of it
			}
			seen[b] = true
			vectors = append(vectors, [2]int{b, pw})
		}
	}
	for k, v := range vectors {
		pw := ""
		if v[1] == 1 {
			pw = []string{"bpw", "p:w 1", "pässwörd"}[k%3]
		}
		c := c07LegacyRef(c07LegacyFromBits(v[0], pw))
		c.Label = fmt.Sprintf("legacy-%03x-pw%d", v[0], v[1])
		cfgs = append(cfgs, c)
	}
	n := 0
	cfgs = append(cfgs, c07FixedAlpha()...)
	for k := 0; k < run.Env.Pick(40, 200); k++ {
		cfgs = append(cfgs, c07AlphaCfg(rng, k, &n))
	}
	// htpasswd users on a bounded number of instances (inotify instances are a scarce per-user resource)
	// Priority: configurations that inject a time claim (sessions without timestamps exist only for htpasswd users),
	// then prefer-email configurations (the user name stands in for the e-mail), then every n-th.
	budget, every := run.Env.Pick(16, 32), run.Env.Pick(9, 45)
	give := func(k int) {
		if budget <= 0 || cfgs[k].ExpectRejected || cfgs[k].Htpasswd {
			return
		}
		budget--
		cfgs[k].Htpasswd = true
		if k%2 == 0 {
			cfgs[k].HtGroups = []string{"hg1", "hg 2"}
			cfgs[k].Flags = append(cfgs[k].Flags, "--htpasswd-user-group=hg1", "--htpasswd-user-group=hg 2")
		}
	}
	nTime := 0
	for k := range cfgs {
		cfgs[k].Flags = append(cfgs[k].Flags, "--skip-auth-route=^/open/", "--skip-jwt-bearer-tokens=true")
		if c07UsesTimeClaim(&cfgs[k]) && nTime < run.Env.Pick(7, 14) {
			nTime++
			give(k)
		}
	}
	nPE := 0
	for k := range cfgs {
		if cfgs[k].PreferEmail && !cfgs[k].ExpectRejected && nPE < run.Env.Pick(4, 8) && k%2 == 0 {
			nPE++
			give(k)
		}
	}
	for k := range cfgs {
		if k%every == 0 {
			give(k)
		}
	}
	return cfgs
}


// ---------------------------------------------------------------------------------------------------------
// concurrent phase: the header injector is built once at start-up and called from every request goroutine. Several
// users (names of different lengths) hammer the same instance at the same time; every single request must carry the
// rendering of ITS OWN session, at the upstream and on /oauth2/auth.

func c07ConcurrentCfgs() []c07Cfg {
	cl := func(c string) c07Val { return c07Val{Kind: "claim", Claim: c} }
	a := c07LegacyRef(c07Legacy{PassUser: true, PassBasic: true, PassAT: true, SetX: true, SetBasic: true, Strip: true, Pw: "conc-pw"})
	a.Label = "conc-legacy-basic"
	// (no --prefer-email-to-user here: its known X-Forwarded-Email pass-through belongs to the sequential sweep)
	b := c07LegacyRef(c07Legacy{PassUser: true, PassAT: true, PassAuthz: true, SetX: true, SetAuthz: true, Strip: true})
	b.Label = "conc-legacy-bearer"
	c := c07Cfg{Kind: "alpha", Label: "conc-alpha-basic-values",
		Req: []c07Hdr{
			{Name: "Authorization", Vals: []c07Val{{Kind: "claim", Claim: "email", Basic: true, Pw: "file-pw", Src: "fromFile"}}},
			{Name: "X-Multi-Basic", Vals: []c07Val{{Kind: "claim", Claim: "groups", Basic: true, Pw: "gpw", Src: "value"}, {Kind: "claim", Claim: "user", Prefix: "u="}, {Kind: "secret", Secret: "static-c", Src: "value"}}},
			{Name: "X-Forwarded-User", Vals: []c07Val{cl("user")}},
			{Name: "x-forwarded-GROUPS", Vals: []c07Val{{Kind: "claim", Claim: "groups", Prefix: "grp:"}}},
			{Name: "X-Pu-Basic", Preserve: true, Vals: []c07Val{{Kind: "claim", Claim: "preferred_username", Basic: true, Prefix: "Basic ", Pw: c07EnvSecret, Src: "fromEnv"}}},
			{Name: "X-Session-Created", Vals: []c07Val{cl("created_at")}}},
		Resp: []c07Hdr{
			{Name: "Authorization", Vals: []c07Val{{Kind: "claim", Claim: "user", Basic: true, Pw: "rpw", Src: "value"}}},
			{Name: "X-Auth-Request-Groups", Vals: []c07Val{cl("groups")}},
			{Name: "X-Auth-Request-Email", Vals: []c07Val{{Kind: "claim", Claim: "email", Prefix: "mailto:"}}}}}
	out := []c07Cfg{a, b, c}
	for k := range out {
		out[k].Bucket = "concurrent|" + out[k].Label
		out[k].Flags = append(out[k].Flags, "--skip-auth-route=^/open/", "--skip-jwt-bearer-tokens=true")
	}
	return out
}

// c07ConcurrentUsers: distinct users whose names, e-mails, group lists and tokens all differ in length.
func c07ConcurrentUsers(run *vfRun, w *vfWorld, p *vfProxy, inst int, book *c07TokenBook) []*c07Sess {
	var out []*c07Sess
	for k := 0; k < 8; k++ {
		name := strings.Repeat(string(rune('a'+k)), 2+5*k)
		sub := fmt.Sprintf("%s#c%d", name, inst)
		var groups []string
		for g := 0; g < k; g++ {
			groups = append(groups, fmt.Sprintf("%s-grp%d", name[:2], g))
		}
		id := vfIdentity{Sub: sub, Email: name + "@" + strings.Repeat("x", 1+k) + ".example.com", PreferredUsername: strings.ToUpper(name[:1+k/2]) + "-pu", Groups: groups, Profile: map[string]interface{}{"sub": sub}}
		if k == 3 {
			id.PreferredUsername = ""
		}
		b := vfNewBrowser("")
		if _, _, err := b.Login(p, id, "/"); err != nil {
			run.Inconclusive("concurrent phase: login failed")
			continue
		}
		tk, ok := book.get(sub)
		if !ok {
			run.Inconclusive("concurrent phase: no tokens recorded")
			continue
		}
		out = append(out, &c07Sess{Label: fmt.Sprintf("conc-cookie-%d", k), Source: "cookie", Class: "concurrent-user", HasSession: true, User: sub, Email: id.Email, PU: id.PreferredUsername, Groups: groups,
			AT: tk.AT, IDT: tk.IDT, RT: tk.RT, Created: "one", Expires: "one", Cookie: vfCookieHeader(b.Jar.For("proxy.test", "/", false))})
	}
	now := time.Now()
	for k := 0; k < 2; k++ {
		sub := fmt.Sprintf("svc-%s#c%d", strings.Repeat("z", 3+9*k), inst)
		claims := map[string]interface{}{"sub": sub, "email": fmt.Sprintf("svc%d@bearer.example.com", k), "groups": []string{"m" + fmt.Sprint(k), "shared"},
			"iss": w.IdP.Issuer, "aud": "cid", "iat": now.Unix(), "exp": now.Add(2 * time.Hour).Unix()}
		tok := vfMint(claims, vfMintOpts{})
		out = append(out, &c07Sess{Label: fmt.Sprintf("conc-bearer-%d", k), Source: "bearer", Class: "concurrent-user", HasSession: true, User: sub, Email: claims["email"].(string),
			Groups: []string{"m" + fmt.Sprint(k), "shared"}, AT: tok, IDT: tok, Created: "any", Expires: "one", Authz: "Bearer " + tok})
	}
	return out
}

type c07ConcFail struct {
	sess     *c07Sess
	req      *vfReq
	ep, side string
	h        c07Hdr
	client   []string
	obs      []string
	exp      [][]c07Part
	other    string
	leak     string
	wire     bool
}

func c07ConcurrentPhase(run *vfRun, t *testing.T) {
	w := vfNewWorld(t)
	defer w.Close()
	book := &c07TokenBook{m: map[string]c07Tokens{}}
	w.IdP.Set(func(c *vfIdPCfg) { c.TokenResponseMutate = book.hook })
	cfgs := c07ConcurrentCfgs()
	proxies := make([]*vfProxy, len(cfgs))
	for k := range cfgs {
		c07Materialize(w, &cfgs[k], "")
		var err error
		if cfgs[k].Kind == "alpha" {
			proxies[k], err = w.NewProxyRaw(cfgs[k].YAML, cfgs[k].Flags)
		} else {
			proxies[k], err = w.NewProxy(cfgs[k].Flags...)
		}
		if err != nil {
			t.Fatalf("concurrent phase: config %s does not build: %v", cfgs[k].Label, err)
		}
		proxies[k].Server()
	}
	perUser := run.Env.Pick(300, 1500)
	endpoints := []struct{ Name, Target string }{{"proxied", "/app/x?q=1"}, {"auth-only", "/oauth2/auth"}, {"bypassed", "/open/x"}}
	reported := 0
	for k := range cfgs {
		cfg, p := &cfgs[k], proxies[k]
		users := c07ConcurrentUsers(run, w, p, 9000+k, book)
		if len(users) < 8 {
			run.Inconclusive("concurrent phase: fewer than 8 users")
			continue
		}
		spoofNames := append([]string{}, c07Names(cfg.Req)...)
		var mu sync.Mutex
		var fails []c07ConcFail
		start := make(chan struct{})
		var wg sync.WaitGroup
		for ui, u := range users {
			wg.Add(1)
			go func(ui int, sess *c07Sess) {
				defer wg.Done()
				<-start
				for i := 0; i < perUser; i++ {
					ep := endpoints[(i+ui)%3]
					id := fmt.Sprintf("c07c-%d-%d-%d", k, ui, i)
					req := vfNewReq("GET", ep.Target, "X-Vf-Id", id)
					if sess.Cookie != "" {
						req.H("Cookie", sess.Cookie)
					}
					client, tokens, _ := c07Spoof(req, []int{0, 1, 3, 11}[i%4], spoofNames, sess, fmt.Sprintf("c%d.%d.%d", k, ui, i))
					wire := i%5 == 4
					var resp *vfResp
					if wire {
						resp = p.Wire(req)
					} else {
						resp = p.Do(req)
					}
					run.Count("concurrent_requests", 1)
					if resp.Panic != "" {
						run.Violation("c07:panic", "request handling panicked in the concurrent phase (config "+cfg.Label+")", map[string]interface{}{"flags": cfg.Flags, "yaml": cfg.YAML, "request": req, "panic": vfTrunc(resp.Panic, 3000), "stack": vfTrunc(resp.Stack, 3000)})
						continue
					}
					if resp.Err != "" {
						run.Inconclusive("concurrent phase: wire error")
						continue
					}
					run.Eval(fmt.Sprintf("%s|%s/%s|%s|concurrent", cfg.Bucket, sess.Source, sess.Class, ep.Name))
					check := func(side string, h c07Hdr, cl []string, obs []string) {
						exp := c07ExpectS(h, sess, cl)
						run.Count("concurrent_judged_names", 1)
						if c07Judge(exp, obs) == "" {
							return
						}
						other := ""
						for _, o := range users {
							if o != sess && c07Judge(c07ExpectS(h, o, cl), obs) == "" {
								other = o.Label + " (" + o.User + ")"
							}
						}
						mu.Lock()
						f := c07ConcFail{sess: sess, req: req, ep: ep.Name, side: side, h: h, client: cl, obs: obs, exp: exp, other: other, wire: wire}
						if !h.Preserve {
							f.leak = c07ContainsAny(obs, tokens)
						}
						fails = append(fails, f)
						mu.Unlock()
					}
					if ep.Name == "auth-only" {
						if resp.Code != 202 {
							run.Inconclusive(fmt.Sprintf("concurrent phase: auth-only status %d", resp.Code))
							continue
						}
						for _, h := range cfg.Resp {
							check("auth-response", c07Hdr{Name: h.Name, Vals: h.Vals}, nil, c07Lines(resp.Header, h.Name))
						}
						continue
					}
					hits := w.Up.FindHit(id)
					if len(hits) != 1 {
						run.Inconclusive(fmt.Sprintf("concurrent phase: %d upstream hits (status %d)", len(hits), resp.Code))
						continue
					}
					for _, h := range cfg.Req {
						check("upstream-request", h, client[strings.ToLower(h.Name)], c07Lines(hits[0].Header, h.Name))
					}
				}
			}(ui, u)
		}
		close(start)
		wg.Wait()
		// every mismatch is re-executed alone: if the quiescent instance now renders the request's own user, concurrency
		// was the cause
		for _, f := range fails {
			run.Count("concurrent_mismatches", 1)
			if reported >= 6 {
				continue // enough witnesses of the class; keeps the race-detector verdict below visible
			}
			reported++
			id := fmt.Sprintf("c07c-re-%d-%d", k, reported)
			re := f.req.Clone()
			for i := range re.Headers {
				if re.Headers[i][0] == "X-Vf-Id" {
					re.Headers[i][1] = id
				}
			}
			resp := p.Do(re)
			var again []string
			if f.side == "auth-response" {
				again = c07Lines(resp.Header, f.h.Name)
			} else if hits := w.Up.FindHit(id); len(hits) == 1 {
				again = c07Lines(hits[0].Header, f.h.Name)
			}
			aloneOK := c07Judge(f.exp, again) == ""
			sig, what := "c07:request-header-values-differ", "values differ from the session's (also when the request is repeated alone)"
			if f.side == "auth-response" {
				sig = "c07:auth-response-header-values-differ"
			}
			if f.leak != "" && f.side == "upstream-request" {
				sig, what = "c07:spoofed-value-reaches-upstream", "client-supplied value "+f.leak+" reaches the upstream under a non-preserved name"
			} else if f.other != "" || aloneOK {
				sig = "c07:identity-of-another-request"
				what = "under concurrent load the header does not carry this request's own user"
				if f.other != "" {
					what += "; it is exactly the rendering of the concurrent user " + f.other
				} else {
					what += " (a mix); the same request repeated alone is rendered correctly"
				}
			}
			run.Violation(sig, fmt.Sprintf("%s header %s, config %s, session %s (%s), %s: %s: got %q, expected %q", f.side, f.h.Name, cfg.Label, f.sess.Label, f.sess.User, f.ep, what, f.obs, c07Describe(f.exp)),
				c07Witness{Config: *cfg, Session: f.sess, Endpoint: f.ep, SpoofStyle: "concurrent", Request: f.req, RawRequest: string(f.req.Bytes()), Header: f.h.Name, Side: f.side,
					Expected: c07Describe(f.exp), Observed: f.obs, Note: what,
					Extra: map[string]interface{}{"concurrent_users": len(users), "requests_per_user": perUser, "driver_wire": f.wire, "same_request_alone": again, "matches_other_user": f.other}})
		}
		w.Up.Reset()
	}
}

func TestVerif_C07(t *testing.T) {
	run := vfNewRun(t, "C07", "exploration")
	run.SetRule("configurations: legacy header flags (all 2^9 vectors x password on/off in thorough, covering sample of 64 in quick) + 3 fixed and 40/200 seeded random structured header lists via alpha config " +
		"(claim/prefix/basicAuthPassword/secret value|file|env, every claim incl. created_at/expires_on, preserve on/off, strip-only entries, non-canonical names, several values per header); " +
		"sessions: 8 cookie-login identities (fields empty/multi/Unicode/separators; quick: the standard one + a rotating 3) + up to 3 cookie identities and 1 bearer JWT whose user/e-mail/groups/preferred_username equal, start with (once, twice) or contain the prefixes THIS configuration uses, 3 bearer JWTs, htpasswd Basic + sign-in form (16/32 instances, those injecting time claims first), none, invalid cookie; " +
		"endpoints: proxied (methods rotate), bypassed (--skip-auth-route), /oauth2/auth (202/401), /oauth2/auth?allowed_groups=... (403); " +
		"12 client header styles over the wire (repeated on 2-3 lines with an EMPTY or blank-only first line and the value on the 2nd/3rd; canonical/lower/UPPER/mIxEd, x1-x3, comma-joined, case mix, as-configured + '_' look-alike, names listed in Connection on one line, on 2-3 Connection lines at every position, in Keep-Alive/Proxy-Connection/TE/Trailer/Upgrade; the hop-by-hop styles also over the direct driver); identities without user-id claim (session.User empty, e-mail set). " +
		"concurrent phase: 3 configurations with Basic-auth / prefix / plain / multi-valued injection x 10 users of different name lengths (8 cookie, 2 bearer) hammering the same instance simultaneously (300/1500 requests each), every request judged against its OWN session; race-detector reports in the injector are violations. " +
		"cell = (option bucket, session source/class, endpoint, spoof style); non-trivial = at least one header configured")
	run.Assume("header names configured only for responses, names not configured at all and look-alikes with '_' are counted, not judged",
		"pass-basic-auth without basic-auth-password: Authorization is not treated as a configured request name",
		"text of created_at / expires_on is not predicted (one non-empty value when the session has that timestamp; absent for htpasswd Basic sessions)",
		"X-Forwarded-Email under --prefer-email-to-user: injected value optional, client value must still be gone",
		"--prefer-email-to-user with a session that has no e-mail: the user-name header may carry the user name or nothing (counted)")
	os.Setenv(c07EnvName, c07EnvSecret)
	c07ConcurrentPhase(run, t)
	cfgs := c07Configs(run)
	if only := os.Getenv("VERIF_C07_ONLY"); only != "" { // developer aid: restrict the sweep to configurations whose label contains the text (the run then ends INCONCLUSIVE by its thresholds)
		var keep []c07Cfg
		for _, c := range cfgs {
			if strings.Contains(c.Label, only) {
				keep = append(keep, c)
			}
		}
		cfgs = keep
	}
	// Instances are built one after the other while nothing is being served (option loading and logger setup use
	// package-level state, exactly once per process in production), then driven in parallel. One world per batch.
	const batch = 64
	for lo := 0; lo < len(cfgs); lo += batch {
		hi := lo + batch
		if hi > len(cfgs) {
			hi = len(cfgs)
		}
		w := vfNewWorld(t)
		book := &c07TokenBook{m: map[string]c07Tokens{}}
		w.IdP.Set(func(c *vfIdPCfg) { c.TokenResponseMutate = book.hook })
		ht := c07HtpasswdFile(w)
		proxies := make([]*vfProxy, hi-lo)
		for inst := lo; inst < hi; inst++ {
			cfg := &cfgs[inst]
			c07Materialize(w, cfg, ht)
			var p *vfProxy
			var err error
			if cfg.Kind == "alpha" {
				p, err = w.NewProxyRaw(cfg.YAML, cfg.Flags)
			} else {
				p, err = w.NewProxy(cfg.Flags...)
			}
			if err != nil {
				switch {
				case strings.Contains(err.Error(), "header names must be unique") && cfg.ExpectRejected:
					run.Count("configs_rejected_duplicate_name", 1)
				case strings.Contains(err.Error(), "invalid basicAuthPassword") && cfg.ExpectRejected:
					run.Count("configs_rejected_set_basic_auth_without_password", 1)
				case strings.Contains(err.Error(), "watch") && cfg.Htpasswd:
					run.Inconclusive("htpasswd watcher unavailable")
				default:
					run.T.Errorf("config %s does not build: %v\nflags %v\n%s", cfg.Label, err, cfg.Flags, cfg.YAML)
				}
				continue
			}
			if cfg.ExpectRejected {
				run.Count("configs_built_although_rejection_expected_not_judged", 1)
				continue
			}
			run.Count("configs_"+cfg.Kind, 1)
			if cfg.Htpasswd {
				run.Count("configs_with_htpasswd", 1)
			}
			p.Server() // start the wire listener now
			proxies[inst-lo] = p
		}
		vfParallel(hi-lo, 16, func(i int) {
			if proxies[i] == nil {
				return
			}
			inst := lo + i
			sessions := c07BuildSessions(run, w, proxies[i], &cfgs[inst], inst, book)
			c07Drive(run, w, proxies[i], &cfgs[inst], inst, sessions)
		})
		w.Close()
	}
	if run.Counter("judged_request_names") < 2000 || run.Counter("judged_response_names") < 300 || run.Counter("judged_preserved_names") < 200 || run.Counter("spoof_lines_sent") < 5000 {
		run.Inconclusive("too few judged header names")
		run.Count("too_few_names", 1)
		fmt.Printf("INCONCLUSIVE property=C07 reason=too few header names judged %v\n", []int64{run.Counter("judged_request_names"), run.Counter("judged_response_names"), run.Counter("judged_preserved_names")})
		t.Fail()
	}
	if run.Counter("first_line_empty_requests") < int64(run.Env.Pick(800, 20000)) {
		fmt.Printf("INCONCLUSIVE property=C07 reason=too few requests with an empty first header line (%d)\n", run.Counter("first_line_empty_requests"))
		t.Fail()
	}
	if run.Counter("sessions_without_user") < int64(run.Env.Pick(60, 400)) || run.Counter("hop_by_hop_requests_wire") < int64(run.Env.Pick(800, 20000)) || run.Counter("hop_by_hop_requests_direct") < int64(run.Env.Pick(800, 20000)) {
		fmt.Printf("INCONCLUSIVE property=C07 reason=too few sessions without user (%d) or hop-by-hop requests (wire %d, direct %d)\n", run.Counter("sessions_without_user"), run.Counter("hop_by_hop_requests_wire"), run.Counter("hop_by_hop_requests_direct"))
		t.Fail()
	}
	if run.Counter("sessions_correlated_with_prefix") < int64(run.Env.Pick(30, 150)) {
		fmt.Printf("INCONCLUSIVE property=C07 reason=too few sessions correlated with a configured prefix (%d)\n", run.Counter("sessions_correlated_with_prefix"))
		t.Fail()
	}
	if run.Counter("concurrent_requests") < int64(run.Env.Pick(5000, 25000)) || run.Counter("concurrent_judged_names") < int64(run.Env.Pick(15000, 75000)) {
		fmt.Printf("INCONCLUSIVE property=C07 reason=concurrent phase observed too little (%d requests, %d names)\n", run.Counter("concurrent_requests"), run.Counter("concurrent_judged_names"))
		t.Fail()
	}
	run.RaceCheck("c07:data-race", "pkg/header/", "pkg/middleware/headers.go")
	run.Finish(int64(run.Env.Pick(6000, 100000)), run.Env.Pick(400, 1500))
}
