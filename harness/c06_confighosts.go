//go:build verif

package main

// C06 — configuration-derived hosts as redirect targets.
//
// The statement allows exactly two kinds of origin: the host the request was made to and what --whitelist-domain permits.
// Every OTHER host the proxy knows from its own configuration — the identity provider's issuer / login / redeem / JWKS /
// profile / validate hosts, the upstreams, the session store, the --redirect-url host, the cookie domains — is a foreign host
// as far as redirects are concerned ("the IdP is trusted, so rd=https://<idp>/... is fine" is an open redirect through the
// IdP's own redirectors and user content). The adversarial grammar is built from fixed test names, which can never coincide
// with a host that only exists in the instance's configuration (the rig's IdP and upstreams listen on 127.0.0.1:<random port>).
//
// Workload: for every instance the channels address, the hosts are read from the instance's own FLAGS (every value that is an
// absolute URL contributes its host[:port], every --cookie-domain its name and a sub-domain of it) — nothing is hard-wired to
// a particular option. A case is a TEMPLATE "{{cfgK}}<form>": the K-th configuration host of the addressed instance put into
// one of c06CfgForms (absolute http/https, scheme-relative, with / without / with another port, userinfo, backslash and
// whitespace authority tricks, upper case, trailing dot, sub-domain). Templates are a pure function of the tier; the concrete
// host (random port) is substituted when the request is built, and witnesses carry the template so that --replay works in a
// new world. Two instance families: the ordinary ones (issuer and upstream on 127.0.0.1:<port> — the IP:port form) and a
// configuration-rich one (c06RichFlags: static endpoints with a NAMED authorization host, other names for profile / validate /
// redirect-url / a second upstream, two cookie domains, redis session store) — the DNS-name form. Every template goes through
// every cheap channel, the core forms through the login channels too, under all 8 whitelist configurations.
//
// Oracle: unchanged (c06Verdict on what comes back: own host, whitelisted, navigation failure — or a violation).

import (
	"fmt"
	"net/url"
	"strconv"
	"strings"
)

const c06CfgMaxHosts = 14

// <HP> host[:port] exactly as configured, <H> the host name alone, <UHP> upper-cased host[:port]
var c06CfgForms = []string{
	// core forms (also through the login channels)
	"https://<HP>/", "http://<HP>/", "//<HP>/", "https://<H>/", "http://<H>/", "//<H>", "https://<HP>/logout?post_logout_redirect_uri=https://evil.test/&x=1#f", "http://<HP>",
	// the rest: cheap channels
	"https://<HP>", "//<HP>", "//<HP>/x/../y", "https://<H>:443/", "http://<H>:80/", "https://<H>:8443/", "http://<H>:4180/x", "//<H>:8443",
	"https://user@<HP>/", "https://proxy.test@<HP>/", "http://good.test:x@<HP>/p", "https://<UHP>/", "HTTPS://<HP>/", "https://<HP>./", "https://sub.<HP>/",
	"/\\<HP>/", "\\\\<HP>/", "/\t/<HP>/", "https:<HP>/", "https:/<HP>/", "https:\\\\<HP>/", "https://<HP>\\@proxy.test/", "https://<HP>?@proxy.test/", "https://<HP>#@good.test/",
	"https://<HP>:/", "https://proxy.test/../../<HP>/", "https://good.test.<HP>/",
}

const c06CfgCoreForms = 8

func c06IsCfgTemplate(s string) bool { return strings.HasPrefix(s, "{{cfg") }

func c06CfgTemplate(k int, form string) string { return fmt.Sprintf("{{cfg%d}}%s", k, form) }

// c06CfgTemplates: all (host index, form) templates; core says which also go through the login channels.
func c06CfgTemplates() (all []string, core map[string]bool) {
	core = map[string]bool{}
	for k := 0; k < c06CfgMaxHosts; k++ {
		for i, f := range c06CfgForms {
			t := c06CfgTemplate(k, f)
			all = append(all, t)
			if i < c06CfgCoreForms {
				core[t] = true
			}
		}
	}
	return all, core
}

func c06FlagValue(p *vfProxy, name string) string {
	v := ""
	for _, f := range p.Flags {
		if strings.HasPrefix(f, name+"=") {
			v = f[len(name)+1:]
		}
	}
	return v
}

type c06CfgHost struct{ HostPort, Source string }

// c06CfgHostsOf: the hosts that occur in the instance's configuration (flag order, first mention wins), the whitelist itself
// excepted: it is what the oracle judges by.
func c06CfgHostsOf(p *vfProxy) []c06CfgHost {
	var out []c06CfgHost
	seen := map[string]bool{}
	add := func(h, src string) {
		h = strings.ToLower(h)
		if h != "" && !seen[h] {
			seen[h] = true
			out = append(out, c06CfgHost{h, src})
		}
	}
	for _, f := range p.Flags {
		k := strings.IndexByte(f, '=')
		if k < 0 || !strings.HasPrefix(f, "--") {
			continue
		}
		name, val := f[:k], f[k+1:]
		if name == "--whitelist-domain" {
			continue
		}
		for _, v := range strings.Split(val, ",") {
			v = strings.TrimSpace(v)
			switch {
			case strings.Contains(v, "://"):
				if u, err := url.Parse(v); err == nil && u.Host != "" && u.Scheme != "file" {
					add(u.Host, name)
				}
			case name == "--cookie-domain" && v != "":
				d := strings.TrimPrefix(v, ".")
				add(d, name)
				add("sub."+d, name+" (a sub-domain)")
			}
		}
	}
	return out
}

// c06RichFlags: a configuration in which many different host names occur, none of them whitelisted by being there. The
// authorization endpoint is on a NAMED host (static endpoints, no discovery; no traffic ever goes to the names: the rig plays
// the browser, and token redemption / keys / userinfo stay on the world's IdP).
func c06RichFlags(w *vfWorld) []string {
	return []string{
		"--skip-oidc-discovery=true", "--login-url=https://login.idp.test/authorize", "--redeem-url=" + w.IdP.Issuer + "/token", "--oidc-jwks-url=" + w.IdP.Issuer + "/jwks",
		"--profile-url=" + w.IdP.Issuer + "/userinfo", // consulted for claims the ID token lacks: stays on the world's IdP
		"--validate-url=https://api.idp.test:8443/validate",
		"--redirect-url=https://public.proxy.test/oauth2/callback",
		"--cookie-domain=proxy.test", "--cookie-domain=.corp.test",
		"--upstream=" + w.Up.URL() + "/", "--upstream=http://backend.corp.test:8080/api/",
		"--session-store-type=redis", "--redis-connection-url=" + w.RedisURL(),
	}
}

// proxyFor: the instance a channel addresses (mirrors drive1 / cbFail).
func (cx *c06Ctx) proxyFor(ch string) *vfProxy {
	switch ch {
	case "so-rd", "so-xarr", "form-rd", "form-fail", "page-signin", "page-error", "page-403":
		return cx.H
	case "xf-so", "xf-so-rd", "xf-start", "start-rd-b64", "cb-state-b64":
		return cx.B
	case "path-login", "signin-skip":
		return cx.C
	}
	if c06IsCBFail(ch) && strings.HasSuffix(ch, "-b64") {
		return cx.B
	}
	return cx.A
}

// c06CfgConcrete makes a template concrete for instance p; ok=false when the instance has fewer configuration hosts.
func c06CfgConcrete(p *vfProxy, tmpl string) (string, c06CfgHost, bool) {
	end := strings.Index(tmpl, "}}")
	if !c06IsCfgTemplate(tmpl) || end < 0 {
		return "", c06CfgHost{}, false
	}
	k, err := strconv.Atoi(tmpl[len("{{cfg"):end])
	hosts := c06CfgHostsOf(p)
	if err != nil || k < 0 || k >= len(hosts) {
		return "", c06CfgHost{}, false
	}
	hp := hosts[k].HostPort
	h := hp
	if i := strings.LastIndexByte(hp, ':'); i >= 0 && !strings.HasSuffix(hp, "]") {
		h = hp[:i]
	}
	s := strings.NewReplacer("<UHP>", strings.ToUpper(hp), "<HP>", hp, "<H>", h).Replace(tmpl[end+2:])
	return s, hosts[k], true
}

func (cx *c06Ctx) driveCfg(a *c06Acc, ch, tmpl string, st *c06State) (bool, bool) {
	p := cx.proxyFor(ch)
	if p == nil {
		return false, false
	}
	in, host, ok := c06CfgConcrete(p, tmpl)
	if !ok {
		return false, false
	}
	fam := "ip-port-instances"
	if cx.Rich {
		fam = "named-host-instances"
	}
	logins := a.Counters["logins_completed"]
	if st != nil {
		st.hashKey = tmpl
	}
	kept, delivered := cx.drive1(a, ch, in, st)
	if st != nil {
		st.hashKey = ""
	}
	if !delivered {
		return kept, delivered
	}
	a.count("cfg_logins_completed["+fam+"]", a.Counters["logins_completed"]-logins)
	a.count("cfg_targets_driven", 1)
	a.count("cfg_targets_driven["+fam+"]", 1)
	a.count("cfg_host_source["+host.Source+"]", 1)
	if kept {
		a.count("cfg_targets_kept", 1) // the host is the request's own or whitelisted under this configuration: the target reached the validator intact
	}
	q := c06Quote(in)
	for i := range a.Viols {
		if d := &a.Viols[i].Detail; d.Input == q && d.Channel == ch && d.Template == "" {
			d.Template = tmpl
			d.Note = strings.TrimSpace(d.Note + " target host " + host.HostPort + " is taken from the instance's own configuration (" + host.Source + "), not from --whitelist-domain")
		}
	}
	return kept, delivered
}

// c06CfgPhase drives the share `shard` of the templates through the channels of cx (cheap channels: all; login channels: core forms).
func c06CfgPhase(cx *c06Ctx, acc *c06Acc, workers, shard, nShards int, sample func(string) bool) {
	all, core := c06CfgTemplates()
	var mine []string
	for i, t := range all {
		if i%nShards == shard && (sample == nil || sample(t)) {
			mine = append(mine, t)
		}
	}
	c06Chunks(len(mine), 32, workers, func(lo, hi int) {
		loc := c06NewAcc()
		st := &c06State{}
		for _, t := range mine[lo:hi] {
			for _, ch := range c06CheapChannels {
				cx.drive(loc, ch, t, st)
			}
			if core[t] {
				for _, ch := range c06LoginChannels {
					cx.drive(loc, ch, t, st)
				}
			}
		}
		acc.merge(loc)
	})
}
