//go:build verif

package main

// C17 workload: a case is a small value from which the exact wire request is regenerated (replayable).

import (
	"bytes"
	"fmt"
	"math/rand"
	"strings"
)

type c17Case struct {
	ID        string `json:"id"`
	Method    string `json:"method"`
	Path      string `json:"path"`  // escaped path as sent
	Query     string `json:"query"` // "" or "?..."
	Host      string `json:"host"`
	HdrClass  string `json:"hdr_class"`
	BodyKind  string `json:"body_kind"` // none | text | form | bin | empty-cl
	BodyLen   int    `json:"body_len"`
	BodySeed  int64  `json:"body_seed"`
	Chunked   bool   `json:"chunked"`
	Resp      int    `json:"resp_class"`
	WS        bool   `json:"ws,omitempty"` // WebSocket upgrade request (Connection: Upgrade, Upgrade: websocket)
	SlowUp    bool   `json:"slow_upload,omitempty"` // chunked upload written in 6 slices 300 ms apart
	Refresh   bool   `json:"refresh,omitempty"`     // own login, then wait past --cookie-refresh: this request refreshes the session
	PathClass string `json:"path_class"`
	QClass    string `json:"query_class"`
}

func (c *c17Case) Target() string { return c.Path + c.Query }

var c17AtomsCommon = []string{"a", "b"}
var c17AtomsMain = []string{"%2F", "%2f", "%2E", "%20", "+", ";", ":", "@", "%C3%A9", "~", "!", "$", "&", "'", "(", ")", "*", ",", "="}
var c17AtomsExtra = []string{"%3F", "%23", "%3B", "%25", "%2B", "%26", "%3D", "%40", "%3A", "%24", "%2C", "%21", "%41", "%7e", "%5B", "c", "1", "-", "_", "."}

func c17Atom(r *rand.Rand) string {
	switch k := r.Intn(100); {
	case k < 42:
		return c17AtomsCommon[r.Intn(len(c17AtomsCommon))]
	case k < 85:
		return c17AtomsMain[r.Intn(len(c17AtomsMain))]
	default:
		return c17AtomsExtra[r.Intn(len(c17AtomsExtra))]
	}
}

func c17Segment(r *rand.Rand) string {
	for {
		n := 1 + r.Intn(3)
		if r.Intn(3) == 0 {
			n = 1
		}
		var s string
		for k := 0; k < n; k++ {
			s += c17Atom(r)
		}
		if s == "." || s == ".." { // the encoded form must be normalised
			continue
		}
		return s
	}
}

func c17Tail(r *rand.Rand) string {
	n := r.Intn(4) // 0..3 further segments
	segs := make([]string, n)
	for k := range segs {
		segs[k] = c17Segment(r)
	}
	t := strings.Join(segs, "/")
	if n > 0 && r.Intn(3) == 0 {
		t += "/"
	}
	return t
}

func c17PathFrom(base, tail string) string {
	if strings.HasSuffix(base, "/") {
		return base + tail
	}
	if tail == "" {
		return base
	}
	return base + "/" + tail
}

func c17PathClass(esc string) string {
	dec, _ := c17Unescape(esc, false)
	up := strings.ToUpper(esc)
	switch {
	case c17CleanPath(esc) != esc:
		return "unclean-encoded"
	case c17CleanPath(dec) != dec:
		return "unclean-decoded"
	case strings.Contains(up, "%2F"):
		return "enc-slash"
	case strings.Contains(up, "%3F") || strings.Contains(up, "%23") || strings.Contains(up, "%25"):
		return "enc-delim"
	case c17Tag(esc) != dec:
		return "enc-reserved"
	case strings.ContainsAny(esc, "!*'()"):
		return "mark"
	case strings.ContainsAny(esc, ";:@$&,=+"):
		return "subdelim"
	case strings.Contains(up, "%C3%A9"):
		return "utf8"
	case strings.Contains(esc, "%"):
		return "enc-other"
	}
	return "plain"
}

type c17Q struct{ Class, Q string }

var c17Queries = []c17Q{
	{"none", ""}, {"none", ""}, {"none", ""}, {"empty", "?"}, {"plain", "?x=1"}, {"repeat", "?b=2&a=1&a=0&a=1"}, {"plus-space", "?q=a+b&r=a%20b&s=a%2Bb"},
	{"semicolon", "?a=1;b=2"}, {"semicolon", "?;"}, {"semicolon", "?x=1&d=x;y&z=2"}, {"bad-escape", "?c=%zz"}, {"bad-escape", "?x=1&d=%&e=%4"}, {"bad-escape", "?%zz=1&ok=1"},
	{"novalue", "?e"}, {"novalue", "?=v&k="}, {"ampersands", "?&&x=1&&"}, {"qmark", "?x=1?y=2"}, {"qmark", "?next=/a/b/?z"}, {"slashes", "?x=/../&y=//a/./b"},
	{"utf8", "?u=%C3%A9&%C3%A9=1"}, {"enc-reserved", "?k=%2F%2f%3F%23%26%3D%25"}, {"brackets", "?a[]=1&a[]=2"}, {"mixed-malformed", "?c=%zz&d=x;y&e&ok=1"},
	{"subdelims", "?a=!$'()*,:@"}, {"long", "?long=" + strings.Repeat("abcdefghij", 200)}, {"case", "?x=%2f&X=%2F&x=%2F"},
	{"rule-keys", "?added=0&k=mine&version=9&path=zz&fixed=0"},
}

var c17Methods = []string{"GET", "GET", "GET", "HEAD", "POST", "POST", "PUT", "PATCH", "DELETE", "OPTIONS"}

var c17HdrClasses = []string{"plain", "plain", "dups", "unusual", "hop", "spoof-identity", "xff", "no-ua-ae", "cookies", "forwarded", "conditional", "big", "expect-continue", "dups-identical"}

// c17Headers renders the header lines of a case (without Host, X-Vf-Id, X-Vf-Resp, body headers).
func c17Headers(c *c17Case, sessionCookie string) [][2]string {
	h := [][2]string{}
	add := func(kv ...string) {
		for k := 0; k+1 < len(kv); k += 2 {
			h = append(h, [2]string{kv[k], kv[k+1]})
		}
	}
	if c.HdrClass != "no-ua-ae" {
		add("User-Agent", "vf-client/1.0 (c17)", "Accept-Encoding", "gzip, br", "Accept", "text/html,*/*;q=0.8")
	}
	cookieDone := false
	switch c.HdrClass {
	case "dups":
		add("X-Dup", "1", "x-dup", "2", "X-DUP", "three, 3", "X-dup", "4", "Accept-Language", "en", "Accept-Language", "de;q=0.5", "Cache-Control", "no-cache", "Cache-Control", "no-store")
	case "dups-identical":
		// repeated lines with byte-identical values, mixed with distinct ones (documented folding keeps every value: a,a,b)
		add("X-Tag", "a", "X-Tag", "a", "X-Tag", "b", "x-tag", "a", "X-Forwarded-For", "10.0.0.1", "X-Forwarded-For", "10.0.0.1", "X-Forwarded-For", "10.0.0.2",
			"Accept-Language", "en", "Accept-Language", "en", "Via", "1.1 p", "Via", "1.1 p", "Via", "1.1 p", "X-Forwarded-Groups", "admins", "X-Forwarded-Groups", "admins",
			"X-Custom-User", "same", "X-Custom-User", "same", "X-Same", "", "X-Same", "", "X-Quoted", `"x"`, "X-Quoted", `"x"`, "X-Quoted", `"y"`)
	case "unusual":
		add("X_Under_Score", "u", "x-lower", "l", "X-UPPER", "U", "X.Dot", "d", "X~Tilde!#$%&'*+^|", "t", "X-Empty", "", "X-Spaces", "  padded \t inner  ", "X-Utf8", "caf\xc3\xa9", "X-Punct", `a=b;c="d,e"\f`, "1-Digit", "1")
	case "hop":
		add("Keep-Alive", "timeout=5", "Proxy-Authorization", "Basic eDp5", "Te", "deflate", "Upgrade", "foo/2", "Proxy-Connection", "keep-alive", "Connection", "X-Listed", "X-Listed", "must-go", "X-Kept", "stays")
	case "spoof-identity":
		add("X-Forwarded-User", "mallory", "X-Forwarded-Email", "mallory@evil.example", "X-Forwarded-Groups", "admin", "X-Forwarded-Preferred-Username", "root", "X-Custom-User", "mallory", "X-Custom-Email", "m@e", "Authorization", "Bearer not.a.jwt")
	case "xff":
		add("X-Forwarded-For", "198.51.100.1", "X-Forwarded-For", "10.0.0.1, 10.0.0.2", "X-Real-Ip", "198.51.100.9")
	case "cookies":
		add("Cookie", "first=1; theme=dark")
		add("Cookie", sessionCookie+"; last=z")
		add("Cookie", "third=3")
		cookieDone = true
	case "forwarded":
		add("X-Forwarded-Host", "public.example", "X-Forwarded-Proto", "https", "X-Forwarded-Uri", "/elsewhere?x=1", "Forwarded", "for=192.0.2.60;proto=http;by=203.0.113.43", "Via", "1.1 edge", "Origin", "https://o.example", "Referer", "https://r.example/p?q=1")
	case "conditional":
		add("If-None-Match", `"abc", W/"def"`, "If-Modified-Since", "Sat, 29 Oct 1994 19:43:31 GMT", "Authorization", "Basic dXNlcjpwYXNz", "Access-Control-Request-Method", "PUT", "Access-Control-Request-Headers", "x-a, x-b")
	case "expect-continue":
		if c.BodyKind != "none" && c.BodyKind != "" {
			add("Expect", "100-continue")
		}
	case "big":
		add("X-Big", strings.Repeat("0123456789", 400), "X-Big-2", strings.Repeat("z", 2000))
	case "upg-h2c": // RFC 7540 §3.2 offer: an ordinary request that may be answered as it stands
		add("Connection", "keep-alive, Upgrade, HTTP2-Settings", "Upgrade", "h2c", "HTTP2-Settings", "AAMAAABkAAQCAAAAAAIAAAAA", "X-Kept", "stays")
	case "upg-tls": // RFC 2817 offer
		add("Connection", "Upgrade", "Upgrade", "TLS/1.0", "X-Kept", "stays")
	case "upg-foo":
		add("X-Kept", "stays", "Connection", "upgrade", "Upgrade", "foo/2, bar")
	case "upg-noconn": // an Upgrade field the Connection field does not list is no upgrade request at all
		add("Connection", "keep-alive", "Upgrade", "websocket", "X-Kept", "stays")
	}
	if !cookieDone && c.HdrClass == "dups-identical" {
		add("Cookie", "pref=1", "Cookie", sessionCookie, "Cookie", "pref=1")
		cookieDone = true
	}
	if !cookieDone {
		add("Cookie", sessionCookie)
	}
	if c.WS {
		add("Connection", "Upgrade", "Upgrade", "websocket", "Sec-WebSocket-Key", "dGhlIHNhbXBsZSBub25jZQ==", "Sec-WebSocket-Version", "13", "Sec-WebSocket-Protocol", "chat, superchat", "Origin", "http://proxy.test")
	}
	return h
}

func c17Body(c *c17Case) []byte {
	switch c.BodyKind {
	case "none", "empty-cl", "":
		return nil
	case "form":
		var b bytes.Buffer
		r := rand.New(rand.NewSource(c.BodySeed))
		for b.Len() < c.BodyLen {
			if b.Len() > 0 {
				b.WriteByte('&')
			}
			fmt.Fprintf(&b, "k%d=%s", r.Intn(50), vfQueryEscape(fmt.Sprintf("v %d/é+&=", r.Int63())))
		}
		return b.Bytes()
	case "text":
		r := rand.New(rand.NewSource(c.BodySeed))
		b := make([]byte, c.BodyLen)
		const al = "abcdefghijklmnopqrstuvwxyz 0123456789\n{}\":,"
		for i := range b {
			b[i] = al[r.Intn(len(al))]
		}
		return b
	default: // bin
		r := rand.New(rand.NewSource(c.BodySeed))
		b := make([]byte, c.BodyLen)
		_, _ = r.Read(b)
		return b
	}
}

func c17ContentType(c *c17Case) string {
	switch c.BodyKind {
	case "form":
		return "application/x-www-form-urlencoded"
	case "text":
		return "text/plain; charset=utf-8"
	case "bin":
		return "application/octet-stream"
	}
	return ""
}

func c17ChunkEncode(body []byte, seed int64) []byte {
	r := rand.New(rand.NewSource(seed))
	var b bytes.Buffer
	for len(body) > 0 {
		n := 1 + r.Intn(16384)
		if n > len(body) {
			n = len(body)
		}
		fmt.Fprintf(&b, "%x\r\n", n)
		b.Write(body[:n])
		b.WriteString("\r\n")
		body = body[n:]
	}
	b.WriteString("0\r\n\r\n")
	return b.Bytes()
}

// c17Request renders the wire request of a case.
func c17Request(c *c17Case, sessionCookie string) (*vfReq, []byte) {
	req := vfNewReq(c.Method, c.Target()).WithHost(c.Host)
	req.Headers = append(req.Headers, c17Headers(c, sessionCookie)...)
	req.H("X-Vf-Id", c.ID).H("X-Vf-Resp", fmt.Sprint(c.Resp))
	body := c17Body(c)
	if ct := c17ContentType(c); ct != "" {
		req.H("Content-Type", ct)
	}
	switch {
	case c.Chunked:
		req.H("Transfer-Encoding", "chunked")
		req.Body = c17ChunkEncode(body, c.BodySeed)
	case c.BodyKind == "empty-cl":
		req.H("Content-Length", "0")
	default:
		req.Body = body
	}
	return req, body
}

func c17BodyClass(c *c17Case) string {
	if c.BodyKind == "none" || c.BodyKind == "empty-cl" {
		return c.BodyKind
	}
	size := "small"
	switch {
	case c.BodyLen == 0:
		size = "zero"
	case c.BodyLen >= 1<<20:
		size = "1MiB"
	case c.BodyLen >= 32<<10:
		size = "large"
	}
	fr := "cl"
	if c.Chunked {
		fr = "chunked"
	}
	return c.BodyKind + "-" + size + "-" + fr
}

func c17RandBody(r *rand.Rand, c *c17Case, thorough bool) {
	c.BodySeed = r.Int63()
	hasBody := c.Method == "POST" || c.Method == "PUT" || c.Method == "PATCH" || (c.Method == "DELETE" && r.Intn(3) == 0) || (c.Method == "GET" && r.Intn(25) == 0)
	if !hasBody {
		c.BodyKind = "none"
		return
	}
	switch k := r.Intn(100); {
	case k < 6:
		c.BodyKind = "empty-cl"
		return
	case k < 45:
		c.BodyKind = "form"
	case k < 70:
		c.BodyKind = "text"
	default:
		c.BodyKind = "bin"
	}
	big := 1
	if thorough {
		big = 2
	}
	switch k := r.Intn(200); {
	case k < 4:
		c.BodyLen = 0
	case k < 4+big:
		c.BodyLen = 1 << 20
	case k < 14:
		c.BodyLen = 32<<10 + r.Intn(96<<10)
	case k < 60:
		c.BodyLen = 1000 + r.Intn(8000)
	default:
		c.BodyLen = 1 + r.Intn(300)
	}
	c.Chunked = r.Intn(3) == 0
	if c.BodyKind == "form" && c.BodyLen == 0 {
		c.BodyLen = 0
	}
}

var c17Hosts = []string{"proxy.test", "proxy.test", "proxy.test", "proxy.test:8443", "Other.Example", "[::1]:4180", "10.1.2.3"}

const c17RespClasses = 22 // 14..17 start with 103 Early Hints; 18..21 the upstream aborts (mid chunked body / before headers / short of its Content-Length / in the middle of its header block)

const c17RespPartialHead = 21

// response classes used only for WebSocket upgrade requests
const (
	c17RespTunnel  = 30 // 101 Switching Protocols, then a small dialogue through the tunnel
	c17RespRefuse  = 31 // plain 403, no protocol switch
	c17RespPlainOK = 32 // plain 200 with a body, no protocol switch
	c17RespCache   = 41 // cacheable answer: Cache-Control / Expires / Pragma / Vary / ETag / Last-Modified
	c17RespSlow    = 40 // headers at once, then 6 body chunks 300 ms apart (1.8 s in all)
)

// header classes carrying a protocol-upgrade offer that is NOT a WebSocket upgrade: ordinary requests
var c17UpgradeClasses = []string{"upg-h2c", "upg-tls", "upg-foo", "upg-noconn"}

// c17UpgradeOffer: the protocol list such a case offers in an Upgrade field its Connection field lists ("" = none).
func c17UpgradeOffer(c *c17Case) string {
	switch c.HdrClass {
	case "upg-h2c":
		return "h2c"
	case "upg-tls":
		return "TLS/1.0"
	case "upg-foo":
		return "foo/2, bar"
	}
	return ""
}

var c17WSHdrClasses = []string{"plain", "plain", "xff", "cookies", "forwarded", "unusual", "dups", "spoof-identity"}

func c17RandResp(r *rand.Rand) int {
	switch k := r.Intn(100); {
	case k < 40:
		return 0
	case k < 41:
		return 6 // 1 MiB
	default:
		for {
			n := 1 + r.Intn(c17RespClasses-1)
			if n != 6 {
				return n
			}
		}
	}
}

// c17CoreCases: routing enumeration — every path over segments {a,b} up to depth 4, with and without trailing slash,
// plus variants with one separator written %2F, the set's own bases, and each base with each query class.
func c17CoreCases(s *c17Set, thorough bool) []*c17Case {
	var paths []string
	paths = append(paths, "/")
	var rec func(prefix string, depth int)
	rec = func(prefix string, depth int) {
		if depth == 0 {
			return
		}
		for _, seg := range []string{"a", "b"} {
			p := prefix + "/" + seg
			paths = append(paths, p, p+"/")
			rec(p, depth-1)
		}
	}
	rec("", 4)
	n := len(paths)
	for i := 0; i < n; i++ {
		p := paths[i]
		if k := strings.LastIndex(strings.TrimSuffix(p, "/"), "/"); k > 0 {
			paths = append(paths, p[:k]+"%2F"+p[k+1:])
		}
	}
	if s.Light {
		paths = nil
	}
	paths = append(paths, s.Bases...)
	if !s.Tiny && !s.Refresh {
		paths = append(paths, c17ReservedSpellings(s)...)
	}
	var out []*c17Case
	for _, p := range paths {
		out = append(out, &c17Case{Method: "GET", Path: p, Host: "proxy.test", HdrClass: "plain", BodyKind: "none"})
	}
	if s.Refresh {
		var out []*c17Case
		for i, b := range s.Bases {
			for k, rc := range []int{c17RespCache, 1, 0, c17RespCache} {
				out = append(out, &c17Case{Method: []string{"GET", "POST", "HEAD"}[(i+k)%3], Path: c17PathFrom(b, fmt.Sprintf("fresh%d", k)), Query: []string{"", "?x=1"}[k%2], Host: "proxy.test", HdrClass: "plain", BodyKind: "none", Resp: rc, Refresh: true})
			}
		}
		return out
	}
	if s.Tiny {
		var out []*c17Case
		for i, b := range s.Bases {
			out = append(out, &c17Case{Method: "GET", Path: c17PathFrom(b, "x"), Host: "proxy.test", HdrClass: "plain", BodyKind: "none"},
				&c17Case{Method: []string{"GET", "POST"}[i%2], Path: c17PathFrom(b, "slow%2Fstream"), Query: "?n=6", QClass: "plain", Host: "proxy.test", HdrClass: "plain", BodyKind: "none", Resp: c17RespSlow},
				&c17Case{Method: "POST", Path: c17PathFrom(b, "slow-upload"), Host: "proxy.test", HdrClass: "plain", BodyKind: "text", BodyLen: 6000, BodySeed: int64(i + 1), Chunked: true, SlowUp: true, Resp: 11})
		}
		return out
	}
	for i, b := range s.Bases { // repeated header lines with identical values
		out = append(out, &c17Case{Method: []string{"GET", "POST", "HEAD"}[i%3], Path: c17PathFrom(b, "tags"), Host: "proxy.test", HdrClass: "dups-identical", BodyKind: "none", Resp: i % 2 * 11})
	}
	for i, b := range s.Bases { // WebSocket upgrades and upstream aborts
		out = append(out, &c17Case{Method: "GET", Path: c17PathFrom(b, "socket%2Froom"), Query: "?x=1", QClass: "plain", Host: "proxy.test", HdrClass: "plain", BodyKind: "none", WS: true, Resp: c17RespTunnel + i%3})
		out = append(out, &c17Case{Method: "GET", Path: c17PathFrom(b, "ws/a%20b"), Query: []string{"", "?", "?e", "?q=a+b&r=%zz"}[i%4], QClass: "plain", Host: "proxy.test:8443", HdrClass: "xff", BodyKind: "none", WS: true, Resp: c17RespTunnel + (i+1)%3})
		out = append(out, &c17Case{Method: []string{"GET", "POST"}[i%2], Path: c17PathFrom(b, "abort"), Host: "proxy.test", HdrClass: "plain", BodyKind: "none", Resp: 18 + i%3})
	}
	for i, b := range s.Bases { // the upstream dies without answering (nothing sent / half a header block) under methods that must not be repeated
		for k := 0; k < 2; k++ {
			n := 2*i + k
			c := &c17Case{Method: []string{"POST", "PUT", "PATCH", "DELETE"}[n%4], Path: c17PathFrom(b, "once"), Query: []string{"", "?op=transfer&n=1"}[(n/4)%2], Host: "proxy.test", HdrClass: "plain", BodyKind: "none",
				Resp: []int{19, c17RespPartialHead}[(n/2)%2]}
			if c.Query != "" {
				c.QClass = "plain"
			}
			switch (n / 4) % 4 {
			case 1:
				c.BodyKind, c.BodyLen, c.BodySeed = "form", 60, int64(n)
			case 2:
				c.BodyKind, c.BodyLen, c.BodySeed, c.Chunked = "text", 3000, int64(n), true
			case 3:
				c.BodyKind, c.BodyLen, c.BodySeed = "bin", 40<<10, int64(n)
			}
			out = append(out, c)
		}
	}
	for i, b := range s.Bases { // protocol-upgrade offers other than WebSocket: ordinary requests
		cl := c17UpgradeClasses[i%len(c17UpgradeClasses)]
		out = append(out, &c17Case{Method: "GET", Path: c17PathFrom(b, "offer"), Query: []string{"?x=1", ""}[i%2], QClass: []string{"plain", ""}[i%2], Host: "proxy.test", HdrClass: cl, BodyKind: "none", Resp: []int{0, 11, 1}[i%3]})
		out = append(out, &c17Case{Method: "POST", Path: c17PathFrom(b, "offer/a%20b"), Query: "?k=mine&x=%2F", QClass: "plain", Host: "proxy.test:8443", HdrClass: c17UpgradeClasses[(i+1)%len(c17UpgradeClasses)], BodyKind: "form", BodyLen: 50, BodySeed: int64(i), Resp: 11})
	}
	for _, b := range s.Bases { // every file the harness created, under every base (only file upstreams will find them)
		isFile := false
		for _, d := range c17Decide(s.Ups, s.Raw, c17PathFrom(b, "plain.txt")) {
			isFile = isFile || (d.Kind == "upstream" && d.Up.Kind == "file")
		}
		if !isFile || !strings.HasSuffix(b, "/") {
			continue
		}
		names := c17FileNames()
		for _, name := range c17FileNames() { // the same files as seen from an upstream that serves a sub-directory
			for _, root := range []string{".well-known/", "sub/.dot/"} {
				if strings.HasPrefix(name, root) {
					names = append(names, strings.TrimPrefix(name, root))
				}
			}
		}
		for k, name := range names {
			for _, strict := range []bool{false, true} {
				out = append(out, &c17Case{Method: []string{"GET", "GET", "HEAD"}[(k+len(b))%3], Path: c17PathFrom(b, c17EscapeName(name, strict)), Host: "proxy.test", HdrClass: "plain", BodyKind: "none"})
			}
		}
	}
	for i, b := range s.Bases { // informational (1xx) responses before the final status
		out = append(out, &c17Case{Method: []string{"GET", "POST", "HEAD", "PUT"}[i%4], Path: c17PathFrom(b, "hint"), Host: "proxy.test", HdrClass: "plain", BodyKind: "none", Resp: 14 + i%4})
	}
	for _, b := range s.Bases {
		for _, t := range []string{"", "x", "a%2Fb", "a%20b+c;d", "a!b'(c)*", "q%3Fmark.txt", "plain.txt", "a%20b.txt"} {
			p := c17PathFrom(b, t)
			for qi, q := range c17Queries {
				if t != "" && ((thorough && qi%4 != len(t)%4) || (!thorough && qi%8 != len(t)%8)) {
					continue
				}
				m := "GET"
				if qi%5 == 1 {
					m = "POST"
				}
				c := &c17Case{Method: m, Path: p, Query: q.Q, QClass: q.Class, Host: "proxy.test", HdrClass: "plain", BodyKind: "none"}
				if m == "POST" {
					c.BodyKind, c.BodyLen, c.BodySeed = "form", 40, int64(qi)
				}
				out = append(out, c)
			}
		}
	}
	return out
}

// c17Spell writes p with some of its octets percent-encoded: pick(k) for the k-th octet that is not a slash says
// 0 = literal, 1 = upper-case hex, 2 = lower-case hex. An encoded slash is never produced (known finding for rewrite upstreams).
func c17Spell(p string, pick func(k int) int) string {
	var b strings.Builder
	k := 0
	for i := 0; i < len(p); i++ {
		if p[i] == '/' {
			b.WriteByte('/')
			continue
		}
		switch pick(k) {
		case 1:
			fmt.Fprintf(&b, "%%%02X", p[i])
		case 2:
			fmt.Fprintf(&b, "%%%02x", p[i])
		default:
			b.WriteByte(p[i])
		}
		k++
	}
	return b.String()
}

// c17OwnPaths: the paths the proxy answers itself under this set's configuration (literal spelling only).
func c17OwnPaths(s *c17Set) []string {
	prefix, ping, ready := s.Prefix, s.PingPath, s.ReadyPath
	if prefix == "" {
		prefix = "/oauth2"
	}
	if ping == "" {
		ping = "/ping"
	}
	if ready == "" {
		ready = "/ready"
	}
	return []string{ping, ready, "/robots.txt", prefix + "/sign_in", prefix + "/auth", prefix + "/userinfo", prefix + "/start", prefix + "/callback", prefix + "/sign_out", prefix + "/static/css/bulma.min.css"}
}

// c17ReservedSpellings: percent-encoded spellings of the proxy's own paths (configured and default ping / ready path,
// /robots.txt, the endpoints below the proxy prefix). Only the LITERAL path is the proxy's; a path that merely decodes
// to it is an ordinary path and is routed like any other. One octet (first, middle, last; upper and lower hex), every
// other octet and all octets encoded; the slash is never encoded.
func c17ReservedSpellings(s *c17Set) []string {
	own := map[string]bool{}
	for _, p := range c17OwnPaths(s) {
		own[p] = true
	}
	var out []string
	seen := map[string]bool{}
	staticTree := s.Prefix + "/static/"
	if s.Prefix == "" {
		staticTree = "/oauth2/static/"
	}
	for _, p := range append(c17OwnPaths(s), "/ping", "/ready") {
		n := len(p) - strings.Count(p, "/")
		for _, sp := range []string{
			c17Spell(p, func(k int) int { return map[bool]int{true: 1}[k == n-1] }),
			c17Spell(p, func(k int) int { return map[bool]int{true: 2}[k == 0] }),
			c17Spell(p, func(k int) int { return map[bool]int{true: 2}[k == n/2] }),
			c17Spell(p, func(k int) int { return map[bool]int{true: 1}[k == n/2+1] }),
			c17Spell(p, func(k int) int { return []int{0, 1, 0, 2}[k%4] }),
			c17Spell(p, func(k int) int { return 1 + k%2 }),
		} {
			// everything below the literal <prefix>/static/ is the proxy's own subtree (embedded files), however the rest is spelled
			if !seen[sp] && !own[sp] && sp != p && !strings.HasPrefix(sp, staticTree) {
				seen[sp] = true
				out = append(out, sp)
			}
		}
	}
	return out
}

func c17RandomCase(r *rand.Rand, s *c17Set, thorough bool) *c17Case {
	c := &c17Case{}
	base := s.Bases[r.Intn(len(s.Bases))]
	switch k := r.Intn(100); {
	case k < 3: // a few encoded-unclean targets (outside the property's quantifier; judged loosely)
		c.Path = c17PathFrom(base, []string{"./x", "../x", "x//y", "x/./y", "x/../y", "/x"}[r.Intn(6)])
	case k < 12 && (strings.Contains(base, "files") || strings.Contains(base, "docs") || strings.Contains(base, "/.")):
		names := []string{".well-known/security.txt", ".hidden.txt", "%2Ehidden.txt", "sub/.dot/x.txt", "sub/%2Edot/.inner", "...dots/y.txt", "a..b.txt", ".well-known/nope", ".nope/x", "security.txt", "x.txt", ".inner", "sub/%5Bx%5D%7By%7D%5Ez%7C.txt",
			"plain.txt", "a%20b.txt", "%C3%A9.txt", "a+b;c.txt", "~t@x,y.txt", "sub/x.txt", "big.bin", "A.txt", "%41.txt", "a=b&c.txt", "100%25.txt", "q%3Fmark.txt", "h%23ash.txt", "nope.txt", "a%2Bb%3Bc.txt", "plain.txt/"}
		c.Path = c17PathFrom(base, names[r.Intn(len(names))])
	default:
		c.Path = c17PathFrom(base, c17Tail(r))
	}
	q := c17Queries[r.Intn(len(c17Queries))]
	c.Query, c.QClass = q.Q, q.Class
	c.Method = c17Methods[r.Intn(len(c17Methods))]
	c.Host = c17Hosts[r.Intn(len(c17Hosts))]
	c.HdrClass = c17HdrClasses[r.Intn(len(c17HdrClasses))]
	if r.Intn(100) < 6 {
		c.HdrClass = c17UpgradeClasses[r.Intn(len(c17UpgradeClasses))]
	}
	c17RandBody(r, c, thorough)
	c.Resp = c17RandResp(r)
	if r.Intn(100) < 7 && !strings.Contains(c.Path, "big.bin") {
		c.WS, c.Method, c.BodyKind, c.BodyLen, c.Chunked = true, "GET", "none", 0, false
		c.HdrClass = c17WSHdrClasses[r.Intn(len(c17WSHdrClasses))]
		c.Resp = c17RespTunnel + r.Intn(3)
	}
	return c
}

func c17Finalize(cs []*c17Case, prefix string, s *c17Set) {
	for i, c := range cs {
		c.ID = fmt.Sprintf("%s-%d", prefix, i)
		c.PathClass = c17PathClass(c.Path)
		if c.QClass == "" {
			c.QClass = "none"
		}
		// Handlers that never read the request body (static, file, redirects, 404) make net/http close the connection
		// under a large unread upload, which can cut the response short on the client side — plain HTTP behaviour, not
		// relaying. Large uploads are therefore only sent where the reference expects an HTTP upstream.
		if c.BodyLen > 8<<10 {
			toHTTP := false
			for _, d := range c17Decide(s.Ups, s.Raw, c.Path) {
				if d.Kind == "upstream" && d.Up.Kind == "http" {
					toHTTP = true
				}
			}
			if !toHTTP {
				c.BodyLen = 1 + c.BodyLen%(8<<10)
			}
		}
		if strings.Contains(c.Path, "big.bin") && c.BodyKind != "none" {
			// an unread body + "Connection: close" + a 128 KiB answer: net/http closes 500 ms after its FIN, a client that is
			// slower than that under load sees a reset and a short body. Not sent.
			c.BodyKind, c.BodyLen, c.Chunked = "none", 0, false
		}
	}
}
