//go:build verif

package main

// C04, round 6:
//  - providers defined in the structured (alpha / YAML) configuration, including definitions that leave optional
//    oidcConfig fields out (audienceClaims, extraAudiences, emailClaim, groupsClaim, userIDClaim). The reference applies
//    the documented defaults (alpha_config.md: "By default `aud` claim is used for verification", e-mail claim `email`,
//    groups claim `groups`); the rule stays session => V(token). An instance that refuses every token in such a
//    configuration is fine ("created only from"), so nothing is demanded from valid tokens there (NoLiveness).
//  - profile fallback across refreshes: an IdP that serves some claims from the userinfo endpoint only (its ID tokens
//    lack them, at login and/or on refresh); after one and after two refreshes the session still carries the profile
//    endpoint's values for exactly those claims.

import (
	"fmt"
	"strings"
	"sync"
	"time"

	"github.com/oauth2-proxy/oauth2-proxy/v7/pkg/clock"
)

// c04AlphaYAML: a structured configuration whose injected request headers are the ones c04Observe reads; oidc holds the
// lines of the provider's oidcConfig (besides issuerURL), provider further lines of the provider entry.
func c04AlphaYAML(w *vfWorld, provider, oidc []string) string {
	hdr := func(name, claim, prefix string) string {
		s := "- name: " + name + "\n  values:\n  - claim: " + claim + "\n"
		if prefix != "" {
			s += "    prefix: \"" + prefix + "\"\n"
		}
		return s
	}
	y := "upstreamConfig:\n  upstreams:\n  - id: main\n    path: /\n    uri: " + w.Up.URL() + "\n" +
		"server:\n  BindAddress: \"-\"\n" +
		"injectRequestHeaders:\n" +
		hdr("X-Forwarded-User", "user", "") + hdr("X-Forwarded-Email", "email", "") + hdr("X-Forwarded-Groups", "groups", "") +
		hdr("X-Forwarded-Preferred-Username", "preferred_username", "") + hdr("X-Forwarded-Access-Token", "access_token", "") +
		hdr("Authorization", "id_token", "Bearer ") +
		"providers:\n- id: oidc\n  provider: oidc\n  clientID: cid\n  clientSecret: sec\n"
	for _, l := range provider {
		y += "  " + l + "\n"
	}
	y += "  oidcConfig:\n    issuerURL: " + w.IdP.Issuer + "\n"
	for _, l := range oidc {
		y += "    " + l + "\n"
	}
	return y
}

func c04AlphaConfigs(w *vfWorld, thorough bool) []*c04Cfg {
	iss := w.IdP.Issuer
	flags := []string{"--skip-jwt-bearer-tokens=true", "--cookie-refresh=1m"}
	claims := []string{"emailClaim: email", "groupsClaim: groups", "userIDClaim: email"}
	static := []string{"loginURL: " + iss + "/authorize", "redeemURL: " + iss + "/token", "profileURL: " + iss + "/userinfo"}
	mk := func(name string, provider, oidc []string, mod func(c *c04Cfg)) *c04Cfg {
		c := &c04Cfg{Name: name, Verifiers: []c04Verifier{{Issuer: iss, ClientID: "cid"}}, AudClaims: []string{"aud"}, EmailClaim: "email", GroupsClaim: "groups",
			Flags: flags, Alpha: c04AlphaYAML(w, provider, oidc), Light: true}
		if mod != nil {
			mod(c)
		}
		return c
	}
	with := func(a []string, more ...string) []string { return append(append([]string{}, a...), more...) }
	omitted := func(c *c04Cfg) { c.NoLiveness = true }
	cfgs := []*c04Cfg{
		// control: every field stated — must behave like "disc"
		mk("alpha-all-stated", nil, with(claims, "audienceClaims: [aud]", "extraAudiences: []"), nil),
		// audienceClaims (and extraAudiences) left out: the documented default — aud against the client id — applies
		mk("alpha-no-audience-claims", nil, claims, omitted),
		// only the issuer is given
		mk("alpha-issuer-only", nil, nil, func(c *c04Cfg) { c.NoLiveness, c.ClaimsOmitted = true, true }),
		// extra audiences given, audience claims left out
		mk("alpha-extra-aud-no-audience-claims", nil, with(claims, "extraAudiences: [xa1, xa2]"), func(c *c04Cfg) { c.NoLiveness, c.ExtraAud = true, []string{"xa1", "xa2"} }),
	}
	if thorough {
		cfgs = append(cfgs,
			mk("alpha-audience-claims-only", nil, []string{"audienceClaims: [aud]"}, func(c *c04Cfg) { c.NoLiveness, c.ClaimsOmitted = true, true }),
			mk("alpha-empty-lists", nil, with(claims, "audienceClaims: []", "extraAudiences: []"), omitted),
			mk("alpha-azp+aud-extra-aud", nil, with(claims, "audienceClaims: [azp, aud]", "extraAudiences: [xa1, xa2]"), func(c *c04Cfg) { c.AudClaims, c.ExtraAud = []string{"azp", "aud"}, []string{"xa1", "xa2"} }),
			mk("alpha-jwks-url-no-audience-claims", static, with(claims, "skipDiscovery: true", "jwksURL: "+iss+"/jwks"), omitted),
			mk("alpha-allow-unverified-no-audience-claims", nil, with(claims, "insecureAllowUnverifiedEmail: true"), func(c *c04Cfg) { c.NoLiveness, c.AllowUnverified = true, true }),
			mk("alpha-no-profile-no-audience-claims", []string{"skipClaimsFromProfileURL: true"}, claims, func(c *c04Cfg) { c.NoLiveness, c.SkipProfile = true, true }),
		)
	}
	return cfgs
}

func c04Build(w *vfWorld, cfg *c04Cfg) (*vfProxy, error) {
	if cfg.Alpha != "" {
		return w.NewProxyRaw(cfg.Alpha, append(w.AlphaBaseFlags(), cfg.Flags...))
	}
	return w.NewProxy(cfg.Flags...)
}

// trim (quick tier, Light configurations): keeps the valid baseline, every deviation of the audience and of the claim
// set alone, and every third of the remaining cases — a pure function of the list.
func (c *c04Cfg) trim(specs []c04Spec, thorough bool) []c04Spec {
	if !c.Light || thorough || len(specs) == 0 {
		return specs
	}
	base := specs[0]
	var out []c04Spec
	for k, s := range specs {
		same := s.Sig == base.Sig && s.Iss == base.Iss && s.Exp == base.Exp && s.EV == base.EV
		if (same && (s.Claims == base.Claims || s.Aud == base.Aud)) || k%3 == 0 {
			out = append(out, s)
		}
	}
	return out
}

// ---------------------------------------------------------------------------------------------------------
// profile fallback across refreshes

type c04PF struct {
	cfg     *c04Cfg
	lack    string // claim set of the refreshed ID tokens (no-groups / no-pu / no-email / minimal)
	login   string // claim set of the login's ID token: the same (the IdP never puts the claim into ID tokens) or "full"
	tag     string
	id      c04Ident
	profile map[string]interface{}
	b       *vfBrowser
	mu      sync.Mutex
	nonce   interface{}
	toks    []c04Token // refreshed ID tokens, in order
	err     error
}

type c04PFObs struct {
	Config    string                 `json:"config"`
	Flags     []string               `json:"flags"`
	Alpha     string                 `json:"alpha_config,omitempty"`
	Login     string                 `json:"login_id_token_claim_set"`
	Refreshed string                 `json:"refreshed_id_token_claim_set"`
	Profile   map[string]interface{} `json:"userinfo_endpoint_serves"`
	Refresh   int                    `json:"refresh_number"`
	Token     string                 `json:"refreshed_id_token"`
	Claims    interface{}            `json:"refreshed_id_token_claims"`
	Observed  c04Obs                 `json:"observed_after_refresh"`
	Steps     string                 `json:"steps"`
}

func (r *c04Runner) profileFallback(cfgs []*c04Cfg) {
	run := r.run
	w := r.w
	var sel []*c04Cfg
	for _, cfg := range cfgs {
		if map[string]bool{"disc": true, "disc-redis": true, "custom-claims": true, "alpha-all-stated": true, "jwks-url": true}[cfg.Name] || (run.Env.Thorough() && !cfg.NoLiveness && !cfg.BearerOnly && !cfg.SkipProfile && len(cfg.AllowedGroups) == 0) {
			sel = append(sel, cfg)
		}
	}
	// an instance whose authorisation depends on a group that only the profile endpoint reports
	ag := *cfgs[0]
	ag.Name, ag.AllowedGroups = "allowed-group-from-profile", nil
	ag.Flags = append(append([]string{}, cfgs[0].Flags...), "--allowed-group=pf-staff")
	if p, err := w.NewProxy(ag.Flags...); err == nil {
		ag.P = p
		sel = append(sel, &ag)
	} else {
		run.T.Fatalf("c04: config %s: %v", ag.Name, err)
	}
	var cases []*c04PF
	for _, cfg := range sel {
		for _, lack := range []string{"no-groups", "no-pu", "no-email", "minimal"} {
			for _, login := range []string{lack, "full"} {
				if cfg.Name == "allowed-group-from-profile" && (login == "full" || lack == "no-pu" || lack == "no-email") {
					continue
				}
				n := len(cases)
				tag := fmt.Sprintf("pf-%s-%d", cfg.Name, n)
				pc := &c04PF{cfg: cfg, lack: lack, login: login, tag: tag, id: c04TokenIdent(tag, "full"), profile: c04Profile(tag)}
				pc.profile["groups"] = []string{"pf-staff", "profile-group-" + tag}
				pc.profile["roles"] = []string{"pf-staff", "profile-role-" + tag}
				cases = append(cases, pc)
			}
		}
	}
	// phase 1: login twenty minutes in the past (global pkg/clock mock, quiescent point)
	clock.Set(time.Now().Add(-20 * time.Minute))
	vfParallel(len(cases), 16, func(i int) {
		pc := cases[i]
		cfg := pc.cfg
		loginSub := "login-" + pc.tag
		r.handlers.Store(loginSub, func(grant string, claims map[string]interface{}) (string, bool) {
			pc.mu.Lock()
			defer pc.mu.Unlock()
			s := c04Baseline(cfg, false)
			if grant == "code" {
				pc.nonce = claims["nonce"]
				s.Claims = pc.login
				return vfMint(c04Claims(s, cfg, r.idp2.Issuer, claims, pc.id, pc.tag), vfMintOpts{}), true
			}
			s.Claims = pc.lack
			base := map[string]interface{}{"iat": claims["iat"], "jti": claims["jti"]}
			if !cfg.SkipNonce {
				base["nonce"] = pc.nonce
			}
			raw := vfMint(c04Claims(s, cfg, r.idp2.Issuer, base, pc.id, pc.tag), vfMintOpts{})
			pc.toks = append(pc.toks, c04Decode(raw))
			return raw, true
		})
		pc.b = vfNewBrowser("")
		_, _, pc.err = pc.b.Login(cfg.P, vfIdentity{Sub: loginSub, Email: "unused@idp.test", Profile: pc.profile}, "/")
	})
	// phase 2: ten minutes in the past — the session is stale (--cookie-refresh=1m): first refresh; phase 3: now — second refresh
	for k := 1; k <= 2; k++ {
		if k == 1 {
			clock.Set(time.Now().Add(-10 * time.Minute))
		}
		vfParallel(len(cases), 16, func(i int) {
			pc := cases[i]
			cfg := pc.cfg
			if pc.err != nil {
				if k == 1 {
					run.Eval("")
					run.Inconclusive(fmt.Sprintf("rig: profile-fallback phase, login failed (%s): %s", cfg.Name, vfTrunc(pc.err.Error(), 120)))
				}
				return
			}
			obs := c04Observe(w, func(q *vfReq) *vfResp { return pc.b.Send(cfg.P, q) })
			pc.mu.Lock()
			toks := append([]c04Token{}, pc.toks...)
			pc.mu.Unlock()
			cell := fmt.Sprintf("refresh-profile|%s|login=%s|refreshed=%s|refresh#%d", cfg.Name, pc.login, pc.lack, k)
			run.Eval(cell)
			if len(toks) != k {
				run.Count("profile_fallback_refresh_not_performed", 1)
				pc.err = fmt.Errorf("refresh %d not performed (%d refresh grants so far)", k, len(toks))
				return
			}
			t := toks[k-1]
			po := c04PFObs{Config: cfg.Name, Flags: cfg.P.Flags, Alpha: cfg.Alpha, Login: pc.login, Refreshed: pc.lack, Profile: pc.profile, Refresh: k, Token: t.Raw, Claims: t.Claims, Observed: obs,
				Steps: "1. log in (ID token with the claim set named; the provider's userinfo endpoint serves the profile shown); 2. let the session become older than --cookie-refresh; 3. GET /oauth2/userinfo and a proxied request: the proxy uses the refresh grant, the refreshed ID token lacks the claims named; (refresh#2: once more)"}
			if obs.Panic != "" {
				run.Violation("c04:panic", "profile-fallback phase: panic: "+vfTrunc(obs.Panic, 200), po)
				return
			}
			if cfg.Name == "allowed-group-from-profile" && (obs.UserinfoCode == 403 || obs.UpCode == 403) {
				// logged in through a group that only the profile endpoint reports; the refreshed token is valid and lacks the
				// groups claim as the login's token did: "access denied" now means the session's groups are no longer the profile's
				run.Count("profile_fallback_judged", 1)
				run.Violation("c04:profile-fallback-lost-on-refresh", fmt.Sprintf("[%s] after refresh #%d with an ID token that lacks the groups claim (as the login's token did) the user is denied (userinfo %d, proxied request %d) although the profile endpoint still reports the allowed group pf-staff", cfg.Name, k, obs.UserinfoCode, obs.UpCode), po)
				pc.err = fmt.Errorf("violation reported")
				return
			}
			if !obs.session() || obs.UserinfoCode != 200 {
				run.Count("profile_fallback_no_session_after_refresh", 1)
				pc.err = fmt.Errorf("no session after refresh %d", k)
				return
			}
			exp := c04Expected(t, cfg, cfg.Verifiers[0], "refresh", pc.profile, pc.id.Email)
			var diffs []string
			chk := func(name string, f c04Field, got string) {
				if !f.accepts(got) {
					want := f.May
					if f.FromToken {
						want = []string{f.Must}
					}
					diffs = append(diffs, fmt.Sprintf("%s=%q, expected %q (claim in the refreshed token: %v)", name, vfTrunc(got, 80), want, f.FromToken))
				}
			}
			chk("userinfo.user", exp.User, obs.User)
			chk("userinfo.email", exp.Email, obs.Email)
			chk("userinfo.groups", exp.Groups, c04L(obs.Groups))
			chk("userinfo.preferredUsername", exp.PU, obs.PU)
			if obs.UpHit {
				g := c04Field{FromToken: exp.Groups.FromToken, Must: strings.Join(c04UnL(exp.Groups.Must), ",")}
				for _, m := range exp.Groups.May {
					g.May = append(g.May, strings.Join(c04UnL(m), ","))
				}
				chk("X-Forwarded-User", exp.User, obs.UpUser)
				chk("X-Forwarded-Groups", g, obs.UpGroups)
				chk("X-Forwarded-Email", exp.Email, obs.UpEmail)
				chk("X-Forwarded-Preferred-Username", exp.PU, obs.UpPU)
			} else if cfg.Name == "allowed-group-from-profile" {
				diffs = append(diffs, fmt.Sprintf("proxied request answered %d although the profile endpoint reports the allowed group pf-staff for the groups claim the token lacks", obs.UpCode))
			}
			run.Count("profile_fallback_judged", 1)
			if len(diffs) > 0 {
				run.Violation("c04:profile-fallback-lost-on-refresh", fmt.Sprintf("[%s] after refresh #%d with an ID token that lacks claims (%s; login token: %s) the session does not carry the profile endpoint's values for them: %s", cfg.Name, k, pc.lack, pc.login, strings.Join(diffs, "; ")), po)
				pc.err = fmt.Errorf("violation reported")
			}
		})
		if k == 1 {
			clock.Reset()
		}
	}
	for _, pc := range cases {
		r.handlers.Delete("login-" + pc.tag)
	}
	if run.Counter("profile_fallback_judged") < int64(len(cases)) {
		run.Inconclusive("profile fallback across refreshes: too few cases judged")
		fmt.Printf("INCONCLUSIVE property=C04 reason=profile fallback across refreshes: only %d of %d refreshes judged\n", run.Counter("profile_fallback_judged"), 2*len(cases))
		run.T.Fail()
	}
	w.Up.Reset()
}
