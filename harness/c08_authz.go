//go:build verif

package main

// C08 — Authorisation rules are enforced on every request, not only at login.
//
// Oracle: reference predicates written from the documentation of the options (never calling the repository's
// validator or Authorize):
//   emailOK(e)  = some --email-domain d: d == "*"  ||  lower(e) ends with "@"+lower(d)
//                                      ||  d = ".x" / "*.x" and the domain part of lower(e) ends with ".x"
//                 || lower(e) is an address of the --authenticated-emails-file
//   groupsOK(G) = no --allowed-group configured || G ∩ allowed ≠ ∅         (exact strings)
//   allowed     = (e == "" [htpasswd session] || emailOK(e)) && groupsOK(G)
//   auth-only   : additionally every query constraint kind that has at least one non-empty item must be satisfied
//                 (allowed_groups: intersection; allowed_emails: membership; allowed_email_domains: domain match)
// Checked:
//   (1) served (upstream hit / 202 / userinfo with identity)  =>  allowed
//   (2) a session failing the GLOBAL rules is refused with 401/403, nothing reaches the upstream, and every session
//       cookie the request presented is deleted (judged with a browser cookie jar)
//   (3) a login whose identity fails the rules ends in an error page, without session cookie and without Redis entry
//   (4) the decision depends on the session's e-mail and groups only: the user name, preferred_username and group
//       names may equal the e-mail or an allowed address without changing it (c08IdentityShapes); an e-mails file
//       contributes the FIRST column of each record ("one email per line" is the documented format, the file is read
//       as CSV), never an address of a later column
// Histories: every cookie session is issued by a permissive instance and presented to restrictive instances sharing
// secret (and Redis) — the operator restarted with stricter rules; and the e-mails file is rewritten (atomic rename
// and in-place) between requests.

import (
	"crypto/sha1"
	"encoding/base64"
	"fmt"
	mrand "math/rand"
	"net/http"
	"net/url"
	"os"
	"path/filepath"
	"sort"
	"strings"
	"sync"
	"testing"
	"time"

	"github.com/oauth2-proxy/oauth2-proxy/v7/pkg/clock"
)

const c08CookieName = "_oauth2_proxy"

// ---------------------------------------------------------------------------------------------------------
// reference predicates

func c08DomainPart(e string) (string, bool) {
	k := strings.LastIndexByte(e, '@')
	if k < 0 {
		return "", false
	}
	return e[k+1:], true
}

// c08EmailDomainOK returns (ok, ambiguous). ambiguous: the documented wording does not decide the case
// (an "e-mail" without '@' under a sub-domain rule).
func c08EmailDomainOK(email string, domains []string) (bool, bool) {
	e := strings.ToLower(email)
	if e == "" {
		return false, false
	}
	ambiguous := false
	for _, d := range domains {
		if d == "*" {
			return true, false
		}
		d = strings.ToLower(d)
		if strings.TrimSpace(d) == "" {
			// a blank list item (trailing comma, empty templated slot) names no domain: it matches nothing; only an
			// "address" that ends with '@' + that blank text is left unjudged
			if strings.HasSuffix(e, "@"+d) {
				ambiguous = true
			}
			continue
		}
		if len(e) > len(d) && e[len(e)-len(d):] == d && e[len(e)-len(d)-1] == '@' {
			return true, false
		}
		sub := ""
		if strings.HasPrefix(d, "*.") {
			sub = d[1:]
		} else if strings.HasPrefix(d, ".") {
			sub = d
		}
		if sub != "" {
			dom, has := c08DomainPart(e)
			if !has {
				if strings.HasSuffix(e, sub) {
					ambiguous = true
				}
				continue
			}
			if strings.HasSuffix(dom, sub) {
				return true, false
			}
		}
	}
	return false, ambiguous
}

func c08Intersects(have, allowed []string) bool {
	for _, h := range have {
		for _, a := range allowed {
			if h == a {
				return true
			}
		}
	}
	return false
}

type c08FileLine struct {
	Addr string // what the operator means: the allowed address of this line (the line's FIRST column)
	Deco string // plain | spaces | upper | comment | quoted | blank
	// Extra: further comma-separated columns of the line. The documented format is "one email per line"; the file is
	// read as CSV, and whatever follows the first column (sponsor, owner, ticket, date) was never configured as an
	// allowed address: the reference reads the first column only.
	Extra []string
}

func (l c08FileLine) text() string {
	var first string
	switch l.Deco {
	case "blank":
		return ""
	case "spaces":
		first = "  " + l.Addr + "  "
	case "upper":
		first = strings.ToUpper(l.Addr)
	case "comment":
		first = "# " + l.Addr
	case "quoted":
		first = `"` + l.Addr + `"`
	default:
		first = l.Addr
	}
	for _, x := range l.Extra {
		switch l.Deco {
		case "quoted":
			first += `,"` + x + `"`
		case "spaces":
			first += ",   " + x + "  "
		case "upper":
			first += "," + x
		default:
			first += ", " + x
		}
	}
	return first
}

func c08FileText(lines []c08FileLine) string { return c08FileTextEOL(lines, "\n") }

func c08FileTextEOL(lines []c08FileLine, eol string) string {
	var b strings.Builder
	b.WriteString("# authenticated e-mails" + eol)
	for _, l := range lines {
		b.WriteString(l.text() + eol)
	}
	return b.String()
}

// c08FileHas: the allowed addresses of an e-mails file are the first columns of its records, nothing else.
func c08FileHas(lines []c08FileLine, email string) bool {
	e := strings.ToLower(email)
	for _, l := range lines {
		if l.Deco != "comment" && l.Deco != "blank" && strings.ToLower(strings.TrimSpace(l.Addr)) == e {
			return true
		}
	}
	return false
}

type c08RuleSet struct {
	Name     string
	Domains  []string
	File     []c08FileLine // nil = no file
	FileCRLF bool          // the file has CRLF line ends
	Groups   []string      // --allowed-group
	Ht       bool          // --htpasswd-file
	HtGroups []string
	ErrMode  string // page | json | button
	// odd list shapes: Domains is what the operator's text means item by item (the reference reads that),
	// RawFlags the literal --email-domain values (comma lists), CfgList the same list written in a config file
	RawFlags []string
	CfgList  bool
	OneStore bool // built for one store only (alternating), to keep the number of instances down
}

// allowed is the reference decision for a session with that e-mail and those groups.
func (r c08RuleSet) allowed(email string, groups []string) (ok, ambiguous bool) {
	if len(r.Groups) > 0 && !c08Intersects(groups, r.Groups) {
		return false, false
	}
	if email == "" {
		return true, false // htpasswd sessions carry no e-mail and are exempt from the e-mail rules
	}
	ok, amb := c08EmailDomainOK(email, r.Domains)
	if ok {
		return true, false
	}
	if r.File != nil && c08FileHas(r.File, email) {
		return true, false
	}
	return false, amb
}

func c08RuleSets() []c08RuleSet {
	file1 := []c08FileLine{{"listed@other.org", "plain", nil}, {"Mixed.Case@Other.ORG", "plain", nil}, {"spaced@other.org", "spaces", nil}, {"upper@other.org", "upper", nil}, {"commented@other.org", "comment", nil},
		{"quoted@other.org", "quoted", nil}, {"a@b@example.com", "plain", nil}, {"u@evilexample.com", "plain", nil}}
	return []c08RuleSet{
		{Name: "exact", Domains: []string{"example.com"}, ErrMode: "page"},
		{Name: "leading-dot", Domains: []string{".example.com"}, ErrMode: "json"},
		{Name: "star-dot", Domains: []string{"*.example.com"}, ErrMode: "button"},
		{Name: "exact+dot", Domains: []string{"example.com", ".example.com"}, ErrMode: "page"},
		{Name: "upper-rule", Domains: []string{"EXAMPLE.Com"}, ErrMode: "page"},
		{Name: "subdomain-exact", Domains: []string{"sub.example.com"}, ErrMode: "json"},
		{Name: "star", Domains: []string{"*"}, ErrMode: "page"},
		{Name: "two-domains", Domains: []string{"example.org", "example.com"}, ErrMode: "button"},
		{Name: "shorter", Domains: []string{"example.co"}, ErrMode: "page"},
		{Name: "tld-dot", Domains: []string{".com"}, ErrMode: "page"},
		{Name: "star-dot-mixedcase", Domains: []string{"*.Example.COM"}, ErrMode: "json"},
		{Name: "file-only", Domains: []string{"nomatch.invalid"}, File: file1, ErrMode: "page"},
		{Name: "file+domain", Domains: []string{"example.com"}, File: []c08FileLine{{"listed@other.org", "plain", nil}, {"u@sub.example.com", "upper", nil}}, ErrMode: "json"},
		{Name: "group", Domains: []string{"*"}, Groups: []string{"g1"}, ErrMode: "page"},
		{Name: "two-groups+domain", Domains: []string{"example.com"}, Groups: []string{"g2", "g1"}, ErrMode: "json"},
		{Name: "group+htpasswd", Domains: []string{"example.com"}, Groups: []string{"g1", "hg"}, Ht: true, HtGroups: []string{"hg"}, ErrMode: "page"},
		{Name: "htpasswd-nogroup", Domains: []string{"example.com"}, Groups: []string{"g1"}, Ht: true, ErrMode: "button"},
		{Name: "htpasswd-domain-only", Domains: []string{".example.com"}, Ht: true, HtGroups: []string{"hg"}, ErrMode: "json"},
		// odd list shapes an operator (or a template with an empty slot) produces: only "*" means everybody
		{Name: "trailing-comma", Domains: []string{"example.com", ""}, RawFlags: []string{"example.com,"}, OneStore: true, ErrMode: "page"},
		{Name: "leading-comma", Domains: []string{"", "example.com"}, RawFlags: []string{",example.com"}, OneStore: true, ErrMode: "json"},
		{Name: "doubled-comma", Domains: []string{"example.org", "", "example.com"}, RawFlags: []string{"example.org,,example.com"}, OneStore: true, ErrMode: "page"},
		{Name: "blank-item", Domains: []string{"example.com", " "}, RawFlags: []string{"example.com, "}, OneStore: true, ErrMode: "page"},
		{Name: "quoted-empty-item", Domains: []string{"example.com", ""}, RawFlags: []string{`"example.com",""`}, OneStore: true, ErrMode: "button"},
		{Name: "config-file-empty-item", Domains: []string{"example.com", ""}, CfgList: true, OneStore: true, ErrMode: "page"},
		{Name: "config-file-blank-only", Domains: []string{"nomatch.invalid", "", " "}, CfgList: true, OneStore: true, ErrMode: "json"},
		{Name: "star-among-others", Domains: []string{"example.com", "*"}, RawFlags: []string{"example.com,*"}, OneStore: true, ErrMode: "page"},
		{Name: "star-dot-only", Domains: []string{"*."}, OneStore: true, ErrMode: "page"},
		{Name: "dot-only", Domains: []string{"."}, OneStore: true, ErrMode: "json"},
		{Name: "star-without-dot", Domains: []string{"*example.com"}, OneStore: true, ErrMode: "page"},
		{Name: "double-star", Domains: []string{"**", "*.*"}, RawFlags: []string{"**,*.*"}, OneStore: true, ErrMode: "page"},
		// file-format variety of the e-mails file (documented: one address per line; read as CSV): later columns hold
		// annotations, never allowed addresses; quoted fields, trailing commas, blank lines, CRLF, padding. Every record of
		// a file has the same number of columns (the CSV reader rejects a ragged file as a whole).
		{Name: "file-annotated-columns", Domains: []string{"nomatch.invalid"}, OneStore: true, ErrMode: "page", File: []c08FileLine{
			{"alice@cols.test", "plain", []string{"mallory@partner.test"}},
			{"", "blank", nil},
			{"ivan@cols.test", "spaces", []string{"judy@partner.test"}},
			{"dave@cols.test", "upper", []string{"DAVE.OWNER@partner.test"}},
			{"erin@cols.test", "plain", []string{""}}, // trailing comma
			{"mallory2@partner.test", "plain", []string{"alice@cols.test"}},
			{"commented@cols.test", "comment", []string{"trent@partner.test"}},
			{"listed@other.org", "plain", []string{"u@example.com"}}}},
		{Name: "file-quoted-three-columns-crlf", Domains: []string{"nomatch.invalid"}, OneStore: true, ErrMode: "json", FileCRLF: true, File: []c08FileLine{
			{"frank@cols.test", "quoted", []string{"added 2024-01-01", "owner@partner.test"}},
			{"grace@cols.test", "quoted", []string{"team a, team b", "heidi@partner.test"}},
			{"", "blank", nil},
			{"Mixed.Case@Other.ORG", "quoted", []string{"sponsor", "LISTED@other.org"}}}},
		{Name: "file-several-per-line", Domains: []string{"example.com"}, OneStore: true, ErrMode: "page", File: []c08FileLine{
			// one column whose text is not one address: the separators below are not the format's; the second address
			// of such a line is allowed by nothing (the first one is not judged: not included in the subjects)
			{"kate@cols.test leo@partner.test", "plain", nil},
			{"mike@cols.test;nina@partner.test", "plain", nil},
			{"oscar@cols.test\tpeggy@partner.test", "plain", nil},
			{"listed@other.org", "plain", nil}}},
		{Name: "duplicates+upper", Domains: []string{"example.com", "EXAMPLE.COM", "example.com"}, RawFlags: []string{"example.com,EXAMPLE.COM,example.com"}, OneStore: true, ErrMode: "page"},
	}
}

// ---------------------------------------------------------------------------------------------------------
// subjects

type c08Subject struct {
	Email  string   `json:"email"`
	Groups []string `json:"groups"`
	Class  string   `json:"class"`
	Big    bool     `json:"big,omitempty"` // padded so that the cookie store splits the session over several cookies
	// identity shape (c08IdentityShapes): Email stays the SESSION's e-mail, the only field the e-mail rules may look at
	Sub        string `json:"sub,omitempty"`                // sub claim = the session's user name (default u-<n>)
	PU         string `json:"preferred_username,omitempty"` // default pu-<n>
	EmailClaim string `json:"email_claim,omitempty"`        // "" = Email | "omitted" | "empty" (bearer tokens: the subject takes the e-mail's place) | "other:<value>" (claim mapping reads the e-mail elsewhere)
	Shape      string `json:"shape,omitempty"`
	bearerOnly bool
	n          int
	// credentials (made in the run)
	cookieLines map[string][]string // store/family -> raw Set-Cookie lines of the session as issued
	rkey, rval  map[string]string   // family -> Redis entry of the redis-store session
	bearer      string
}

func c08Subjects(run *vfRun) []*c08Subject {
	var out []*c08Subject
	add := func(e, class string, g ...string) {
		if g == nil {
			g = []string{"g1"}
		}
		out = append(out, &c08Subject{Email: e, Class: class, Groups: g})
	}
	add("u@example.com", "exact")
	add("U@EXAMPLE.COM", "case")
	add("u@Example.Com", "case")
	add("First.Last+tag@example.com", "exact")
	add(`"quoted local"@example.com`, "exact")
	add("u@sub.example.com", "sub")
	add("u@a.b.example.com", "sub")
	add("u@SUB.Example.COM", "sub-case")
	add("u@evilexample.com", "lookalike-prefix")
	add("u@sub.evilexample.com", "lookalike-prefix")
	add("u@xexample.com", "lookalike-prefix")
	add("u@sub-example.com", "lookalike-prefix")
	add("u@example.com.evil.org", "lookalike-suffix")
	add("u@example.comx", "lookalike-suffix")
	add("u@example.com.", "lookalike-suffix")
	add("u@example.co", "lookalike-suffix")
	add("u@examplexcom", "lookalike-dot")
	add("u@sub.examplexcom", "lookalike-dot")
	add("a@b@example.com", "multi-at")
	add("a@example.com@evil.org", "multi-at")
	add("u@example.com@sub.example.com", "multi-at")
	add("u@sub.example.com@evil.org", "multi-at")
	add("u@sub.example.com@example.org@x.evil.org", "multi-at")
	add("@example.com", "empty-local")
	add("u@", "empty-domain")
	add("u", "no-at")
	add("example.com", "no-at")
	add("sub.example.com", "no-at")
	add("u@.example.com", "dot-start")
	add("u@example.com ", "trailing-space")
	add(" u@example.com", "leading-space")
	add("u@other.org", "other")
	add("u@example.org", "other")
	add("u@com", "tld")
	add("u@x.com", "tld")
	add("u@*example.com", "wildcard-literal")
	add("u@.", "dot-start")
	add("u@*.example.com", "wildcard-literal")
	add("u@*", "wildcard-literal")
	add("*", "wildcard-literal")
	add("ü@example.com", "unicode")
	add("u@exämple.com", "unicode")
	add("listed@other.org", "file")
	add("LISTED@Other.Org", "file-case")
	add("mixed.case@other.org", "file-case")
	add("spaced@other.org", "file")
	add("upper@other.org", "file-case")
	add("commented@other.org", "file-comment")
	add("quoted@other.org", "file")
	add("listed@other.orgx", "file-lookalike")
	add("xlisted@other.org", "file-lookalike")
	// addresses that occur in e-mails files with several columns (first column = allowed, later column = annotation)
	for _, e := range []string{"alice@cols.test", "mallory@partner.test", "judy@partner.test", "ivan@cols.test", "dave.owner@partner.test", "erin@cols.test", "trent@partner.test", "frank@cols.test",
		"owner@partner.test", "heidi@partner.test", "team a", "leo@partner.test", "nina@partner.test", "peggy@partner.test"} {
		add(e, "file-column")
	}
	// group boundary lists (e-mail passes every domain rule that names example.com)
	for _, g := range [][]string{{}, {"g1"}, {"g2"}, {"g9"}, {"g9", "g8", "g1"}, {"G1"}, {"g1 "}, {"g"}, {"g11"}, {"g1,g2"}, {"hg"}, {""}} {
		out = append(out, &c08Subject{Email: "g@example.com", Groups: append([]string{}, g...), Class: "groups:" + strings.Join(g, "+")})
	}
	// sessions large enough to be split over several cookies by the cookie store
	pad := make([]string, 260)
	for i := range pad {
		pad[i] = fmt.Sprintf("padding-group-%04d", i)
	}
	out = append(out, &c08Subject{Email: "big@evilexample.com", Groups: append([]string{"g1"}, pad...), Class: "lookalike-prefix", Big: true})
	out = append(out, &c08Subject{Email: "big@example.com", Groups: append(append([]string{}, pad...), "g9"), Class: "exact", Big: true})
	// seeded sample of the grammar local @ prefix base suffix
	locals := []string{"u", "U.x", "a+b", "a@b", ""}
	prefixes := []string{"", "sub.", "evil", "x-", ".", "SUB.", "a.b."}
	bases := []string{"example.com", "EXAMPLE.COM", "example.org", "example.co", "example.comx", "other.org"}
	suffixes := []string{"", ".", ".evil.org", " ", "@example.com"}
	total := len(locals) * len(prefixes) * len(bases) * len(suffixes)
	want := run.Env.Pick(40, 300)
	seen := map[string]bool{}
	for _, s := range out {
		seen[s.Email] = true
	}
	for tries := 0; tries < total*4 && want > 0; tries++ {
		k := run.Rng.Intn(total)
		e := locals[k%len(locals)] + "@" + prefixes[(k/len(locals))%len(prefixes)] + bases[(k/len(locals)/len(prefixes))%len(bases)] + suffixes[(k/len(locals)/len(prefixes)/len(bases))%len(suffixes)]
		if seen[e] {
			continue
		}
		seen[e] = true
		want--
		add(e, "grammar")
	}
	for i, s := range out {
		s.n = i
	}
	return out
}

// ---------------------------------------------------------------------------------------------------------

type c08Inst struct {
	Rules c08RuleSet
	Store string
	Fam   string // "host": host-only cookies (default) | "domain": --cookie-domain=proxy.test
	P     *vfProxy
}

func (in *c08Inst) key() string { return in.Store + "/" + in.Fam }

func c08FamFlags(fam string) []string {
	if fam == "domain" {
		return []string{"--cookie-domain=proxy.test"}
	}
	return nil
}

type c08World struct {
	run             *vfRun
	w               *vfWorld
	ht              string
	issuer          map[string]*vfProxy
	insts           []*c08Inst
	redisMu         sync.Mutex
	owned           map[string]bool
	noteMu          sync.Mutex
	notes           map[string][]string
	emptiedWitness  []interface{}
	symlinkWitness  []interface{}
	replacedWitness []interface{}
}

// withNewRedisKey runs f (a login) and returns the Redis key it created together with its value. Keys that other
// goroutines delete and restore meanwhile are recognised by the registry of keys already attributed.
func (cw *c08World) withNewRedisKey(f func()) (key, val string) {
	cw.redisMu.Lock()
	defer cw.redisMu.Unlock()
	if cw.owned == nil {
		cw.owned = map[string]bool{}
	}
	before := map[string]bool{}
	for _, k := range cw.w.Redis().Keys() {
		before[k] = true
	}
	f()
	for _, k := range cw.w.Redis().Keys() {
		if !before[k] && !cw.owned[k] {
			key = k
		}
	}
	if key != "" {
		cw.owned[key] = true
		val, _ = cw.w.Redis().Get(key)
	}
	return
}

func (cw *c08World) flags(r c08RuleSet, store, fam string) []string {
	f := append([]string{"--session-store-type=" + store, "--skip-jwt-bearer-tokens=true"}, c08FamFlags(fam)...)
	if store == "redis" {
		f = append(f, "--redis-connection-url="+cw.w.RedisURL())
	}
	switch {
	case r.CfgList:
		var items []string
		for _, d := range r.Domains {
			items = append(items, fmt.Sprintf("%q", d))
		}
		f = append(f, "--config="+cw.w.File("c08-config-"+r.Name+"-"+store+".cfg", "email_domains = [ "+strings.Join(items, ", ")+" ]\n"))
	case r.RawFlags != nil:
		for _, v := range r.RawFlags {
			f = append(f, "--email-domain="+v)
		}
	default:
		for _, d := range r.Domains {
			f = append(f, "--email-domain="+d)
		}
	}
	if r.File != nil {
		f = append(f, "--authenticated-emails-file="+cw.w.File("c08-emails-"+r.Name+"-"+store, c08FileTextEOL(r.File, map[bool]string{false: "\n", true: "\r\n"}[r.FileCRLF])))
	}
	for _, g := range r.Groups {
		f = append(f, "--allowed-group="+g)
	}
	if r.Ht {
		f = append(f, "--htpasswd-file="+cw.ht)
		for _, g := range r.HtGroups {
			f = append(f, "--htpasswd-user-group="+g)
		}
	}
	switch r.ErrMode {
	case "json":
		f = append(f, "--force-json-errors=true")
	case "button":
		f = append(f, "--skip-provider-button=true")
	}
	return f
}

// c08Violation forwards at most three witnesses per signature to the run (the rig stops writing witnesses after 25
// violations in total, so a flood of one class must not hide the first witness of another); everything is counted.
var (
	c08ViolMu   sync.Mutex
	c08ViolSeen = map[string]int{}
)

func c08Violation(run *vfRun, sig, summary string, detail interface{}) {
	c08ViolMu.Lock()
	c08ViolSeen[sig]++
	n := c08ViolSeen[sig]
	c08ViolMu.Unlock()
	run.Count("violations["+sig+"]", 1)
	if n <= 3 {
		run.Violation(sig, summary, detail)
	}
}

// c08ASCII renders a value for the one-line summaries in pure ASCII (the check script greps its output).
func c08ASCII(v interface{}) string {
	switch x := v.(type) {
	case *c08Subject:
		if x.Shape != "" {
			return fmt.Sprintf("{email %+q user %+q preferred_username %+q groups %s [%s]}", x.Email, x.sub(), x.pu(), vfTrunc(fmt.Sprintf("%+q", x.Groups), 60), x.Shape)
		}
		return fmt.Sprintf("{email %+q groups %s}", x.Email, vfTrunc(fmt.Sprintf("%+q", x.Groups), 60))
	case string:
		return fmt.Sprintf("%+q", x)
	}
	return fmt.Sprintf("%+q", fmt.Sprint(v))
}

func c08SessionLines(b *vfBrowser) []string {
	var out []string
	for _, c := range b.Jar.All() {
		if strings.HasPrefix(c.Name, c08CookieName) && !strings.Contains(c.Name, "csrf") {
			out = append(out, c.Raw)
		}
	}
	return out
}

func c08IssuesSession(lines []string) bool {
	for _, line := range lines {
		if c, err := http.ParseSetCookie(line); err == nil && strings.HasPrefix(c.Name, c08CookieName) && !strings.Contains(c.Name, "csrf") && c.Value != "" && c.MaxAge >= 0 {
			return true
		}
	}
	return false
}

func (s *c08Subject) sub() string {
	if s.Sub != "" {
		return s.Sub
	}
	return fmt.Sprintf("u-%d", s.n)
}

func (s *c08Subject) pu() string {
	if s.PU != "" {
		return s.PU
	}
	return fmt.Sprintf("pu-%d", s.n)
}

// emailClaim: the value of the token's e-mail claim (present = false: the claim is left out).
func (s *c08Subject) emailClaim() (value string, present bool) {
	switch {
	case s.EmailClaim == "omitted":
		return "", false
	case s.EmailClaim == "empty":
		return "", true
	case strings.HasPrefix(s.EmailClaim, "other:"):
		return strings.TrimPrefix(s.EmailClaim, "other:"), true
	}
	return s.Email, true
}

func (s *c08Subject) identity() vfIdentity {
	e, _ := s.emailClaim()
	return vfIdentity{Sub: s.sub(), Email: e, Groups: s.Groups, PreferredUsername: s.pu()}
}

// makeCreds: real logins at the permissive issuers (one per store) and a bearer token with the same claims.
func (cw *c08World) makeCreds(s *c08Subject) error {
	s.cookieLines, s.rkey, s.rval = map[string][]string{}, map[string]string{}, map[string]string{}
	for _, key := range []string{"cookie/host", "redis/host", "cookie/domain", "redis/domain"} {
		if s.bearerOnly {
			break
		}
		p := cw.issuer[key]
		store, fam := strings.Split(key, "/")[0], strings.Split(key, "/")[1]
		b := vfNewBrowser("")
		var err error
		if store == "redis" {
			s.rkey[fam], s.rval[fam] = cw.withNewRedisKey(func() { _, _, err = b.Login(p, s.identity(), "/") })
		} else {
			_, _, err = b.Login(p, s.identity(), "/")
		}
		if err != nil {
			return fmt.Errorf("login of %q at the permissive %s instance: %w", s.Email, key, err)
		}
		s.cookieLines[key] = c08SessionLines(b)
		if len(s.cookieLines[key]) == 0 || (store == "redis" && s.rkey[fam] == "") {
			return fmt.Errorf("login of %q at the permissive %s instance left no session", s.Email, key)
		}
	}
	now := time.Now()
	claims := map[string]interface{}{"iss": cw.w.IdP.Issuer, "aud": "cid", "sub": s.sub(), "groups": s.Groups,
		"preferred_username": s.pu(), "exp": now.Add(6 * time.Hour).Unix(), "iat": now.Add(-time.Minute).Unix()}
	if e, present := s.emailClaim(); present {
		claims["email"] = e
	}
	s.bearer = vfMint(claims, vfMintOpts{})
	return nil
}

type c08Witness struct {
	RuleSet   c08RuleSet  `json:"rule_set"`
	Store     string      `json:"store"`
	Flags     []string    `json:"flags"`
	History   string      `json:"history"`
	Subject   interface{} `json:"subject"`
	Source    string      `json:"source"`
	Request   *vfReq      `json:"request"`
	Allowed   bool        `json:"reference_allowed"`
	Status    int         `json:"status"`
	SetCookie []string    `json:"set_cookie,omitempty"`
	JarAfter  []string    `json:"cookies_left_in_browser,omitempty"`
	Upstream  interface{} `json:"upstream_hits,omitempty"`
	Body      string      `json:"body,omitempty"`
}

// probe sends one request with the given credential and judges it against `allowed`.
// lines: Set-Cookie lines of the session to load into a fresh browser (nil: none); auth: Authorization header.
func (cw *c08World) probe(in *c08Inst, history, source string, subject interface{}, lines []string, auth, target string, allowed bool, cell, id string) (served bool) {
	run := cw.run
	b := vfNewBrowser("")
	if len(lines) > 0 {
		b.Jar.Apply(b.Host, "/", lines)
	}
	req := vfGET(target, "X-Vf-Id", id)
	if auth != "" {
		req.H("Authorization", auth)
	}
	sent := req.Clone()
	sent.Host = b.Host
	if cs := b.Jar.For(b.Host, target, false); len(cs) > 0 {
		sent.Headers = append(sent.Headers, [2]string{"Cookie", vfCookieHeader(cs)})
	}
	resp := b.Send(in.P, req)
	hits := cw.w.Up.FindHit(id)
	var left []string
	for _, c := range b.Jar.For(b.Host, "/", false) {
		if strings.HasPrefix(c.Name, c08CookieName) && !strings.Contains(c.Name, "csrf") {
			left = append(left, c.Name)
		}
	}
	wit := func() c08Witness {
		return c08Witness{RuleSet: in.Rules, Store: in.Store, Flags: in.P.Flags, History: history, Subject: subject, Source: source, Request: sent, Allowed: allowed, Status: resp.Code,
			SetCookie: resp.SetCookies(), JarAfter: left, Upstream: hits, Body: vfTrunc(strings.Join(strings.Fields(vfErrText(resp.Body)), " "), 200)}
	}
	what := fmt.Sprintf("%s session of %s at rule set %q (%s store, %s): GET %s -> %d", source, c08ASCII(subject), in.Rules.Name, in.Store, history, target, resp.Code)
	run.Eval(cell)
	if resp.Panic != "" {
		c08Violation(run, "c08:panic", "request handling panicked: "+what+": "+vfTrunc(resp.Panic, 200), wit())
		return false
	}
	switch {
	case strings.HasPrefix(target, "/oauth2/auth"):
		served = resp.Code == 202
	case strings.HasPrefix(target, "/oauth2/userinfo"):
		body := strings.TrimSpace(string(resp.Body))
		served = resp.Code == 200 && body != "{}"
	default:
		served = len(hits) > 0
	}
	if allowed {
		if served {
			run.Count("served_allowed", 1)
		} else {
			run.Count("allowed_but_not_served(not judged here: C01)", 1)
			cw.note("allowed_but_not_served", what)
		}
		return served
	}
	if served {
		c08Violation(run, "c08:served-though-rules-fail", "served although the reference rule evaluation refuses the session: "+what, wit())
		return served
	}
	run.Count("refused_disallowed", 1)
	if resp.Code != 401 && resp.Code != 403 {
		c08Violation(run, "c08:refusal-status", "a session failing the rules must be refused with 401/403: "+what, wit())
		return served
	}
	if len(left) > 0 {
		c08Violation(run, "c08:refused-without-clearing-cookie", fmt.Sprintf("refused, but the browser still holds session cookie(s) %v afterwards: %s", left, what), wit())
		return served
	}
	if len(lines) > 0 {
		run.Count("refusals_with_cookie_deletion_checked", 1)
	}
	if c08IssuesSession(resp.SetCookies()) {
		c08Violation(run, "c08:refused-without-clearing-cookie", "refused, but a new session cookie was handed out: "+what, wit())
	}
	run.SampleEvery(4001, func() interface{} { return wit() })
	return served
}

// note keeps a few examples of outcomes that are recorded but not judged (they end up in the evidence file).
func (cw *c08World) note(kind, what string) {
	cw.noteMu.Lock()
	defer cw.noteMu.Unlock()
	if cw.notes == nil {
		cw.notes = map[string][]string{}
	}
	if len(cw.notes[kind]) < 25 {
		cw.notes[kind] = append(cw.notes[kind], what)
	}
}

func (cw *c08World) restore(s *c08Subject) {
	for fam, k := range s.rkey {
		if k != "" && !cw.w.Redis().Exists(k) {
			_ = cw.w.Redis().Set(k, s.rval[fam])
		}
	}
}

var c08Targets = []string{"/x?a=1", "/oauth2/auth", "/oauth2/userinfo"}

// global rules on every request: all subjects x all instances x {cookie, bearer} x 3 endpoints
func c08Global(cw *c08World, subjects []*c08Subject) {
	run := cw.run
	vfParallel(len(subjects), 16, func(i int) {
		s := subjects[i]
		if err := cw.makeCreds(s); err != nil {
			run.T.Errorf("c08: %v", err)
			return
		}
		run.Count("subjects", 1)
		if n := len(s.cookieLines["cookie/host"]); n > 1 {
			run.Count("sessions_split_over_several_cookies", 1)
			run.Count("cookies_of_split_sessions", int64(n))
		}
		for k, in := range cw.insts {
			if !run.Env.Thorough() && s.Class == "grammar" && (k/2+s.n)%2 == 1 {
				continue // quick tier: the seeded grammar sample visits every other rule set
			}
			if !run.Env.Thorough() && s.Class == "file-column" && in.Rules.File == nil {
				continue // quick tier: addresses of file columns visit the rule sets with an e-mails file
			}
			ok, amb := in.Rules.allowed(s.Email, s.Groups)
			if amb {
				run.Count("ambiguous_skipped", 1)
				continue
			}
			if s.Class == "file-column" && !ok && len(in.Rules.File) > 0 && len(in.Rules.File[0].Extra) > 0 {
				run.Count("file_column_subjects_outside_rules_at_multi_column_files", 1)
			}
			for _, src := range []string{"cookie", "bearer"} {
				if s.Big && src == "bearer" {
					continue // header size limits are not the subject
				}
				for t, target := range c08Targets {
					id := fmt.Sprintf("c08g-%d-%d-%s-%d", s.n, k, src, t)
					cell := fmt.Sprintf("%s|%s|%s|%s|%s|restart|want=%v", in.Rules.Name, s.Class, src, target, in.key(), ok)
					if src == "cookie" {
						cw.restore(s)
						cw.probe(in, "session issued by a permissive instance sharing secret and store, presented after an operator restart with these rules", src, s, s.cookieLines[in.key()], "", target, ok, cell, id)
					} else {
						cw.probe(in, "bearer token", src, s, nil, "Bearer "+s.bearer, target, ok, cell, id)
					}
				}
			}
		}
	})
}

// c08IdentityShapes: the e-mail rules look at the session's E-MAIL and at nothing else. The relation between the
// e-mail and the session's other fields is varied — user name (sub) equal to the e-mail, equal to it in upper case,
// equal to an address the rules ALLOW while the e-mail is not allowed, preferred_username likewise, group names that
// spell an allowed address or domain, no groups — for e-mails failing and passing the rules, on every session kind:
// cookie session (real login with such claims at the permissive instance, presented after the restart), bearer token
// with an e-mail claim, bearer token whose e-mail claim is missing or empty (documented: the subject takes its
// place, so the subject is what the rules judge), and claim mappings that read the e-mail from `sub` /
// `preferred_username` (--oidc-email-claim). Returns the login attempts of the same identities at the restrictive
// instances (run with the other logins).
func c08IdentityShapes(cw *c08World) []c08LoginJob {
	run := cw.run
	var subs []*c08Subject
	add := func(s *c08Subject) {
		if s.Groups == nil {
			s.Groups = []string{"g1"}
		}
		s.n = 7000 + len(subs)
		s.Class = "shape:" + s.Shape
		s.bearerOnly = s.EmailClaim != ""
		subs = append(subs, s)
	}
	for _, e := range []string{"mallory@evil.org", "u@evilexample.com", "listed@other.orgx", "u@example.com", "listed@other.org"} {
		a := "u@example.com" // an address that rule sets allow (by domain; the other one by file)
		if e == a {
			a = "listed@other.org"
		}
		add(&c08Subject{Email: e, Shape: "user=email", Sub: e})
		add(&c08Subject{Email: e, Shape: "user=EMAIL", Sub: strings.ToUpper(e)})
		add(&c08Subject{Email: e, Shape: "user=preferred_username=an-allowed-address", Sub: a, PU: a})
		add(&c08Subject{Email: e, Shape: "preferred_username=email", PU: e})
		add(&c08Subject{Email: e, Shape: "user=preferred_username=group=email", Sub: e, PU: e, Groups: []string{e, "g1"}})
		add(&c08Subject{Email: e, Shape: "groups-spell-allowed-address-and-domain", Groups: []string{a, "example.com", "@example.com", "g1"}})
		add(&c08Subject{Email: e, Shape: "user=email,no-groups", Sub: e, Groups: []string{}})
		add(&c08Subject{Email: e, Shape: "no-email-claim,sub=address", Sub: e, EmailClaim: "omitted"})
		add(&c08Subject{Email: e, Shape: "empty-email-claim,sub=address", Sub: e, EmailClaim: "empty"})
		add(&c08Subject{Email: e, Shape: "no-email-claim,sub=address,preferred_username=an-allowed-address", Sub: e, PU: a, EmailClaim: "omitted"})
	}
	for _, id := range []string{"svc-123456789", "example.com", "0"} {
		add(&c08Subject{Email: id, Shape: "no-email-claim,sub=service-id", Sub: id, EmailClaim: "omitted"})
	}
	var insts []*c08Inst
	for _, in := range cw.insts {
		switch in.Rules.Name {
		case "exact", "leading-dot", "file-only", "file+domain", "two-groups+domain":
			insts = append(insts, in)
		}
	}
	// claim mappings that take the e-mail from another claim: the session's e-mail IS then the user name / the
	// preferred user name, and is judged like any other e-mail
	type mapping struct {
		in    *c08Inst
		claim string
	}
	var maps []mapping
	for _, claim := range []string{"sub", "preferred_username"} {
		rs := c08RuleSet{Name: "email-claim=" + claim, Domains: []string{"example.com"}, ErrMode: "page"}
		p, err := cw.w.NewProxy(append(cw.flags(rs, "cookie", "host"), "--oidc-email-claim="+claim)...)
		if err != nil {
			run.T.Fatalf("c08: instance with --oidc-email-claim=%s: %v", claim, err)
		}
		maps = append(maps, mapping{&c08Inst{Rules: rs, Store: "cookie", Fam: "host", P: p}, claim})
	}
	var jobs []c08LoginJob
	var jmu sync.Mutex
	vfParallel(len(subs), 16, func(i int) {
		s := subs[i]
		if err := cw.makeCreds(s); err != nil {
			run.T.Errorf("c08: identity shape %q: %v", s.Shape, err)
			return
		}
		run.Count("identity_shapes", 1)
		for k, in := range insts {
			ok, amb := in.Rules.allowed(s.Email, s.Groups)
			if amb {
				run.Count("ambiguous_skipped", 1)
				continue
			}
			for _, src := range []string{"cookie", "bearer"} {
				if src == "cookie" && s.bearerOnly {
					continue
				}
				for t, target := range c08Targets {
					id := fmt.Sprintf("c08s-%d-%d-%s-%d", s.n, k, src, t)
					cell := fmt.Sprintf("%s|%s|%s|%s|%s|restart|want=%v", in.Rules.Name, s.Class, src, target, in.Store, ok)
					if src == "cookie" {
						cw.restore(s)
						cw.probe(in, "session issued by a permissive instance sharing secret and store, presented after an operator restart with these rules", src, s, s.cookieLines[in.key()], "", target, ok, cell, id)
					} else {
						cw.probe(in, "bearer token", src, s, nil, "Bearer "+s.bearer, target, ok, cell, id)
					}
					if !ok {
						run.Count("identity_shape_probes_outside_rules", 1)
					}
				}
			}
			if !s.bearerOnly && (in.Store == "cookie" || (i+k)%3 == 0) {
				jmu.Lock()
				jobs = append(jobs, c08LoginJob{in, s})
				jmu.Unlock()
			}
		}
		// the same claims where the e-mail is read from another claim
		for k, m := range maps {
			em := s.sub()
			if m.claim == "preferred_username" {
				em = s.pu()
			}
			e0, _ := s.emailClaim()
			d := &c08Subject{Email: em, Groups: s.Groups, Class: s.Class, Shape: s.Shape + ", --oidc-email-claim=" + m.claim, Sub: s.sub(), PU: s.pu(), EmailClaim: "other:" + e0, n: s.n, bearerOnly: true, bearer: s.bearer}
			if _, present := s.emailClaim(); !present {
				d.EmailClaim = "omitted"
			}
			ok, amb := m.in.Rules.allowed(em, s.Groups)
			if amb {
				continue
			}
			for t, target := range c08Targets {
				cw.probe(m.in, "bearer token", "bearer", d, nil, "Bearer "+s.bearer, target, ok, fmt.Sprintf("%s|%s|bearer|%s|cookie|none|want=%v", m.in.Rules.Name, s.Class, target, ok), fmt.Sprintf("c08sm-%d-%d-%d", s.n, k, t))
				if !ok {
					run.Count("identity_shape_probes_outside_rules", 1)
				}
			}
			if !s.bearerOnly {
				jmu.Lock()
				jobs = append(jobs, c08LoginJob{m.in, d})
				jmu.Unlock()
			}
		}
	})
	sort.Slice(jobs, func(a, b int) bool {
		if jobs[a].s.n != jobs[b].s.n {
			return jobs[a].s.n < jobs[b].s.n
		}
		if jobs[a].in.Rules.Name != jobs[b].in.Rules.Name {
			return jobs[a].in.Rules.Name < jobs[b].in.Rules.Name
		}
		return jobs[a].in.Store < jobs[b].in.Store
	})
	return jobs
}

// htpasswd sessions: Basic credentials and the session cookie of a form login at the htpasswd instance
func c08Htpasswd(cw *c08World) {
	run := cw.run
	type form struct {
		lines      []string
		groups     []string
		rkey, rval string
		store      string
	}
	var forms []form
	_ = forms
	for _, in := range cw.insts {
		if !in.Rules.Ht {
			continue
		}
		// the Basic credential is evaluated at this very instance
		ok, _ := in.Rules.allowed("", in.Rules.HtGroups)
		for t, target := range c08Targets {
			cw.probe(in, "htpasswd Basic credential", "basic", map[string]interface{}{"user": "bob", "groups": in.Rules.HtGroups}, nil, c08Basic("bob", "pw1"), target, ok,
				fmt.Sprintf("%s|htpasswd|basic|%s|%s|none|want=%v", in.Rules.Name, target, in.Store, ok), fmt.Sprintf("c08h-%s-%s-%d", in.Rules.Name, in.Store, t))
		}
		// form login -> cookie session {User: bob, Groups: htpasswd groups}, later shown to every instance of that store
		b := vfNewBrowser("")
		var r *vfResp
		k, v := cw.withNewRedisKey(func() {
			r = b.Send(in.P, vfNewReq("POST", "/oauth2/sign_in").WithBody("application/x-www-form-urlencoded", []byte("username=bob&password=pw1&rd=%2F")))
		})
		f := form{lines: c08SessionLines(b), groups: in.Rules.HtGroups, store: in.key()}
		if in.Store == "redis" {
			f.rkey, f.rval = k, v
		}
		if r.Code != 302 || len(f.lines) == 0 {
			run.Count("htpasswd_form_login_failed", 1)
			continue
		}
		forms = append(forms, f)
	}
	for fi, f := range forms {
		for k, in := range cw.insts {
			if in.key() != f.store {
				continue
			}
			ok, _ := in.Rules.allowed("", f.groups)
			for t, target := range c08Targets {
				if f.rkey != "" && !cw.w.Redis().Exists(f.rkey) {
					_ = cw.w.Redis().Set(f.rkey, f.rval)
				}
				cw.probe(in, "htpasswd form-login session of another instance sharing secret and store (restart)", "htpasswd-cookie", map[string]interface{}{"user": "bob", "email": "", "groups": f.groups}, f.lines, "", target, ok,
					fmt.Sprintf("%s|htpasswd|cookie|%s|%s|restart|want=%v", in.Rules.Name, target, in.Store, ok), fmt.Sprintf("c08hf-%d-%d-%d", fi, k, t))
			}
		}
	}
}

func c08Basic(user, pw string) string {
	return "Basic " + base64.StdEncoding.EncodeToString([]byte(user+":"+pw))
}

func c08SHA(pw string) string {
	s := sha1.Sum([]byte(pw))
	return "{SHA}" + base64.StdEncoding.EncodeToString(s[:])
}

// logins: an identity failing the rules gets no session at all
type c08LoginJob struct {
	in *c08Inst
	s  *c08Subject
}

func c08Logins(cw *c08World, subjects []*c08Subject, extra []c08LoginJob) {
	run := cw.run
	type job = c08LoginJob
	var par, ser []job
	for _, j := range extra {
		if j.in.Store == "redis" {
			ser = append(ser, j)
		} else {
			par = append(par, j)
		}
	}
	for k, in := range cw.insts {
		for i, s := range subjects {
			// an address of a later file column always tries to log in where the file has several columns
			always := s.Class == "file-column" && strings.HasPrefix(in.Rules.Name, "file-")
			if s.Class == "grammar" && (!run.Env.Thorough() || (i+k)%6 != 0) {
				continue
			}
			if !always && !run.Env.Thorough() && (i+k/2)%2 == 1 {
				continue
			}
			if !always && !run.Env.Thorough() && in.Store == "redis" && (i+k/2)%4 != 0 {
				continue // Redis logins run one at a time (the key space is compared before/after)
			}
			if in.Store == "redis" {
				ser = append(ser, job{in, s})
			} else {
				par = append(par, job{in, s})
			}
		}
	}
	one := func(j job, redis bool) {
		ok, amb := j.in.Rules.allowed(j.s.Email, j.s.Groups)
		if amb {
			return
		}
		var before map[string]bool
		if redis {
			before = map[string]bool{}
			for _, k := range cw.w.Redis().Keys() {
				before[k] = true
			}
		}
		b := vfNewBrowser("")
		_, cb, err := b.Login(j.in.P, j.s.identity(), "/x")
		cell := fmt.Sprintf("%s|%s|login|%s|want=%v", j.in.Rules.Name, j.s.Class, j.in.Store, ok)
		run.Eval(cell)
		if cb == nil {
			run.T.Errorf("c08: login of %q at %s did not reach the callback: %v", j.s.Email, j.in.Rules.Name, err)
			return
		}
		if ok {
			if err == nil {
				run.Count("logins_allowed_succeeded", 1)
			} else {
				run.Count("logins_allowed_but_refused(not judged here: C01)", 1)
			}
			return
		}
		run.Count("logins_refused_expected", 1)
		var newKeys []string
		if redis {
			for _, k := range cw.w.Redis().Keys() {
				if !before[k] {
					newKeys = append(newKeys, k)
				}
			}
		}
		left := c08SessionLines(b)
		wit := map[string]interface{}{"rule_set": j.in.Rules, "store": j.in.Store, "flags": j.in.P.Flags, "identity": j.s, "callback_status": cb.Code, "callback_set_cookie": cb.SetCookies(),
			"session_cookies_in_browser": left, "new_redis_keys": newKeys, "body": vfTrunc(vfErrText(cb.Body), 200)}
		what := fmt.Sprintf("login of %s at rule set %q (%s store): callback status %d", c08ASCII(j.s), j.in.Rules.Name, j.in.Store, cb.Code)
		switch {
		case cb.Panic != "":
			c08Violation(run, "c08:panic", "callback panicked: "+what, wit)
		case len(left) > 0 || c08IssuesSession(cb.SetCookies()):
			c08Violation(run, "c08:session-for-refused-login", "an identity failing the rules was given a session cookie: "+what, wit)
		case len(newKeys) > 0:
			c08Violation(run, "c08:session-for-refused-login", "an identity failing the rules left a session in Redis: "+what, wit)
		case cb.Code < 400:
			c08Violation(run, "c08:session-for-refused-login", "an identity failing the rules did not get an error page: "+what, wit)
		default:
			// whatever the browser now holds must not open the door
			id := fmt.Sprintf("c08l-%s-%s-%d", j.in.Rules.Name, j.in.Store, j.s.n)
			r := b.Get(j.in.P, "/x", "X-Vf-Id", id)
			if len(cw.w.Up.FindHit(id)) > 0 {
				wit["followup_status"] = r.Code
				c08Violation(run, "c08:session-for-refused-login", "after the refused login the browser was served: "+what, wit)
			}
		}
	}
	var wg sync.WaitGroup
	wg.Add(1)
	go func() {
		defer wg.Done()
		for _, j := range ser {
			one(j, true)
		}
	}()
	vfParallel(len(par), 12, func(i int) { one(par[i], false) })
	wg.Wait()
}

// ---------------------------------------------------------------------------------------------------------
// auth-only query constraints

type c08QOpt struct {
	Label string
	Query string   // raw query fragment ("" = parameter absent)
	Items []string // the non-empty items the fragment carries (reference reading)
}

func c08Q(key, label string, values ...string) c08QOpt {
	o := c08QOpt{Label: label}
	var parts []string
	for _, v := range values {
		parts = append(parts, key+"="+vfQueryEscape(v))
		for _, it := range strings.Split(v, ",") {
			if it != "" {
				o.Items = append(o.Items, it)
			}
		}
	}
	o.Query = strings.Join(parts, "&")
	return o
}

// c08HostMatch: reference for allowed_email_domains items ("example.com", ".example.com", "*.example.com"); the most
// permissive documented reading is used (sub-domain forms also cover the domain itself, comparison ignores case).
func c08HostMatch(host, item string) bool {
	h, d := strings.ToLower(host), strings.ToLower(item)
	switch {
	case strings.HasPrefix(d, "*."):
		return h == d[2:] || strings.HasSuffix(h, d[1:])
	case strings.HasPrefix(d, "."):
		return h == d[1:] || strings.HasSuffix(h, d)
	}
	return h == d
}

func c08AuthOnlyAllowed(email string, groups []string, g, e, d []string) bool {
	if len(g) > 0 && !c08Intersects(groups, g) {
		return false
	}
	if len(e) > 0 {
		ok := false
		for _, it := range e {
			if email != "" && strings.EqualFold(it, email) {
				ok = true
			}
		}
		if !ok {
			return false
		}
	}
	if len(d) > 0 {
		dom, has := c08DomainPart(email)
		if !has {
			return false
		}
		ok := false
		for _, it := range d {
			if c08HostMatch(dom, it) {
				ok = true
			}
		}
		if !ok {
			return false
		}
	}
	return true
}

type c08QSession struct {
	Label  string
	Email  string
	Groups []string
	lines  []string
	auth   string
}

func c08AuthOnly(cw *c08World) {
	run := cw.run
	q, err := cw.w.NewProxy("--skip-jwt-bearer-tokens=true", "--htpasswd-file="+cw.ht, "--htpasswd-user-group=hg", "--htpasswd-user-group=a")
	if err != nil {
		run.T.Fatalf("c08: auth-only instance: %v", err)
	}
	// a second one whose global rules already restrict
	q2, err := cw.w.NewProxy("--skip-jwt-bearer-tokens=true", "--email-domain=example.com", "--allowed-group=a", "--allowed-group=x,y")
	if err != nil {
		run.T.Fatalf("c08: auth-only instance 2: %v", err)
	}
	// a third one in reverse-proxy mode (nginx auth_request / forward-auth deployments): the constraints are the ones in
	// the operator's auth URL, i.e. the request's own query, whatever the client-controlled X-Forwarded-Uri carries
	q3, err := cw.w.NewProxy("--reverse-proxy=true", "--skip-jwt-bearer-tokens=true", "--htpasswd-file="+cw.ht, "--htpasswd-user-group=hg", "--htpasswd-user-group=a")
	if err != nil {
		run.T.Fatalf("c08: auth-only instance 3 (reverse-proxy): %v", err)
	}
	sessions := []*c08QSession{
		{Label: "plain", Email: "toto@example.com", Groups: []string{"a", "b"}},
		{Label: "subdomain-nogroups", Email: "u@sub.example.com", Groups: []string{}},
		{Label: "multi-at", Email: "a@b@example.com", Groups: []string{"x,y"}},
		{Label: "upper", Email: "U@EXAMPLE.COM", Groups: []string{"A"}},
		{Label: "lookalike", Email: "toto@evilexample.com", Groups: []string{"ab", "a "}},
		{Label: "multi-at-inner-domain", Email: "a@example.com@evil.org", Groups: []string{"a"}},
	}
	for i, s := range sessions {
		b := vfNewBrowser("")
		if _, _, err := b.Login(q, vfIdentity{Sub: fmt.Sprintf("q-%d", i), Email: s.Email, Groups: s.Groups, PreferredUsername: "q"}, "/"); err != nil {
			run.T.Fatalf("c08: auth-only login %q: %v", s.Email, err)
		}
		s.lines = c08SessionLines(b)
	}
	now := time.Now()
	sessions = append(sessions,
		&c08QSession{Label: "htpasswd", Email: "", Groups: []string{"hg", "a"}, auth: c08Basic("bob", "pw1")},
		&c08QSession{Label: "bearer", Email: "bearer@sub.example.com", Groups: []string{"b"}, auth: "Bearer " + vfMint(map[string]interface{}{"iss": cw.w.IdP.Issuer, "aud": "cid", "sub": "q-b",
			"email": "bearer@sub.example.com", "groups": []string{"b"}, "preferred_username": "q", "exp": now.Add(6 * time.Hour).Unix(), "iat": now.Add(-time.Minute).Unix()}, vfMintOpts{})})

	type job struct {
		s       *c08QSession
		g, e, d c08QOpt
		inst    *vfProxy
		iname   string
		xfu     string // X-Forwarded-Uri sent along (reverse-proxy instance)
	}
	var jobs []job
	for si, s := range sessions {
		g0 := "zz"
		if len(s.Groups) > 0 {
			g0 = s.Groups[len(s.Groups)-1]
		}
		em := s.Email
		if em == "" {
			em = "nobody@example.com"
		}
		dom, _ := c08DomainPart(em)
		parent := dom
		if k := strings.IndexByte(dom, '.'); k >= 0 && strings.Count(dom, ".") >= 2 {
			parent = dom[k+1:]
		}
		gopts := []c08QOpt{{Label: "absent"}, c08Q("allowed_groups", "empty", ""), c08Q("allowed_groups", "commas-only", ",,"), c08Q("allowed_groups", "match", g0), c08Q("allowed_groups", "nomatch", "zz"),
			c08Q("allowed_groups", "list-match", "zz,"+g0), c08Q("allowed_groups", "list-nomatch", "zz,yy"), c08Q("allowed_groups", "repeat-match", "zz", g0), c08Q("allowed_groups", "repeat-nomatch", "zz", "yy"),
			c08Q("allowed_groups", "empty-then-nomatch", "", "zz"), c08Q("allowed_groups", "empty-items", "zz,,"+g0+","), c08Q("allowed_groups", "prefix-of-group", strings.TrimSuffix(g0, g0[len(g0)-1:])+"?"), c08Q("allowed_groups", "superstring", g0+"x,x"+g0)}
		eopts := []c08QOpt{{Label: "absent"}, c08Q("allowed_emails", "empty", ""), c08Q("allowed_emails", "match", em), c08Q("allowed_emails", "nomatch", "tete@example.com"), c08Q("allowed_emails", "list-match", "tete@example.com,"+em),
			c08Q("allowed_emails", "list-nomatch", "tete@example.com,tutu@example.com"), c08Q("allowed_emails", "repeat-match", "tete@example.com", em), c08Q("allowed_emails", "empty-then-nomatch", "", "tete@example.com"),
			c08Q("allowed_emails", "lookalike", "x"+em+","+em+"x,"+strings.Replace(em, "@", "@x", 1))}
		inner := "example.com" // for an address with several '@': the text between the first two
		if at := strings.Split(em, "@"); len(at) > 2 {
			inner = at[1]
		}
		dopts := []c08QOpt{{Label: "absent"}, c08Q("allowed_email_domains", "inner-part", inner, "*."+inner), c08Q("allowed_email_domains", "empty", ""), c08Q("allowed_email_domains", "match", dom), c08Q("allowed_email_domains", "nomatch", "other.org"),
			c08Q("allowed_email_domains", "list-match", "other.org,"+dom), c08Q("allowed_email_domains", "list-nomatch", "other.org,a."+dom), c08Q("allowed_email_domains", "repeat-match", "other.org", dom),
			c08Q("allowed_email_domains", "empty-then-nomatch", "", "other.org"), c08Q("allowed_email_domains", "dot-parent", "."+parent), c08Q("allowed_email_domains", "star-parent", "*."+parent),
			c08Q("allowed_email_domains", "parent-exact", "x"+parent+","+strings.TrimPrefix(parent, "e")), c08Q("allowed_email_domains", "suffix-lookalike", "."+strings.TrimPrefix(dom, dom[:1])+",*."+strings.TrimPrefix(dom, dom[:2])),
			c08Q("allowed_email_domains", "tld", "com,.org,*.org")}
		n := 0
		for _, g := range gopts {
			for _, e := range eopts {
				for _, d := range dopts {
					n++
					if !run.Env.Thorough() && (n+si)%3 != 0 && !(g.Label == "absent" && e.Label == "absent") && !(g.Label == "absent" && d.Label == "absent") && !(e.Label == "absent" && d.Label == "absent") {
						continue
					}
					jobs = append(jobs, job{s, g, e, d, q, "permissive", ""})
					if s.lines != nil && n%4 == 0 {
						jobs = append(jobs, job{s, g, e, d, q2, "restrictive", ""})
					}
					if run.Env.Thorough() || n%3 == 0 || (g.Label != "absent" && e.Label == "absent" && d.Label == "absent") {
						// what the client makes the front proxy forward: a plain URI, its own constraints that the session
						// satisfies, constraints nobody satisfies, or an attempt to blank the operator's
						xfus := []string{"/app/page", "/app/page?x=1", "/app?allowed_groups=" + vfQueryEscape(g0) + "&allowed_emails=" + vfQueryEscape(em) + "&allowed_email_domains=" + vfQueryEscape(dom),
							"/app?allowed_groups=nobody-is-in-this-group&allowed_emails=nobody@nowhere.invalid", "/oauth2/auth?allowed_groups=&allowed_emails=&allowed_email_domains=", "/oauth2/auth"}
						jobs = append(jobs, job{s, g, e, d, q3, "reverse-proxy", xfus[n%len(xfus)]})
					}
				}
			}
		}
	}
	q2rules := c08RuleSet{Name: "auth-only-restrictive", Domains: []string{"example.com"}, Groups: []string{"a", "x", "y"}}
	vfParallel(len(jobs), 16, func(i int) {
		j := jobs[i]
		var parts []string
		for _, o := range []c08QOpt{j.g, j.e, j.d} {
			if o.Query != "" {
				parts = append(parts, o.Query)
			}
		}
		if i%2 == 1 { // parameter order must not matter
			for a, b := 0, len(parts)-1; a < b; a, b = a+1, b-1 {
				parts[a], parts[b] = parts[b], parts[a]
			}
		}
		target := "/oauth2/auth"
		if len(parts) > 0 {
			target += "?" + strings.Join(parts, "&")
		}
		allowed := c08AuthOnlyAllowed(j.s.Email, j.s.Groups, j.g.Items, j.e.Items, j.d.Items)
		globalOK := true
		if j.iname == "restrictive" {
			globalOK, _ = q2rules.allowed(j.s.Email, j.s.Groups)
			allowed = allowed && globalOK
		}
		b := vfNewBrowser("")
		if j.s.lines != nil {
			b.Jar.Apply(b.Host, "/", j.s.lines)
		}
		req := vfGET(target)
		if j.s.auth != "" {
			req.H("Authorization", j.s.auth)
		}
		if j.xfu != "" {
			req.H("X-Forwarded-Uri", j.xfu)
		}
		resp := b.Send(j.inst, req)
		run.Eval(fmt.Sprintf("authonly|%s|g=%s|e=%s|d=%s|%s|want=%v", j.s.Label, j.g.Label, j.e.Label, j.d.Label, j.iname, allowed))
		run.Count("authonly_requests", 1)
		wit := map[string]interface{}{"flags": j.inst.Flags, "session": map[string]interface{}{"kind": j.s.Label, "email": j.s.Email, "groups": j.s.Groups}, "request_target": target,
			"constraint_items": map[string]interface{}{"groups": j.g.Items, "emails": j.e.Items, "domains": j.d.Items}, "reference_allowed": allowed, "status": resp.Code, "x_forwarded_uri": j.xfu}
		what := fmt.Sprintf("session {%s %+q %+q} GET %s at the %s instance -> %d", j.s.Label, j.s.Email, j.s.Groups, target, j.iname, resp.Code)
		if j.xfu != "" {
			what = fmt.Sprintf("session {%s %+q %+q} GET %s with X-Forwarded-Uri: %s at the %s instance -> %d (the constraints are those of the request's own query)", j.s.Label, j.s.Email, j.s.Groups, target, j.xfu, j.iname, resp.Code)
			run.Count("authonly_requests_with_x_forwarded_uri", 1)
		}
		switch {
		case resp.Panic != "":
			c08Violation(run, "c08:panic", "auth-only panicked: "+what, wit)
		case resp.Code == 202 && !allowed:
			c08Violation(run, "c08:auth-only-constraint-not-enforced", "202 although a given constraint is not satisfied: "+what, wit)
		case resp.Code == 202:
			run.Count("authonly_202", 1)
		case resp.Code != 401 && resp.Code != 403:
			c08Violation(run, "c08:refusal-status", "auth-only must answer 202, 401 or 403: "+what, wit)
		case allowed:
			run.Count("authonly_allowed_by_permissive_reading_but_refused(not judged)", 1)
			cw.note("authonly_allowed_by_permissive_reading_but_refused", what)
		default:
			run.Count("authonly_refused", 1)
		}
		run.SampleEvery(3001, func() interface{} { return wit })
	})
	// query shapes whose reading is debatable are recorded, never judged
	for _, t := range []string{"/oauth2/auth?allowed_groups=zz;x=1", "/oauth2/auth?allowed_groups=zz&bad=%zz", "/oauth2/auth?Allowed_Groups=zz", "/oauth2/auth?allowed_groups[]=zz", "/oauth2/auth?allowed_groups=zz%00"} {
		b := vfNewBrowser("")
		b.Jar.Apply(b.Host, "/", sessions[0].lines)
		r := b.Get(q, t)
		run.Count(fmt.Sprintf("observed(not judged) %s -> %d", t, r.Code), 1)
	}
}

// ---------------------------------------------------------------------------------------------------------
// history (b): the e-mails file is rewritten while sessions exist

func c08Reload(cw *c08World) {
	run := cw.run
	pool := []string{"r0@reload.test", "R1@Reload.Test", "r2@reload.test", "r3@sub.reload.test", "r4@reload.test", "r5@reload.testx"}
	for _, store := range []string{"cookie", "redis"} {
		path := cw.w.File("c08-reload-"+store, c08FileText([]c08FileLine{{"nobody@reload.test", "plain", nil}}))
		p, err := cw.w.NewProxy("--session-store-type="+store, "--redis-connection-url="+cw.w.RedisURL(), "--skip-jwt-bearer-tokens=true", "--email-domain=nomatch.invalid", "--authenticated-emails-file="+path)
		if err != nil {
			run.T.Fatalf("c08: reload instance: %v", err)
		}
		in := &c08Inst{Store: store, Fam: "host", P: p}
		subs := make([]*c08Subject, len(pool))
		for i, e := range pool {
			subs[i] = &c08Subject{Email: e, Groups: []string{"g1"}, Class: "reload", n: 9000 + i}
			if err := cw.makeCreds(subs[i]); err != nil {
				run.T.Fatalf("c08: %v", err)
			}
		}
		rounds := run.Env.Pick(6, 30)
		rng := mrand.New(mrand.NewSource(run.Env.Seed*31 + int64(len(store))))
		var prevLines []c08FileLine
		for round := 0; round < rounds; round++ {
			canary := fmt.Sprintf("canary-%d@reload.test", round)
			var lines []c08FileLine
			// every other version has a second column (annotation) on every line: another address of the pool, or the
			// address the line stood for in an earlier version — being named there allows nobody
			annotate := func(i int) []string {
				if round%2 == 0 {
					return nil
				}
				return []string{pool[(i+1+round/2)%len(pool)]}
			}
			for i, e := range pool {
				if rng.Intn(2) == 0 {
					lines = append(lines, c08FileLine{Addr: e, Deco: []string{"plain", "spaces", "upper", "quoted"}[rng.Intn(4)], Extra: annotate(i)})
				} else if rng.Intn(3) == 0 {
					lines = append(lines, c08FileLine{Addr: e, Deco: "comment", Extra: annotate(i)})
				}
			}
			lines = append(lines, c08FileLine{Addr: canary, Deco: "plain", Extra: annotate(round)})
			if round%2 == 1 {
				run.Count("reload_versions_with_annotation_column", 1)
			}
			// how the new version arrives: rewritten in place, or prepared aside and renamed over the file — with a
			// modification time of now, or OLDER than / EQUAL to the current file's (mv of a prepared copy, rsync -t,
			// cp -p, restore from a backup), or with exactly the size of the version it replaces
			how, mtime := "atomic write+rename", "now"
			switch round % 6 {
			case 1:
				mtime = "older"
			case 2, 5:
				how = "in-place rewrite"
			case 3:
				mtime = "equal"
			case 4:
				mtime = "older"
				if prevLines != nil { // same size: the previous version with one address and the canary exchanged for others of equal length
					lines = nil
					var ann []string
					for _, l := range prevLines {
						switch {
						case strings.HasPrefix(l.Addr, "canary-"):
							ann = l.Extra // the new canary line keeps the old one's annotation (same size)
							continue
						case l.Addr == "r2@reload.test":
							l.Addr = "x2@reload.test"
						case l.Addr == "x2@reload.test":
							l.Addr = "r2@reload.test"
						}
						lines = append(lines, l)
					}
					lines = append(lines, c08FileLine{Addr: canary, Deco: "plain", Extra: ann})
					how = "atomic write+rename, same size"
				}
			}
			if run.Counter("replaced_list_never_reloaded") >= 2 {
				mtime = "now" // verdict reached; do not wait another 4 s per round
			}
			prevLines = lines
			if how == "in-place rewrite" {
				c08WriteFile(run, path, how, c08FileText(lines))
			} else {
				tmp := path + ".tmp"
				if err := os.WriteFile(tmp, []byte(c08FileText(lines)), 0o600); err != nil {
					run.T.Fatalf("c08: %v", err)
				}
				if mtime != "now" {
					fi, err := os.Stat(path)
					if err != nil {
						run.T.Fatalf("c08: %v", err)
					}
					mt := fi.ModTime()
					if mtime == "older" {
						mt = mt.Add(-time.Hour)
					}
					if err := os.Chtimes(tmp, mt, mt); err != nil {
						run.T.Fatalf("c08: %v", err)
					}
					how += ", mtime " + mtime + " than/to the replaced file's"
				}
				if err := os.Rename(tmp, path); err != nil {
					run.T.Fatalf("c08: %v", err)
				}
			}
			// wait (bounded) until the new list is visible: the canary address exists in this version only
			tries := 400
			if mtime != "now" {
				tries = 160
			}
			if !cw.pollAuth(p, canary, true, tries) {
				run.Eval("")
				if mtime != "now" {
					run.Count("replaced_list_never_reloaded", 1)
					cw.noteMu.Lock()
					cw.replacedWitness = append(cw.replacedWitness, map[string]interface{}{"flags": p.Flags, "store": store, "history": "e-mails file replaced: " + how, "file_after": c08FileText(lines),
						"probe": "GET /oauth2/auth with a bearer token for the added address " + canary + " is still refused after 4 s"})
					cw.noteMu.Unlock()
				} else {
					run.Inconclusive("e-mails file reload not visible after 10 s (" + how + ")")
				}
				continue
			}
			run.Count("reloads_observed", 1)
			in.Rules = c08RuleSet{Name: fmt.Sprintf("reload-round-%d", round), Domains: []string{"nomatch.invalid"}, File: lines}
			for _, s := range subs {
				ok, _ := in.Rules.allowed(s.Email, s.Groups)
				for _, src := range []string{"cookie", "bearer"} {
					for t, target := range c08Targets {
						id := fmt.Sprintf("c08r-%s-%d-%d-%s-%d", store, round, s.n, src, t)
						cell := fmt.Sprintf("reload|%s|%s|%s|%s|want=%v", how, src, target, store, ok)
						if src == "cookie" {
							cw.restore(s)
							cw.probe(in, "session issued earlier; e-mails file then rewritten ("+how+") and reloaded", src, s, s.cookieLines[in.key()], "", target, ok, cell, id)
						} else {
							cw.probe(in, "bearer token; e-mails file rewritten ("+how+") and reloaded", src, s, nil, "Bearer "+s.bearer, target, ok, cell, id)
						}
					}
				}
			}
		}
		c08Emptied(cw, in, path, subs)
	}
	switch n := run.Counter("replaced_list_never_reloaded"); {
	case n >= 2:
		c08Violation(run, "c08:replaced-allow-list-never-reloaded", fmt.Sprintf("in %d independent replacements an e-mails file renamed into place with a modification time older than / equal to the replaced file's was not reloaded within 4 s: revoked addresses keep passing, added ones are refused", n), cw.replacedWitness)
	case n == 1:
		run.Inconclusive("one replacement of the e-mails file with an old modification time was not reloaded within 4 s (slow reload?)")
	}
	switch n := run.Counter("emptied_list_never_enforced"); {
	case n >= 2:
		c08Violation(run, "c08:emptied-allow-list-not-enforced", fmt.Sprintf("in %d independent histories an address stayed authorised for 4 s after the e-mails file had been rewritten to contain no address at all", n), cw.emptiedWitness)
	case n == 1:
		run.Inconclusive("an emptied e-mails file was not enforced within 4 s in one history only (slow reload?)")
	}
}

// c08K8sVolume lays a file out the way Kubernetes projects ConfigMaps/Secrets: <dir>/<name> -> ..data/<name>,
// ..data -> ..rev-N/, and an update = new revision directory + atomic swap of ..data (rename of a temporary symlink)
// + removal of the old revision. The path handed to the proxy is the symlink <dir>/<name>.
type c08K8sVolume struct {
	dir, name string
	rev       int
}

func c08NewK8sVolume(run *vfRun, dir, name, content string) *c08K8sVolume {
	v := &c08K8sVolume{dir: dir, name: name}
	must := func(err error) {
		if err != nil {
			run.T.Fatalf("c08: volume layout: %v", err)
		}
	}
	must(os.MkdirAll(filepath.Join(dir, "..rev-0"), 0o755))
	must(os.WriteFile(filepath.Join(dir, "..rev-0", name), []byte(content), 0o600))
	must(os.Symlink("..rev-0", filepath.Join(dir, "..data")))
	must(os.Symlink(filepath.Join("..data", name), filepath.Join(dir, name)))
	return v
}

func (v *c08K8sVolume) Path() string { return filepath.Join(v.dir, v.name) }

func (v *c08K8sVolume) Update(run *vfRun, content string) {
	must := func(err error) {
		if err != nil {
			run.T.Fatalf("c08: volume update: %v", err)
		}
	}
	old := fmt.Sprintf("..rev-%d", v.rev)
	v.rev++
	cur := fmt.Sprintf("..rev-%d", v.rev)
	must(os.MkdirAll(filepath.Join(v.dir, cur), 0o755))
	must(os.WriteFile(filepath.Join(v.dir, cur, v.name), []byte(content), 0o600))
	must(os.Symlink(cur, filepath.Join(v.dir, "..data_tmp")))
	must(os.Rename(filepath.Join(v.dir, "..data_tmp"), filepath.Join(v.dir, "..data")))
	must(os.RemoveAll(filepath.Join(v.dir, old)))
}

// c08Symlinked: the e-mails file sits behind a symlink whose target is swapped on update (ConfigMap/Secret layout).
// Each instance is one independent history: sessions are issued and used while listed, the volume is updated (an
// address removed, a marker address added); within 4 s the marker must be accepted, then the removed address must be
// refused (cookie cleared) while the retained ones stay untouched; a second and third update follow. A list that is
// never reloaded in >= 2 independent histories is a violation, in one history the run is inconclusive.
func c08Symlinked(cw *c08World) {
	run := cw.run
	pool := []string{"k0@volume.test", "k1@volume.test", "K2@Volume.Test"}
	for hi, store := range []string{"cookie", "redis", "cookie"} {
		listed := func(addrs ...string) []c08FileLine {
			var l []c08FileLine
			for _, a := range addrs {
				l = append(l, c08FileLine{Addr: a, Deco: "plain"})
			}
			return l
		}
		lines := listed(pool...)
		vol := c08NewK8sVolume(run, filepath.Join(cw.w.Dir, fmt.Sprintf("c08-volume-%d", hi)), "emails", c08FileText(lines))
		p, err := cw.w.NewProxy("--session-store-type="+store, "--redis-connection-url="+cw.w.RedisURL(), "--skip-jwt-bearer-tokens=true", "--email-domain=nomatch.invalid", "--authenticated-emails-file="+vol.Path())
		if err != nil {
			run.T.Fatalf("c08: instance with the e-mails file behind a symlink: %v", err)
		}
		in := &c08Inst{Store: store, Fam: "host", P: p, Rules: c08RuleSet{Name: fmt.Sprintf("volume-%d-rev0", hi), Domains: []string{"nomatch.invalid"}, File: lines}}
		subs := make([]*c08Subject, len(pool))
		for i, e := range pool {
			subs[i] = &c08Subject{Email: e, Groups: []string{"g1"}, Class: "volume", n: 9500 + hi*10 + i}
			if err := cw.makeCreds(subs[i]); err != nil {
				run.T.Fatalf("c08: %v", err)
			}
			cw.restore(subs[i])
			cw.probe(in, "listed, before the volume is updated", "cookie", subs[i], subs[i].cookieLines[in.key()], "", "/x?a=1", true, "", fmt.Sprintf("c08k-%d-pre-%d", hi, i))
		}
		for upd := 1; upd <= 3; upd++ {
			marker := fmt.Sprintf("marker-%d-%d@volume.test", hi, upd)
			var keep []string
			for i, e := range pool {
				if i != (upd-1)%len(pool) {
					keep = append(keep, e) // update n removes pool[n-1]; it comes back with the next update
				}
			}
			lines = listed(append(keep, marker)...)
			vol.Update(run, c08FileText(lines))
			history := fmt.Sprintf("e-mails file behind a symlink (ConfigMap layout): update %d = new revision directory, atomic swap of ..data, old revision removed", upd)
			run.Eval(fmt.Sprintf("volume|update-%d|%s", upd, store))
			if !cw.pollAuth(p, marker, true, 160) {
				if upd == 1 {
					run.Count("symlinked_list_never_reloaded", 1)
					cw.noteMu.Lock()
					cw.symlinkWitness = append(cw.symlinkWitness, map[string]interface{}{"flags": p.Flags, "store": store, "history": history, "layout": "<dir>/emails -> ..data/emails, ..data -> ..rev-N",
						"file_after": c08FileText(lines), "probe": "GET /oauth2/auth with a bearer token for the added address " + marker + " is still refused after 4 s"})
					cw.noteMu.Unlock()
				} else {
					run.Inconclusive(fmt.Sprintf("update %d of a symlinked e-mails file not visible after 4 s (earlier updates were)", upd))
				}
				break
			}
			run.Count("symlinked_reloads_observed", 1)
			in.Rules = c08RuleSet{Name: fmt.Sprintf("volume-%d-rev%d", hi, upd), Domains: []string{"nomatch.invalid"}, File: lines}
			for _, s := range subs {
				ok, _ := in.Rules.allowed(s.Email, s.Groups)
				for _, src := range []string{"cookie", "bearer"} {
					for t, target := range c08Targets {
						id := fmt.Sprintf("c08k-%d-%d-%d-%s-%d", hi, upd, s.n, src, t)
						cell := fmt.Sprintf("volume|%s|%s|%s|want=%v", src, target, store, ok)
						if src == "cookie" {
							cw.restore(s)
							cw.probe(in, history, src, s, s.cookieLines[in.key()], "", target, ok, cell, id)
						} else {
							cw.probe(in, history, src, s, nil, "Bearer "+s.bearer, target, ok, cell, id)
						}
					}
				}
			}
		}
	}
	switch n := run.Counter("symlinked_list_never_reloaded"); {
	case n >= 2:
		c08Violation(run, "c08:symlinked-allow-list-never-reloaded", fmt.Sprintf("in %d independent histories an e-mails file behind a symlink (ConfigMap/Secret layout) was not reloaded within 4 s of the atomic swap: removed addresses stay authorised, added ones are refused", n), cw.symlinkWitness)
	case n == 1:
		run.Inconclusive("a symlinked e-mails file was not reloaded within 4 s in one history only (slow reload?)")
	}
}

func c08WriteFile(run *vfRun, path, how, text string) {
	if how == "in-place rewrite" {
		if err := os.WriteFile(path, []byte(text), 0o600); err != nil {
			run.T.Fatalf("c08: %v", err)
		}
		return
	}
	tmp := path + ".tmp"
	if err := os.WriteFile(tmp, []byte(text), 0o600); err != nil {
		run.T.Fatalf("c08: %v", err)
	}
	if err := os.Rename(tmp, path); err != nil {
		run.T.Fatalf("c08: %v", err)
	}
}

func (cw *c08World) bearerFor(email string) string {
	now := time.Now()
	return "Bearer " + vfMint(map[string]interface{}{"iss": cw.w.IdP.Issuer, "aud": "cid", "sub": "probe", "email": email, "groups": []string{}, "preferred_username": "c",
		"exp": now.Add(time.Hour).Unix(), "iat": now.Add(-time.Minute).Unix()}, vfMintOpts{})
}

// pollAuth polls /oauth2/auth with a bearer token for email until the answer is (202) == want, bounded.
func (cw *c08World) pollAuth(p *vfProxy, email string, want bool, tries int) bool {
	auth := cw.bearerFor(email)
	for k := 0; k < tries; k++ {
		if (p.Do(vfGET("/oauth2/auth", "Authorization", auth)).Code == 202) == want {
			return true
		}
		time.Sleep(25 * time.Millisecond)
	}
	return false
}

// c08Emptied: histories that END with an e-mails file without any address (empty file, comments only, blank lines),
// written atomically or in place, after sessions were issued under a list that contained their address. The empty
// version cannot be probed positively, so visibility is polled with a separate probe (a bearer token of a listed
// address on the auth-only endpoint, up to 4 s); the sessions and tokens of the other addresses are judged afterwards.
// A single history in which the list never empties is inconclusive, two or more are a violation.
func c08Emptied(cw *c08World, in *c08Inst, path string, subs []*c08Subject) {
	run := cw.run
	type hist struct{ how, form, text string }
	hs := []hist{
		{"atomic write+rename", "comments only", "# authenticated e-mails\n# nobody\n"},
		{"in-place rewrite", "empty file", ""},
		{"atomic write+rename", "empty file", ""},
		{"in-place rewrite", "comments only", "# nobody\n"},
	}
	if run.Env.Thorough() {
		hs = append(hs, hist{"atomic write+rename", "blank lines", "\n\n"}, hist{"in-place rewrite", "blank lines", "\n"})
	}
	for hi, h := range hs {
		if run.Counter("emptied_list_never_enforced") >= 2 {
			break // two independent histories are a verdict; no need to wait another 4 s per remaining history
		}
		marker := fmt.Sprintf("marker-%d@reload.test", hi)
		var lines []c08FileLine
		for _, s := range subs {
			lines = append(lines, c08FileLine{Addr: s.Email, Deco: "plain"})
		}
		lines = append(lines, c08FileLine{Addr: marker, Deco: "plain"})
		c08WriteFile(run, path, []string{"atomic write+rename", "in-place rewrite"}[hi%2], c08FileText(lines))
		if !cw.pollAuth(in.P, marker, true, 400) {
			run.Inconclusive("e-mails file reload not visible after 10 s (before emptying)")
			run.Eval("")
			continue
		}
		in.Rules = c08RuleSet{Name: fmt.Sprintf("listed-before-emptying-%d", hi), Domains: []string{"nomatch.invalid"}, File: lines}
		for _, s := range subs[:2] {
			cw.restore(s)
			cw.probe(in, "listed, before the file is emptied", "cookie", s, s.cookieLines[in.key()], "", "/x?a=1", true, "", fmt.Sprintf("c08e-%s-%d-%d-pre", in.Store, hi, s.n))
		}
		c08WriteFile(run, path, h.how, h.text)
		history := fmt.Sprintf("session issued while the address was listed; e-mails file then rewritten to %s (%s)", h.form, h.how)
		run.Eval(fmt.Sprintf("emptied|%s|%s|%s", h.how, h.form, in.Store))
		if !cw.pollAuth(in.P, marker, false, 160) {
			run.Count("emptied_list_never_enforced", 1)
			cw.noteMu.Lock()
			cw.emptiedWitness = append(cw.emptiedWitness, map[string]interface{}{"flags": in.P.Flags, "store": in.Store, "history": history, "file_before": c08FileText(lines), "file_after": h.text,
				"probe": "GET /oauth2/auth with a bearer token for " + marker + " still answers 202 after 4 s"})
			cw.noteMu.Unlock()
			continue
		}
		run.Count("emptied_lists_enforced", 1)
		in.Rules = c08RuleSet{Name: fmt.Sprintf("emptied-%d", hi), Domains: []string{"nomatch.invalid"}, File: []c08FileLine{}}
		for _, s := range subs {
			for _, src := range []string{"cookie", "bearer"} {
				for t, target := range c08Targets {
					id := fmt.Sprintf("c08e-%s-%d-%d-%s-%d", in.Store, hi, s.n, src, t)
					cell := fmt.Sprintf("emptied|%s|%s|%s|%s|%s", h.how, h.form, src, target, in.Store)
					if src == "cookie" {
						cw.restore(s)
						cw.probe(in, history, src, s, s.cookieLines[in.key()], "", target, false, cell, id)
					} else {
						cw.probe(in, history, src, s, nil, "Bearer "+s.bearer, target, false, cell, id)
					}
				}
			}
		}
	}
}

// c08NoEmailLogins: a login whose identity carries no e-mail address at all must not get a session — under restrictive
// rules and under --email-domain=* alike (observed and documented: '*' authenticates any e-mail, not the absence of one;
// only htpasswd sessions are exempt). The generic OIDC provider already stops such a login while enriching the session,
// so the cases run with --provider=adfs, an OIDC-derived provider that tolerates a missing e-mail (it falls back to
// the `upn` claim and carries on when that is missing too). ADFS decodes the state parameter twice, the browser
// played by the harness does the same.
func c08NoEmailLogins(cw *c08World) {
	run := cw.run
	type rs struct {
		name  string
		flags []string
		rules c08RuleSet
	}
	sets := []rs{
		{"star", []string{"--email-domain=*"}, c08RuleSet{Name: "adfs-star", Domains: []string{"*"}}},
		{"exact", []string{"--email-domain=example.com"}, c08RuleSet{Name: "adfs-exact", Domains: []string{"example.com"}}},
		{"star+group", []string{"--email-domain=*", "--allowed-group=g1"}, c08RuleSet{Name: "adfs-star+group", Domains: []string{"*"}, Groups: []string{"g1"}}},
	}
	type ident struct {
		label string
		id    vfIdentity
		email string // what the session's e-mail will be ("" = none)
	}
	idents := []ident{
		{"no-email-no-upn", vfIdentity{Sub: "adfs-1", Groups: []string{"g1"}, PreferredUsername: "pu", Profile: map[string]interface{}{"sub": "adfs-1"}}, ""},
		{"no-email-empty-upn", vfIdentity{Sub: "adfs-2", Groups: []string{"g1"}, PreferredUsername: "pu", Profile: map[string]interface{}{"sub": "adfs-2"}, Extra: map[string]interface{}{"upn": ""}}, ""},
		{"empty-email-claim", vfIdentity{Sub: "adfs-3", Groups: []string{"g1"}, PreferredUsername: "pu", Profile: map[string]interface{}{"sub": "adfs-3", "email": ""}, Extra: map[string]interface{}{"email": ""}}, ""},
		{"upn-only-foreign", vfIdentity{Sub: "adfs-4", Groups: []string{"g1"}, PreferredUsername: "pu", Profile: map[string]interface{}{"sub": "adfs-4"}, Extra: map[string]interface{}{"upn": "u@evilexample.com"}}, "u@evilexample.com"},
		{"upn-only", vfIdentity{Sub: "adfs-5", Groups: []string{"g1"}, PreferredUsername: "pu", Profile: map[string]interface{}{"sub": "adfs-5"}, Extra: map[string]interface{}{"upn": "u@example.com"}}, "u@example.com"},
		{"email", vfIdentity{Sub: "adfs-6", Email: "u@example.com", Groups: []string{"g1"}, PreferredUsername: "pu"}, "u@example.com"},
	}
	for _, set := range sets {
		for _, store := range []string{"cookie", "redis"} {
			p, err := cw.w.NewProxy(append([]string{"--provider=adfs", "--session-store-type=" + store, "--redis-connection-url=" + cw.w.RedisURL()}, set.flags...)...)
			if err != nil {
				run.T.Fatalf("c08: adfs instance: %v", err)
			}
			for _, idn := range idents {
				want := idn.email != ""
				if want {
					want, _ = set.rules.allowed(idn.email, idn.id.Groups)
				}
				b := vfNewBrowser("")
				var cb *vfResp
				var lerr error
				newKey, _ := cw.withNewRedisKey(func() {
					var l *vfLogin
					if l, lerr = b.StartLogin(p, idn.id, "/x"); lerr != nil {
						return
					}
					l.State, _ = url.QueryUnescape(l.State)
					cb = b.Get(p, l.CallbackTarget(p))
				})
				run.Eval(fmt.Sprintf("%s|%s|login-adfs|%s|want=%v", set.rules.Name, idn.label, store, want))
				if cb == nil {
					run.T.Errorf("c08: adfs login %s did not reach the callback: %v", idn.label, lerr)
					continue
				}
				left := c08SessionLines(b)
				if want {
					if cb.Code == 302 && len(left) > 0 {
						run.Count("adfs_logins_allowed_succeeded", 1)
					} else {
						run.Count("adfs_logins_allowed_but_refused(not judged here: C01)", 1)
					}
					continue
				}
				wit := map[string]interface{}{"flags": p.Flags, "store": store, "identity": idn.label, "id_token_claims": map[string]interface{}{"sub": idn.id.Sub, "email": idn.id.Email, "extra": idn.id.Extra},
					"userinfo_profile": idn.id.Profile, "callback_status": cb.Code, "callback_set_cookie": cb.SetCookies(), "session_cookies_in_browser": left, "new_redis_key": newKey, "body": vfTrunc(vfErrText(cb.Body), 200)}
				sig, what := "c08:session-for-refused-login", fmt.Sprintf("ADFS login of identity %q (session e-mail %+q) at %s (%s store): callback status %d", idn.label, idn.email, set.rules.Name, store, cb.Code)
				if idn.email == "" {
					sig = "c08:login-without-email-gets-session"
					run.Count("logins_without_email_refused", 1)
				}
				served := false
				for t, target := range c08Targets {
					id := fmt.Sprintf("c08adfs-%s-%s-%s-%d", set.name, store, idn.label, t)
					r := b.Get(p, target, "X-Vf-Id", id)
					if len(cw.w.Up.FindHit(id)) > 0 || r.Code == 202 || (strings.HasPrefix(target, "/oauth2/userinfo") && r.Code == 200 && strings.TrimSpace(string(r.Body)) != "{}") {
						served = true
						wit["followup_"+target] = r.Code
					}
				}
				switch {
				case cb.Panic != "":
					c08Violation(run, "c08:panic", "callback panicked: "+what, wit)
				case len(left) > 0 || c08IssuesSession(cb.SetCookies()):
					c08Violation(run, sig, "a login that must be refused was given a session cookie: "+what, wit)
				case newKey != "":
					c08Violation(run, sig, "a login that must be refused left a session in Redis: "+what, wit)
				case cb.Code < 400:
					c08Violation(run, sig, "a login that must be refused did not get an error page: "+what, wit)
				case served:
					c08Violation(run, sig, "after the refused login the browser was served: "+what, wit)
				}
			}
		}
	}
}

// c08RefreshChanges: the rules are applied to what the provider says NOW. Sessions are issued 3 h ago (imposed) at an
// instance with --cookie-refresh=1h; then the identity changes at the IdP (groups claim omitted / emptied / replaced,
// e-mail moved to a foreign or look-alike domain) and the browser keeps sending requests. The first request performs
// the refresh (counted); from the next request on the browser must be judged on the refreshed attributes, whatever
// cookies it was handed meanwhile. Controls: nothing changed, or changed within the rules, stay served.
// Runs serially (it imposes the issue time through the global clock and scripts the IdP).
func c08RefreshChanges(cw *c08World) {
	run := cw.run
	type scenario struct {
		label  string
		email  string      // e-mail after the change
		groups interface{} // groups claim after the change: []string, or nil = claim omitted
		judged bool
	}
	scenarios := []scenario{
		{"unchanged", "u@example.com", []string{"g1"}, true},
		{"groups-extended", "u@example.com", []string{"g5", "g1"}, true},
		{"groups-claim-omitted", "u@example.com", nil, true},
		{"groups-empty-list", "u@example.com", []string{}, true},
		{"groups-replaced", "u@example.com", []string{"g9", "g11"}, true},
		{"email-foreign-domain", "u@evil.org", []string{"g1"}, true},
		{"email-lookalike-domain", "u@evilexample.com", []string{"g1"}, true},
		{"email-subdomain", "u@sub.example.com", []string{"g1"}, true},
		// the refresh response marks the e-mail as unverified: the unchanged tree rejects the refreshed token and keeps
		// the session as it was; whether that is acceptable is not for this check to decide (reported, not judged)
		{"email-unverified", "u@example.com", []string{"g1"}, false},
	}
	var mu sync.Mutex
	after := map[string]scenario{}
	cw.w.IdP.Set(func(c *vfIdPCfg) {
		c.MutateIDClaims = func(grant string, _ *vfAuthReq, claims map[string]interface{}) {
			if grant != "refresh" {
				return
			}
			sub, _ := claims["sub"].(string)
			mu.Lock()
			sc, ok := after[sub]
			mu.Unlock()
			if !ok {
				return
			}
			claims["email"] = sc.email
			if sc.groups == nil {
				delete(claims, "groups")
			} else {
				claims["groups"] = sc.groups
			}
			if sc.label == "email-unverified" {
				claims["email_verified"] = false
			}
		}
	})
	defer cw.w.IdP.Set(func(c *vfIdPCfg) { c.MutateIDClaims = nil })
	sets := []c08RuleSet{
		{Name: "refresh-group", Domains: []string{"*"}, Groups: []string{"g1"}},
		{Name: "refresh-domain", Domains: []string{"example.com"}},
		{Name: "refresh-domain+groups", Domains: []string{"example.com"}, Groups: []string{"g2", "g1"}, ErrMode: "json"},
	}
	n := 0
	for _, rs := range sets {
		for _, store := range []string{"cookie", "redis"} {
			p, err := cw.w.NewProxy(append(cw.flags(rs, store, "host"), "--cookie-refresh=1h")...)
			if err != nil {
				run.T.Fatalf("c08: refresh instance %s/%s: %v", rs.Name, store, err)
			}
			for _, sc := range scenarios {
				n++
				sub := fmt.Sprintf("rf-%d", n)
				// the userinfo endpoint supplies nothing: what the refreshed ID token omits is really gone
				id := vfIdentity{Sub: sub, Email: "u@example.com", Groups: []string{"g1"}, PreferredUsername: "pu", Profile: map[string]interface{}{"sub": sub}}
				b := vfNewBrowser("")
				l, err := b.StartLogin(p, id, "/")
				if err != nil {
					run.T.Fatalf("c08: refresh login: %v", err)
				}
				clock.Set(time.Now().Add(-3 * time.Hour))
				cb := b.Get(p, l.CallbackTarget(p))
				clock.Reset()
				if cb.Code != 302 {
					run.T.Fatalf("c08: refresh login of a member refused: %d", cb.Code)
				}
				mu.Lock()
				after[sub] = sc
				mu.Unlock()
				var groups []string
				if g, ok := sc.groups.([]string); ok {
					groups = g
				}
				allowed, _ := rs.allowed(sc.email, groups)
				a0, _ := cw.w.IdP.RefreshGrants()
				first := b.Get(p, "/x?first=1", "X-Vf-Id", fmt.Sprintf("c08rf-%d-first", n))
				a1, _ := cw.w.IdP.RefreshGrants()
				run.Count(fmt.Sprintf("refresh_first_request_status_%d", first.Code), 1)
				if a1 == a0 {
					run.Eval("")
					run.Inconclusive("the stale session was not refreshed by the first request (no refresh grant reached the IdP)")
					continue
				}
				run.Count("refreshes_observed", 1)
				for t, target := range c08Targets {
					rid := fmt.Sprintf("c08rf-%d-%d", n, t)
					r := b.Get(p, target, "X-Vf-Id", rid)
					hits := cw.w.Up.FindHit(rid)
					served := len(hits) > 0 || (strings.HasPrefix(target, "/oauth2/auth") && r.Code == 202) ||
						(strings.HasPrefix(target, "/oauth2/userinfo") && r.Code == 200 && strings.TrimSpace(string(r.Body)) != "{}")
					if !sc.judged {
						run.Count(fmt.Sprintf("observed(not judged) refresh marks the e-mail unverified: %s served=%v", target, served), 1)
						continue
					}
					run.Eval(fmt.Sprintf("%s|refresh:%s|cookie|%s|%s|after-refresh|want=%v", rs.Name, sc.label, target, store, allowed))
					wit := map[string]interface{}{"rule_set": rs, "store": store, "flags": p.Flags, "history": "login 3 h ago (imposed) as u@example.com groups [g1]; then the IdP answers refresh grants with e-mail " + sc.email + fmt.Sprintf(" and groups %v (nil = claim omitted, userinfo supplies none)", sc.groups) + "; first request performs the refresh, this is a later one",
						"first_request_status": first.Code, "request": "GET " + target, "status": r.Code, "reference_allowed": allowed, "upstream_hits": hits, "cookies_in_browser": len(b.Jar.All())}
					switch {
					case r.Panic != "":
						c08Violation(run, "c08:panic", "request handling panicked: "+vfTrunc(r.Panic, 200), wit)
					case served && !allowed:
						c08Violation(run, "c08:stale-attributes-after-refresh", fmt.Sprintf("rule set %q (%s store): after the refresh the provider says e-mail %+q groups %v [%s], which fails the rules, but GET %s is still served (status %d)",
							rs.Name, store, sc.email, sc.groups, sc.label, target, r.Code), wit)
					case served:
						run.Count("served_after_refresh_within_rules", 1)
					case allowed:
						run.Count("allowed_but_not_served(not judged here: C01)", 1)
					default:
						run.Count("refused_after_refresh_outside_rules", 1)
					}
				}
			}
		}
	}
}

func TestVerif_C08(t *testing.T) {
	run := vfNewRun(t, "C08", "exploration")
	run.SetRule("global rules: boundary e-mails (exact, case, sub-domain, look-alike prefix/suffix/dot, several '@', empty parts, spaces, wildcard literals, unicode, file members) + seeded grammar sample + boundary group lists + split-cookie sessions " +
		"x 18 rule sets (exact, leading-dot, *., '*', several domains, e-mails file with case/space/comment/quoted variants, allowed groups, htpasswd) x {cookie, redis} + 13 odd list shapes (blank items from trailing/leading/doubled commas, blank-only and quoted empty items, the same in a config file, '*' among others, '*.', '.', '*x', duplicates) on one store each, x {cookie session after restart, bearer, htpasswd Basic, htpasswd form session} x {proxied path, auth-only, userinfo}; " +
		"logins of failing identities; auth-only query constraints (3 kinds x absent/empty/match/no-match/lists/repeats/empty items/look-alikes) x 7 sessions x 2 instances; e-mails file rewritten between requests, including histories that end with a file without any address (empty, comments only; atomic rename and in place); logins of identities without any e-mail through --provider=adfs; e-mails file behind a symlink whose target is swapped (ConfigMap layout); identity attributes (groups, e-mail) changed by the provider at a token refresh; " +
		"identity shapes: the session's other fields (user name, preferred_username, group names) equal to the e-mail / to its upper-case form / to an ALLOWED address while the e-mail fails the rules, bearer tokens without or with an empty e-mail claim (subject takes its place), --oidc-email-claim=sub / preferred_username, on cookie sessions, bearer tokens and logins; " +
		"e-mails files with several columns (annotation columns holding other addresses, quoted fields with commas, trailing commas, blank lines, CRLF, padded fields, several addresses in one field), also in the rewrite histories: only the first column of a record is an allowed address. " +
		"cell = (rule set, e-mail class, source, endpoint, store, history, expected)")
	run.Assume("e-mail rule semantics as documented: exact '@domain' suffix, '.d'/'*.d' = domain part ends with '.d', '*' = all, case-insensitive; file = exact lower-cased address",
		"an 'e-mail' without '@' under a sub-domain rule is not judged", "auth-only constraints are judged in the only-if direction against the most permissive documented reading",
		"being served when the rules pass is C01's clause: counted here, and the run is inconclusive when too little was served",
		"an emptied e-mails file must be enforced within 4 s of the rewrite: not enforced in >= 2 independent histories = violation, in one = inconclusive")
	w := vfNewWorld(t)
	defer w.Close()
	cw := &c08World{run: run, w: w, issuer: map[string]*vfProxy{}}
	cw.ht = w.File("c08-htpasswd", "bob:"+c08SHA("pw1")+"\n")
	for _, key := range []string{"cookie/host", "redis/host", "cookie/domain", "redis/domain"} {
		store, fam := strings.Split(key, "/")[0], strings.Split(key, "/")[1]
		cw.issuer[key] = w.MustProxy(append([]string{"--session-store-type=" + store, "--redis-connection-url=" + w.RedisURL()}, c08FamFlags(fam)...)...)
	}
	for ri, r := range c08RuleSets() {
		fam := []string{"host", "domain"}[ri%2]
		for si, store := range []string{"cookie", "redis"} {
			if r.OneStore && si != (ri/2)%2 {
				continue
			}
			var p *vfProxy
			var err error
			if r.CfgList {
				// the list comes from the config file: no --email-domain flag may be present (BaseFlags has one)
				var args []string
				for _, a := range vfMergeFlags(w.BaseFlags(), cw.flags(r, store, fam)...) {
					if !strings.HasPrefix(a, "--email-domain") {
						args = append(args, a)
					}
				}
				p, err = w.NewProxyRaw("", args)
			} else {
				p, err = w.NewProxy(cw.flags(r, store, fam)...)
			}
			if err != nil {
				t.Fatalf("c08: rule set %s/%s: %v", r.Name, store, err)
			}
			// the configuration as parsed must have the shape the reference reads (item count only: the repository
			// rewrites its copy of the list in place while building the validator)
			if got := p.Opts.EmailDomains; len(got) != len(r.Domains) {
				t.Fatalf("c08: rule set %s: the options hold %d items %q, the reference reads %q", r.Name, len(got), got, r.Domains)
			}
			cw.insts = append(cw.insts, &c08Inst{Rules: r, Store: store, Fam: fam, P: p})
		}
	}
	run.Count("ms_building_instances", time.Since(run.start).Milliseconds())
	subjects := c08Subjects(run)
	run.Extra("subjects", len(subjects))
	run.Extra("instances", len(cw.insts))
	phase := func(name string, f func()) {
		t0 := time.Now()
		f()
		run.Count("ms_"+name, time.Since(t0).Milliseconds())
	}
	phase("global_rules", func() { c08Global(cw, subjects) })
	w.Up.Reset()
	phase("htpasswd", func() { c08Htpasswd(cw) })
	var shapeLogins []c08LoginJob
	phase("identity_shapes", func() { shapeLogins = c08IdentityShapes(cw) })
	phase("logins", func() { c08Logins(cw, subjects, shapeLogins) })
	w.Up.Reset()
	phase("auth_only", func() { c08AuthOnly(cw) })
	phase("reload", func() { c08Reload(cw) })
	phase("logins_without_email", func() { c08NoEmailLogins(cw) })
	phase("symlinked_file", func() { c08Symlinked(cw) })
	w.Up.Reset()
	phase("attributes_changed_at_refresh", func() { c08RefreshChanges(cw) })

	cw.noteMu.Lock()
	for k, v := range cw.notes {
		sort.Strings(v)
		run.Extra("notes_"+k, v)
	}
	cw.noteMu.Unlock()
	for _, c := range []struct {
		name string
		min  int64
	}{{"served_allowed", 1000}, {"refused_disallowed", 1000}, {"refusals_with_cookie_deletion_checked", 500}, {"logins_refused_expected", 100}, {"logins_allowed_succeeded", 50}, {"authonly_202", 100}, {"authonly_refused", 100}, {"reloads_observed", 6}, {"sessions_split_over_several_cookies", 1}, {"emptied_lists_enforced", 4}, {"logins_without_email_refused", 8}, {"symlinked_reloads_observed", 4}, {"refused_after_refresh_outside_rules", 30}, {"served_after_refresh_within_rules", 15},
		{"identity_shape_probes_outside_rules", 1000}, {"file_column_subjects_outside_rules_at_multi_column_files", 8}, {"reload_versions_with_annotation_column", 3}} {
		if run.Counter(c.name) < c.min && run.Violations() == 0 {
			fmt.Printf("INCONCLUSIVE property=C08 reason=counter %s=%d < %d: the workload did not exercise this outcome enough\n", c.name, run.Counter(c.name), c.min)
			t.Fail()
		}
	}
	run.Finish(int64(run.Env.Pick(16000, 50000)), run.Env.Pick(8000, 12000))
}
