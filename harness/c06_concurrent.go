//go:build verif

package main

// C06 concurrency phase: the property quantifies over requests, not over quiet instances. Bursts of overlapping requests
// carrying the byte-identical hostile rd are fired at ONE instance right after a request with a valid rd (and with valid ones
// interleaved), through sign_out (rd and X-Auth-Request-Redirect), the htpasswd form login and start->IdP->callback; every
// answer is judged by the same oracle. Any per-instance state between "is this redirect valid" and "use it" (a memo, a cache,
// a reused buffer) that lets one request see another's verdict shows up as an off-origin Location here. Long strings are
// included: rejecting them takes the proxy longer (it logs them), which widens every such window.
// The overlap actually achieved is measured with an in-flight gauge and recorded; no overlap = inconclusive.

import (
	"fmt"
	"strings"
	"sync"
	"sync/atomic"
)

var c06ConcHostile = []string{"//evil.test/", "/\\evil.test/", "https://evil.test/", "/\t/evil.test/", "https://good.test@evil.test/", "/a#/../\\evil.test/", "https://evilgood.test/", "\\\\evil.test/"}
var c06ConcPads = []int{0, 600, 4000, 16000, 30000}

type c06ConcStats struct {
	inflight, maxInflight, overlapping, requests int64
}

func (s *c06ConcStats) enter() {
	n := atomic.AddInt64(&s.inflight, 1)
	atomic.AddInt64(&s.requests, 1)
	if n > 1 {
		atomic.AddInt64(&s.overlapping, 1)
	}
	for {
		m := atomic.LoadInt64(&s.maxInflight)
		if n <= m || atomic.CompareAndSwapInt64(&s.maxInflight, m, n) {
			break
		}
	}
}
func (s *c06ConcStats) leave() { atomic.AddInt64(&s.inflight, -1) }

// c06ConcBurst: one round = a valid request, then `n` goroutines released together with the same hostile string.
func (cx *c06Ctx) c06ConcBurst(acc *c06Acc, stats *c06ConcStats, round int, hostile string, n int) {
	p := cx.H
	valid := fmt.Sprintf("/ok-%d?x=1", round)
	p.Do(vfGET("/oauth2/sign_out?rd=" + vfQueryEscape(valid))) // arms "the last redirect asked about was valid"
	esc := vfQueryEscape(hostile)
	hdrOK := c06HeaderDeliverable(hostile) && len(hostile) < 7000
	var start, done sync.WaitGroup
	start.Add(1)
	var mu sync.Mutex
	for g := 0; g < n; g++ {
		done.Add(1)
		go func(g int) {
			defer done.Done()
			loc := c06NewAcc()
			in, ch := hostile, "conc:so-rd"
			var req *vfReq
			switch {
			case g == n-1 && round%2 == 1: // an interleaved valid request re-arms the state in the middle of the burst
				in = fmt.Sprintf("/ok-%d-b", round)
				req = vfGET("/oauth2/sign_out?rd=" + vfQueryEscape(in))
			case g%4 == 1:
				ch = "conc:form-rd"
				req = vfNewReq("POST", "/oauth2/sign_in").WithBody("application/x-www-form-urlencoded", []byte("username="+c06User+"&password="+c06Pass+"&rd="+esc))
			case g%4 == 2 && hdrOK:
				ch = "conc:so-xarr"
				req = vfGET("/oauth2/sign_out", "X-Auth-Request-Redirect", hostile)
			case g%4 == 3 && round%4 == 0:
				ch = "conc:start-rd"
				req = vfGET("/oauth2/start?rd=" + esc)
			default:
				req = vfGET("/oauth2/sign_out?rd=" + esc)
			}
			start.Wait()
			stats.enter()
			resp := p.Do(req)
			stats.leave()
			if resp.Invalid != "" {
				return
			}
			if c06IsStart(resp) {
				cx.finishLogin(loc, ch, in, cx.BaseA, p, req.Host, req, resp)
			} else {
				cx.judge(loc, ch, in, cx.BaseA, p, resp, req)
			}
			if in != hostile && resp.Location() != in {
				loc.count("conc_valid_rd_not_kept(recorded, not judged)", 1)
			}
			mu.Lock()
			acc.merge(loc)
			mu.Unlock()
		}(g)
	}
	start.Done()
	done.Wait()
}

func c06Concurrency(run *vfRun) {
	w := vfNewWorld(run.T)
	defer w.Close()
	c06CacheIDToken(w)
	acc := c06NewAcc()
	stats := &c06ConcStats{}
	rounds := run.Env.Pick(240, 3000)
	var cxs []*c06Ctx
	for _, wi := range []int{2, 0} { // .good.test and no whitelist
		cx, err := c06NewCtx(w, c06WLs[wi])
		if err != nil {
			run.T.Fatalf("c06 concurrency: %v", err)
		}
		cxs = append(cxs, cx)
	}
	for r := 0; r < rounds; r++ {
		h := c06ConcHostile[r%len(c06ConcHostile)]
		if pad := c06ConcPads[(r/len(c06ConcHostile))%len(c06ConcPads)]; pad > 0 {
			h += strings.Repeat("a", pad) + fmt.Sprintf("/%d", r%7)
		}
		cxs[r%len(cxs)].c06ConcBurst(acc, stats, r, h, 8)
	}
	// the witnesses of this phase say how they came about
	for i := range acc.Viols {
		acc.Viols[i].Detail.Note = "concurrency phase: 8 overlapping requests with this byte-identical rd right after a request with a valid rd (sign_out?rd=/ok-<round>?x=1) on the same instance; replay runs bursts of the same shape"
		if len(acc.Viols[i].Detail.Input) > 300 {
			acc.Viols[i].Summary = vfTrunc(acc.Viols[i].Summary, 260)
		}
	}
	acc.flush(run)
	run.Count("conc_rounds", int64(rounds))
	run.Count("conc_requests", atomic.LoadInt64(&stats.requests))
	run.Count("conc_requests_overlapping_another(in-flight gauge > 1 on entry)", atomic.LoadInt64(&stats.overlapping))
	run.Count("conc_max_in_flight", atomic.LoadInt64(&stats.maxInflight))
	if atomic.LoadInt64(&stats.overlapping) == 0 {
		run.Inconclusive("concurrency phase achieved no overlapping requests")
		fmt.Printf("INCONCLUSIVE property=C06 reason=concurrency phase achieved no overlapping requests\n")
		run.T.Fail()
	}
}
