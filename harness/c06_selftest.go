//go:build verif

package main

// C06 oracle, part 2: self-tests of BrowserURL and of the whitelist reference. Expectations are taken from the URL
// Standard (https://url.spec.whatwg.org/, state machine + host parser) and its conformance data (urltestdata.json),
// reduced to the origin. They run at the start of TestVerif_C06; a failure is a rig failure, not a property verdict.

import (
	"fmt"
	"strings"
)

type c06SpecCase struct {
	In, Base, Want string // Want: "FAIL" | "own" | "scheme://host:port" | "nonspecial:<scheme>" | "file"
}

var c06SpecCases = []c06SpecCase{
	// --- relative references: same origin
	{"/ok", "http://app.test", "own"},
	{"", "http://app.test", "own"},
	{"?x=1", "http://app.test", "own"},
	{"#frag", "http://app.test", "own"},
	{"x/y", "http://app.test", "own"},
	{"/x//evil.test", "http://app.test", "own"},
	{"/ /evil.test", "http://app.test", "own"},    // a space inside is not stripped
	{"/\x0b/evil.test", "http://app.test", "own"}, // neither is VT
	{"/\x0c/evil.test", "http://app.test", "own"}, // nor FF
	{"/%09/evil.test", "http://app.test", "own"},  // escapes in a path are not decoded
	{"/%2f/evil.test", "http://app.test", "own"},
	{"/\u00a0/evil.test", "http://app.test", "own"},
	{"/.//evil.test", "http://app.test", "own"}, // origin is decided before dot segments are removed
	{"://evil.test", "http://app.test", "own"},
	{"1http://evil.test", "http://app.test", "own"},
	{"ht tp://evil.test", "http://app.test", "own"},
	{"/x", "http://app.test:4180", "http://app.test:4180"},
	// --- scheme-relative and slash/backslash confusion
	{"//evil.test", "http://app.test", "http://evil.test:80"},
	{"//evil.test", "https://app.test", "https://evil.test:443"},
	{"/\\evil.test", "http://app.test", "http://evil.test:80"},
	{"\\/evil.test", "http://app.test", "http://evil.test:80"},
	{"\\\\evil.test", "http://app.test", "http://evil.test:80"},
	{"///evil.test", "http://app.test", "http://evil.test:80"},
	{"////evil.test", "http://app.test", "http://evil.test:80"},
	{"/\\/\\/evil.test", "http://app.test", "http://evil.test:80"},
	{"//evil.test:8443/x", "http://app.test", "http://evil.test:8443"},
	{"//app.test/x", "http://app.test:4180", "http://app.test:80"},
	{"//", "http://app.test", "FAIL"},
	{"/\\", "http://app.test", "FAIL"},
	{"//evil.test\\@good.test", "http://app.test", "http://evil.test:80"},
	// --- pre-processing: tab/LF/CR removed anywhere, C0 control and space trimmed at the ends
	{"/\t/evil.test", "http://app.test", "http://evil.test:80"},
	{"/\n/evil.test", "http://app.test", "http://evil.test:80"},
	{"/\r\\evil.test", "http://app.test", "http://evil.test:80"},
	{"/\t\t\\\t\t/evil.test", "http://app.test", "http://evil.test:80"},
	{"  //evil.test", "http://app.test", "http://evil.test:80"},
	{"\x00//evil.test", "http://app.test", "http://evil.test:80"},
	{"\x1f//evil.test\x01 ", "http://app.test", "http://evil.test:80"},
	{"\t/\t/evil.test", "http://app.test", "http://evil.test:80"},
	{"//good.test\t@evil.test", "http://app.test", "http://evil.test:80"},
	{"ht\ntps://evil.test", "http://app.test", "https://evil.test:443"},
	{"java\tscript:alert(1)", "http://app.test", "nonspecial:javascript"},
	// --- schemes
	{"https:evil.test", "http://app.test", "https://evil.test:443"},
	{"https:/evil.test", "http://app.test", "https://evil.test:443"},
	{"https:///evil.test", "http://app.test", "https://evil.test:443"},
	{"https:///evil.test/landing", "http://app.test", "https://evil.test:443"},
	{"http:////evil.test", "http://app.test", "http://evil.test:80"},
	{"https:///\\evil.test", "http://app.test", "https://evil.test:443"},
	{"https://:8443/x", "http://app.test", "FAIL"},
	{"https:\\\\\\evil.test", "http://app.test", "https://evil.test:443"},
	{"https://evil.test", "http://app.test", "https://evil.test:443"},
	{"http:evil.test", "http://app.test", "own"}, // same special scheme without slashes is RELATIVE
	{"http:/evil.test", "http://app.test", "own"},
	{"http:", "http://app.test", "own"},
	{"http://evil.test", "http://app.test", "http://evil.test:80"},
	{"http:\\\\evil.test", "http://app.test", "http://evil.test:80"},
	{"http:/\\evil.test", "http://app.test", "http://evil.test:80"},
	{"https:evil.test", "https://app.test", "own"},
	{"http:evil.test", "https://app.test", "http://evil.test:80"},
	{"https:", "http://app.test", "FAIL"},
	{"HTTPS://EVIL.test", "http://app.test", "https://evil.test:443"},
	{"hTtP://EVIL.test:80/", "http://app.test", "http://evil.test:80"},
	{"javascript:alert(1)", "http://app.test", "nonspecial:javascript"},
	{" JaVaScRiPt:alert(1)", "http://app.test", "nonspecial:javascript"},
	{"data:text/html,x", "http://app.test", "nonspecial:data"},
	{"http+x://evil.test", "http://app.test", "nonspecial:http+x"},
	{"file:///etc/passwd", "http://app.test", "file"},
	{"ftp://evil.test/", "http://app.test", "ftp://evil.test:21"},
	{"ws://evil.test/", "http://app.test", "ws://evil.test:80"},
	// --- credentials
	{"https://good.test@evil.test/", "http://app.test", "https://evil.test:443"},
	{"https://good.test:pw@evil.test/", "http://app.test", "https://evil.test:443"},
	{"https://a@b@evil.test/", "http://app.test", "https://evil.test:443"},
	{"https://@evil.test", "http://app.test", "https://evil.test:443"},
	{"https://evil.test@/", "http://app.test", "FAIL"},
	{"https://evil.test:80@good.test/", "http://app.test", "https://good.test:443"},
	{"https://good.test%3a443@evil.test", "http://app.test", "https://evil.test:443"},
	{"https://good.test%40evil.test/", "http://app.test", "FAIL"},
	// --- where the authority ends
	{"https://evil.test\\.good.test/", "http://app.test", "https://evil.test:443"},
	{"https://evil.test#@good.test/", "http://app.test", "https://evil.test:443"},
	{"https://evil.test?@good.test/", "http://app.test", "https://evil.test:443"},
	{"https://evil.test/@good.test/", "http://app.test", "https://evil.test:443"},
	// --- host: percent-decoding, IDNA mapping, forbidden code points
	{"https://evil.test%2f.good.test/", "http://app.test", "FAIL"},
	{"https://evil.test%5c.good.test/", "http://app.test", "FAIL"},
	{"https://evil.test\uff0f.good.test/", "http://app.test", "FAIL"},
	{"https://evil.test%EF%BC%8F.good.test/", "http://app.test", "FAIL"},
	{"https://evil.test\uff20good.test/", "http://app.test", "FAIL"},
	{"https://evil.test\uff1a80/", "http://app.test", "FAIL"},
	{"https://evil.test%00/", "http://app.test", "FAIL"},
	{"https://evil.test%25.good.test/", "http://app.test", "FAIL"},
	{"https://a b/", "http://app.test", "FAIL"},
	{"https://a<b/", "http://app.test", "FAIL"},
	{"https://a^b/", "http://app.test", "FAIL"},
	{"https://a|b/", "http://app.test", "FAIL"},
	{"https://a%b/", "http://app.test", "FAIL"},
	{"https://a[b/", "http://app.test", "FAIL"},
	{"https://a\u00a0b/", "http://app.test", "FAIL"},
	{"https://a\u2028b/", "http://app.test", "FAIL"},
	{"https://evil%2Etest/", "http://app.test", "https://evil.test:443"},
	{"https://\uff25\uff36\uff29\uff2c.test/", "http://app.test", "https://evil.test:443"},
	{"https://evil\u3002test/", "http://app.test", "https://evil.test:443"},
	{"https://ev\u00adil.test/", "http://app.test", "https://evil.test:443"},
	{"https://\u2603.test/", "http://app.test", "https://xn--n3h.test:443"},
	{"https://fa\u00df.test/", "http://app.test", "https://xn--fa-hia.test:443"},
	{"https://a_b;c.test/", "http://app.test", "https://a_b;c.test:443"},
	{"https://evil.test./", "http://app.test", "https://evil.test.:443"},
	{"https://[::1].good.test/", "http://app.test", "FAIL"},
	// --- IPv4 number forms
	{"https://0x7f.1/", "http://app.test", "https://127.0.0.1:443"},
	{"https://127.1/", "http://app.test", "https://127.0.0.1:443"},
	{"https://2130706433/", "http://app.test", "https://127.0.0.1:443"},
	{"https://017700000001/", "http://app.test", "https://127.0.0.1:443"},
	{"https://0x7f000001/", "http://app.test", "https://127.0.0.1:443"},
	{"http://0300.0250.0.1/", "http://app.test", "http://192.168.0.1:80"},
	{"http://%30%78%63%30%2e%30%32%35%30.01/", "http://app.test", "http://192.168.0.1:80"},
	{"http://\uff10\uff38\uff43\uff10\uff0e\uff10\uff12\uff15\uff10\uff0e\uff10\uff11/", "http://app.test", "http://192.168.0.1:80"},
	{"http://1.2.3/", "http://app.test", "http://1.2.0.3:80"},
	{"http://1.2.3.4./", "http://app.test", "http://1.2.3.4:80"},
	{"http://4294967295/", "http://app.test", "http://255.255.255.255:80"},
	{"http://0x100000000/", "http://app.test", "FAIL"},
	{"http://192.168.0.257/", "http://app.test", "FAIL"},
	{"http://256.256.256.256/", "http://app.test", "FAIL"},
	{"http://1.2.3.4.5/", "http://app.test", "FAIL"},
	{"http://1.2.3.08/", "http://app.test", "FAIL"},
	{"http://09/", "http://app.test", "FAIL"},
	{"http://foo.0x/", "http://app.test", "FAIL"},
	{"http://foo.09/", "http://app.test", "FAIL"},
	{"http://0..0x300/", "http://app.test", "FAIL"},
	// --- IPv6 literals
	{"http://[::1]/", "http://app.test", "http://[::1]:80"},
	{"http://[0:0:0:0:0:0:0:1]:8080/", "http://app.test", "http://[::1]:8080"},
	{"http://[::127.0.0.1]/", "http://app.test", "http://[::7f00:1]:80"},
	{"http://[::ffff:1.2.3.4]/", "http://app.test", "http://[::ffff:102:304]:80"},
	{"http://[1:0::]/", "http://app.test", "http://[1::]:80"},
	{"http://[1:0:0:2:0:0:0:3]/", "http://app.test", "http://[1:0:0:2::3]:80"},
	{"http://[2001:DB8::A]/", "http://app.test", "http://[2001:db8::a]:80"},
	{"http://[::1/", "http://app.test", "FAIL"},
	{"http://[::1]x/", "http://app.test", "FAIL"},
	{"http://[::1%25eth0]/", "http://app.test", "FAIL"},
	{"http://[1::2::3]/", "http://app.test", "FAIL"},
	{"http://[1:2:3:4:5:6:7:8:9]/", "http://app.test", "FAIL"},
	{"http://[::1.2.3]/", "http://app.test", "FAIL"},
	{"http://[::01.2.3.4]/", "http://app.test", "FAIL"},
	{"http://[12345::]/", "http://app.test", "FAIL"},
	// --- ports
	{"https://good.test:443/", "http://app.test", "https://good.test:443"},
	{"http://good.test:443/", "http://app.test", "http://good.test:443"},
	{"https://good.test:/", "http://app.test", "https://good.test:443"},
	{"https://good.test:0443/", "http://app.test", "https://good.test:443"},
	{"http://GOOD.test:008443/", "http://app.test", "http://good.test:8443"},
	{"https://good.test:65535/", "http://app.test", "https://good.test:65535"},
	{"https://good.test:65536/", "http://app.test", "FAIL"},
	{"https://good.test:99999999999999999999/", "http://app.test", "FAIL"},
	{"https://good.test:8x/", "http://app.test", "FAIL"},
	{"https://good.test:-1/", "http://app.test", "FAIL"},
	{"https://good.test:4 43/", "http://app.test", "FAIL"},
	{"https://good.test:*/", "http://app.test", "FAIL"},
	{"https://:443/", "http://app.test", "FAIL"},
}

type c06WLCase struct {
	URL     string
	Entries []string
	Want    bool
}

var c06WLCases = []c06WLCase{
	{"https://good.test/", nil, false},
	{"https://good.test/", []string{"good.test"}, true},
	{"http://good.test/x", []string{"good.test"}, true},
	{"https://good.test:443/", []string{"good.test"}, true}, // default port: the browser omits it
	{"https://good.test:8443/", []string{"good.test"}, false},
	{"http://good.test:443/", []string{"good.test"}, false},
	{"https://sub.good.test/", []string{"good.test"}, false},
	{"https://evilgood.test/", []string{"good.test"}, false},
	{"https://good.test.evil.test/", []string{"good.test"}, false},
	{"https://sub.good.test/", []string{".good.test"}, true},
	{"https://a.b.good.test/", []string{".good.test"}, true},
	{"https://good.test/", []string{".good.test"}, true},
	{"https://evilgood.test/", []string{".good.test"}, false},
	{"https://sub.good.test:8443/", []string{".good.test"}, false},
	{"https://sub.good.test/", []string{"*.good.test"}, true},
	{"https://good.test/", []string{"*.good.test"}, true},
	{"https://evilgood.test/", []string{"*.good.test"}, false},
	{"https://good.test.evil.test/", []string{"*.good.test"}, false},
	{"https://good.test:8443/", []string{"good.test:8443"}, true},
	{"http://good.test:8443/", []string{"good.test:8443"}, true},
	{"https://good.test/", []string{"good.test:8443"}, false},
	{"https://good.test:8444/", []string{"good.test:8443"}, false},
	{"https://good.test:8444/", []string{"good.test:*"}, true},
	{"https://good.test/", []string{"good.test:*"}, true},
	{"https://sub.good.test:1/", []string{"good.test:*"}, false},
	{"https://sub.good.test:1/", []string{".good.test:*"}, true},
	{"https://sub.good.test:1/", []string{"*.good.test:8443"}, false},
	{"https://sub.good.test:8443/", []string{"*.good.test:8443"}, true},
	{"http://[::1]/", []string{"[::1]"}, true},
	{"http://[0:0:0:0:0:0:0:1]/", []string{"[::1]"}, true},
	{"http://[::2]/", []string{"[::1]"}, false},
	{"http://[::1]:8443/", []string{"[::1]"}, false},
	{"http://[::1]:8443/", []string{"[::1]:8443"}, true},
	{"http://[::1]:9/", []string{"[::1]:*"}, true},
	{"https://GOOD.test/", []string{"good.test"}, true}, // the browser lower-cases the host
	{"https://other.test/", []string{"good.test", ".other.test"}, true},
	{"https://127.1/", []string{"127.0.0.1"}, true},
	{"https://evil.test/", []string{"good.test", "", ":*", ":8443"}, false}, // an entry without a host part admits nothing
	{"https://evil.test:8443/", []string{"", ":*", ":8443"}, false},
	{"https://good.test/", []string{"", ":*", "good.test"}, true},
	{"https://good.test./", []string{"good.test"}, true}, // fully-qualified spelling of the same DNS name
	{"https://good.test.evil.test./", []string{"good.test"}, false},
}

// c06SelfTest returns the list of failed self-tests (empty = the oracle behaves as the URL Standard says).
func c06SelfTest() (n int, failures []string) {
	for _, c := range c06SpecCases {
		n++
		var b c06Base
		switch c.Base {
		case "http://app.test":
			b = c06Base{"http", "app.test", 80}
		case "https://app.test":
			b = c06Base{"https", "app.test", 443}
		case "http://app.test:4180":
			b = c06Base{"http", "app.test", 4180}
		default:
			failures = append(failures, "unknown base "+c.Base)
			continue
		}
		u := c06Resolve(c.In, b)
		got := ""
		switch u.Kind {
		case "fail":
			got = "FAIL"
		case "nonspecial":
			got = "nonspecial:" + u.Scheme
		case "file":
			got = "file"
		default:
			got = u.String()
		}
		want := c.Want
		if want == "own" {
			want = b.String()
		}
		if got != want {
			failures = append(failures, fmt.Sprintf("BrowserURL(%q, base %s) = %s (%s), want %s", c.In, c.Base, got, u.Why, want))
		}
	}
	// the base parser used for Host headers
	for _, c := range [][3]string{{"http", "proxy.test", "http://proxy.test:80"}, {"http", "proxy.test:4180", "http://proxy.test:4180"}, {"https", "Proxy.Test:443", "https://proxy.test:443"}, {"http", "[::1]:4180", "http://[::1]:4180"}} {
		n++
		b, ok := c06ParseBase(c[0], c[1])
		if !ok || b.String() != c[2] {
			failures = append(failures, fmt.Sprintf("ParseBase(%s,%s) = %v %v want %s", c[0], c[1], b, ok, c[2]))
		}
	}
	// characters whose Go case mapping lands on ASCII: a browser (UTS #46) maps U+0130 to "i" + U+0307 (another, punycoded
	// domain) but U+212A KELVIN SIGN and U+017F LONG S to plain k / s (the same domain)
	for _, c := range [][3]string{{"https://w\u0130ki.test/", "xn--", "wiki.test"}, {"https://w%C4%B0ki.test/", "xn--", "wiki.test"}, {"https://wi\u212ai.test/", "wiki.test", ""}, {"https://te\u017ft.test/", "test.test", ""}} {
		n++
		u := c06Resolve(c[0], c06Base{"http", "app.test", 80})
		if u.Kind != "special" || !strings.HasPrefix(u.Host, c[1]) || u.Host == c[2] {
			failures = append(failures, fmt.Sprintf("BrowserURL(%q) = %s, want a host starting with %q and different from %q", c[0], u, c[1], c[2]))
		}
	}
	for _, c := range c06WLCases {
		n++
		u := c06Resolve(c.URL, c06Base{"http", "app.test", 80})
		if u.Kind != "special" {
			failures = append(failures, fmt.Sprintf("whitelist case %q does not resolve: %s", c.URL, u))
			continue
		}
		if got := c06Whitelisted(u, c.Entries); got != c.Want {
			failures = append(failures, fmt.Sprintf("whitelist(%q, %v) = %v, want %v", c.URL, c.Entries, got, c.Want))
		}
	}
	return n, failures
}
