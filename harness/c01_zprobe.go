//go:build verif

package main

import (
	"crypto/sha1"
	"encoding/base64"
	"fmt"
	"net/http"
	"strings"
	"testing"
	"time"

	"github.com/oauth2-proxy/oauth2-proxy/v7/pkg/clock"
)

func TestVerif_C01probe(t *testing.T) {
	w := vfNewWorld(t)
	defer w.Close()
	idp2 := vfNewIdP()
	defer idp2.Close()
	sum := sha1.Sum([]byte("pw1"))
	ht := w.File("htpasswd", "bob:{SHA}"+base64.StdEncoding.EncodeToString(sum[:])+"\n")
	for _, store := range []string{"cookie", "redis"} {
		p := w.MustProxy("--session-store-type="+store, "--redis-connection-url="+w.RedisURL(), "--skip-jwt-bearer-tokens=true",
			"--extra-jwt-issuers="+idp2.Issuer+"=aud2", "--htpasswd-file="+ht, "--upstream="+w.Up.URL()+"/", "--upstream="+w.Upstream("b").URL()+"/b/", "--api-route=^/api/",
			"--skip-auth-route=GET=^/public$", "--trusted-ip=10.0.0.0/8")
		b := vfNewBrowser("")
		_, cb, err := b.Login(p, vfStdIdentity, "/")
		if err != nil {
			t.Fatal(err)
		}
		t.Logf("[%s] callback set-cookie: %v", store, cb.SetCookies())
		for _, c := range b.Jar.All() {
			t.Logf("[%s] jar: %s=%s", store, c.Name, vfTrunc(c.Value, 60))
		}
		show := func(label string, r *vfResp, id string) {
			hits := w.Up.FindHit(id)
			hh := ""
			for _, h := range hits {
				hh += fmt.Sprintf(" [hit %s %s XFE=%q XFU=%q XFG=%q auth=%q]", h.Method, h.RequestURI, h.Header.Get("X-Forwarded-Email"), h.Header.Get("X-Forwarded-User"), h.Header.Get("X-Forwarded-Groups"), vfTrunc(h.Header.Get("Authorization"), 20))
			}
			t.Logf("[%s] %-40s -> %d loc=%q ct=%q sc=%d body=%q panic=%q%s", store, label, r.Code, vfTrunc(r.Location(), 60), r.Header.Get("Content-Type"), len(r.SetCookies()), vfTrunc(strings.Join(strings.Fields(string(r.Body)), " "), 80), r.Panic, hh)
		}
		n := 0
		id := func() string { n++; return fmt.Sprintf("pr-%s-%d", store, n) }
		for _, tgt := range []string{"/x", "/b/y", "/oauth2/auth", "/oauth2/userinfo", "/oauth2/sign_out", "/api/y", "/public", "/oauth2/static/css/bulma.min.css", "/robots.txt", "/ping", "/ready", "/oauth2/sign_in", "/oauth2/start", "/oauth2/callback", "/oauth2/", "/oauth2", "/oauth2/auth/", "/oauth2/userinfo/", "/oauth2/authx"} {
			for _, m := range []string{"GET", "POST", "OPTIONS", "HEAD"} {
				i := id()
				show("anon "+m+" "+tgt, p.Do(vfNewReq(m, tgt, "X-Vf-Id", i)), i)
			}
		}
		i := id()
		show("anon ajax /x", p.Do(vfGET("/x", "X-Vf-Id", i, "Accept", "application/json")), i)
		i = id()
		show("trusted /x", p.Do(vfGET("/x", "X-Vf-Id", i).From("10.1.1.1:5")), i)
		i = id()
		show("trusted /userinfo", p.Do(vfGET("/oauth2/userinfo", "X-Vf-Id", i).From("10.1.1.1:5")), i)
		i = id()
		show("trusted /auth", p.Do(vfGET("/oauth2/auth", "X-Vf-Id", i).From("10.1.1.1:5")), i)
		bb := *b
		for _, tgt := range []string{"/x", "/oauth2/auth", "/oauth2/userinfo", "/api/y", "/public"} {
			i = id()
			show("session "+tgt, bb.Get(p, tgt, "X-Vf-Id", i), i)
		}
		// bearer
		now := time.Now()
		claims := map[string]interface{}{"iss": w.IdP.Issuer, "aud": "cid", "sub": "sub-b", "email": "bearer@example.com", "groups": []string{"g1"}, "preferred_username": "bpu", "exp": now.Add(time.Hour).Unix(), "iat": now.Unix()}
		tok := vfMint(claims, vfMintOpts{})
		for _, tgt := range []string{"/x", "/oauth2/auth", "/oauth2/userinfo"} {
			i = id()
			show("bearer "+tgt, p.Do(vfGET(tgt, "X-Vf-Id", i, "Authorization", "Bearer "+tok)), i)
		}
		claims2 := map[string]interface{}{"iss": idp2.Issuer, "aud": "aud2", "sub": "sub-b2", "email": "bearer2@example.com", "exp": now.Add(time.Hour).Unix(), "iat": now.Unix()}
		tok2 := vfMint(claims2, vfMintOpts{})
		i = id()
		show("bearer2 /x", p.Do(vfGET("/x", "X-Vf-Id", i, "Authorization", "Bearer "+tok2)), i)
		i = id()
		show("bearer2 /userinfo", p.Do(vfGET("/oauth2/userinfo", "X-Vf-Id", i, "Authorization", "Bearer "+tok2)), i)
		claims3 := map[string]interface{}{"iss": w.IdP.Issuer, "aud": "cid", "sub": "sub-b3", "exp": now.Add(time.Hour).Unix(), "iat": now.Unix()}
		tok3 := vfMint(claims3, vfMintOpts{})
		i = id()
		show("bearer-noemail /x", p.Do(vfGET("/x", "X-Vf-Id", i, "Authorization", "Bearer "+tok3)), i)
		i = id()
		show("bearer in basic user /x", p.Do(vfGET("/x", "X-Vf-Id", i, "Authorization", "Basic "+base64.StdEncoding.EncodeToString([]byte(tok+":")))), i)
		i = id()
		show("bearer in basic pw /x", p.Do(vfGET("/x", "X-Vf-Id", i, "Authorization", "Basic "+base64.StdEncoding.EncodeToString([]byte("u:"+tok)))), i)
		i = id()
		show("basic bob ok /x", p.Do(vfGET("/x", "X-Vf-Id", i, "Authorization", "Basic "+base64.StdEncoding.EncodeToString([]byte("bob:pw1")))), i)
		i = id()
		show("basic bob ok /userinfo", p.Do(vfGET("/oauth2/userinfo", "X-Vf-Id", i, "Authorization", "Basic "+base64.StdEncoding.EncodeToString([]byte("bob:pw1")))), i)
		i = id()
		show("basic bob bad /x", p.Do(vfGET("/x", "X-Vf-Id", i, "Authorization", "Basic "+base64.StdEncoding.EncodeToString([]byte("bob:pw2")))), i)
		// static upstream? which path
		// old cookie
		b2 := vfNewBrowser("")
		l, err := b2.StartLogin(p, vfStdIdentity, "/")
		if err != nil {
			t.Fatal(err)
		}
		clock.Set(time.Now().Add(-400 * time.Hour))
		r := b2.Get(p, l.CallbackTarget(p))
		clock.Reset()
		t.Logf("old callback: %d %v", r.Code, vfTrunc(fmt.Sprint(r.SetCookies()), 200))
		i = id()
		show("old session /x", b2.Get(p, "/x", "X-Vf-Id", i), i)
		// sign_out
		i = id()
		show("session sign_out", bb.Get(p, "/oauth2/sign_out", "X-Vf-Id", i), i)
		_ = http.StatusOK
	}
}
