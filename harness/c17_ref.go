//go:build verif

package main

// C17 reference model: percent-coding, path cleaning, query parsing, router, rewrite expectations.
// Written from the property statement and docs/docs/configuration/{overview,alpha_config}.md — it does not call
// anything in pkg/upstream.

import (
	"path"
	"regexp"
	"sort"
	"strings"
	"unicode/utf8"
)

func c17Hex(c byte) int {
	switch {
	case c >= '0' && c <= '9':
		return int(c - '0')
	case c >= 'a' && c <= 'f':
		return int(c-'a') + 10
	case c >= 'A' && c <= 'F':
		return int(c-'A') + 10
	}
	return -1
}

// c17Unescape: percent-decoding with path semantics ('+' is a literal plus). ok=false on a malformed escape.
func c17Unescape(s string, plusIsSpace bool) (string, bool) {
	if !strings.ContainsAny(s, "%+") {
		return s, true
	}
	var b strings.Builder
	for i := 0; i < len(s); i++ {
		switch {
		case s[i] == '%':
			if i+2 >= len(s) {
				return "", false
			}
			h, l := c17Hex(s[i+1]), c17Hex(s[i+2])
			if h < 0 || l < 0 {
				return "", false
			}
			b.WriteByte(byte(h<<4 | l))
			i += 2
		case s[i] == '+' && plusIsSpace:
			b.WriteByte(' ')
		default:
			b.WriteByte(s[i])
		}
	}
	return b.String(), true
}

func c17IsUnreserved(c byte) bool {
	return (c >= 'a' && c <= 'z') || (c >= 'A' && c <= 'Z') || (c >= '0' && c <= '9') || c == '-' || c == '.' || c == '_' || c == '~'
}

// RFC 3986 reserved = gen-delims / sub-delims; '%' itself is included because "%25" must stay escaped too.
func c17IsReserved(c byte) bool { return strings.IndexByte(":/?#[]@!$&'()*+,;=%", c) >= 0 }

// the "mark" characters RFC 2396 classed as unreserved: escaping them is accepted as harmless re-escaping.
func c17IsMark(c byte) bool { return strings.IndexByte("!*'()", c) >= 0 }

// c17CleanPath: the canonical form net/http's and gorilla's muxes redirect to (path.Clean, trailing slash kept).
func c17CleanPath(p string) string {
	if p == "" {
		return "/"
	}
	if p[0] != '/' {
		p = "/" + p
	}
	np := path.Clean(p)
	if p[len(p)-1] == '/' && np != "/" {
		np += "/"
	}
	return np
}

// ---------------------------------------------------------------------------------------------------------
// query: application/x-www-form-urlencoded reading of a raw query

type c17Query struct {
	Pairs     [][2]string // decoded, well-formed
	Malformed []string    // raw pieces with a bad escape or a ';' (url.ParseQuery rejects both)
	Pieces    []string    // every raw non-empty piece
}

func c17ParseQuery(raw string) c17Query {
	var q c17Query
	for _, piece := range strings.Split(raw, "&") {
		if piece == "" {
			continue
		}
		q.Pieces = append(q.Pieces, piece)
		if strings.Contains(piece, ";") {
			q.Malformed = append(q.Malformed, piece)
			continue
		}
		k, v := piece, ""
		if i := strings.IndexByte(piece, '='); i >= 0 {
			k, v = piece[:i], piece[i+1:]
		}
		dk, ok1 := c17Unescape(k, true)
		dv, ok2 := c17Unescape(v, true)
		if !ok1 || !ok2 {
			q.Malformed = append(q.Malformed, piece)
			continue
		}
		q.Pairs = append(q.Pairs, [2]string{dk, dv})
	}
	return q
}

func c17SortedPairs(p [][2]string) []string {
	out := make([]string, 0, len(p))
	for _, kv := range p {
		out = append(out, kv[0]+"\x00=\x00"+kv[1])
	}
	sort.Strings(out)
	return out
}

func c17SameMultiset(a, b []string) bool {
	if len(a) != len(b) {
		return false
	}
	for i := range a {
		if a[i] != b[i] {
			return false
		}
	}
	return true
}

// ---------------------------------------------------------------------------------------------------------
// upstream sets and router

type c17Up struct {
	ID         string
	Kind       string // http | static | file
	Path       string // prefix (ends in /), exact, or regexp when Rewrite != ""
	Rewrite    string
	Re         *regexp.Regexp
	PassHost   bool
	StaticCode int
	UpName     string // fake upstream name (http)
	URIPath    string // alpha config: path part of the upstream's uri (must not show up in forwarded requests)
	Dir        string // file upstreams: directory served
	FileRoot   string // file upstreams: where Dir lies inside the harness's own tree (c17Files), "" or "name/"
}

type c17Decision struct {
	Kind string // upstream | redirect-clean | redirect-slash | notfound | unclean-encoded
	Up   *c17Up
}

func (d c17Decision) String() string {
	if d.Kind == "upstream" {
		return "upstream " + d.Up.ID + " (" + d.Up.Kind + ", path " + d.Up.Path + ")"
	}
	return d.Kind
}

// c17Route: rewrite rules first (longest pattern among the matching ones), then the exact path, then the longest
// prefix among the paths ending in '/'. pfx is the path prefixes/exact paths are compared with, rx the one regexps see.
func c17Route(ups []*c17Up, pfx, rx string) *c17Up {
	var best *c17Up
	for _, u := range ups {
		if u.Rewrite != "" && u.Re.MatchString(rx) && (best == nil || len(u.Path) > len(best.Path)) {
			best = u
		}
	}
	if best != nil {
		return best
	}
	for _, u := range ups {
		if u.Rewrite == "" && !strings.HasSuffix(u.Path, "/") && u.Path == pfx {
			return u
		}
	}
	for _, u := range ups {
		if u.Rewrite == "" && strings.HasSuffix(u.Path, "/") && strings.HasPrefix(pfx, u.Path) && (best == nil || len(u.Path) > len(best.Path)) {
			best = u
		}
	}
	return best
}

// c17DecideReading: pfx/rx are the forms of the path seen by prefix/exact paths and by patterns; spfx/srx the forms the
// "would it match with a slash appended" test uses (identical to pfx/rx except in the raw-mode mixes below).
func c17DecideReading(ups []*c17Up, pfx, rx, spfx, srx string) c17Decision {
	if u := c17Route(ups, pfx, rx); u != nil {
		return c17Decision{Kind: "upstream", Up: u}
	}
	if !strings.HasSuffix(spfx, "/") {
		if u := c17Route(ups, spfx+"/", srx+"/"); u != nil {
			return c17Decision{Kind: "redirect-slash", Up: u}
		}
	}
	return c17Decision{Kind: "notfound"}
}

// c17Decide returns the acceptable outcomes for an escaped request path. Without proxyRawPath there is exactly one.
// With proxyRawPath ("pass the raw url path to upstream"): prefixes and exact paths are matched against the ESCAPED
// path only — an escaped slash is not a path separator for routing — while rewrite patterns keep matching the decoded
// path (that is the path the rule rewrites). Only when NO upstream matches is there a second acceptable outcome: the
// documentation does not say which form the "would it match with a slash appended" courtesy redirect uses, so a 301
// to path+"/" and a 404 are both accepted there when the two forms differ — neither delivers the request anywhere.
func c17Decide(ups []*c17Up, raw bool, esc string) []c17Decision {
	dec, ok := c17Unescape(esc, false)
	if !ok {
		return nil
	}
	if c17CleanPath(esc) != esc {
		return []c17Decision{{Kind: "unclean-encoded"}}
	}
	if !raw {
		if c17CleanPath(dec) != dec {
			return []c17Decision{{Kind: "redirect-clean"}}
		}
		return []c17Decision{c17DecideReading(ups, dec, dec, dec, dec)}
	}
	d := c17DecideReading(ups, esc, dec, esc, dec)
	out := []c17Decision{d}
	if d.Kind != "upstream" && esc != dec {
		if alt := c17DecideReading(ups, esc, dec, dec, dec); alt.Kind != d.Kind || alt.Up != d.Up {
			out = append(out, alt)
		}
	}
	return out
}

// ---------------------------------------------------------------------------------------------------------
// rewrite expectation
//
// The rule is "regexp.ReplaceAllString(decoded path, rewriteTarget)". To know where escaped reserved characters of the
// request must still be escaped afterwards, the replacement is also run on a *tagged* decoding in which every escaped
// reserved character is a private-use rune; when both runs agree after untagging, the tagged result says which octets
// have to stay escaped.

const c17TagBase = 0xE000

func c17Tag(esc string) string {
	var b strings.Builder
	for i := 0; i < len(esc); i++ {
		if esc[i] == '%' && i+2 < len(esc) && c17Hex(esc[i+1]) >= 0 && c17Hex(esc[i+2]) >= 0 {
			c := byte(c17Hex(esc[i+1])<<4 | c17Hex(esc[i+2]))
			if c17IsReserved(c) {
				b.WriteRune(rune(c17TagBase + int(c)))
			} else {
				b.WriteByte(c)
			}
			i += 2
			continue
		}
		b.WriteByte(esc[i])
	}
	return b.String()
}

type c17Octet struct {
	B   byte
	Esc bool // expected side: must stay escaped; observed side: is escaped
}

func c17TaggedOctets(s string) []c17Octet {
	var out []c17Octet
	for i := 0; i < len(s); {
		r, n := utf8.DecodeRuneInString(s[i:])
		if r >= c17TagBase && r < c17TagBase+256 && n == 3 {
			out = append(out, c17Octet{byte(r - c17TagBase), true})
			i += n
			continue
		}
		out = append(out, c17Octet{s[i], false})
		i++
	}
	return out
}

func c17Untag(s string) string {
	o := c17TaggedOctets(s)
	b := make([]byte, len(o))
	for i := range o {
		b[i] = o[i].B
	}
	return string(b)
}

func c17EscapedOctets(esc string) ([]c17Octet, bool) {
	var out []c17Octet
	for i := 0; i < len(esc); i++ {
		if esc[i] == '%' {
			if i+2 >= len(esc) {
				return nil, false
			}
			h, l := c17Hex(esc[i+1]), c17Hex(esc[i+2])
			if h < 0 || l < 0 {
				return nil, false
			}
			out = append(out, c17Octet{byte(h<<4 | l), true})
			i += 2
			continue
		}
		out = append(out, c17Octet{esc[i], false})
	}
	return out, true
}

type c17RewriteExp struct {
	DecPath     string     // expected decoded path
	Octets      []c17Octet // expected octets with must-stay-escaped marks (nil when the tagged run is not comparable)
	RulePairs   [][2]string
	LitPath     string      // what results when escaped reserved characters are treated as literal ones (known deviation F9 with %3F)
	LitPairs    [][2]string // the rule's pairs under that literal reading
	TagAgrees   bool
	LitBroken   bool // under the literal reading the text after the first '?' is not a parsable query
	EscReserved bool // the request path contains an escaped reserved character
}

func c17ExpectRewrite(u *c17Up, esc string) c17RewriteExp {
	dec, _ := c17Unescape(esc, false)
	var e c17RewriteExp
	tagged := c17Tag(esc)
	e.EscReserved = tagged != dec
	full := u.Re.ReplaceAllString(dec, u.Rewrite)
	fullTagged := u.Re.ReplaceAllString(tagged, u.Rewrite)
	e.TagAgrees = c17Untag(fullTagged) == full
	// literal reading: split at the first '?', wherever it came from
	e.LitPath = full
	if i := strings.IndexByte(full, '?'); i >= 0 {
		e.LitPath = full[:i]
		lq := c17ParseQuery(full[i+1:])
		e.LitPairs, e.LitBroken = lq.Pairs, len(lq.Malformed) > 0
	}
	if e.TagAgrees {
		p, q := fullTagged, ""
		if i := strings.IndexByte(fullTagged, '?'); i >= 0 { // a literal '?' can only stem from the rule
			p, q = fullTagged[:i], fullTagged[i+1:]
		}
		e.Octets = c17TaggedOctets(p)
		e.DecPath = c17Untag(p)
		e.RulePairs = c17ParseQuery(c17Untag(q)).Pairs
	} else {
		e.DecPath, e.RulePairs = e.LitPath, e.LitPairs
	}
	return e
}
