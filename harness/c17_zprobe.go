//go:build verif

package main

import (
	"fmt"
	"net/http"
	"os"
	"sort"
	"strings"
	"testing"
)

func TestVerif_C17probe(t *testing.T) {
	w := vfNewWorld(t)
	defer w.Close()
	ups := map[string]*vfUpstream{"main": w.Up}
	for _, n := range []string{"A", "B", "R1", "R2", "P"} {
		ups[n] = w.Upstream(n)
	}
	_ = os.MkdirAll(w.Dir+"/files", 0o755)
	w.File("files/a b.txt", "file-a-b")
	w.File("files/plain.txt", "file-plain")
	w.File("files/é.txt", "file-e")
	y := w.AlphaYAML(`upstreamConfig:
  proxyRawPath: `+os.Getenv("C17_RAW")+`
  upstreams:
  - id: main
    path: /
    uri: `+w.Up.URL()+`
  - id: A
    path: /a/
    uri: `+ups["A"].URL()+`
    passHostHeader: false
  - id: B
    path: /a/b/
    uri: `+ups["B"].URL()+`/base
  - id: ex
    path: /exact
    uri: `+ups["P"].URL()+`
  - id: R1
    path: ^/rw/(.*)$
    rewriteTarget: /t/$$1
    uri: `+ups["R1"].URL()+`
  - id: R2
    path: ^/rw/long/(.*)$
    rewriteTarget: /long/$$1?added=1&k=v%20w
    uri: `+ups["R2"].URL()+`
  - id: P
    path: /rw/
    uri: `+ups["P"].URL()+`
  - id: st
    path: /st/
    static: true
    staticCode: 418
  - id: f
    path: /files/
    uri: file://`+w.Dir+`/files
`, "")
	p, err := w.NewProxyRaw(y, w.AlphaBaseFlags())
	if err != nil {
		t.Fatal(err)
	}
	b := vfNewBrowser("")
	if _, _, err := b.Login(p, vfStdIdentity, "/"); err != nil {
		t.Fatal(err)
	}
	cookie := vfCookieHeader(b.Jar.For("proxy.test", "/", false))
	n := 0
	send := func(req *vfReq) {
		n++
		id := fmt.Sprintf("p%d", n)
		req.H("X-Vf-Id", id).H("Cookie", cookie)
		resp := p.Wire(req)
		var got []string
		for name, u := range w.Ups {
			for _, h := range u.FindHit(id) {
				var hs []string
				for k, v := range h.Header {
					if k == "Cookie" {
						v = []string{vfTrunc(v[0], 20)}
					}
					hs = append(hs, fmt.Sprintf("%s=%q", k, v))
				}
				sort.Strings(hs)
				got = append(got, fmt.Sprintf("  -> %s: %s %s host=%s body=%d %s", name, h.Method, h.RequestURI, h.Host, len(h.Body), strings.Join(hs, " ")))
			}
		}
		var rh []string
		for k, v := range resp.Header {
			rh = append(rh, fmt.Sprintf("%s=%q", k, v))
		}
		sort.Strings(rh)
		t.Logf("%s %s => %d err=%q body=%q\n  resp: %s\n%s", req.Method, req.Target, resp.Code, resp.Err, vfTrunc(string(resp.Body), 60), strings.Join(rh, " "), strings.Join(got, "\n"))
	}
	for _, tgt := range []string{"/x", "/a/x%2Fy?q=1;2&r=%zz", "/a/b/x", "/a%2Fb/x", "/a", "/a?x=1", "/a/b?x=1", "/exact", "/exact?x=1", "/exact?x=1?y", "/exact/", "/exactx",
		"/rw/a%2Fb?x=1", "/rw/x?c=%zz&d=x;y&e", "/rw/x?", "/rw/x?b=2&a=1&a=0", "/rw/long/x?c=%zz&z=1", "/rw/long/a%3Bb", "/rw/a%3Fb", "/rw/a%3Fb?x=1", "/rw/long/a%3Fb?x=1", "/rw/a%23b", "/rw/a%25b", "/rw/a!b'(c)*", "/rw/a$b&c+d,e:f;g=h@i", "/rw/%41%7E%2E",
		"/rw/a%20b+c?x=a+b&y=a%20b&z=a%2Bb", "/rw", "/rw/", "/st/x", "/st", "/files/plain.txt", "/files/a%20b.txt", "/files/%C3%A9.txt", "/files/nope", "/files/", "/a//b", "/a/%2F/b", "/a/./b", "/a/%2E/b", "/a/%2e%2e/b", "//a/x", "/a/x/", "/a/b/../x"} {
		send(vfGET(tgt, "User-Agent", "vf"))
	}
	if os.Getenv("C17_LEG") != "" {
		p, err = w.NewProxy("--upstream="+ups["A"].URL()+"/a/", "--upstream="+ups["B"].URL()+"/a/b/", "--upstream="+ups["P"].URL()+"/exact", "--upstream=file://"+w.Dir+"/files#/files/")
		if err != nil {
			t.Fatal(err)
		}
		b = vfNewBrowser("")
		if _, _, err := b.Login(p, vfStdIdentity, "/"); err != nil {
			t.Fatal(err)
		}
		cookie = vfCookieHeader(b.Jar.For("proxy.test", "/", false))
		for _, tgt := range []string{"/a", "/a?x=1", "/a/b", "/a/b?x=1&y=2", "/a%2Fb", "/a/b%2F", "/exact", "/exact/", "/exact?x=1?y", "/zzz", "/", "/files", "/files?x=1", "/a?", "/a/b/c", "/files/a%2Fb"} {
			send(vfGET(tgt, "User-Agent", "vf", "X-Forwarded-User", "evil", "X-Forwarded-Email", "evil@x"))
			send(vfNewReq("POST", tgt, "User-Agent", "vf").WithBody("text/plain", []byte("hello")))
		}
		return
	}
	send(vfNewReq("POST", "/a/form?x=1", "Content-Type", "application/x-www-form-urlencoded").WithBody("", []byte("a=1&b=2")))
	send(vfNewReq("POST", "/a/chunk", "Transfer-Encoding", "chunked", "X-Dup", "1", "X-Dup", "2", "x-dup", "3", "X-Empty", "", "X-Forwarded-For", "1.2.3.4", "X-Forwarded-For", "5.6.7.8", "Te", "deflate", "Keep-Alive", "x", "Proxy-Authorization", "y", "Upgrade", "foo", "X-Forwarded-User", "evil", "Authorization", "Bearer zzz", "Accept-Encoding", "br").WithBody("", []byte("5\r\nhello\r\n0\r\n\r\n")))
	send(vfNewReq("POST", "/a", "Content-Type", "text/plain").WithBody("", []byte("a=1&b=2")))
	send(vfNewReq("HEAD", "/a/head"))
	send(vfNewReq("OPTIONS", "/a/opt"))
	w.Upstream("A").SetRespond(func(rw http.ResponseWriter, r *http.Request, body []byte) {
		rw.Header()["Date"] = []string{"Mon, 01 Jan 2001 00:00:00 GMT"}
		rw.Header()["X-Multi"] = []string{"1", "2"}
		rw.Header()["Set-Cookie"] = []string{"a=1; Path=/", "b=2"}
		rw.Header()["Content-Type"] = nil
		rw.Header()["Gap-Auth"] = []string{"spoof"}
		rw.Header()["Connection"] = []string{"X-Hop"}
		rw.Header()["X-Hop"] = []string{"1"}
		rw.Header()["Server"] = []string{"up"}
		rw.Header()["Www-Authenticate"] = []string{"Basic"}
		rw.Header()["Location"] = []string{"http://elsewhere/x"}
		rw.WriteHeader(307)
		rw.Write([]byte("<html>hello"))
	})
	send(vfGET("/a/resp"))
	send(vfNewReq("HEAD", "/a/resp"))
}
