//go:build verif

package main

// C14 — Identity-provider failures and malformed responses fail closed.
//
// Workload: every identity-provider call position of the login (with and without profile lookup, with a key-set
// fetch forced by a new key id), bearer-token (new key id), refresh (token, key set, profile) and
// refresh-failure re-validation flows, plus start-up discovery, is answered by a scripted fault; then the fault is
// removed and an ordinary login / request must work (no stuck state).
//
// Oracle (fault enumeration; nothing here looks at the repository's code):
//   structural faults (HTTP error, reset, stall+reset, empty / truncated / non-JSON / non-object body, missing
//   id_token or access_token, 16 MB of junk)  =>  no session cookie in any Set-Cookie of the conversation, the jar's
//   follow-up request is not authenticated, no new key in Redis, no panic. On refresh: the user is signed out, or the
//   OLD session continues unchanged (old tokens, old e-mail) and is NOT extended — the next request must try to
//   refresh again.
//   wrongly typed claims  =>  no session, or exactly the coercion the docs and the repository's tests describe
//   (numbers as decimal text, structured entries as JSON text); types that cannot satisfy audience / expiry /
//   e-mail-verification / nonce checks must be refused; never a panic, never an empty or foreign identity.
//   "either" kinds (valid body under a wrong Content-Type, missing token_type, valid JSON padded to 16 MB, refresh
//   answer without id_token) are not faults by the statement: both outcomes are accepted, but a session must carry
//   the right identity.

import (
	"bytes"
	"encoding/json"
	"fmt"
	"io"
	"math/rand"
	"net"
	"net/http"
	"net/http/httptest"
	"net/url"
	"sort"
	"strconv"
	"strings"
	"sync"
	"sync/atomic"
	"testing"
	"time"

	jose "github.com/go-jose/go-jose/v3"
	"github.com/oauth2-proxy/oauth2-proxy/v7/pkg/clock"
)

type c14Kind struct {
	Name  string
	Must  bool     // structural fault: no session may result
	Only  []string // positions it applies to (nil = all)
	Heavy bool     // stall / 16 MB: sampled thinly in the quick tier
	// GiveUp: the provider stalls and the CLIENT of the proxy gives up (request context cancelled) while it does;
	// the client never sees that response (no cookie of it reaches the browser). Refresh and re-validation flows only.
	GiveUp bool
	// MustAt: positions at which the kind is a structural fault (Must for these positions only)
	MustAt []string
	// Sampled: a member of a large grid; the quick tier runs it in one of the flows that share a position
	Sampled bool
	// exactly one of:
	Reply  func(pos string, cx *c14Ctx) *vfIdPReply
	Mutate func(resp map[string]interface{})
	Wire   *c14Wire // an incomplete HTTP message, produced by the front server of the check (instances reached through c14Front only)
}

func (k *c14Kind) must(pos string) bool {
	if k == nil {
		return false
	}
	if k.Must {
		return true
	}
	for _, p := range k.MustAt {
		if p == pos {
			return true
		}
	}
	return false
}

// c14Ctx: what a scripted reply may need to build a *well-formed* body (for the "either" kinds)
type c14Ctx struct {
	mu      sync.Mutex
	Crafted map[string]interface{} // claims of an ID token crafted by a scripted reply
	Nonce   string
	Sub     string
	Email   string
	Issuer  string
	JWKS    []jose.JSONWebKey
	Profile map[string]interface{}
}

var c14Junk16MB = []byte(`{"access_token":"` + strings.Repeat("A", 16<<20))

func c14GenuineBody(pos string, cx *c14Ctx, pad bool) []byte {
	var v map[string]interface{}
	switch pos {
	case "jwks":
		b, _ := json.Marshal(jose.JSONWebKeySet{Keys: cx.JWKS})
		_ = json.Unmarshal(b, &v)
	case "userinfo":
		v = map[string]interface{}{}
		for k, x := range cx.Profile {
			v[k] = x
		}
	case "discovery":
		v = map[string]interface{}{"issuer": cx.Issuer, "authorization_endpoint": cx.Issuer + "/authorize", "token_endpoint": cx.Issuer + "/token",
			"jwks_uri": cx.Issuer + "/jwks", "userinfo_endpoint": cx.Issuer + "/userinfo", "id_token_signing_alg_values_supported": []string{"RS256"}}
	default: // token endpoints: a complete, correctly signed answer
		claims := map[string]interface{}{"iss": cx.Issuer, "aud": "cid", "sub": cx.Sub, "email": cx.Email, "preferred_username": "pu-" + cx.Sub, "groups": []string{"g1"},
			"exp": time.Now().Add(time.Hour).Unix(), "iat": time.Now().Unix()}
		if cx.Nonce != "" {
			claims["nonce"] = cx.Nonce
		}
		raw := vfMint(claims, vfMintOpts{})
		cx.mu.Lock()
		cx.Crafted = vfJWTClaims(raw)
		cx.mu.Unlock()
		v = map[string]interface{}{"access_token": "at-crafted-" + cx.Sub, "token_type": "Bearer", "expires_in": 3600, "id_token": raw}
	}
	if pad {
		v["padding"] = strings.Repeat("x", 16<<20)
	}
	b, _ := json.Marshal(v)
	return b
}

func c14Kinds() []c14Kind {
	st := func(status int, ct, body string) func(string, *c14Ctx) *vfIdPReply {
		return func(string, *c14Ctx) *vfIdPReply { return &vfIdPReply{Status: status, ContentType: ct, Body: []byte(body)} }
	}
	truncated := map[string]string{
		"token.code":    `{"access_token":"at-1","token_type":"Bearer","expires_in":3600,"id_token":"eyJhbGciOiJSUzI1NiIsImtpZCI6Imsx`,
		"token.refresh": `{"access_token":"at-1","token_type":"Bearer","expires_in":3600,"id_token":"eyJhbGciOiJSUzI1NiIsImtpZCI6Imsx`,
		"jwks":          `{"keys":[{"use":"sig","kty":"RSA","kid":"k1","alg":"RS256","n":"u1SU1LfVLPHCozMxH2Mo4lgOEePzNm0tRgeLezV6ffAt0gunVTLw7onLRnrq0`,
		"userinfo":      `{"sub":"someone","email":"someone@trunc`,
		"discovery":     `{"issuer":"http://127.0.0.1","authorization_endpoint":"http://127.0`,
	}
	tok := []string{"token.code", "token.refresh"}
	ks := []c14Kind{
		{Name: "500", Must: true, Reply: st(500, "application/json", `{"error":"server_error"}`)},
		{Name: "400", Must: true, Reply: st(400, "application/json", `{"error":"invalid_request"}`)},
		{Name: "401-json-error", Must: true, Reply: st(401, "application/json", `{"error":"invalid_client","error_description":"client authentication failed"}`)},
		{Name: "503-html", Must: true, Reply: st(503, "text/html", `<html><body><h1>503 Service Unavailable</h1></body></html>`)},
		{Name: "error-status-with-valid-body", Must: true, Reply: func(pos string, cx *c14Ctx) *vfIdPReply {
			st := 500
			if pos == "userinfo" {
				st = 403
			}
			return &vfIdPReply{Status: st, ContentType: "application/json", Body: c14GenuineBody(pos, cx, false)}
		}},
		{Name: "reset", Must: true, Reply: func(string, *c14Ctx) *vfIdPReply { return &vfIdPReply{Reset: true} }},
		{Name: "stall-then-reset", Must: true, Heavy: true, Reply: func(string, *c14Ctx) *vfIdPReply { return &vfIdPReply{Reset: true, Stall: 1500 * time.Millisecond} }},
		{Name: "stall-then-500", Must: true, Heavy: true, Reply: func(string, *c14Ctx) *vfIdPReply {
			return &vfIdPReply{Status: 500, Body: []byte(`{"error":"timeout"}`), Stall: 1200 * time.Millisecond}
		}},
		{Name: "stall-client-gives-up", Must: true, GiveUp: true, Only: []string{"token.refresh", "userinfo"}, Reply: func(string, *c14Ctx) *vfIdPReply {
			return &vfIdPReply{Status: 401, Body: []byte(`{"error":"invalid_token"}`), Stall: 2 * time.Second}
		}},
		{Name: "empty-body-200", Must: true, Reply: st(200, "application/json", ``)},
		{Name: "truncated-json", Must: true, Reply: func(pos string, _ *c14Ctx) *vfIdPReply {
			return &vfIdPReply{Status: 200, ContentType: "application/json", Body: []byte(truncated[pos])}
		}},
		{Name: "html-200", Must: true, Reply: st(200, "text/html", `<!DOCTYPE html><html><body><form action="/login">Please sign in</form></body></html>`)},
		{Name: "json-null", Must: true, Reply: st(200, "application/json", `null`)},
		{Name: "json-array", Must: true, Reply: st(200, "application/json", `[]`)},
		{Name: "json-empty-object", Must: true, Reply: st(200, "application/json", `{}`)},
		{Name: "json-wrong-field-types", Must: true, Reply: func(pos string, _ *c14Ctx) *vfIdPReply {
			b := map[string]string{
				"token.code": `{"access_token":{"a":1},"token_type":5,"id_token":["x"],"expires_in":"soon"}`, "token.refresh": `{"access_token":{"a":1},"token_type":5,"id_token":["x"],"expires_in":"soon"}`,
				"jwks": `{"keys":{"kty":"RSA"}}`, "userinfo": `{"email":{"a":[1,2]},"sub":["x"],"email_verified":"maybe","preferred_username":7,"groups":{"k":{"n":null}}}`, "discovery": `{"issuer":5,"jwks_uri":[],"token_endpoint":{}}`,
			}[pos]
			return &vfIdPReply{Status: 200, ContentType: "application/json", Body: []byte(b)}
		}, Only: []string{"token.code", "token.refresh", "jwks", "discovery"}},
		{Name: "16MB-junk", Must: true, Heavy: true, Reply: func(string, *c14Ctx) *vfIdPReply {
			return &vfIdPReply{Status: 200, ContentType: "application/json", Body: c14Junk16MB}
		}},
		{Name: "missing-id_token", Must: true, Only: []string{"token.code"}, Mutate: func(r map[string]interface{}) { delete(r, "id_token") }},
		{Name: "empty-id_token", Must: true, Only: []string{"token.code"}, Mutate: func(r map[string]interface{}) { r["id_token"] = "" }},
		{Name: "missing-access_token", Must: true, Only: tok, Mutate: func(r map[string]interface{}) { delete(r, "access_token") }},
		{Name: "id_token-not-a-jwt", Must: true, Only: tok, Mutate: func(r map[string]interface{}) { r["id_token"] = "not.a.jwt" }},
		{Name: "id_token-two-parts", Must: true, Only: tok, Mutate: func(r map[string]interface{}) {
			if s, ok := r["id_token"].(string); ok {
				r["id_token"] = s[:strings.LastIndexByte(s, '.')]
			}
		}},
		{Name: "id_token-payload-not-json", Must: true, Only: tok, Mutate: func(r map[string]interface{}) {
			if s, ok := r["id_token"].(string); ok {
				p := strings.Split(s, ".")
				r["id_token"] = p[0] + "." + vfB64([]byte(`<html>`)) + "." + p[2]
			}
		}},
		{Name: "missing-id_token+expires_in", Must: true, Only: []string{"token.code"}, Mutate: func(r map[string]interface{}) { delete(r, "id_token"); delete(r, "expires_in") }},
		// not faults by the statement: both outcomes accepted
		{Name: "missing-id_token+expires_in-on-refresh", Only: []string{"token.refresh"}, Mutate: func(r map[string]interface{}) { delete(r, "id_token"); delete(r, "expires_in") }},
		{Name: "missing-id_token+refresh_token-on-refresh", Only: []string{"token.refresh"}, Mutate: func(r map[string]interface{}) { delete(r, "id_token"); delete(r, "refresh_token") }},
		{Name: "missing-expires_in", Only: tok, Mutate: func(r map[string]interface{}) { delete(r, "expires_in") }},
		{Name: "only-access_token", Only: []string{"token.refresh"}, Mutate: func(r map[string]interface{}) {
			for k := range r {
				if k != "access_token" {
					delete(r, k)
				}
			}
		}},
		{Name: "missing-id_token-on-refresh", Only: []string{"token.refresh"}, Mutate: func(r map[string]interface{}) { delete(r, "id_token") }},
		{Name: "missing-token_type", Only: tok, Mutate: func(r map[string]interface{}) { delete(r, "token_type") }},
		{Name: "wrong-content-type-valid-body", Reply: func(pos string, cx *c14Ctx) *vfIdPReply {
			return &vfIdPReply{Status: 200, ContentType: "text/plain", Body: c14GenuineBody(pos, cx, false)}
		}},
		{Name: "16MB-padded-valid-json", Heavy: true, Reply: func(pos string, cx *c14Ctx) *vfIdPReply {
			return &vfIdPReply{Status: 200, ContentType: "application/json", Body: c14GenuineBody(pos, cx, true)}
		}},
	}
	return append(ks, c14FieldTypeKinds()...)
}

// c14FieldTypeKinds: ONE field of an otherwise genuine token response has the wrong JSON type (the all-at-once kind
// "json-wrong-field-types" stops at the first field a decoder looks at). A non-string access_token is a missing
// access_token (structural at both token positions), a non-string id_token is a missing id_token (structural at code
// redemption; a refresh answer may legally lack it); the other fields are optional: both outcomes are accepted, the
// identity must be right, and nothing may panic.
func c14FieldTypeKinds() []c14Kind {
	tok := []string{"token.code", "token.refresh"}
	var out []c14Kind
	for _, f := range []string{"access_token", "id_token", "refresh_token", "expires_in", "token_type"} {
		vals := []struct {
			n string
			v interface{}
		}{{"number", 12345}, {"float", 1.5}, {"object", map[string]interface{}{"a": 1, "b": []interface{}{"x"}}}, {"array", []interface{}{"x", 1}}, {"bool", true}, {"null", nil}}
		if f == "expires_in" {
			vals = append(vals[2:], struct {
				n string
				v interface{}
			}{"word", "soon"}, struct {
				n string
				v interface{}
			}{"negative", -5})
		}
		for _, tv := range vals {
			f, v := f, tv.v
			k := c14Kind{Name: "field-type:" + f + "=" + tv.n, Only: tok, Sampled: true, Mutate: func(r map[string]interface{}) { r[f] = v }}
			switch f {
			case "access_token":
				k.Must = true
			case "id_token":
				k.MustAt = []string{"token.code"}
			}
			out = append(out, k)
		}
	}
	return out
}

// wrongly typed claims
type c14Typed struct {
	Name string
	Set  func(c map[string]interface{})
	Must bool // cannot satisfy the checks of C04 / the nonce check: must be refused
	Azp  bool // runs on the instance with --oidc-audience-claim=azp --oidc-audience-claim=aud (aud matches: the FIRST present claim decides)
	// NoNonce: the mutation concerns the nonce and only exists at the login callback
	LoginOnly bool
}

func c14TypedKinds() []c14Typed {
	set := func(k string, v interface{}) func(map[string]interface{}) {
		return func(c map[string]interface{}) { c[k] = v }
	}
	obj := map[string]interface{}{"a": 1, "b": []interface{}{"x"}}
	return []c14Typed{
		{Name: "aud=number", Must: true, Set: set("aud", 5)},
		{Name: "aud=object", Must: true, Set: set("aud", map[string]interface{}{"cid": "cid"})},
		{Name: "aud=[1]", Must: true, Set: set("aud", []interface{}{1})},
		{Name: "aud=[cid,1]", Must: true, Set: set("aud", []interface{}{"cid", 1})},
		{Name: "aud=true", Must: true, Set: set("aud", true)},
		{Name: "azp=number", Must: true, Azp: true, Set: set("azp", 123)},
		{Name: "azp=[1,2]", Must: true, Azp: true, Set: set("azp", []interface{}{1, 2})},
		{Name: "azp=[cid,1]", Must: true, Azp: true, Set: set("azp", []interface{}{"cid", 1})},
		{Name: "azp=object", Must: true, Azp: true, Set: set("azp", obj)},
		{Name: "azp=[other,7]", Must: true, Azp: true, Set: set("azp", []interface{}{"some-other-client", 7})},
		{Name: "azp=float", Must: true, Azp: true, Set: set("azp", 1.5)},
		{Name: "azp=true", Must: true, Azp: true, Set: set("azp", true)},
		{Name: "azp=null", Must: true, Azp: true, Set: set("azp", nil)},
		{Name: "groups=object", Set: set("groups", obj)},
		{Name: "groups=number", Set: set("groups", 42)},
		{Name: "groups=nested", Set: set("groups", []interface{}{[]interface{}{"a", "b"}, obj, "plain", 7, true})},
		{Name: "groups=bool", Set: set("groups", true)},
		{Name: "email=number", Set: set("email", 42)},
		{Name: "email=object", Set: set("email", obj)},
		{Name: "email=list", Set: set("email", []interface{}{"a@b.c", "d@e.f"})},
		{Name: "email=null", Set: set("email", nil)},
		{Name: "email=bool", Set: set("email", true)},
		{Name: "sub=number", Set: set("sub", 42)},
		{Name: "sub=object", Set: set("sub", obj)},
		{Name: "preferred_username=number", Set: set("preferred_username", 42)},
		{Name: "preferred_username=list", Set: set("preferred_username", []interface{}{"x", 1})},
		{Name: "email_verified=\"false\"", Must: true, Set: set("email_verified", "false")},
		{Name: "email_verified=0", Set: set("email_verified", 0)},
		{Name: "email_verified=1", Set: set("email_verified", 1)},
		{Name: "email_verified=\"true\"", Set: set("email_verified", "true")},
		{Name: "email_verified=object", Set: set("email_verified", obj)},
		{Name: "email_verified=null", Set: set("email_verified", nil)},
		{Name: "exp=string", Must: true, Set: set("exp", "abc")},
		{Name: "exp=numeric-string", Set: func(c map[string]interface{}) { c["exp"] = strconv.FormatInt(time.Now().Add(time.Hour).Unix(), 10) }},
		{Name: "exp=float", Set: func(c map[string]interface{}) { c["exp"] = float64(time.Now().Add(time.Hour).Unix()) + 0.5 }},
		{Name: "exp=huge", Set: set("exp", 1e18)},
		{Name: "exp=negative", Must: true, Set: set("exp", -1)},
		{Name: "exp=object", Must: true, Set: set("exp", obj)},
		{Name: "exp=null", Must: true, Set: set("exp", nil)},
		{Name: "iat=string", Set: set("iat", "yesterday")},
		{Name: "nbf=string", Set: set("nbf", "tomorrow")},
		{Name: "iss=number", Must: true, Set: set("iss", 5)},
		{Name: "iss=list", Must: true, Set: func(c map[string]interface{}) { c["iss"] = []interface{}{c["iss"]} }},
		{Name: "nonce=number", Must: true, LoginOnly: true, Set: set("nonce", 12345)},
		{Name: "nonce=list", Must: true, LoginOnly: true, Set: func(c map[string]interface{}) { c["nonce"] = []interface{}{c["nonce"]} }},
		{Name: "nonce=object", Must: true, LoginOnly: true, Set: set("nonce", obj)},
		{Name: "nonce=null", Must: true, LoginOnly: true, Set: set("nonce", nil)},
	}
}

// documented coercion: strings as they are, numbers as decimal text, everything else as JSON text
func c14Render(v interface{}) string {
	switch x := v.(type) {
	case string:
		return x
	case float64:
		return strconv.FormatFloat(x, 'f', -1, 64)
	case bool:
		return strconv.FormatBool(x)
	}
	b, _ := json.Marshal(v)
	return string(b)
}

func c14RenderList(v interface{}) []string {
	if l, ok := v.([]interface{}); ok {
		out := []string{}
		for _, e := range l {
			out = append(out, c14Render(e))
		}
		return out
	}
	return []string{c14Render(v)}
}

// ---------------------------------------------------------------------------------------------------------

type c14Obs struct {
	UserinfoCode int      `json:"userinfo_code"`
	User         string   `json:"user"`
	Email        string   `json:"email"`
	Groups       []string `json:"groups"`
	PU           string   `json:"preferred_username"`
	ProxiedCode  int      `json:"proxied_code"`
	UpHit        bool     `json:"upstream_hit"`
	UpEmail      string   `json:"up_email"`
	UpUser       string   `json:"up_user"`
	UpIDToken    string   `json:"-"`
	UpAT         string   `json:"up_access_token"`
	Panic        string   `json:"panic,omitempty"`
	Cookies      []string `json:"session_cookies_set,omitempty"`
}

func (o c14Obs) session() bool { return o.UserinfoCode == 200 || o.UpHit }

// session cookies (not CSRF, not deletions) among Set-Cookie lines -> names
func c14SessionCookies(lines []string) []string {
	var out []string
	for _, l := range lines {
		name, rest, _ := strings.Cut(l, "=")
		if !strings.HasPrefix(name, "_oauth2_proxy") || strings.HasSuffix(name, "_csrf") {
			continue
		}
		val, attrs, _ := strings.Cut(rest, ";")
		la := strings.ToLower(attrs)
		if val == "" || strings.Contains(la, "max-age=0") || strings.Contains(la, "max-age=-") || strings.Contains(la, "expires=thu, 01 jan 1970") {
			continue
		}
		out = append(out, name)
	}
	return out
}

type c14World struct {
	idx    int
	w      *vfWorld
	px     map[string]*vfProxy // cookie | redis | azp
	stale  map[string][]*c14Stale
	seq    int
	last   map[string]interface{} // last token response (sequential per world)
	lastMu sync.Mutex
	kidSeq int
	sinceClean int
	idp2   *vfIdP // extra JWT issuer (instance "extra")
	front  *c14Front // front worlds only: every provider endpoint of the instances is reached through it
	coldKeys []jose.JSONWebKey
}

type c14Stale struct {
	b         *vfBrowser
	sub       string
	email     string
	idToken   string
	at        string
	expiresAt time.Time // of the ID token (short-lived ones for the re-validation flow)
	kid       string
}

var c14Seq int64
var c14SeqMu sync.Mutex

func c14ID() string {
	c14SeqMu.Lock()
	c14Seq++
	n := c14Seq
	c14SeqMu.Unlock()
	return fmt.Sprintf("c14-%d", n)
}

func (cw *c14World) observe(send func(r *vfReq) *vfResp) c14Obs {
	var o c14Obs
	r1 := send(vfGET("/oauth2/userinfo"))
	o.UserinfoCode, o.Panic = r1.Code, r1.Panic
	o.Cookies = append(o.Cookies, c14SessionCookies(r1.SetCookies())...)
	if r1.Code == 200 {
		var ui struct {
			User              string   `json:"user"`
			Email             string   `json:"email"`
			Groups            []string `json:"groups"`
			PreferredUsername string   `json:"preferredUsername"`
		}
		_ = json.Unmarshal(r1.Body, &ui)
		o.User, o.Email, o.Groups, o.PU = ui.User, ui.Email, ui.Groups, ui.PreferredUsername
	}
	id := c14ID()
	r2 := send(vfGET("/app/x", "X-Vf-Id", id))
	o.ProxiedCode = r2.Code
	if r2.Panic != "" {
		o.Panic = r2.Panic
	}
	o.Cookies = append(o.Cookies, c14SessionCookies(r2.SetCookies())...)
	if hits := cw.w.Up.FindHit(id); len(hits) > 0 {
		h := hits[0].Header
		o.UpHit, o.UpEmail, o.UpUser = true, h.Get("X-Forwarded-Email"), h.Get("X-Forwarded-User")
		o.UpIDToken = strings.TrimPrefix(h.Get("Authorization"), "Bearer ")
		o.UpAT = h.Get("X-Forwarded-Access-Token")
	}
	return o
}

func (cw *c14World) redisKeys() int {
	if cw.w.MR == nil {
		return 0
	}
	return len(cw.w.MR.Keys())
}

type c14Case struct {
	Flow  string `json:"flow"`
	Pos   string `json:"position"`
	Kind  string `json:"kind"`
	Store string `json:"instance"`
	kind  *c14Kind
	typed *c14Typed
}

type c14Witness struct {
	Case     c14Case     `json:"case"`
	Flags    []string    `json:"flags"`
	Fired    int         `json:"faulted_calls"`
	Steps    []string    `json:"steps"`
	Observed interface{} `json:"observed"`
	Claims   interface{} `json:"token_claims,omitempty"`
}

type c14Runner struct {
	run *vfRun
}

// maybeClean: liveness check after every faulted conversation (quick) / after every second one (thorough: two
// faulted conversations in a row on the same instance before the clean one).
func (r *c14Runner) maybeClean(cw *c14World, p *vfProxy, c c14Case, steps []string) {
	cw.sinceClean++
	if r.run.Env.Thorough() && cw.sinceClean%2 == 1 {
		return
	}
	r.cleanLogin(cw, p, c, steps)
}

// arm installs the fault of a case; the returned func removes it and tells how often the faulted call was made.
func (cw *c14World) arm(c c14Case, cx *c14Ctx) (disarm func() int) {
	var mu sync.Mutex
	fired := 0
	k := c.kind
	if k.Wire != nil {
		if cw.front == nil {
			panic("c14: wire kind on a world without front server")
		}
		return cw.front.arm(c.Pos, k.Wire)
	}
	cw.w.IdP.Set(func(cfg *vfIdPCfg) {
		if k.Reply != nil {
			cfg.Hook = func(ev *vfIdPEvent) *vfIdPReply {
				if ev.Kind != c.Pos {
					return nil
				}
				mu.Lock()
				fired++
				mu.Unlock()
				return k.Reply(c.Pos, cx)
			}
		}
		if k.Mutate != nil {
			want := map[string]string{"token.code": "code", "token.refresh": "refresh"}[c.Pos]
			prev := cfg.TokenResponseMutate
			cfg.TokenResponseMutate = func(grant string, resp map[string]interface{}) {
				if prev != nil {
					prev(grant, resp)
				}
				if grant == want {
					mu.Lock()
					fired++
					mu.Unlock()
					k.Mutate(resp)
				}
			}
		}
	})
	return func() int {
		cw.w.IdP.Set(func(cfg *vfIdPCfg) {
			cfg.Hook = nil
			cfg.TokenResponseMutate = cw.recordLast
		})
		mu.Lock()
		defer mu.Unlock()
		return fired
	}
}

func (cw *c14World) recordLast(grant string, resp map[string]interface{}) {
	cp := map[string]interface{}{}
	for k, v := range resp {
		cp[k] = v
	}
	cw.lastMu.Lock()
	cw.last = cp
	cw.lastMu.Unlock()
}

func (cw *c14World) lastTokens() (idTok, at string) {
	cw.lastMu.Lock()
	defer cw.lastMu.Unlock()
	idTok, _ = cw.last["id_token"].(string)
	at, _ = cw.last["access_token"].(string)
	return
}

// newKid makes the provider sign the next ID tokens with a key under a key id the proxy has never seen,
// so that verification needs a key-set fetch.
func (cw *c14World) newKid() (kid string, keys []jose.JSONWebKey) {
	cw.kidSeq++
	kid = fmt.Sprintf("c14-w%d-k%d", cw.idx, cw.kidSeq)
	extra := jose.JSONWebKey{Key: &vfKeyB.PublicKey, KeyID: kid, Algorithm: "RS256", Use: "sig"}
	cw.w.IdP.Set(func(c *vfIdPCfg) { c.ExtraJWKS = []jose.JSONWebKey{extra} })
	return kid, []jose.JSONWebKey{{Key: &vfKeyA.PublicKey, KeyID: "k1", Algorithm: "RS256", Use: "sig"}, extra}
}

func (cw *c14World) setMint(f func(grant string, claims map[string]interface{}) (string, bool)) {
	cw.w.IdP.Set(func(c *vfIdPCfg) { c.MintOverride = f })
}

func (r *c14Runner) violation(sig, what string, cw *c14World, p *vfProxy, c c14Case, fired int, steps []string, obs interface{}, claims interface{}) {
	r.run.Violation(sig, fmt.Sprintf("flow %s, %s answered with %q (%s instance): %s", c.Flow, c.Pos, c.Kind, c.Store, what),
		c14Witness{Case: c, Flags: p.Flags, Fired: fired, Steps: steps, Observed: obs, Claims: claims})
}

// cleanLogin: liveness after the fault has been removed.
func (r *c14Runner) cleanLogin(cw *c14World, p *vfProxy, c c14Case, steps []string) {
	cw.seq++
	sub := fmt.Sprintf("clean-w%d-%d", cw.idx, cw.seq)
	id := vfIdentity{Sub: sub, Email: sub + "@clean.test", PreferredUsername: "pu-" + sub, Groups: []string{"g"}}
	if p == cw.px["azp"] {
		id.Extra = map[string]interface{}{"azp": "cid"} // this instance reads the audience from azp
	}
	b := vfNewBrowser("")
	_, cb, err := b.Login(p, id, "/")
	r.run.Count("clean_logins", 1)
	for try := 0; err != nil && try < 3; try++ {
		// "stuck" means it stays broken: bounded further attempts
		r.run.Count("clean_login_further_attempts", 1)
		time.Sleep(50 * time.Millisecond)
		b = vfNewBrowser("")
		_, cb, err = b.Login(p, id, "/")
	}
	if err != nil {
		code, pan := 0, ""
		if cb != nil {
			code, pan = cb.Code, cb.Panic
		}
		r.violation("c14:stuck-after-fault:login", fmt.Sprintf("after the fault was removed an ordinary login fails: %v (callback status %d %s)", err, code, pan), cw, p, c, 0, steps, nil, nil)
		return
	}
	o := cw.observe(func(q *vfReq) *vfResp { return b.Send(p, q) })
	if o.UserinfoCode != 200 || !o.UpHit || o.Email != id.Email || o.UpEmail != id.Email || o.User != sub {
		r.violation("c14:stuck-after-fault:request", "after the fault was removed and a fresh login succeeded, the session is not usable / not the user's", cw, p, c, 0, steps, o, nil)
	}
}

// ---- login flows ------------------------------------------------------------------------------------------

func (r *c14Runner) loginCase(cw *c14World, c c14Case) {
	run := r.run
	p := cw.px[c.Store]
	cw.seq++
	sub := fmt.Sprintf("lg-w%d-%d", cw.idx, cw.seq)
	email := sub + "@tok.test"
	id := vfIdentity{Sub: sub, Email: email, PreferredUsername: "pu-" + sub, Groups: []string{"g1", "g2"}}
	profile := map[string]interface{}{"sub": "profile-" + sub, "email": "profile-" + sub + "@profile.test", "preferred_username": "profile-pu-" + sub, "groups": []string{"profile-group"}}
	id.Profile = profile
	if c.Flow == "login-profile" {
		id.Email, id.PreferredUsername = "", "" // the token lacks them: the proxy has to ask the profile endpoint
	}
	if c.Flow == "login-thin" {
		id.PreferredUsername, id.Groups = "", nil // a "thin" ID token (sub + e-mail only): the optional claims are looked up at the profile endpoint
	}
	cx := &c14Ctx{Sub: sub, Email: email, Issuer: cw.w.IdP.Issuer, Profile: profile}
	cx.JWKS = []jose.JSONWebKey{{Key: &vfKeyA.PublicKey, KeyID: "k1", Algorithm: "RS256", Use: "sig"}}
	var claimsSeen map[string]interface{}
	var cmu sync.Mutex
	if c.Flow == "login-newkid" || c.typed != nil {
		kid := "k1"
		key := vfKeyA
		if c.Flow == "login-newkid" {
			kid, cx.JWKS = cw.newKid()
			key = vfKeyB
		}
		cw.setMint(func(grant string, claims map[string]interface{}) (string, bool) {
			if c.typed != nil {
				if c.typed.Azp {
					claims["azp"] = "cid"
				}
				c.typed.Set(claims)
			}
			raw := vfMint(claims, vfMintOpts{Key: key, Kid: kid})
			cmu.Lock()
			claimsSeen = vfJWTClaims(raw)
			cmu.Unlock()
			return raw, true
		})
		defer cw.setMint(nil)
	}
	steps := []string{"GET /oauth2/start", "authorize as " + sub}
	b := vfNewBrowser("")
	l, err := b.StartLogin(p, id, "/")
	if err != nil {
		run.Eval("")
		run.Inconclusive(fmt.Sprintf("rig: login could not be started: %v", err))
		return
	}
	cx.Nonce = l.AuthReq.Params.Get("nonce")
	keys0 := cw.redisKeys()
	disarm := func() int { return 1 }
	if c.kind != nil {
		disarm = cw.arm(c, cx)
	}
	cb := b.Get(p, l.CallbackTarget(p))
	steps = append(steps, fmt.Sprintf("GET %s -> %d", l.CallbackTarget(p), cb.Code))
	obs := cw.observe(func(q *vfReq) *vfResp { return b.Send(p, q) })
	fired := disarm()
	keys1 := cw.redisKeys()
	obs.Cookies = append(c14SessionCookies(cb.SetCookies()), obs.Cookies...)
	if cb.Panic != "" {
		obs.Panic = cb.Panic
	}
	cmu.Lock()
	claims := claimsSeen
	cmu.Unlock()
	cx.mu.Lock()
	if cx.Crafted != nil {
		claims = cx.Crafted
	}
	cx.mu.Unlock()

	cell := ""
	if fired > 0 {
		cell = fmt.Sprintf("%s|%s|%s|%s", c.Flow, c.Pos, c.Kind, c.Store)
	}
	run.Eval(cell)
	run.Count("cases_"+c.Flow, 1)
	if fired == 0 {
		run.Count("fault_position_not_reached", 1)
	}
	session := obs.session() || len(obs.Cookies) > 0
	must := c.kind.must(c.Pos) || (c.typed != nil && c.typed.Must)
	if c.Flow == "login-thin" && c.Pos == "userinfo" && strings.HasPrefix(c.Kind, "json-") {
		// a well-formed profile answer without data while the token itself has the mandatory claims: the login may
		// stand on the token alone (optional claims empty)
		must = false
	}
	switch {
	case obs.Panic != "":
		r.violation("c14:panic", "panic: "+vfTrunc(obs.Panic, 300), cw, p, c, fired, steps, obs, claims)
	case fired > 0 && must && session:
		r.violation("c14:session-after-faulted-conversation:"+c.Flow, fmt.Sprintf("a session exists after the faulted login (callback status %d, session cookies %v, userinfo %d, upstream reached %v)", cb.Code, obs.Cookies, obs.UserinfoCode, obs.UpHit), cw, p, c, fired, steps, obs, claims)
	case fired > 0 && must && keys1 > keys0:
		r.violation("c14:store-write-after-faulted-conversation", fmt.Sprintf("Redis holds %d keys after the faulted login, %d before", keys1, keys0), cw, p, c, fired, steps, obs, claims)
	case fired > 0 && must && cb.Code >= 200 && cb.Code < 300:
		r.violation("c14:success-status-after-fault", fmt.Sprintf("callback answered %d (neither an error page nor a redirect to sign-in)", cb.Code), cw, p, c, fired, steps, obs, claims)
	case session:
		// accepted: the identity must be exactly what the token (and, for claims it lacks, the profile endpoint) says
		run.Count("sessions_after_tolerated_oddity", 1)
		r.checkIdentity(cw, p, c, fired, steps, obs, claims, id, profile)
	default:
		run.Count("no_session_"+map[bool]string{true: "must", false: "tolerated"}[must], 1)
	}
	run.SampleEvery(61, func() interface{} {
		return c14Witness{Case: c, Flags: nil, Fired: fired, Steps: steps, Observed: obs}
	})
	cw.setMint(nil)
	r.maybeClean(cw, p, c, steps)
}

// checkIdentity: a session that exists after a tolerated oddity carries the documented rendering of the token's claims.
func (r *c14Runner) checkIdentity(cw *c14World, p *vfProxy, c c14Case, fired int, steps []string, obs c14Obs, claims map[string]interface{}, id vfIdentity, profile map[string]interface{}) {
	expect := func(name string, list bool, tokenDefault interface{}) []string {
		var val interface{}
		has := false
		if claims != nil {
			val, has = claims[name]
		} else if tokenDefault != nil {
			val, has = tokenDefault, true
		}
		if has && val != nil {
			if list {
				return []string{strings.Join(c14RenderList(val), "\x00")}
			}
			return []string{c14Render(val)}
		}
		out := []string{""}
		if pv, ok := profile[name]; ok {
			b, _ := json.Marshal(pv)
			var g interface{}
			_ = json.Unmarshal(b, &g)
			if list {
				out = append(out, strings.Join(c14RenderList(g), "\x00"))
			} else {
				out = append(out, c14Render(g))
			}
		}
		return out
	}
	in := func(got string, allowed []string) bool {
		for _, a := range allowed {
			if a == got {
				return true
			}
		}
		return false
	}
	var def = map[string]interface{}{"sub": id.Sub}
	if id.Email != "" {
		def["email"] = id.Email
	}
	if id.PreferredUsername != "" {
		def["preferred_username"] = id.PreferredUsername
	}
	if id.Groups != nil {
		g := []interface{}{}
		for _, x := range id.Groups {
			g = append(g, x)
		}
		def["groups"] = g
	}
	var diffs []string
	if obs.UserinfoCode == 200 {
		if a := expect("sub", false, def["sub"]); !in(obs.User, a) {
			diffs = append(diffs, fmt.Sprintf("user %q, expected one of %q", obs.User, a))
		}
		if a := expect("email", false, def["email"]); !in(obs.Email, a) || obs.Email == "" {
			diffs = append(diffs, fmt.Sprintf("email %q, expected one of %q (non-empty)", obs.Email, a))
		}
		if a := expect("groups", true, def["groups"]); !in(strings.Join(obs.Groups, "\x00"), a) {
			diffs = append(diffs, fmt.Sprintf("groups %q, expected one of %q", obs.Groups, a))
		}
		if a := expect("preferred_username", false, def["preferred_username"]); !in(obs.PU, a) {
			diffs = append(diffs, fmt.Sprintf("preferred username %q, expected one of %q", obs.PU, a))
		}
	}
	if obs.UpHit {
		if a := expect("email", false, def["email"]); !in(obs.UpEmail, a) || obs.UpEmail == "" {
			diffs = append(diffs, fmt.Sprintf("X-Forwarded-Email %q, expected one of %q (non-empty)", obs.UpEmail, a))
		}
		if a := expect("sub", false, def["sub"]); !in(obs.UpUser, a) {
			diffs = append(diffs, fmt.Sprintf("X-Forwarded-User %q, expected one of %q", obs.UpUser, a))
		}
	}
	r.run.Count("identity_checks", 1)
	if len(diffs) > 0 {
		r.violation("c14:wrong-identity-after-odd-response", "session identity is not the documented rendering of the token's claims: "+strings.Join(diffs, "; "), cw, p, c, fired, steps, obs, claims)
	}
}

// ---- bearer flow ---------------------------------------------------------------------------------------------

func (r *c14Runner) bearerCase(cw *c14World, c c14Case) {
	run := r.run
	p := cw.px[c.Store]
	cw.seq++
	sub := fmt.Sprintf("be-w%d-%d", cw.idx, cw.seq)
	claims := map[string]interface{}{"iss": cw.w.IdP.Issuer, "aud": "cid", "sub": sub, "email": sub + "@tok.test", "preferred_username": "pu-" + sub, "groups": []interface{}{"g1"},
		"exp": time.Now().Add(time.Hour).Unix(), "iat": time.Now().Unix()}
	cx := &c14Ctx{Sub: sub, Issuer: cw.w.IdP.Issuer}
	opts := vfMintOpts{}
	if c.typed != nil {
		if c.typed.Azp {
			claims["azp"] = "cid"
		}
		if c.Flow == "bearer-extra-issuer-typed-claims" {
			claims["iss"], claims["aud"] = cw.idp2.Issuer, "aud2" // a token of the extra JWT issuer (same signing key, other issuer / audience)
		}
		c.typed.Set(claims)
	} else {
		kid, keys := cw.newKid()
		cx.JWKS = keys
		opts = vfMintOpts{Key: vfKeyB, Kid: kid}
	}
	raw := vfMint(claims, opts)
	decoded := vfJWTClaims(raw)
	steps := []string{"GET /oauth2/userinfo and GET /app/x with Authorization: Bearer " + raw}
	disarm := func() int { return 1 }
	if c.kind != nil {
		disarm = cw.arm(c, cx)
	}
	send := func(q *vfReq) *vfResp { return p.Do(q.H("Authorization", "Bearer "+raw)) }
	obs := cw.observe(send)
	fired := disarm()
	cell := ""
	if fired > 0 {
		cell = fmt.Sprintf("%s|%s|%s|%s", c.Flow, c.Pos, c.Kind, c.Store)
	}
	run.Eval(cell)
	run.Count("cases_"+c.Flow, 1)
	if fired == 0 {
		run.Count("fault_position_not_reached", 1)
	}
	must := c.kind.must(c.Pos) || (c.typed != nil && c.typed.Must)
	switch {
	case obs.Panic != "":
		r.violation("c14:panic", "panic: "+vfTrunc(obs.Panic, 300), cw, p, c, fired, steps, obs, decoded)
	case fired > 0 && must && (obs.session() || len(obs.Cookies) > 0):
		r.violation("c14:session-after-faulted-conversation:bearer", fmt.Sprintf("the bearer token was honoured (userinfo %d, upstream reached %v)", obs.UserinfoCode, obs.UpHit), cw, p, c, fired, steps, obs, decoded)
	case obs.session():
		run.Count("sessions_after_tolerated_oddity", 1)
		// bearer: no profile lookup is possible; an absent e-mail is replaced by the user id (documented in the code base)
		prof := map[string]interface{}{}
		if _, has := decoded["email"]; !has || decoded["email"] == nil {
			prof["email"] = c14Render(decoded["sub"])
		}
		r.checkIdentity(cw, p, c, fired, steps, obs, decoded, vfIdentity{Sub: sub}, prof)
	default:
		run.Count("no_session_"+map[bool]string{true: "must", false: "tolerated"}[must], 1)
	}
	if c.kind != nil {
		// liveness: the same token once the key set can be fetched
		// (bounded retries: go-oidc hands the result of a just-finished key-set fetch to callers arriving within
		// microseconds of its completion; "stuck" means it stays refused)
		var o2 c14Obs
		for try := 0; try < 3; try++ {
			if o2 = cw.observe(send); o2.UserinfoCode == 200 && o2.UpHit {
				break
			}
			time.Sleep(10 * time.Millisecond)
		}
		steps = append(steps, "fault removed, same request again (up to 3 times)")
		if !o2.session() || o2.Email != sub+"@tok.test" {
			r.violation("c14:stuck-after-fault:bearer", fmt.Sprintf("after the key-set fault was removed the (valid) bearer token is still refused (userinfo %d)", o2.UserinfoCode), cw, p, c, fired, steps, o2, decoded)
		}
		run.Count("bearer_retries_after_fault", 1)
	}
}

// ---- refresh flows --------------------------------------------------------------------------------------------

// makeStale: phase 1, under the mocked clock: an ordinary login whose session is ten minutes old afterwards.
func (cw *c14World) makeStale(t testing.TB, store string, shortLived bool) *c14Stale {
	p := cw.px[store]
	cw.seq++
	sub := fmt.Sprintf("rf-w%d-%d", cw.idx, cw.seq)
	st := &c14Stale{b: vfNewBrowser(""), sub: sub, email: sub + "@tok.test"}
	id := vfIdentity{Sub: sub, Email: st.email, PreferredUsername: "pu-" + sub, Groups: []string{"g1"}}
	id.Profile = map[string]interface{}{"sub": "profile-" + sub, "email": "profile-" + sub + "@profile.test", "preferred_username": "profile-pu-" + sub}
	// short-lived: the ID token must still be valid while the login runs and expired when the case probes it;
	// on a loaded machine a login can take seconds, so the lifetime is doubled until the login gets through
	var err error
	for ttl := 4 * time.Second; ttl <= 64*time.Second; ttl *= 2 {
		if shortLived {
			st.expiresAt = time.Now().Add(ttl)
		}
		exp := st.expiresAt.Unix()
		cw.w.IdP.Set(func(c *vfIdPCfg) {
			c.MutateIDClaims = func(grant string, ar *vfAuthReq, claims map[string]interface{}) {
				if grant == "code" && shortLived {
					claims["exp"] = exp
				}
			}
		})
		st.b = vfNewBrowser("")
		if _, _, err = st.b.Login(p, id, "/"); err == nil || !shortLived {
			break
		}
	}
	if err != nil {
		return nil // rig trouble; the case that needs this session is counted as inconclusive
	}
	st.idToken, st.at = cw.lastTokens()
	return st
}

func (r *c14Runner) refreshCase(cw *c14World, c c14Case) {
	run := r.run
	p := cw.px[c.Store]
	key := c.Store
	if c.Flow == "refresh-old-token-expired" {
		key += "/short"
	}
	if len(cw.stale[key]) == 0 {
		run.T.Fatalf("c14: no stale session left for %s", key)
	}
	st := cw.stale[key][0]
	cw.stale[key] = cw.stale[key][1:]
	if st == nil {
		run.Eval("")
		run.Inconclusive("rig: the ordinary login that prepares a stale session failed")
		return
	}
	if c.Flow == "refresh-old-token-expired" {
		if d := time.Until(st.expiresAt.Add(1200 * time.Millisecond)); d > 0 {
			time.Sleep(d) // precondition (the old ID token has expired), not a verdict
		}
	}
	refreshedEmail := "refreshed-" + st.sub + "@tok.test"
	cx := &c14Ctx{Sub: st.sub, Email: refreshedEmail, Issuer: cw.w.IdP.Issuer}
	cx.Profile = map[string]interface{}{"sub": "profile-" + st.sub, "email": "profile-" + st.sub + "@profile.test", "preferred_username": "profile-pu-" + st.sub}
	cx.JWKS = []jose.JSONWebKey{{Key: &vfKeyA.PublicKey, KeyID: "k1", Algorithm: "RS256", Use: "sig"}}
	// the refreshed ID token: same subject, a recognisably different e-mail; depending on the position under test it is
	// signed under a new key id (key-set fetch) and lacks the e-mail (profile lookup)
	kid, key2 := "k1", vfKeyA
	if c.Pos == "jwks" {
		kid, cx.JWKS = cw.newKid()
		key2 = vfKeyB
	}
	nonce := vfJWTClaims(st.idToken)["nonce"]
	var claimsSeen map[string]interface{}
	var cmu sync.Mutex
	cw.setMint(func(grant string, claims map[string]interface{}) (string, bool) {
		if grant != "refresh" {
			return "", false
		}
		claims["email"] = refreshedEmail
		if c.Pos == "userinfo" {
			delete(claims, "email")
		}
		if c.Flow == "refresh-thin" {
			// thin refreshed ID token: e-mail present, optional claims only at the profile endpoint
			claims["email"] = refreshedEmail
			delete(claims, "preferred_username")
			delete(claims, "groups")
		}
		if nonce != nil {
			claims["nonce"] = nonce
		}
		if c.typed != nil {
			if c.typed.Azp {
				claims["azp"] = "cid"
			}
			c.typed.Set(claims)
		}
		raw := vfMint(claims, vfMintOpts{Key: key2, Kid: kid})
		cmu.Lock()
		claimsSeen = vfJWTClaims(raw)
		cmu.Unlock()
		return raw, true
	})
	defer cw.setMint(nil)
	cx.Nonce, _ = nonce.(string)
	steps := []string{"session of " + st.sub + " issued ten minutes ago (cookie-refresh 1m)", "GET /oauth2/userinfo, GET /app/x (first one triggers the refresh grant)"}
	keys0 := cw.redisKeys()
	disarm := func() int { return 1 }
	if c.kind != nil {
		disarm = cw.arm(c, cx)
	}
	if c.kind != nil && c.kind.GiveUp {
		r.refreshGiveUp(cw, p, c, st, disarm, steps, refreshedEmail)
		cw.setMint(nil)
		r.maybeClean(cw, p, c, steps)
		return
	}
	obs := cw.observe(func(q *vfReq) *vfResp { return st.b.Send(p, q) })
	fired := disarm()
	keys1 := cw.redisKeys()
	cmu.Lock()
	claims := claimsSeen
	cmu.Unlock()
	cx.mu.Lock()
	if cx.Crafted != nil {
		claims = cx.Crafted
	}
	cx.mu.Unlock()
	cell := ""
	if fired > 0 {
		cell = fmt.Sprintf("%s|%s|%s|%s", c.Flow, c.Pos, c.Kind, c.Store)
	}
	run.Eval(cell)
	run.Count("cases_"+c.Flow, 1)
	if fired == 0 {
		run.Count("fault_position_not_reached", 1)
	}
	must := c.kind.must(c.Pos) || (c.typed != nil && c.typed.Must)
	if c.Pos == "userinfo" && strings.HasPrefix(c.Kind, "json-") {
		// a well-formed profile answer without data next to a valid, signed refresh grant: the refresh may stand,
		// the session then keeps its previous e-mail (providers/oidc.go documents this) — what it may never have is an empty one
		must = false
	}
	emptyEmail := func(o c14Obs) bool { return (o.UserinfoCode == 200 && o.Email == "") || (o.UpHit && o.UpEmail == "") }
	isOld := func(o c14Obs) bool {
		return (o.UserinfoCode != 200 || (o.Email == st.email && o.User == st.sub)) && (!o.UpHit || (o.UpEmail == st.email && o.UpIDToken == st.idToken && o.UpAT == st.at))
	}
	type both struct {
		Faulted c14Obs  `json:"with_fault"`
		After   *c14Obs `json:"after_fault_removed,omitempty"`
		Grants  int     `json:"refresh_grants_attempted_by_second_request"`
	}
	rep := both{Faulted: obs}
	switch {
	case obs.Panic != "":
		r.violation("c14:panic", "panic: "+vfTrunc(obs.Panic, 300), cw, p, c, fired, steps, rep, claims)
	case !obs.session():
		run.Count("refresh_outcome_signed_out", 1)
		if fired > 0 && must && len(obs.Cookies) > 0 {
			r.violation("c14:session-cookie-issued-by-faulted-refresh", fmt.Sprintf("the user ends up signed out, but on the way the response SET session cookie(s) %v built from the faulted conversation (a client keeping it holds a session)", obs.Cookies), cw, p, c, fired, steps, rep, claims)
		} else if fired > 0 && must && keys1 > keys0 {
			r.violation("c14:store-write-after-faulted-conversation", fmt.Sprintf("Redis holds %d keys after the faulted refresh, %d before", keys1, keys0), cw, p, c, fired, steps, rep, claims)
		}
	case obs.session() && emptyEmail(obs) && (claims == nil || claims["email"] == nil):
		// the refreshed ID token has no e-mail claim and the profile endpoint yields none either
		r.violation("c14:refresh-adopts-session-without-email", fmt.Sprintf("the refreshed ID token carries no e-mail and the profile endpoint gave none (%s: %q): the session is served/saved with an EMPTY e-mail (user %q; the login callback refuses the same input)", c.Pos, c.Kind, obs.User), cw, p, c, fired, steps, rep, claims)
	case fired > 0 && must && c.Flow == "refresh-old-token-expired" && time.Now().After(st.expiresAt.Add(time.Second)):
		// the refresh failed AND the old ID token has expired: nothing valid backs the session any more
		r.violation("c14:served-after-failed-refresh-and-failed-revalidation", fmt.Sprintf("the refresh was answered with a fault and the session's own ID token expired at %s, yet the request was served as user %q", st.expiresAt.Format(time.RFC3339), obs.User+obs.UpUser), cw, p, c, fired, steps, rep, claims)
	case fired > 0 && must && !isOld(obs):
		r.violation("c14:session-changed-by-faulted-refresh", fmt.Sprintf("after the faulted refresh the session is no longer the old one (e-mail %q/%q, old e-mail %q; old id_token kept: %v; old access token kept: %v)", obs.Email, obs.UpEmail, st.email, obs.UpIDToken == st.idToken, obs.UpAT == st.at), cw, p, c, fired, steps, rep, claims)
	case fired > 0 && must:
		// old session continues: it must not have been extended — the next request has to attempt a refresh again
		run.Count("refresh_outcome_old_session_kept", 1)
		a0, _ := cw.w.IdP.RefreshGrants()
		o2 := cw.observe(func(q *vfReq) *vfResp { return st.b.Send(p, q) })
		a1, _ := cw.w.IdP.RefreshGrants()
		rep.After, rep.Grants = &o2, a1-a0
		steps = append(steps, "fault removed; GET /oauth2/userinfo, GET /app/x again")
		if o2.Panic != "" {
			r.violation("c14:panic", "panic: "+vfTrunc(o2.Panic, 300), cw, p, c, fired, steps, rep, claims)
		} else if o2.session() && a1 == a0 {
			r.violation("c14:session-extended-by-faulted-refresh", "the old session was kept AND its refresh timer was reset by the failed refresh: the next request did not attempt a refresh", cw, p, c, fired, steps, rep, claims)
		}
	default:
		// tolerated oddity (or fault position never reached): whoever is signed in must be this user, with the refreshed or the old e-mail
		run.Count("refresh_outcome_tolerated_session", 1)
		okEmail := func(e string) bool {
			if e == st.email || e == refreshedEmail || e == "profile-"+st.sub+"@profile.test" {
				return true
			}
			return claims != nil && claims["email"] != nil && e == c14Render(claims["email"])
		}
		if (obs.UserinfoCode == 200 && (!okEmail(obs.Email) || obs.User != st.sub && obs.User != c14Render(c14ClaimsOr(claims, "sub")))) || (obs.UpHit && !okEmail(obs.UpEmail)) {
			r.violation("c14:wrong-identity-after-odd-response", fmt.Sprintf("after an odd refresh answer the session names user %q e-mail %q / %q", obs.User, obs.Email, obs.UpEmail), cw, p, c, fired, steps, rep, claims)
		}
	}
	run.SampleEvery(61, func() interface{} { return c14Witness{Case: c, Fired: fired, Steps: steps, Observed: rep} })
	cw.setMint(nil)
	r.maybeClean(cw, p, c, steps)
}

func c14ClaimsOr(c map[string]interface{}, k string) interface{} {
	if c == nil {
		return nil
	}
	return c[k]
}

// c14GiveUpRequest: one request of the browser whose client gives up after 300 ms; nothing of the response reaches the jar.
func c14GiveUpRequest(p *vfProxy, b *vfBrowser) *vfResp {
	q := vfGET("/oauth2/userinfo")
	if cs := b.Jar.For("proxy.test", "/oauth2/userinfo", false); len(cs) > 0 {
		q.H("Cookie", vfCookieHeader(cs))
	}
	q.GiveUpAfter = 300 * time.Millisecond
	return p.Do(q)
}

// refreshGiveUp: the provider stalls during the refresh conversation and the client walks away. The next request of the
// same browser (fault removed) must either go through a refresh attempt of its own or be unauthenticated: a session that
// is served without any refresh attempt had its refresh timer reset by a conversation that never completed.
func (r *c14Runner) refreshGiveUp(cw *c14World, p *vfProxy, c c14Case, st *c14Stale, disarm func() int, steps []string, refreshedEmail string) {
	run := r.run
	resp := c14GiveUpRequest(p, st.b)
	fired := disarm()
	steps = append(steps, "the client gives up after 300 ms while the provider stalls (response never seen)", "fault removed; GET /oauth2/userinfo, GET /app/x by the same browser")
	a0, _ := cw.w.IdP.RefreshGrants()
	o2 := cw.observe(func(q *vfReq) *vfResp { return st.b.Send(p, q) })
	a1, _ := cw.w.IdP.RefreshGrants()
	cell := ""
	if fired > 0 {
		cell = fmt.Sprintf("%s|%s|%s|%s", c.Flow, c.Pos, c.Kind, c.Store)
	} else {
		run.Count("fault_position_not_reached", 1)
	}
	run.Eval(cell)
	run.Count("cases_"+c.Flow, 1)
	rep := map[string]interface{}{"given_up_request_status": resp.Code, "after_fault_removed": o2, "refresh_grants_attempted_by_second_request": a1 - a0}
	okEmail := o2.Email == st.email || o2.Email == refreshedEmail || o2.Email == "profile-"+st.sub+"@profile.test"
	switch {
	case resp.Panic != "" || o2.Panic != "":
		r.violation("c14:panic", "panic: "+vfTrunc(resp.Panic+o2.Panic, 300), cw, p, c, fired, steps, rep, nil)
	case fired > 0 && o2.session() && a1 == a0:
		r.violation("c14:session-extended-by-faulted-refresh", "the client gave up while the provider stalled; the stale session is served afterwards WITHOUT any refresh attempt (its refresh timer was reset by a conversation that never completed)", cw, p, c, fired, steps, rep, nil)
	case o2.UserinfoCode == 200 && (!okEmail || o2.User != st.sub):
		r.violation("c14:wrong-identity-after-odd-response", fmt.Sprintf("after the abandoned refresh the session names user %q e-mail %q", o2.User, o2.Email), cw, p, c, fired, steps, rep, nil)
	}
}

// ---- legacy provider: re-validation through the validation URL -------------------------------------------------

func (cw *c14World) makeLegacyStale(store string) *c14Stale {
	p := cw.px[store]
	cw.seq++
	sub := fmt.Sprintf("lv-w%d-%d", cw.idx, cw.seq)
	st := &c14Stale{b: vfNewBrowser(""), sub: sub, email: sub + "@legacy.test"}
	id := vfIdentity{Sub: sub, Email: st.email, Profile: map[string]interface{}{"sub": sub, "email": st.email, "preferred_username": "pu-" + sub}}
	if _, _, err := st.b.Login(p, id, "/"); err != nil {
		return nil
	}
	_, st.at = cw.lastTokens()
	return st
}

// legacyCase: a provider without refresh support re-validates a stale session at its validation URL (the rig's
// /userinfo: 200 for a live access token). The validation call is answered with the fault; then the fault is removed and
// the endpoint says 401 (token revoked). A validation that did not succeed must neither let the request through nor
// extend the session: the same browser's next request must not be served.
func (r *c14Runner) legacyCase(cw *c14World, c c14Case) {
	run := r.run
	p := cw.px[c.Store]
	if len(cw.stale[c.Store]) == 0 {
		run.Eval("")
		run.Inconclusive("rig: no stale legacy session left")
		return
	}
	st := cw.stale[c.Store][0]
	cw.stale[c.Store] = cw.stale[c.Store][1:]
	if st == nil {
		run.Eval("")
		run.Inconclusive("rig: the ordinary login that prepares a stale legacy session failed")
		return
	}
	cx := &c14Ctx{Sub: st.sub, Email: st.email, Issuer: cw.w.IdP.Issuer, Profile: map[string]interface{}{"sub": st.sub, "email": st.email}}
	// the validation endpoint only has a status: a 200 — whatever its body — IS a successful validation there
	var must bool
	if c.kind.Wire != nil {
		// the response never arrived completely: whatever its status line said, that is no validation
		must = c.kind.must(c.Pos)
	} else {
		probe := c.kind.Reply(c.Pos, cx)
		must = c.kind.Must && (probe.Reset || (probe.Status != 0 && probe.Status != 200))
	}
	steps := []string{"legacy provider (keycloak, validate-url = the rig's /userinfo), session of " + st.sub + " issued ten minutes ago (cookie-refresh 1m)"}
	disarm := cw.arm(c, cx)
	var obs c14Obs
	if c.kind.GiveUp {
		resp := c14GiveUpRequest(p, st.b)
		obs.Panic = resp.Panic
		steps = append(steps, "GET /oauth2/userinfo; the validation call stalls, the client gives up after 300 ms (response never seen)")
	} else {
		obs = cw.observe(func(q *vfReq) *vfResp { return st.b.Send(p, q) })
		steps = append(steps, "GET /oauth2/userinfo, GET /app/x while the validation endpoint answers with the fault")
	}
	fired := disarm()
	// fault removed; the provider now says: this access token is revoked
	cw.w.IdP.Set(func(cf *vfIdPCfg) {
		cf.Hook = func(ev *vfIdPEvent) *vfIdPReply {
			if ev.Kind == "userinfo" && ev.Auth == "Bearer "+st.at {
				return &vfIdPReply{Status: 401, Body: []byte(`{"error":"invalid_token"}`)}
			}
			return nil
		}
	})
	o2 := cw.observe(func(q *vfReq) *vfResp { return st.b.Send(p, q) })
	cw.w.IdP.Set(func(cf *vfIdPCfg) { cf.Hook = nil })
	steps = append(steps, "fault removed, the validation endpoint now answers 401 for this access token; GET /oauth2/userinfo, GET /app/x by the same browser")
	cell := ""
	if fired > 0 {
		cell = fmt.Sprintf("%s|%s|%s|%s", c.Flow, c.Pos, c.Kind, c.Store)
	} else {
		run.Count("fault_position_not_reached", 1)
	}
	run.Eval(cell)
	run.Count("cases_"+c.Flow, 1)
	rep := map[string]interface{}{"with_fault": obs, "after_fault_removed_and_token_revoked": o2}
	switch {
	case obs.Panic != "" || o2.Panic != "":
		r.violation("c14:panic", "panic: "+vfTrunc(obs.Panic+o2.Panic, 300), cw, p, c, fired, steps, rep, nil)
	case fired > 0 && must && obs.session():
		r.violation("c14:served-after-faulted-validation", fmt.Sprintf("the stale session was served (userinfo %d, upstream reached %v) although its re-validation was answered with the fault", obs.UserinfoCode, obs.UpHit), cw, p, c, fired, steps, rep, nil)
	case fired > 0 && must && o2.session():
		r.violation("c14:session-extended-by-faulted-validation", fmt.Sprintf("the validation never succeeded, yet the same browser's next request is served (userinfo %d, upstream reached %v) while the provider says the token is revoked: the faulted conversation reset the session's refresh timer", o2.UserinfoCode, o2.UpHit), cw, p, c, fired, steps, rep, nil)
	case must:
		run.Count("legacy_not_served_after_faulted_validation", 1)
	default:
		run.Count("legacy_tolerated_200_answers", 1)
	}
	// liveness on the same instance
	cw.seq++
	sub := fmt.Sprintf("lclean-w%d-%d", cw.idx, cw.seq)
	var o3 c14Obs
	var err error
	for try := 0; try < 3; try++ {
		b := vfNewBrowser("")
		if _, _, err = b.Login(p, vfIdentity{Sub: sub, Email: sub + "@legacy.test", Profile: map[string]interface{}{"sub": sub, "email": sub + "@legacy.test"}}, "/"); err == nil {
			o3 = cw.observe(func(q *vfReq) *vfResp { return b.Send(p, q) })
			if o3.UserinfoCode == 200 && o3.UpHit {
				break
			}
		}
		time.Sleep(50 * time.Millisecond)
	}
	run.Count("clean_logins", 1)
	if err != nil || o3.UserinfoCode != 200 || !o3.UpHit || o3.Email != sub+"@legacy.test" {
		r.violation("c14:stuck-after-fault:login", fmt.Sprintf("after the fault was removed an ordinary login on the legacy instance fails or is not usable (%v, userinfo %d)", err, o3.UserinfoCode), cw, p, c, fired, steps, o3, nil)
	}
}

// ---- incomplete HTTP messages (front server) ---------------------------------------------------------------------
// The scripted replies of the rig's provider are complete HTTP messages (a truncated DOCUMENT under a consistent
// Content-Length). A provider connection that breaks mid-body is a different thing: the status line says 200, the
// headers announce N bytes (or a chunked stream) and the connection closes after fewer bytes / without the terminating
// chunk. That response never arrived: nothing may be built on the part that did. The instances of the front worlds reach
// every provider endpoint through c14Front, which forwards to the rig's provider (so the provider's state and event log
// stay genuine) and, when armed, relays the provider's GENUINE answer as an incomplete message.

type c14Wire struct {
	Framing  string // content-length | chunked
	Cut      string // after-1-byte | inside-first-value | after-first-value | half | last-byte-missing
	Form     bool   // token endpoint answers application/x-www-form-urlencoded (legal for the generic OAuth2 code redemption)
	Complete bool   // control: the message is complete
}

type c14Front struct {
	srv    *httptest.Server
	target string
	client *http.Client
	mu     sync.Mutex
	pos    string
	wire   *c14Wire
	fired  int
}

func c14NewFront(target string) *c14Front {
	f := &c14Front{target: target, client: &http.Client{Transport: &http.Transport{MaxIdleConnsPerHost: 4}, CheckRedirect: func(*http.Request, []*http.Request) error { return http.ErrUseLastResponse }}}
	f.srv = httptest.NewServer(http.HandlerFunc(f.serve))
	return f
}

func (f *c14Front) close() {
	f.srv.CloseClientConnections()
	f.srv.Close()
	f.client.CloseIdleConnections()
}

func (f *c14Front) arm(pos string, w *c14Wire) (disarm func() int) {
	f.mu.Lock()
	f.pos, f.wire, f.fired = pos, w, 0
	f.mu.Unlock()
	return func() int {
		f.mu.Lock()
		defer f.mu.Unlock()
		f.wire = nil
		return f.fired
	}
}

// position names: those of the rig's provider; userinfo.profile / userinfo.validate when the instance uses distinct paths
func c14FrontPos(path string, form url.Values) []string {
	switch {
	case path == "/jwks":
		return []string{"jwks"}
	case path == "/.well-known/openid-configuration":
		return []string{"discovery"}
	case path == "/token":
		if form.Get("grant_type") == "refresh_token" {
			return []string{"token.refresh"}
		}
		return []string{"token.code"}
	case strings.HasPrefix(path, "/userinfo"):
		return []string{"userinfo", "userinfo." + strings.TrimPrefix(path, "/userinfo/")}
	}
	return nil
}

func c14DropConn(w http.ResponseWriter) {
	if hj, ok := w.(http.Hijacker); ok {
		if c, _, err := hj.Hijack(); err == nil {
			_ = c.Close()
		}
	}
}

func (f *c14Front) serve(w http.ResponseWriter, r *http.Request) {
	body, _ := io.ReadAll(r.Body)
	form, _ := url.ParseQuery(string(body))
	req, err := http.NewRequestWithContext(r.Context(), r.Method, f.target+r.URL.RequestURI(), bytes.NewReader(body))
	if err != nil {
		c14DropConn(w)
		return
	}
	for _, h := range []string{"Content-Type", "Authorization", "Accept"} {
		if v := r.Header.Get(h); v != "" {
			req.Header.Set(h, v)
		}
	}
	resp, err := f.client.Do(req)
	if err != nil {
		c14DropConn(w) // the provider reset / stalled until the caller gave up: the front does the same to its caller
		return
	}
	rb, rerr := io.ReadAll(resp.Body)
	_ = resp.Body.Close()
	if rerr != nil {
		c14DropConn(w)
		return
	}
	var wire *c14Wire
	f.mu.Lock()
	if f.wire != nil {
		for _, p := range c14FrontPos(r.URL.Path, form) {
			if p == f.pos {
				wire = f.wire
				f.fired++
			}
		}
	}
	f.mu.Unlock()
	ct := resp.Header.Get("Content-Type")
	if wire != nil && wire.Form && resp.StatusCode == 200 {
		var m map[string]interface{}
		if json.Unmarshal(rb, &m) == nil {
			v := url.Values{}
			for k, x := range m {
				v.Set(k, c14Render(x))
			}
			rb, ct = []byte(v.Encode()), "application/x-www-form-urlencoded" // keys sorted: access_token comes first
		}
	}
	if wire == nil || wire.Complete {
		if ct != "" {
			w.Header().Set("Content-Type", ct)
		}
		w.WriteHeader(resp.StatusCode)
		_, _ = w.Write(rb)
		return
	}
	hj, ok := w.(http.Hijacker)
	if !ok {
		return
	}
	conn, _, err := hj.Hijack()
	if err != nil {
		return
	}
	defer conn.Close()
	part := rb[:c14CutPoint(rb, wire.Cut)]
	var b bytes.Buffer
	fmt.Fprintf(&b, "HTTP/1.1 %d %s\r\nContent-Type: %s\r\n", resp.StatusCode, http.StatusText(resp.StatusCode), ct)
	if wire.Framing == "chunked" {
		b.WriteString("Transfer-Encoding: chunked\r\n\r\n")
		first := part[:(len(part)+1)/2]
		fmt.Fprintf(&b, "%x\r\n%s\r\n", len(first), first)
		if rest := part[len(first):]; len(rest) > 0 {
			fmt.Fprintf(&b, "%x\r\n%s\r\n", len(rest), rest)
		}
		// no terminating chunk
	} else {
		fmt.Fprintf(&b, "Content-Length: %d\r\n\r\n", len(rb))
		b.Write(part)
	}
	_ = conn.SetWriteDeadline(time.Now().Add(30 * time.Second))
	_, _ = conn.Write(b.Bytes())
}

// c14CutPoint: how many bytes of the body are delivered (at least 1, at most len-1)
func c14CutPoint(b []byte, cut string) int {
	n := len(b)
	if n < 2 {
		return n
	}
	// first value of the document: JSON `"key":"value"` / form `key=value&`
	vs, ve := -1, -1
	if b[0] == '{' || b[0] == '[' {
		if i := bytes.Index(b, []byte(`":"`)); i >= 0 {
			vs = i + 3
			if j := bytes.IndexByte(b[vs:], '"'); j >= 0 {
				ve = vs + j
			}
		}
	} else if i := bytes.IndexByte(b, '='); i >= 0 {
		vs = i + 1
		ve = n
		if j := bytes.IndexByte(b[vs:], '&'); j >= 0 {
			ve = vs + j
		}
	}
	k := n / 2
	switch cut {
	case "after-1-byte":
		k = 1
	case "inside-first-value":
		k = n / 4
		if ve > vs && vs > 0 {
			k = vs + (ve-vs)/2
		}
	case "after-first-value":
		k = 3 * n / 4
		if ve > vs && vs > 0 {
			k = ve + 3
		}
	case "last-byte-missing":
		k = n - 1
	}
	if k < 1 {
		k = 1
	}
	if k > n-1 {
		k = n - 1
	}
	return k
}

func c14WireKinds() []c14Kind {
	var out []c14Kind
	for _, form := range []bool{false, true} {
		for _, fr := range []string{"content-length", "chunked"} {
			for _, cut := range []string{"after-1-byte", "inside-first-value", "after-first-value", "half", "last-byte-missing"} {
				k := c14Kind{Name: "incomplete-message:" + fr + ":" + cut, Must: true, Wire: &c14Wire{Framing: fr, Cut: cut, Form: form}}
				if form {
					k.Name = "incomplete-message:form-encoded:" + fr + ":" + cut
					k.Only = []string{"token.code"}
				}
				out = append(out, k)
			}
		}
	}
	// controls: the same relay, message complete (not faults)
	out = append(out, c14Kind{Name: "complete-message:form-encoded", Only: []string{"token.code"}, Wire: &c14Wire{Form: true, Complete: true}},
		c14Kind{Name: "complete-message:relayed", Wire: &c14Wire{Complete: true}})
	return out
}

// legacyLoginCase: login at a provider of the generic OAuth2 kind (keycloak: code redemption by the default
// implementation, which also accepts form-encoded answers; profile lookup; validation URL) with a fault at one call
// position of the callback.
func (r *c14Runner) legacyLoginCase(cw *c14World, c c14Case) {
	run := r.run
	p := cw.px[c.Store]
	cw.seq++
	sub := fmt.Sprintf("ll-w%d-%d", cw.idx, cw.seq)
	email := sub + "@legacy.test"
	id := vfIdentity{Sub: sub, Email: email, Profile: map[string]interface{}{"sub": sub, "email": email, "preferred_username": "pu-" + sub}}
	cx := &c14Ctx{Sub: sub, Email: email, Issuer: cw.w.IdP.Issuer, Profile: id.Profile}
	steps := []string{"legacy provider (keycloak; redeem / profile / validate URLs reached through the check's front server)", "GET /oauth2/start, authorize as " + sub}
	b := vfNewBrowser("")
	l, err := b.StartLogin(p, id, "/")
	if err != nil {
		run.Eval("")
		run.Inconclusive(fmt.Sprintf("rig: legacy login could not be started: %v", err))
		return
	}
	keys0 := cw.redisKeys()
	disarm := cw.arm(c, cx)
	cb := b.Get(p, l.CallbackTarget(p))
	steps = append(steps, fmt.Sprintf("GET %s -> %d", l.CallbackTarget(p), cb.Code))
	obs := cw.observe(func(q *vfReq) *vfResp { return b.Send(p, q) })
	fired := disarm()
	keys1 := cw.redisKeys()
	obs.Cookies = append(c14SessionCookies(cb.SetCookies()), obs.Cookies...)
	if cb.Panic != "" {
		obs.Panic = cb.Panic
	}
	cell := ""
	if fired > 0 {
		cell = fmt.Sprintf("%s|%s|%s|%s", c.Flow, c.Pos, c.Kind, c.Store)
	} else {
		run.Count("fault_position_not_reached", 1)
	}
	run.Eval(cell)
	run.Count("cases_"+c.Flow, 1)
	session := obs.session() || len(obs.Cookies) > 0
	// a plain OAuth2 provider has no use for an ID token: kinds that only concern the id_token field are no faults here
	must := c.kind.must(c.Pos) && !strings.Contains(c.Kind, "id_token")
	switch {
	case obs.Panic != "":
		r.violation("c14:panic", "panic: "+vfTrunc(obs.Panic, 300), cw, p, c, fired, steps, obs, nil)
	case fired > 0 && must && session:
		r.violation("c14:session-after-faulted-conversation:"+c.Flow, fmt.Sprintf("a session exists after the faulted login (callback status %d, session cookies %v, userinfo %d, upstream reached %v, access token handed upstream %q)", cb.Code, obs.Cookies, obs.UserinfoCode, obs.UpHit, obs.UpAT), cw, p, c, fired, steps, obs, nil)
	case fired > 0 && must && keys1 > keys0:
		r.violation("c14:store-write-after-faulted-conversation", fmt.Sprintf("Redis holds %d keys after the faulted login, %d before", keys1, keys0), cw, p, c, fired, steps, obs, nil)
	case fired > 0 && must && cb.Code >= 200 && cb.Code < 300:
		r.violation("c14:success-status-after-fault", fmt.Sprintf("callback answered %d (neither an error page nor a redirect to sign-in)", cb.Code), cw, p, c, fired, steps, obs, nil)
	case session:
		run.Count("sessions_after_tolerated_oddity", 1)
		if c.kind.Wire != nil && c.kind.Wire.Complete {
			run.Count("complete_message_controls_with_session", 1)
		}
		if (obs.UserinfoCode == 200 && obs.Email != email) || (obs.UpHit && obs.UpEmail != email) || (obs.UserinfoCode != 200 && !obs.UpHit) {
			r.violation("c14:wrong-identity-after-odd-response", fmt.Sprintf("after an odd answer the session names e-mail %q / %q, expected %q", obs.Email, obs.UpEmail, email), cw, p, c, fired, steps, obs, nil)
		}
	default:
		run.Count("no_session_"+map[bool]string{true: "must", false: "tolerated"}[must], 1)
	}
	run.SampleEvery(61, func() interface{} { return c14Witness{Case: c, Fired: fired, Steps: steps, Observed: obs} })
	// liveness on the same instance
	cw.seq++
	sub2 := fmt.Sprintf("llclean-w%d-%d", cw.idx, cw.seq)
	var o3 c14Obs
	for try := 0; try < 3; try++ {
		b2 := vfNewBrowser("")
		if _, _, err = b2.Login(p, vfIdentity{Sub: sub2, Email: sub2 + "@legacy.test", Profile: map[string]interface{}{"sub": sub2, "email": sub2 + "@legacy.test"}}, "/"); err == nil {
			o3 = cw.observe(func(q *vfReq) *vfResp { return b2.Send(p, q) })
			if o3.UserinfoCode == 200 && o3.UpHit {
				break
			}
		}
		time.Sleep(50 * time.Millisecond)
	}
	run.Count("clean_logins", 1)
	if err != nil || o3.UserinfoCode != 200 || !o3.UpHit || o3.Email != sub2+"@legacy.test" {
		r.violation("c14:stuck-after-fault:login", fmt.Sprintf("after the fault was removed an ordinary login on the legacy instance fails or is not usable (%v, userinfo %d)", err, o3.UserinfoCode), cw, p, c, fired, steps, o3, nil)
	}
}

// ---- leak monitor ------------------------------------------------------------------------------------------------

type c14LeakServer struct {
	srv  *httptest.Server
	open int64
	mode int32 // 0 healthy, 1 oversized with Content-Length, 2 Content-Length larger than what is sent (then close)
	hits int64
}

func c14NewLeakServer() *c14LeakServer {
	ls := &c14LeakServer{}
	big := []byte(`{"email":"someone@leak.test","padding":"` + strings.Repeat("a", 16<<20)) // 16 MB, announced by Content-Length, never a complete document
	ls.srv = httptest.NewUnstartedServer(http.HandlerFunc(func(w http.ResponseWriter, r *http.Request) {
		atomic.AddInt64(&ls.hits, 1)
		switch atomic.LoadInt32(&ls.mode) {
		case 1:
			w.Header().Set("Content-Type", "application/json")
			w.Header().Set("Content-Length", strconv.Itoa(len(big)))
			w.WriteHeader(200)
			_, _ = w.Write(big)
		case 2:
			w.Header().Set("Content-Type", "application/json")
			w.Header().Set("Content-Length", "100000")
			w.WriteHeader(200)
			_, _ = w.Write([]byte(`{"email":"short@leak.test"`))
			if f, ok := w.(http.Flusher); ok {
				f.Flush()
			}
			if hj, ok := w.(http.Hijacker); ok {
				if c, _, err := hj.Hijack(); err == nil {
					_ = c.Close()
				}
			}
		default:
			w.Header().Set("Content-Type", "application/json")
			_, _ = w.Write([]byte(`{"email":"someone@leak.test","preferred_username":"someone"}`))
		}
	}))
	ls.srv.Config.ConnState = func(c net.Conn, st http.ConnState) {
		switch st {
		case http.StateNew:
			atomic.AddInt64(&ls.open, 1)
		case http.StateClosed, http.StateHijacked:
			atomic.AddInt64(&ls.open, -1)
		}
	}
	ls.srv.Start()
	return ls
}

// leakMonitor: "keeps handling other requests": faulted conversations must not each leave a connection (descriptor,
// transport goroutines) behind. Open connections at the provider's servers are counted at quiescence before and after
// N faulted conversations; the idle keep-alive pool accounts for a small constant, growth with N is a leak.
// leakSetup builds the monitor's world and instance (instances are built before any request is served).
func (r *c14Runner) leakSetup(t *testing.T) (run func(), closeAll func()) {
	w := vfNewWorld(t)
	ls := c14NewLeakServer()
	iss := w.IdP.Issuer
	p := w.MustProxy("--skip-oidc-discovery=true", "--oidc-jwks-url="+iss+"/jwks", "--login-url="+iss+"/authorize", "--redeem-url="+iss+"/token", "--profile-url="+ls.srv.URL+"/userinfo", "--cookie-refresh=1m")
	return func() { r.leakMonitor(w, ls, p) }, func() { ls.srv.CloseClientConnections(); ls.srv.Close(); w.Close() }
}

func (r *c14Runner) leakMonitor(w *vfWorld, ls *c14LeakServer, p *vfProxy) {
	run := r.run
	open := func() int64 { return w.IdP.OpenConns() + atomic.LoadInt64(&ls.open) }
	login := func(sub string) (*vfBrowser, *vfResp, error) {
		b := vfNewBrowser("")
		_, cb, err := b.Login(p, vfIdentity{Sub: sub, PreferredUsername: "", Email: ""}, "/") // no e-mail in the token: profile lookup
		return b, cb, err
	}
	for k := 0; k < 4; k++ {
		if _, _, err := login(fmt.Sprintf("leak-warm-%d", k)); err != nil {
			run.Inconclusive("rig: leak monitor warm-up login failed: " + vfTrunc(err.Error(), 80))
			return
		}
	}
	settle := func(limit int64) int64 {
		var n int64
		for k := 0; k < 40; k++ {
			if n = open(); n <= limit {
				break
			}
			time.Sleep(50 * time.Millisecond)
		}
		return n
	}
	time.Sleep(100 * time.Millisecond)
	baseline := open()
	const allowance = 4
	n := run.Env.Pick(20, 60)
	var faultedCodes sync.Map
	w.IdP.Set(func(c *vfIdPCfg) {
		c.Hook = func(ev *vfIdPEvent) *vfIdPReply {
			if ev.Kind == "token.code" {
				if v, ok := faultedCodes.Load(ev.Params.Get("code")); ok {
					switch v.(int) {
					case 0:
						return &vfIdPReply{Status: 200, ContentType: "application/json", Body: c14Junk16MB}
					case 1:
						return &vfIdPReply{Reset: true}
					default:
						return &vfIdPReply{Status: 200, ContentType: "application/json", Body: []byte(`{"access_token":"at-1","token_type":"Bearer","id_token":"eyJhbGci`)}
					}
				}
			}
			return nil
		}
	})
	var sessions int64
	var peak int64
	kinds := []string{"userinfo|oversized-with-content-length", "userinfo|content-length-larger-than-body", "token.code|16MB-junk", "token.code|reset", "token.code|truncated-json"}
	for round, mode := range []int32{1, 2, 0} {
		// userinfo modes are global to the leak server, so each mode gets its own batch; token faults are per code
		cnt := n * 2 / 5
		if mode == 0 {
			cnt = n - 2*(n*2/5)
		}
		atomic.StoreInt32(&ls.mode, mode)
		vfParallel(cnt, 4, func(i int) {
			b := vfNewBrowser("")
			sub := fmt.Sprintf("leak-%d-%d", round, i)
			l, err := b.StartLogin(p, vfIdentity{Sub: sub}, "/")
			if err != nil {
				return
			}
			kind := kinds[round]
			if mode == 0 {
				faultedCodes.Store(l.Code, i%3)
				kind = kinds[2+i%3]
			}
			cb := b.Get(p, l.CallbackTarget(p))
			o := c14ObserveBrowser(w, p, b)
			run.Eval("leak-monitor|" + kind)
			run.Count("cases_leak-monitor", 1)
			if cb.Panic != "" || o.Panic != "" {
				run.Violation("c14:panic", "panic in a faulted conversation of the leak monitor: "+vfTrunc(cb.Panic+o.Panic, 300), map[string]interface{}{"flags": p.Flags, "kind": kind})
			}
			if o.session() || len(c14SessionCookies(cb.SetCookies())) > 0 {
				atomic.AddInt64(&sessions, 1)
				run.Violation("c14:session-after-faulted-conversation:leak-monitor", fmt.Sprintf("a session exists after a login whose %s (callback status %d)", kind, cb.Code), map[string]interface{}{"flags": p.Flags, "kind": kind, "observed": o})
			}
			if x := open(); x > atomic.LoadInt64(&peak) {
				atomic.StoreInt64(&peak, x)
			}
		})
	}
	atomic.StoreInt32(&ls.mode, 0)
	w.IdP.Set(func(c *vfIdPCfg) { c.Hook = nil })
	after := settle(baseline + allowance)
	run.Extra("leak_monitor", map[string]interface{}{"faulted_conversations": n, "open_connections_baseline": baseline, "peak": atomic.LoadInt64(&peak), "after_settling": after, "allowance": allowance, "profile_endpoint_hits": atomic.LoadInt64(&ls.hits)})
	run.Count("leak_monitor_conversations", int64(n))
	if after > baseline+allowance {
		run.Violation("c14:connections-leaked-by-faulted-conversations", fmt.Sprintf("%d faulted conversations (oversized / short / reset / truncated answers) left %d connections open at the provider's servers after settling (%d before, allowance for the idle pool %d): connections, descriptors and transport goroutines are not released", n, after, baseline, allowance),
			map[string]interface{}{"flags": p.Flags, "faulted_conversations": n, "open_before": baseline, "open_after_settling": after, "peak": atomic.LoadInt64(&peak),
				"steps": "profile URL served by a server of the check: answers 200 with Content-Length 16 MB (batch 1) / Content-Length 100000 but 26 bytes then close (batch 2); token endpoint: 16 MB junk, reset, truncated JSON (batch 3); logins with an ID token without e-mail so that the profile URL is consulted; connections counted with http.Server.ConnState / the rig IdP's OpenConns()"})
	}
	// liveness
	if b, _, err := login("leak-after"); err != nil {
		run.Violation("c14:stuck-after-fault:login", "leak monitor: an ordinary login fails after the faulted conversations: "+vfTrunc(err.Error(), 200), map[string]interface{}{"flags": p.Flags})
	} else if o := c14ObserveBrowser(w, p, b); o.UserinfoCode != 200 || o.Email != "someone@leak.test" {
		run.Violation("c14:stuck-after-fault:request", "leak monitor: the session of a fresh login is not usable after the faulted conversations", map[string]interface{}{"flags": p.Flags, "observed": o})
	}
}

func c14ObserveBrowser(w *vfWorld, p *vfProxy, b *vfBrowser) c14Obs {
	cw := &c14World{w: w}
	return cw.observe(func(q *vfReq) *vfResp { return b.Send(p, q) })
}

// ---- validation endpoint status sweep (legacy providers) -----------------------------------------------------------
// A provider without refresh support validates at its validation URL — at the login callback and whenever a session
// is due for re-validation. The endpoint only has a status, and ONLY a final 200 means "validated". The validation URL is
// served by a server of the check so that every status class, redirects with and without Location, and informational
// responses before the final one can be scripted.

type c14ValMode struct {
	Name       string
	Status     int    // final status; 0 = healthy (200)
	Location   string // path on the same server
	Info       int    // informational status sent before the final one
	RetryAfter bool
	Recorded   bool // outcome recorded, not judged (a redirect that the HTTP client follows to a page answering 200)
}

func (m c14ValMode) validated() bool { return m.Status == 0 || m.Status == 200 }

type c14ValServer struct {
	srv  *httptest.Server
	mu   sync.Mutex
	mode c14ValMode
	hits int
}

func (v *c14ValServer) set(m c14ValMode) { v.mu.Lock(); v.mode, v.hits = m, 0; v.mu.Unlock() }
func (v *c14ValServer) hitCount() int     { v.mu.Lock(); defer v.mu.Unlock(); return v.hits }

func c14NewValServer() *c14ValServer {
	v := &c14ValServer{}
	mux := http.NewServeMux()
	mux.HandleFunc("/target-200", func(w http.ResponseWriter, _ *http.Request) {
		w.Header().Set("Content-Type", "text/html")
		_, _ = w.Write([]byte("<html><body>Please sign in</body></html>"))
	})
	mux.HandleFunc("/target-401", func(w http.ResponseWriter, _ *http.Request) { http.Error(w, `{"error":"invalid_token"}`, 401) })
	mux.HandleFunc("/validate", func(w http.ResponseWriter, _ *http.Request) {
		v.mu.Lock()
		m := v.mode
		v.hits++
		v.mu.Unlock()
		if m.Info != 0 {
			w.Header().Set("Link", "</style.css>; rel=preload")
			w.WriteHeader(m.Info)
		}
		st := m.Status
		if st == 0 {
			st = 200
		}
		if m.Location != "" {
			w.Header().Set("Location", m.Location)
		}
		if m.RetryAfter {
			w.Header().Set("Retry-After", "30")
		}
		w.Header().Set("Content-Type", "application/json")
		w.WriteHeader(st)
		if st >= 200 && st != 204 && st != 205 && st != 304 {
			_, _ = w.Write([]byte(`{"active":true,"sub":"someone","email":"someone@val.test"}`))
		}
	})
	v.srv = httptest.NewServer(mux)
	return v
}

func c14ValModes() []c14ValMode {
	var out []c14ValMode
	out = append(out, c14ValMode{Name: "200-control", Status: 200}, c14ValMode{Name: "103-then-200-control", Status: 200, Info: 103})
	for _, st := range []int{201, 202, 203, 204, 205, 206, 207, 226, 300, 301, 302, 303, 304, 305, 307, 308, 400, 401, 402, 403, 404, 405, 406, 407, 408, 409, 410, 412, 415, 418, 421, 422, 423, 425, 426, 428, 429, 431, 451, 499, 500, 501, 502, 503, 504, 505, 507, 508, 511, 520, 599} {
		out = append(out, c14ValMode{Name: fmt.Sprintf("status-%d", st), Status: st})
	}
	out = append(out,
		c14ValMode{Name: "429-with-retry-after", Status: 429, RetryAfter: true},
		c14ValMode{Name: "503-with-retry-after", Status: 503, RetryAfter: true},
		c14ValMode{Name: "302-location-to-401", Status: 302, Location: "/target-401"},
		c14ValMode{Name: "307-location-to-404", Status: 307, Location: "/no-such-page"},
		c14ValMode{Name: "301-location-to-401", Status: 301, Location: "/target-401"},
		c14ValMode{Name: "103-then-401", Status: 401, Info: 103},
		c14ValMode{Name: "103-then-429", Status: 429, Info: 103},
		c14ValMode{Name: "103-then-204", Status: 204, Info: 103},
		c14ValMode{Name: "302-location-to-a-200-page", Status: 302, Location: "/target-200", Recorded: true},
	)
	return out
}

type c14StatusCase struct {
	Flow  string // legacy-login-status | legacy-revalidate-status
	Mode  c14ValMode
	Store string
}

func (r *c14Runner) statusCase(cw *c14World, vs *c14ValServer, sc c14StatusCase) {
	run := r.run
	p := cw.px[sc.Store]
	c := c14Case{Flow: sc.Flow, Pos: "validate", Kind: sc.Mode.Name, Store: sc.Store}
	healthy := c14ValMode{Name: "healthy"}
	revoked := c14ValMode{Name: "revoked", Status: 401}
	var steps []string
	defer vs.set(healthy)
	switch sc.Flow {
	case "legacy-login-status":
		cw.seq++
		sub := fmt.Sprintf("ls-w%d-%d", cw.idx, cw.seq)
		id := vfIdentity{Sub: sub, Email: sub + "@legacy.test", Profile: map[string]interface{}{"sub": sub, "email": sub + "@legacy.test"}}
		b := vfNewBrowser("")
		l, err := b.StartLogin(p, id, "/")
		if err != nil {
			run.Eval("")
			run.Inconclusive("rig: login could not be started")
			return
		}
		vs.set(sc.Mode)
		cb := b.Get(p, l.CallbackTarget(p))
		hits := vs.hitCount()
		obs := cw.observe(func(q *vfReq) *vfResp { return b.Send(p, q) })
		obs.Cookies = append(c14SessionCookies(cb.SetCookies()), obs.Cookies...)
		steps = []string{"legacy provider (keycloak), validate-url served by the check", fmt.Sprintf("login; the validation call of the callback is answered %q -> callback status %d", sc.Mode.Name, cb.Code)}
		cell := ""
		if hits > 0 {
			cell = fmt.Sprintf("%s|validate|%s|%s", sc.Flow, sc.Mode.Name, sc.Store)
		} else {
			run.Count("fault_position_not_reached", 1)
		}
		run.Eval(cell)
		run.Count("cases_"+sc.Flow, 1)
		session := obs.session() || len(obs.Cookies) > 0
		switch {
		case cb.Panic != "" || obs.Panic != "":
			r.violation("c14:panic", "panic: "+vfTrunc(cb.Panic+obs.Panic, 300), cw, p, c, hits, steps, obs, nil)
		case sc.Mode.Recorded:
			run.Count(fmt.Sprintf("recorded_%s_%s_session=%v", sc.Flow, sc.Mode.Name, session), 1)
		case hits > 0 && !sc.Mode.validated() && session:
			r.violation("c14:session-after-faulted-conversation:legacy-login-status", fmt.Sprintf("the validation URL answered %q (only a final 200 is a validation) and a session exists (callback status %d, session cookies %v, userinfo %d)", sc.Mode.Name, cb.Code, obs.Cookies, obs.UserinfoCode), cw, p, c, hits, steps, obs, nil)
		case sc.Mode.validated() && !session:
			run.Inconclusive("rig: healthy validation control did not produce a session")
		case sc.Mode.validated():
			run.Count("status_controls_served", 1)
		default:
			run.Count("status_not_validated_no_session", 1)
		}
	case "legacy-revalidate-status":
		key := sc.Store
		if len(cw.stale[key]) == 0 || cw.stale[key][0] == nil {
			if len(cw.stale[key]) > 0 {
				cw.stale[key] = cw.stale[key][1:]
			}
			run.Eval("")
			run.Inconclusive("rig: no stale legacy session for the status sweep")
			return
		}
		st := cw.stale[key][0]
		cw.stale[key] = cw.stale[key][1:]
		vs.set(sc.Mode)
		obs := cw.observe(func(q *vfReq) *vfResp { return st.b.Send(p, q) })
		hits := vs.hitCount()
		vs.set(revoked)
		o2 := cw.observe(func(q *vfReq) *vfResp { return st.b.Send(p, q) })
		steps = []string{"legacy provider (keycloak), validate-url served by the check; session of " + st.sub + " issued ten minutes ago (cookie-refresh 1m)",
			fmt.Sprintf("GET /oauth2/userinfo, GET /app/x while the validation URL answers %q", sc.Mode.Name), "then the validation URL answers 401 (revoked); same two requests by the same browser"}
		cell := ""
		if hits > 0 {
			cell = fmt.Sprintf("%s|validate|%s|%s", sc.Flow, sc.Mode.Name, sc.Store)
		} else {
			run.Count("fault_position_not_reached", 1)
		}
		run.Eval(cell)
		run.Count("cases_"+sc.Flow, 1)
		rep := map[string]interface{}{"with_scripted_status": obs, "after_endpoint_says_revoked": o2}
		switch {
		case obs.Panic != "" || o2.Panic != "":
			r.violation("c14:panic", "panic: "+vfTrunc(obs.Panic+o2.Panic, 300), cw, p, c, hits, steps, rep, nil)
		case sc.Mode.Recorded:
			run.Count(fmt.Sprintf("recorded_%s_%s_served=%v", sc.Flow, sc.Mode.Name, obs.session()), 1)
		case hits > 0 && !sc.Mode.validated() && obs.session():
			r.violation("c14:served-after-faulted-validation", fmt.Sprintf("the stale session was served (userinfo %d, upstream reached %v) although its re-validation was answered %q (only a final 200 is a validation)", obs.UserinfoCode, obs.UpHit, sc.Mode.Name), cw, p, c, hits, steps, rep, nil)
		case hits > 0 && !sc.Mode.validated() && o2.session():
			r.violation("c14:session-extended-by-faulted-validation", fmt.Sprintf("the re-validation was answered %q, yet the same browser's next request is served while the endpoint says the token is revoked: the session's refresh timer was reset by a validation that did not succeed", sc.Mode.Name), cw, p, c, hits, steps, rep, nil)
		case sc.Mode.validated() && !obs.session():
			run.Inconclusive("rig: healthy re-validation control was not served")
		case sc.Mode.validated():
			run.Count("status_controls_served", 1)
		default:
			run.Count("status_not_validated_not_served", 1)
		}
	}
}

// ---- OIDC re-validation with a key set that has to be fetched ------------------------------------------------------
// A session that cannot be refreshed (no refresh token) is re-validated by verifying its own ID token. On an instance
// that has not got the signing key in its cache (a restarted / second replica sharing cookie secret and store: here
// instance B, while the login happened on instance A; the ID token is signed under a key id of its own) that needs a
// key-set retrieval. While that retrieval is answered with a fault the ID token is NOT verified: the request must not
// be served.

type c14ColdKind struct {
	Name string
	kind *c14Kind // scripted reply at the jwks position; nil for the two key-set manipulations
}

func (cw *c14World) makeColdStale(store string) *c14Stale {
	p := cw.px[store]
	cw.seq++
	cw.kidSeq++
	sub := fmt.Sprintf("ck-w%d-%d", cw.idx, cw.seq)
	kid := fmt.Sprintf("c14-cold-%d", cw.kidSeq)
	// the key set publishes only the key of the login at hand: an instance that fetched the key set for another session
	// still has to fetch it again for this one
	keys := []jose.JSONWebKey{{Key: &vfKeyB.PublicKey, KeyID: kid, Algorithm: "RS256", Use: "sig"}}
	cw.w.IdP.Set(func(c *vfIdPCfg) {
		c.ExtraJWKS = keys
		c.MintOverride = func(grant string, claims map[string]interface{}) (string, bool) {
			return vfMint(claims, vfMintOpts{Key: vfKeyB, Kid: kid}), true
		}
	})
	defer cw.setMint(nil)
	st := &c14Stale{b: vfNewBrowser(""), sub: sub, email: sub + "@tok.test", kid: kid}
	id := vfIdentity{Sub: sub, Email: st.email, PreferredUsername: "pu-" + sub, Groups: []string{"g1"}, NoRefreshToken: true}
	if _, _, err := st.b.Login(p, id, "/"); err != nil {
		return nil
	}
	st.idToken, st.at = cw.lastTokens()
	return st
}

func (r *c14Runner) coldCase(cw *c14World, ck c14ColdKind, store string) {
	run := r.run
	pB := cw.px[store+"B"]
	c := c14Case{Flow: "oidc-revalidate-key-fetch", Pos: "jwks", Kind: ck.Name, Store: store, kind: ck.kind}
	if len(cw.stale[store]) == 0 || cw.stale[store][0] == nil {
		if len(cw.stale[store]) > 0 {
			cw.stale[store] = cw.stale[store][1:]
		}
		run.Eval("")
		run.Inconclusive("rig: no stale session for the key-fetch re-validation flow")
		return
	}
	st := cw.stale[store][0]
	cw.stale[store] = cw.stale[store][1:]
	all := []jose.JSONWebKey{{Key: &vfKeyB.PublicKey, KeyID: st.kid, Algorithm: "RS256", Use: "sig"}}
	cw.w.IdP.Set(func(cf *vfIdPCfg) { cf.ExtraJWKS = all })
	cx := &c14Ctx{Sub: st.sub, Issuer: cw.w.IdP.Issuer, JWKS: append([]jose.JSONWebKey{{Key: &vfKeyA.PublicKey, KeyID: "k1", Algorithm: "RS256", Use: "sig"}}, all...)}
	must := true
	j0 := cw.w.IdP.EventCount("jwks")
	disarm := func() int { return cw.w.IdP.EventCount("jwks") - j0 }
	switch {
	case ck.kind != nil:
		must = ck.kind.Must
		disarm = cw.arm(c, cx)
	case ck.Name == "key-removed-from-key-set":
		var rest []jose.JSONWebKey
		for _, k := range all {
			if k.KeyID != st.kid {
				rest = append(rest, k)
			}
		}
		cw.w.IdP.Set(func(cf *vfIdPCfg) { cf.ExtraJWKS = rest })
	case ck.Name == "different-key-under-the-same-kid":
		var swapped []jose.JSONWebKey
		for _, k := range all {
			if k.KeyID == st.kid {
				k = jose.JSONWebKey{Key: &vfKeyA.PublicKey, KeyID: st.kid, Algorithm: "RS256", Use: "sig"}
			}
			swapped = append(swapped, k)
		}
		cw.w.IdP.Set(func(cf *vfIdPCfg) { cf.ExtraJWKS = swapped })
	}
	obs := cw.observe(func(q *vfReq) *vfResp { return st.b.Send(pB, q) })
	fired := disarm()
	cw.w.IdP.Set(func(cf *vfIdPCfg) { cf.ExtraJWKS = all })
	steps := []string{"login on instance A as " + st.sub + " (no refresh token; ID token signed under key id " + st.kid + "), session issued ten minutes ago (cookie-refresh 1m)",
		"GET /oauth2/userinfo, GET /app/x sent to instance B (same flags, cookie secret and store; never saw that key id) while the key-set endpoint answers with the fault"}
	cell := ""
	if fired > 0 {
		cell = fmt.Sprintf("%s|jwks|%s|%s", c.Flow, ck.Name, store)
	} else {
		run.Count("fault_position_not_reached", 1)
	}
	run.Eval(cell)
	run.Count("cases_"+c.Flow, 1)
	switch {
	case obs.Panic != "":
		r.violation("c14:panic", "panic: "+vfTrunc(obs.Panic, 300), cw, pB, c, fired, steps, obs, nil)
	case fired > 0 && must && obs.session():
		r.violation("c14:served-without-verified-id-token", fmt.Sprintf("the session could not be refreshed and its ID token could not be verified (key-set retrieval: %s), yet the request was served (userinfo %d as %q, upstream reached %v)", ck.Name, obs.UserinfoCode, obs.Email, obs.UpHit), cw, pB, c, fired, steps, obs, nil)
	case obs.session():
		run.Count("key_fetch_tolerated_served", 1)
		if (obs.UserinfoCode == 200 && (obs.Email != st.email || obs.User != st.sub)) || (obs.UpHit && obs.UpEmail != st.email) {
			r.violation("c14:wrong-identity-after-odd-response", fmt.Sprintf("after an odd key-set answer the session names user %q e-mail %q / %q", obs.User, obs.Email, obs.UpEmail), cw, pB, c, fired, steps, obs, nil)
		}
	default:
		run.Count("key_fetch_not_served", 1)
	}
	r.maybeClean(cw, pB, c, steps)
}

// ---- start-up discovery ------------------------------------------------------------------------------------------

func (r *c14Runner) startupCase(cw *c14World, c c14Case) {
	run := r.run
	cx := &c14Ctx{Issuer: cw.w.IdP.Issuer}
	disarm := cw.arm(c, cx)
	var p *vfProxy
	var err error
	pan := ""
	func() {
		defer func() {
			if x := recover(); x != nil {
				pan = fmt.Sprint(x)
			}
		}()
		p, err = cw.w.NewProxy("--cookie-refresh=1m")
	}()
	fired := disarm()
	cell := ""
	if fired > 0 {
		cell = fmt.Sprintf("%s|%s|%s|-", c.Flow, c.Pos, c.Kind)
	}
	run.Eval(cell)
	run.Count("cases_startup", 1)
	steps := []string{"build an instance while discovery answers with the fault"}
	ref := cw.px["cookie"]
	switch {
	case pan != "":
		r.violation("c14:panic", "panic while starting: "+vfTrunc(pan, 300), cw, ref, c, fired, steps, nil, nil)
	case err != nil:
		run.Count("startup_refused", 1)
	case c.kind.Must && fired > 0:
		// the instance came up although discovery was garbage: it must at least not sign anybody in on that basis
		run.Count("startup_despite_fault", 1)
		fallthrough
	default:
		r.cleanLogin(cw, p, c, steps)
	}
}

// ---------------------------------------------------------------------------------------------------------

func TestVerif_C14(t *testing.T) {
	run := vfNewRun(t, "C14", "fault_enumeration")
	if c14otOnly() { // VERIF_C14_OT_ONLY=1: only the OIDC-based provider types with a call of their own (development / replay aid)
		c14OIDCTypes(run, t)
		run.Finish(0, 0)
		return
	}
	if vfPvOnly() { // VERIF_PV_ONLY=1: only the provider-type sweep (development / replay aid)
		pw := vfNewWorld(t)
		c14ProviderTypes(run, pw)
		pw.Close()
		run.Finish(0, 0)
		return
	}
	run.SetRule("flows {login (all claims in the token; key-set fetch forced by a new key id), login with profile lookup (e-mail only at the profile endpoint), login with a thin ID token (optional claims only at the profile endpoint), bearer token under a new key id, refresh (token / key-set / profile position), refresh with a thin ID token, wrongly typed claims also in bearer tokens of an extra JWT issuer, " +
		"refresh with an expired old ID token (re-validation), re-validation of a stale session at the validation URL of a provider without refresh support (all reply kinds + a sweep of ~65 status / redirect / informational answers, also at the login callback: only a final 200 validates), re-validation of an unrefreshable OIDC session on an instance that has to fetch the key set first, start-up discovery} x every identity-provider call position x response kind (structural faults, tolerated oddities, wrongly typed claims); " +
		"each case is followed by a clean login on the same instance. cell = (flow, position, kind, instance); non-trivial = the proxy actually made the call that was faulted")
	run.Assume("the proxy's HTTP client has no timeout of its own (verified: stalls end when the provider answers or resets); stalls are therefore followed by a reset / a 500",
		"profile endpoint values differ from token values", "the global pkg/clock mock is set only while the stale sessions are created (no other activity)")
	thorough := run.Env.Thorough()
	nWorlds := run.Env.Pick(8, 16)
	r := &c14Runner{run: run}

	kinds := c14Kinds()
	typed := c14TypedKinds()
	applies := func(k *c14Kind, pos string) bool {
		if k.Only == nil {
			return true
		}
		for _, o := range k.Only {
			if o == pos {
				return true
			}
		}
		return false
	}
	// case list: a pure function of (seed, tier)
	rng := rand.New(rand.NewSource(run.Env.Seed*104729 + 14))
	var cases []c14Case
	flows := []struct {
		flow string
		pos  []string
	}{
		{"login-newkid", []string{"token.code", "jwks"}},
		{"login-profile", []string{"token.code", "userinfo"}},
		{"bearer-newkid", []string{"jwks"}},
		{"login-thin", []string{"userinfo"}},
		{"refresh", []string{"token.refresh", "jwks", "userinfo"}},
		{"refresh-thin", []string{"userinfo"}},
		{"refresh-old-token-expired", []string{"token.refresh"}},
		{"startup", []string{"discovery"}},
	}
	n := 0
	for _, f := range flows {
		for _, pos := range f.pos {
			for ki := range kinds {
				k := &kinds[ki]
				if !applies(k, pos) {
					continue
				}
				if f.flow == "startup" && (k.Heavy || k.Mutate != nil) {
					continue
				}
				if k.GiveUp && f.flow != "refresh" && f.flow != "refresh-thin" {
					continue
				}
				if f.flow == "refresh-old-token-expired" && !thorough && ki%3 != int(run.Env.Seed)%3 {
					continue
				}
				if k.Sampled && !thorough && ((f.flow == "login-newkid" && (ki+int(run.Env.Seed))%2 == 0) || (f.flow == "login-profile" && (ki+int(run.Env.Seed))%2 == 1)) {
					continue // the field-type grid: code redemption is shared by two login flows, the quick tier alternates
				}
				stores := []string{"cookie", "redis"}
				if !thorough {
					stores = []string{stores[(n+int(run.Env.Seed))%2]}
					if k.Heavy && rng.Intn(3) != 0 {
						n++
						continue
					}
				}
				n++
				if f.flow == "startup" {
					stores = []string{"cookie"}
				}
				for _, s := range stores {
					cases = append(cases, c14Case{Flow: f.flow, Pos: pos, Kind: k.Name, Store: s, kind: k})
				}
			}
		}
	}
	for ti := range typed {
		ty := &typed[ti]
		for fi, flow := range []string{"login-typed-claims", "refresh-typed-claims", "bearer-typed-claims", "bearer-extra-issuer-typed-claims"} {
			if ty.LoginOnly && fi > 0 {
				continue
			}
			if fi == 3 && ty.Azp {
				continue
			}
			stores := []string{"cookie", "redis"}
			if !thorough || fi >= 2 {
				stores = []string{stores[(ti+fi+int(run.Env.Seed))%2]}
			}
			for _, s := range stores {
				if ty.Azp {
					s = "azp"
				}
				if fi == 3 {
					s = "extra"
				}
				cases = append(cases, c14Case{Flow: flow, Pos: "claims", Kind: ty.Name, Store: s, typed: ty})
			}
		}
	}
	// legacy provider re-validation: its own world, every scripted reply kind at the validation position
	var legacyCases []c14Case
	for ki := range kinds {
		k := &kinds[ki]
		if k.Reply == nil || !applies(k, "userinfo") {
			continue
		}
		if k.Heavy && !thorough && !strings.HasPrefix(k.Name, "stall-then-reset") {
			continue
		}
		stores := []string{"cookie", "redis"}
		if !thorough && !k.GiveUp {
			stores = []string{stores[(ki+int(run.Env.Seed))%2]}
		}
		for _, st := range stores {
			legacyCases = append(legacyCases, c14Case{Flow: "legacy-revalidate", Pos: "userinfo", Kind: k.Name, Store: st, kind: k})
		}
	}
	// validation status sweep (legacy providers; login and re-validation) and key-fetch re-validation (OIDC): own worlds
	var statusCases []c14StatusCase
	for mi, m := range c14ValModes() {
		for fi, flow := range []string{"legacy-login-status", "legacy-revalidate-status"} {
			stores := []string{"cookie", "redis"}
			if !thorough {
				stores = []string{stores[(mi+fi+int(run.Env.Seed))%2]}
			}
			for _, st := range stores {
				statusCases = append(statusCases, c14StatusCase{Flow: flow, Mode: m, Store: st})
			}
		}
	}
	type coldJob struct {
		ck    c14ColdKind
		store string
	}
	var coldJobs []coldJob
	{
		cks := []c14ColdKind{{Name: "key-removed-from-key-set"}, {Name: "different-key-under-the-same-kid"}}
		for ki := range kinds {
			k := &kinds[ki]
			if k.Reply == nil || k.GiveUp || !applies(k, "jwks") {
				continue
			}
			if k.Heavy && !thorough && k.Name != "stall-then-reset" {
				continue
			}
			cks = append(cks, c14ColdKind{Name: k.Name, kind: k})
		}
		for ci, ck := range cks {
			stores := []string{"cookie", "redis"}
			if !thorough {
				stores = []string{stores[(ci+int(run.Env.Seed))%2]}
			}
			for _, st := range stores {
				coldJobs = append(coldJobs, coldJob{ck, st})
			}
		}
	}
	// incomplete HTTP messages: front worlds (OIDC instances and legacy instances whose provider endpoints are all reached
	// through the check's front server); the legacy login flow also gets the field-type grid and the scripted reply kinds
	wireKinds := c14WireKinds()
	var frontCases, lfCases []c14Case
	{
		pick := func(i, pi int) bool { return thorough || (i+pi+int(run.Env.Seed))%5 < 2 }
		nf := 0
		add := func(list *[]c14Case, flow, pos string, k *c14Kind) {
			stores := []string{"cookie", "redis"}
			if !thorough {
				stores = []string{stores[(nf+int(run.Env.Seed))%2]}
			}
			nf++
			for _, st := range stores {
				*list = append(*list, c14Case{Flow: flow, Pos: pos, Kind: k.Name, Store: st, kind: k})
			}
		}
		for pi, fp := range [][2]string{{"login-newkid", "token.code"}, {"login-newkid", "jwks"}, {"login-profile", "userinfo"}, {"refresh", "token.refresh"}, {"refresh", "userinfo"}} {
			for ki := range wireKinds {
				k := &wireKinds[ki]
				if k.Wire.Form || !applies(k, fp[1]) || (!k.Wire.Complete && !pick(ki, pi)) {
					continue
				}
				add(&frontCases, fp[0], fp[1], k)
			}
		}
		for pi, fp := range []struct {
			flow, pos string
			all       bool
		}{{"legacy-login", "token.code", false}, {"legacy-login", "userinfo.profile", false}, {"legacy-login", "userinfo.validate", true}, {"legacy-revalidate", "userinfo", true}} {
			for ki := range wireKinds {
				k := &wireKinds[ki]
				if !applies(k, fp.pos) || (!fp.all && !k.Wire.Form && !k.Wire.Complete && !pick(ki, pi)) {
					continue
				}
				if k.Wire.Complete && fp.flow == "legacy-revalidate" {
					continue
				}
				add(&lfCases, fp.flow, fp.pos, k)
			}
		}
		for ki := range kinds {
			k := &kinds[ki]
			if k.Heavy || k.GiveUp || !applies(k, "token.code") {
				continue
			}
			add(&lfCases, "legacy-login", "token.code", k)
		}
	}
	rng.Shuffle(len(cases), func(a, b int) { cases[a], cases[b] = cases[b], cases[a] })
	// the short-lived-token flow waits for expiry: run those last in each world
	sort.SliceStable(cases, func(a, b int) bool {
		return cases[a].Flow != "refresh-old-token-expired" && cases[b].Flow == "refresh-old-token-expired"
	})

	// worlds
	worlds := make([]*c14World, nWorlds)
	// cases are dealt to the least loaded world (stalls and 16 MB bodies cost seconds under the race detector, the rest
	// milliseconds); deterministic for a given case list
	per := make([][]c14Case, nWorlds)
	load := make([]float64, nWorlds)
	for _, c := range cases {
		cost := 0.05
		if c.kind != nil && (c.kind.Heavy || c.kind.GiveUp) {
			cost = 4
		}
		if c.Flow == "refresh-old-token-expired" {
			cost = 0.7
		}
		best := 0
		for i := range load {
			if load[i] < load[best] {
				best = i
			}
		}
		load[best] += cost
		per[best] = append(per[best], c)
	}
	common := []string{"--cookie-refresh=1m", "--skip-jwt-bearer-tokens=true", "--pass-access-token=true", "--pass-authorization-header=true"}
	for i := range worlds {
		w := vfNewWorld(t)
		defer w.Close()
		cw := &c14World{idx: i, w: w, px: map[string]*vfProxy{}, stale: map[string][]*c14Stale{}}
		w.IdP.Set(func(c *vfIdPCfg) { c.TokenResponseMutate = cw.recordLast })
		cw.px["cookie"] = w.MustProxy(common...)
		cw.px["redis"] = w.MustProxy(append([]string{"--session-store-type=redis", "--redis-connection-url=" + w.RedisURL()}, common...)...)
		cw.px["azp"] = w.MustProxy(append([]string{"--oidc-audience-claim=azp", "--oidc-audience-claim=aud"}, common...)...)
		cw.idp2 = vfNewIdP()
		defer cw.idp2.Close()
		cw.px["extra"] = w.MustProxy(append([]string{"--extra-jwt-issuers=" + cw.idp2.Issuer + "=aud2"}, common...)...)
		worlds[i] = cw
	}
	leakRun, leakClose := r.leakSetup(t)
	defer leakClose()
	lwWorld := vfNewWorld(t)
	defer lwWorld.Close()
	lw := &c14World{idx: 99, w: lwWorld, px: map[string]*vfProxy{}, stale: map[string][]*c14Stale{}}
	lwWorld.IdP.Set(func(c *vfIdPCfg) { c.TokenResponseMutate = lw.recordLast })
	{
		iss := lwWorld.IdP.Issuer
		legacy := []string{"--provider=keycloak", "--login-url=" + iss + "/authorize", "--redeem-url=" + iss + "/token", "--profile-url=" + iss + "/userinfo", "--validate-url=" + iss + "/userinfo",
			"--scope=openid", "--cookie-refresh=1m", "--pass-access-token=true"}
		lw.px["cookie"] = lwWorld.MustProxy(legacy...)
		lw.px["redis"] = lwWorld.MustProxy(append([]string{"--session-store-type=redis", "--redis-connection-url=" + lwWorld.RedisURL()}, legacy...)...)
	}
	// status-sweep world: legacy provider whose validation URL is a server of the check
	vs := c14NewValServer()
	defer func() { vs.srv.CloseClientConnections(); vs.srv.Close() }()
	swWorld := vfNewWorld(t)
	defer swWorld.Close()
	sw := &c14World{idx: 98, w: swWorld, px: map[string]*vfProxy{}, stale: map[string][]*c14Stale{}}
	swWorld.IdP.Set(func(c *vfIdPCfg) { c.TokenResponseMutate = sw.recordLast })
	{
		iss := swWorld.IdP.Issuer
		legacy := []string{"--provider=keycloak", "--login-url=" + iss + "/authorize", "--redeem-url=" + iss + "/token", "--profile-url=" + iss + "/userinfo", "--validate-url=" + vs.srv.URL + "/validate",
			"--scope=openid", "--cookie-refresh=1m", "--pass-access-token=true"}
		sw.px["cookie"] = swWorld.MustProxy(legacy...)
		sw.px["redis"] = swWorld.MustProxy(append([]string{"--session-store-type=redis", "--redis-connection-url=" + swWorld.RedisURL()}, legacy...)...)
	}
	// key-fetch world: instances A (login) and B (re-validation) per store, same flags
	kwWorld := vfNewWorld(t)
	defer kwWorld.Close()
	kw := &c14World{idx: 97, w: kwWorld, px: map[string]*vfProxy{}, stale: map[string][]*c14Stale{}}
	kwWorld.IdP.Set(func(c *vfIdPCfg) { c.TokenResponseMutate = kw.recordLast })
	for _, inst := range []string{"cookie", "cookieB"} {
		kw.px[inst] = kwWorld.MustProxy(common...)
	}
	for _, inst := range []string{"redis", "redisB"} {
		kw.px[inst] = kwWorld.MustProxy(append([]string{"--session-store-type=redis", "--redis-connection-url=" + kwWorld.RedisURL()}, common...)...)
	}
	// front worlds: OIDC instances (explicit endpoint URLs) and legacy instances behind the check's front server
	fwWorld := vfNewWorld(t)
	defer fwWorld.Close()
	fw := &c14World{idx: 96, w: fwWorld, px: map[string]*vfProxy{}, stale: map[string][]*c14Stale{}, front: c14NewFront(fwWorld.IdP.Issuer)}
	defer fw.front.close()
	fwWorld.IdP.Set(func(c *vfIdPCfg) { c.TokenResponseMutate = fw.recordLast })
	{
		iss, fu := fwWorld.IdP.Issuer, fw.front.srv.URL
		viaFront := append([]string{"--skip-oidc-discovery=true", "--oidc-jwks-url=" + fu + "/jwks", "--login-url=" + iss + "/authorize", "--redeem-url=" + fu + "/token", "--profile-url=" + fu + "/userinfo"}, common...)
		fw.px["cookie"] = fwWorld.MustProxy(viaFront...)
		fw.px["redis"] = fwWorld.MustProxy(append([]string{"--session-store-type=redis", "--redis-connection-url=" + fwWorld.RedisURL()}, viaFront...)...)
	}
	// one legacy front world per store (their case lists run next to each other)
	lfws := map[string]*c14World{}
	for li, store := range []string{"cookie", "redis"} {
		lfWorld := vfNewWorld(t)
		defer lfWorld.Close()
		lfw := &c14World{idx: 94 + li, w: lfWorld, px: map[string]*vfProxy{}, stale: map[string][]*c14Stale{}, front: c14NewFront(lfWorld.IdP.Issuer)}
		defer lfw.front.close()
		lfWorld.IdP.Set(func(c *vfIdPCfg) { c.TokenResponseMutate = lfw.recordLast })
		iss, fu := lfWorld.IdP.Issuer, lfw.front.srv.URL
		legacy := []string{"--provider=keycloak", "--login-url=" + iss + "/authorize", "--redeem-url=" + fu + "/token", "--profile-url=" + fu + "/userinfo/profile", "--validate-url=" + fu + "/userinfo/validate",
			"--scope=openid", "--cookie-refresh=1m", "--pass-access-token=true"}
		if store == "redis" {
			legacy = append([]string{"--session-store-type=redis", "--redis-connection-url=" + lfWorld.RedisURL()}, legacy...)
		}
		lfw.px[store] = lfWorld.MustProxy(legacy...)
		lfws[store] = lfw
	}
	// phase 1: stale sessions (global clock mock; nothing else runs)
	clock.Set(time.Now().Add(-10 * time.Minute))
	for _, c := range lfCases {
		if c.Flow == "legacy-revalidate" {
			lfws[c.Store].stale[c.Store] = append(lfws[c.Store].stale[c.Store], lfws[c.Store].makeLegacyStale(c.Store))
		}
	}
	for _, c := range frontCases {
		if c.Flow == "refresh" {
			fw.stale[c.Store] = append(fw.stale[c.Store], fw.makeStale(t, c.Store, false))
		}
	}
	for _, sc := range statusCases {
		if sc.Flow == "legacy-revalidate-status" {
			sw.stale[sc.Store] = append(sw.stale[sc.Store], sw.makeLegacyStale(sc.Store))
		}
	}
	for _, j := range coldJobs {
		kw.stale[j.store] = append(kw.stale[j.store], kw.makeColdStale(j.store))
	}
	for _, c := range legacyCases {
		lw.stale[c.Store] = append(lw.stale[c.Store], lw.makeLegacyStale(c.Store))
	}
	vfParallel(nWorlds, nWorlds, func(i int) {
		cw := worlds[i]
		for _, c := range per[i] {
			switch c.Flow {
			case "refresh", "refresh-thin", "refresh-typed-claims":
				if c.Store == "azp" {
					cw.w.IdP.Set(func(cf *vfIdPCfg) {
						cf.MintOverride = func(g string, cl map[string]interface{}) (string, bool) {
							cl["azp"] = "cid"
							return vfMint(cl, vfMintOpts{}), true
						}
					})
				}
				cw.stale[c.Store] = append(cw.stale[c.Store], cw.makeStale(t, c.Store, false))
				cw.setMint(nil)
			}
		}
	})
	clock.Reset()
	// the short-lived sessions are created just before phase 2 so that the wait for their expiry overlaps with the other cases
	clock.Set(time.Now().Add(-10 * time.Minute))
	vfParallel(nWorlds, nWorlds, func(i int) {
		cw := worlds[i]
		for _, c := range per[i] {
			if c.Flow == "refresh-old-token-expired" {
				cw.stale[c.Store+"/short"] = append(cw.stale[c.Store+"/short"], cw.makeStale(t, c.Store, true))
			}
		}
		cw.w.IdP.Set(func(cf *vfIdPCfg) { cf.MutateIDClaims = nil })
	})
	clock.Reset()

	// phase 2 (the legacy world runs next to the others)
	var lwg sync.WaitGroup
	lwg.Add(7)
	phase := map[string]float64{}
	var phaseMu sync.Mutex
	took := func(name string, t0 time.Time) {
		phaseMu.Lock()
		phase[name] = time.Since(t0).Seconds()
		phaseMu.Unlock()
	}
	tPhase2 := time.Now()
	phase["setup_and_stale_sessions"] = time.Since(run.start).Seconds()
	go func() {
		// connection leak monitor: own world and servers, its connection counts are not touched by the other worlds
		defer lwg.Done()
		defer took("leak_monitor", time.Now())
		leakRun()
	}()
	go func() {
		defer lwg.Done()
		defer took("status_sweep_world", time.Now())
		for _, sc := range statusCases {
			r.statusCase(sw, vs, sc)
			sw.w.Up.Reset()
		}
	}()
	go func() {
		defer lwg.Done()
		defer took("key_fetch_world", time.Now())
		for _, j := range coldJobs {
			r.coldCase(kw, j.ck, j.store)
			kw.w.Up.Reset()
		}
	}()
	go func() {
		defer lwg.Done()
		defer took("front_world_oidc", time.Now())
		for _, c := range frontCases {
			if c.Flow == "refresh" {
				r.refreshCase(fw, c)
			} else {
				r.loginCase(fw, c)
			}
			fw.w.Up.Reset()
		}
	}()
	for _, store := range []string{"cookie", "redis"} {
		store := store
		go func() {
			defer lwg.Done()
			defer took("front_world_legacy_"+store, time.Now())
			lfw := lfws[store]
			for _, c := range lfCases {
				if c.Store != store {
					continue
				}
				if c.Flow == "legacy-revalidate" {
					r.legacyCase(lfw, c)
				} else {
					r.legacyLoginCase(lfw, c)
				}
				lfw.w.Up.Reset()
			}
		}()
	}
	go func() {
		defer lwg.Done()
		defer took("legacy_world", time.Now())
		for _, c := range legacyCases {
			r.legacyCase(lw, c)
			lw.w.Up.Reset()
		}
	}()
	vfParallel(nWorlds, nWorlds, func(i int) {
		cw := worlds[i]
		for _, c := range per[i] {
			tc := time.Now()
			switch c.Flow {
			case "login-newkid", "login-profile", "login-thin", "login-typed-claims":
				r.loginCase(cw, c)
			case "bearer-newkid", "bearer-typed-claims", "bearer-extra-issuer-typed-claims":
				r.bearerCase(cw, c)
			case "refresh", "refresh-thin", "refresh-typed-claims", "refresh-old-token-expired":
				r.refreshCase(cw, c)
			}
			if d := time.Since(tc); d > 700*time.Millisecond {
				phaseMu.Lock()
				phase[fmt.Sprintf("slow case w%d %s|%s|%s|%s", i, c.Flow, c.Pos, c.Kind, c.Store)] = d.Seconds()
				phaseMu.Unlock()
			}
			cw.w.Up.Reset()
		}
		took(fmt.Sprintf("world_%d", i), tPhase2)
	})
	took("worlds_phase2", tPhase2)
	lwg.Wait()
	tPhase3 := time.Now()
	// phase 3: start-up discovery faults, one at a time (building an instance excludes all request serving)
	for i := range worlds {
		for _, c := range per[i] {
			if c.Flow == "startup" {
				r.startupCase(worlds[i], c)
			}
		}
	}
	took("startup_phase3", tPhase3)
	phaseMu.Lock()
	run.Extra("phase_seconds", phase)
	phaseMu.Unlock()
	if run.Counter("clean_logins") < 50 {
		run.Inconclusive("too few clean logins")
	}
	run.Extra("cases", len(cases)+len(legacyCases)+len(statusCases)+len(coldJobs)+len(frontCases)+len(lfCases))
	tOT := time.Now()
	c14OIDCTypes(run, t) // keycloak-oidc / adfs / gitlab: the provider type's own further call (c14_oidctypes.go); sets the global clock mock
	run.Extra("oidc_types_seconds", time.Since(tOT).Seconds())
	pw := vfNewWorld(t)
	defer pw.Close()
	c14ProviderTypes(run, pw) // provider-type sweep (c14_providers.go); last, because it sets the global clock mock
	run.RaceCheck("")
	run.Finish(int64(len(cases))/2, run.Env.Pick(120, 300))
}
