//go:build verif

package main

// C05 — Nonce and PKCE bind the token response to this login's authorization request.
//
// Oracle, per callback attempt (cookie+state of login Y, authorization code minted for login K's authorization
// request, scripted provider behaviour for the ID token's nonce claim):
//   nonceOK = nonce checking disabled  ||  (the nonce claim the provider actually issued is a string equal to the `nonce`
//             parameter the proxy sent in Y's authorization request)
//   pkceOK  = no code-challenge method configured  ||  K == Y   (the provider verifies the verifier like a real one;
//             verifiers are unique per login, so another login's verifier cannot satisfy K's challenge)
//   session cookie set  <=>  nonceOK && pkceOK
// History monitors (provider log + the harness' own decryption of its CSRF cookies):
//   - method configured => every authorization request carries code_challenge and code_challenge_method=<the CONFIGURED
//     method>, whatever code_challenge_methods_supported the provider's discovery document advertised at start-up
//   - the verifier (cookie, and as presented at the token endpoint) matches ^[A-Za-z0-9._~-]{43,128}$, the challenge is
//     derived from it (S256 / plain), the verifier presented at redemption is the one stored for the presented login,
//     and the provider accepted it exactly when the code belongs to that login
//   - no verifier, challenge, OIDC nonce or state nonce (sent form and raw form) repeats over the whole run
//   - entropy faults (sequential phase, crypto/rand.Reader failing selected reads): a login start is refused or carries
//     fresh, non-degenerate values
//   - leak monitor: the raw OIDC nonce, the raw state nonce and (S256) the verifier never occur — raw, hex, base64
//     std/url, padded or not — in any header or body sent to the browser, also not inside base64-decodable header fields.

import (
	"bytes"
	"crypto/aes"
	"crypto/cipher"
	crand "crypto/rand"
	"crypto/sha256"
	"encoding/base64"
	"encoding/hex"
	"encoding/json"
	"errors"
	"fmt"
	"html"
	"io"
	mrand "math/rand"
	"net/http"
	"net/url"
	"os"
	"reflect"
	"regexp"
	"strconv"
	"strings"
	"sync"
	"sync/atomic"
	"testing"
	"time"

	"github.com/vmihailenco/msgpack/v5"
)

// ---------------------------------------------------------------------------------------------------------
// the harness' own reading of its CSRF cookie (value|timestamp|signature; value = base64url(IV || AES-CFB(msgpack{s,n,cv})))

type c05CSRF struct {
	S  []byte `msgpack:"s,omitempty"`  // raw state nonce
	N  []byte `msgpack:"n,omitempty"`  // raw OIDC nonce
	CV string `msgpack:"cv,omitempty"` // PKCE verifier
}

func c05SecretBytes(secret string) []byte {
	if b, err := base64.RawURLEncoding.DecodeString(strings.TrimRight(secret, "=")); err == nil {
		if len(b) == 16 || len(b) == 24 || len(b) == 32 {
			return b
		}
	}
	return []byte(secret)
}

func c05OpenCSRF(secret, value string) (*c05CSRF, error) {
	parts := strings.Split(value, "|")
	if len(parts) != 3 {
		return nil, errors.New("not a 3-part value")
	}
	enc, err := base64.URLEncoding.DecodeString(parts[0])
	if err != nil || len(enc) < aes.BlockSize {
		return nil, fmt.Errorf("first field: %v", err)
	}
	blk, err := aes.NewCipher(c05SecretBytes(secret))
	if err != nil {
		return nil, err
	}
	plain := make([]byte, len(enc)-aes.BlockSize)
	cipher.NewCFBDecrypter(blk, enc[:aes.BlockSize]).XORKeyStream(plain, enc[aes.BlockSize:])
	out := &c05CSRF{}
	if err := msgpack.Unmarshal(plain, out); err != nil {
		return nil, err
	}
	if len(out.S) == 0 || len(out.N) == 0 {
		return nil, errors.New("decrypted cookie holds no nonces")
	}
	return out, nil
}

func c05Hash(raw []byte) string {
	s := sha256.Sum256(raw)
	return base64.RawURLEncoding.EncodeToString(s[:])
}

func c05Challenge(method, verifier string) string {
	switch method {
	case "S256":
		return c05Hash([]byte(verifier))
	case "plain":
		return verifier
	}
	return ""
}

var c05VerifierRe = regexp.MustCompile(`^[A-Za-z0-9._~-]{43,128}$`)

// ---------------------------------------------------------------------------------------------------------
// configurations, logins

type c05Cfg struct {
	Method    string // "" | S256 | plain
	SkipNonce bool
	PerReq    bool
	// Advertised: what the provider's discovery document listed as code_challenge_methods_supported when the instance
	// was built ("" = the default S256+plain). The CONFIGURED method is what the property speaks about: whatever the
	// provider advertises, the authorization request must carry that method.
	Advertised string
	// Provider: "" = the generic oidc provider; otherwise an OIDC-derived provider type (entra-id, keycloak-oidc, adfs)
	// built against the same fake identity provider: the nonce rule is the same for all of them.
	Provider string
	// Variant: how the method reached the instance when not through a lone, exactly spelled --code-challenge-method:
	// together with the deprecated --force-code-challenge-method, through a config file, through the alpha configuration,
	// or with a spelling the documentation does not list. Method stays the CONFIGURED method (the documented option).
	Variant string
	// Unknown: Method is not one of the documented values (S256, plain): the harness cannot recompute the challenge
	Unknown bool
}

func (c c05Cfg) Label() string {
	m := c.Method
	if m == "" {
		m = "none"
	}
	l := fmt.Sprintf("method=%s,skipnonce=%v,perreq=%v", m, c.SkipNonce, c.PerReq)
	if c.Advertised != "" {
		l += ",provider-advertises=" + c.Advertised
	}
	if c.Provider != "" {
		l += ",provider=" + c.Provider
	}
	if c.Variant != "" {
		l += ",variant=" + c.Variant
	}
	return l
}

type c05Inst struct {
	Cfg  c05Cfg
	P    *vfProxy
	Lean bool // reduced behaviour x shape grid (the instance exists for the method/leak monitors)
	Tiny bool // (with Lean) only the honest / nonce-less behaviours on the sequential shape
	// IdentExtra: extra ID-token claims every identity of this instance carries (entra-id: a Microsoft-shaped `iss`;
	// keycloak-oidc: a marker that makes the fake provider hand out a JWT access token)
	IdentExtra map[string]interface{}
	// ADFSState: the adfs provider query-escapes the state once more (an AD FS server undoes that before redirecting back)
	ADFSState bool
}

type c05Login struct {
	ID          string
	Inst        *c05Inst
	State       string // as the provider hands it back to the callback
	AuthState   string // as the provider recorded it in the authorization request
	StateNonce  string
	SentNonce   string // the nonce parameter of the authorization request ("" = not sent)
	Challenge   string
	ChMethod    string
	CookieName  string
	CookieValue string
	Raw         *c05CSRF // nil when the harness could not open the cookie
	LoginURL    string
	Ident       vfIdentity
	Start       *vfResp
	needles     []c05Needle
}

var c05Seq int64

func c05Ident(inst *c05Inst) vfIdentity {
	n := atomic.AddInt64(&c05Seq, 1)
	return vfIdentity{Sub: fmt.Sprintf("u-c05-%d", n), Email: fmt.Sprintf("c05-%d@example.com", n), PreferredUsername: fmt.Sprintf("c05-pu-%d", n), Groups: []string{"g"}, Extra: inst.IdentExtra}
}

func c05Start(inst *c05Inst, b *vfBrowser, id string) (*c05Login, error) {
	ident := c05Ident(inst)
	n := atomic.AddInt64(&c05Seq, 1)
	l, err := b.StartLogin(inst.P, ident, fmt.Sprintf("/app/c05/%d?k=%d", n, n))
	if err != nil {
		return nil, err
	}
	return c05FromStart(inst, l, ident, id)
}

// c05FromStart turns the response that started a login (and the provider's record of the authorization request) into a c05Login.
func c05FromStart(inst *c05Inst, l *vfLogin, ident vfIdentity, id string) (*c05Login, error) {
	out := &c05Login{ID: id, Inst: inst, State: l.State, AuthState: l.State, LoginURL: l.LoginURL, Ident: ident, Start: l.StartResp,
		SentNonce: l.AuthReq.Params.Get("nonce"), Challenge: l.AuthReq.Params.Get("code_challenge"), ChMethod: l.AuthReq.Params.Get("code_challenge_method")}
	if inst.ADFSState {
		u, err := url.QueryUnescape(out.State)
		if err != nil {
			return nil, fmt.Errorf("adfs state %q: %v", out.State, err)
		}
		out.State = u
	}
	st := out.State
	if inst.P.Opts.EncodeState {
		b, err := base64.RawURLEncoding.DecodeString(st)
		if err != nil {
			return nil, fmt.Errorf("state %q is not base64url although --encode-state is set", st)
		}
		st = string(b)
	}
	if k := strings.IndexByte(st, ':'); k >= 0 {
		out.StateNonce = st[:k]
	} else {
		return nil, fmt.Errorf("state %q is not nonce:redirect", st)
	}
	for _, sc := range l.StartResp.SetCookies() {
		c, err := http.ParseSetCookie(sc)
		if err != nil || !strings.HasSuffix(c.Name, "_csrf") || c.MaxAge < 0 || c.Value == "" {
			continue
		}
		out.CookieName, out.CookieValue = c.Name, c.Value
	}
	if out.CookieName == "" {
		return nil, fmt.Errorf("login start set no CSRF cookie: %v", l.StartResp.SetCookies())
	}
	if raw, err := c05OpenCSRF(inst.P.Opts.Cookie.Secret, out.CookieValue); err == nil {
		out.Raw = raw
	}
	out.needles = c05Needles(out)
	return out, nil
}

// ---------------------------------------------------------------------------------------------------------
// leak monitor

type c05Needle struct {
	What string
	B    []byte
}

func c05Forms(what string, b []byte) []c05Needle {
	return []c05Needle{
		{what + " (raw bytes)", b},
		{what + " (hex)", []byte(hex.EncodeToString(b))},
		{what + " (HEX)", []byte(strings.ToUpper(hex.EncodeToString(b)))},
		{what + " (base64 std)", []byte(base64.StdEncoding.EncodeToString(b))},
		{what + " (base64 std, unpadded)", []byte(base64.RawStdEncoding.EncodeToString(b))},
		{what + " (base64 url)", []byte(base64.URLEncoding.EncodeToString(b))},
		{what + " (base64 url, unpadded)", []byte(base64.RawURLEncoding.EncodeToString(b))},
		{what + " (Go byte-slice rendering [12 34 …])", []byte(strings.Trim(fmt.Sprint(b), "[]"))},
		{what + " (Go %#v rendering)", []byte(strings.TrimSuffix(strings.TrimPrefix(fmt.Sprintf("%#v", b), "[]byte{"), "}"))},
	}
}

func c05Needles(l *c05Login) []c05Needle {
	if l.Raw == nil {
		return nil
	}
	var ns []c05Needle
	ns = append(ns, c05Forms("raw OIDC nonce", l.Raw.N)...)
	ns = append(ns, c05Forms("raw state nonce", l.Raw.S)...)
	if l.Inst.Cfg.Method == "S256" && l.Raw.CV != "" {
		ns = append(ns, c05Needle{"PKCE verifier", []byte(l.Raw.CV)})
		for _, f := range c05Forms("PKCE verifier", []byte(l.Raw.CV))[1:] {
			ns = append(ns, f)
		}
		if dec, err := base64.RawURLEncoding.DecodeString(l.Raw.CV); err == nil && len(dec) >= 24 {
			ns = append(ns, c05Needle{"PKCE verifier (decoded bytes)", dec}, c05Needle{"PKCE verifier (decoded bytes, hex)", []byte(hex.EncodeToString(dec))})
		}
	}
	return ns
}

var c05TokenSplit = regexp.MustCompile(`[^A-Za-z0-9+/_-]+`) // '=' separates too: padding is dropped and the unpadded decoders are used

// c05Haystacks: everything the browser receives, plus percent-decoded and base64-decoded views of it.
func c05Haystacks(resp *vfResp) [][]byte {
	var hs [][]byte
	add := func(b []byte) {
		if len(b) > 0 {
			hs = append(hs, b)
		}
	}
	addDecodedTokens := func(s string) {
		for _, tok := range c05TokenSplit.Split(s, -1) {
			if len(tok) < 16 {
				continue
			}
			for _, enc := range []*base64.Encoding{base64.RawStdEncoding, base64.RawURLEncoding} {
				if b, err := enc.DecodeString(tok); err == nil {
					add(b)
				}
			}
			if b, err := hex.DecodeString(tok); err == nil {
				add(b)
			}
		}
	}
	for name, vals := range resp.Header {
		for _, v := range vals {
			add([]byte(name + ": " + v))
			addDecodedTokens(v)
			if u, err := url.QueryUnescape(v); err == nil && u != v {
				add([]byte(u))
				addDecodedTokens(u)
			}
			if u, err := url.PathUnescape(v); err == nil && u != v {
				add([]byte(u))
			}
		}
	}
	add(resp.Body)
	if len(resp.Body) > 0 {
		body := string(resp.Body)
		if u := html.UnescapeString(body); u != body {
			add([]byte(u))
		}
		if len(body) < 1<<16 {
			addDecodedTokens(body)
		}
	}
	return hs
}

func c05Scan(resp *vfResp, logins ...*c05Login) (hit string) {
	hs := c05Haystacks(resp)
	for _, l := range logins {
		if l == nil {
			continue
		}
		for _, n := range l.needles {
			for _, h := range hs {
				if bytes.Contains(h, n.B) {
					return fmt.Sprintf("%s of login %s", n.What, l.ID)
				}
			}
		}
	}
	return ""
}

// ---------------------------------------------------------------------------------------------------------
// provider scripting (per authorization code)

type c05Script struct {
	Beh   string // echo | set | absent | replay | capture
	Value interface{}
	Key   string
	// UISet: the provider's userinfo endpoint answers the access token issued for this code with a `nonce` member UINonce
	// (next to the usual profile members), and the ID token lacks preferred_username, so that the proxy has a reason to
	// ask the userinfo endpoint at all. The nonce the property speaks about is the signed ID token's claim: whatever
	// userinfo says must not matter.
	UISet   bool
	UINonce interface{}

	mu      sync.Mutex
	applied bool
	final   interface{} // the nonce claim of the ID token that was issued (nil = no claim)
}

func (s *c05Script) setFinal(v interface{}) { s.mu.Lock(); s.applied, s.final = true, v; s.mu.Unlock() }
func (s *c05Script) Final() (interface{}, bool) {
	s.mu.Lock()
	defer s.mu.Unlock()
	return s.final, s.applied
}

// c05Rig records a failure of the rig itself (never a verdict on the property); the run ends INCONCLUSIVE.
func c05Rig(run *vfRun, format string, a ...interface{}) {
	run.Count("rig_failures", 1)
	if run.Counter("rig_failures") <= 5 {
		fmt.Printf("NOTE rig failure: "+format+"\n", a...)
	}
}

type c05World struct {
	Run      *vfRun
	W        *vfWorld
	scripts  sync.Map // code -> *c05Script
	captured sync.Map // key -> id token
	uiByTok  sync.Map // id token -> *c05Script (userinfo scripted for the access token issued with it)
	uiByAT   sync.Map // access token -> *c05UI

	mu       sync.Mutex
	logins   []*c05Login
	attempts []*c05Attempt
}

func (cw *c05World) install() {
	cw.W.IdP.Set(func(c *vfIdPCfg) {
		c.MutateIDClaims = func(grant string, ar *vfAuthReq, claims map[string]interface{}) {
			if grant != "code" || ar == nil {
				return
			}
			v, ok := cw.scripts.Load(ar.Code)
			if !ok {
				return
			}
			sc := v.(*c05Script)
			switch sc.Beh {
			case "set":
				claims["nonce"] = sc.Value
			case "absent":
				delete(claims, "nonce")
			case "replay":
				claims["vf_c05_replay"] = sc.Key
				claims["vf_c05_code"] = ar.Code
				return
			case "capture":
				claims["vf_c05_capture"] = sc.Key
			}
			sc.setFinal(claims["nonce"])
			if sc.UISet {
				delete(claims, "preferred_username")
				claims["vf_c05_ui"] = ar.Code
			}
		}
		c.TokenResponseMutate = func(grant string, resp map[string]interface{}) {
			c05TokenResponse(grant, resp)
			idt, _ := resp["id_token"].(string)
			at, _ := resp["access_token"].(string)
			if v, ok := cw.uiByTok.Load(idt); ok && idt != "" && at != "" {
				cl := vfJWTClaims(idt)
				sub, _ := cl["sub"].(string)
				email, _ := cl["email"].(string)
				cw.uiByAT.Store(at, &c05UI{Script: v.(*c05Script), Sub: sub, Email: email})
			}
		}
		c.Hook = func(ev *vfIdPEvent) *vfIdPReply {
			if ev.Kind != "userinfo" {
				return nil
			}
			v, ok := cw.uiByAT.Load(strings.TrimPrefix(ev.Auth, "Bearer "))
			if !ok {
				return nil
			}
			ui := v.(*c05UI)
			body, err := json.Marshal(map[string]interface{}{"sub": ui.Sub, "email": ui.Email, "preferred_username": "ui-" + ui.Sub, "groups": []string{"g"}, "nonce": ui.Script.UINonce})
			if err != nil {
				return nil
			}
			cw.Run.Count("userinfo_answers_with_hostile_nonce", 1)
			return &vfIdPReply{Status: 200, Body: body}
		}
		c.MintOverride = func(grant string, claims map[string]interface{}) (string, bool) {
			if code, ok := claims["vf_c05_ui"].(string); ok {
				delete(claims, "vf_c05_ui")
				if v, ok := cw.scripts.Load(code); ok {
					tok := vfMint(claims, vfMintOpts{})
					cw.uiByTok.Store(tok, v)
					return tok, true
				}
			}
			if k, ok := claims["vf_c05_capture"].(string); ok {
				delete(claims, "vf_c05_capture")
				tok := vfMint(claims, vfMintOpts{})
				cw.captured.Store(k, tok)
				return tok, true
			}
			if k, ok := claims["vf_c05_replay"].(string); ok {
				code, _ := claims["vf_c05_code"].(string)
				delete(claims, "vf_c05_replay")
				delete(claims, "vf_c05_code")
				if tok, ok := cw.captured.Load(k); ok {
					if v, ok := cw.scripts.Load(code); ok {
						v.(*c05Script).setFinal(vfJWTClaims(tok.(string))["nonce"])
					}
					return tok.(string), true
				}
			}
			return "", false
		}
	})
}

func (cw *c05World) uninstall() {
	cw.W.IdP.Set(func(c *vfIdPCfg) { c.MutateIDClaims, c.MintOverride, c.TokenResponseMutate, c.Hook = nil, nil, nil, nil })
}

type c05UI struct {
	Script     *c05Script
	Sub, Email string
}

const c05JWTAccessTokenClaim = "vf_c05_jwt_access_token"

// c05TokenResponse: keycloak-oidc reads roles from the access token, which therefore has to be a JWT this issuer signed:
// identities of such instances carry a marker claim, and the access token becomes the (validly signed) ID token itself.
func c05TokenResponse(grant string, resp map[string]interface{}) {
	idt, _ := resp["id_token"].(string)
	if idt == "" {
		return
	}
	if m, _ := vfJWTClaims(idt)[c05JWTAccessTokenClaim].(bool); m {
		resp["access_token"] = idt
	}
}

// checkStart judges the authorization request of a freshly started login as the provider recorded it: with a method
// configured it must carry a challenge and exactly the configured method.
func (cw *c05World) checkStart(l *c05Login) {
	run := cw.Run
	cfg := l.Inst.Cfg
	if cfg.Method == "" {
		return
	}
	ch, m := l.Challenge, l.ChMethod
	switch {
	case ch == "":
		run.Violation("c05:authorization-request-without-challenge", fmt.Sprintf("[%s] authorization request carries code_challenge=%q code_challenge_method=%q", cfg.Label(), ch, m),
			map[string]interface{}{"flags": l.Inst.P.Flags, "login_start_location": l.Start.Location()})
	case m != cfg.Method:
		run.Violation("c05:authorization-request-method-differs-from-configured",
			fmt.Sprintf("[%s] --code-challenge-method=%s is configured but the authorization request carries code_challenge_method=%q (code_challenge=%q)", cfg.Label(), cfg.Method, m, vfTrunc(ch, 60)),
			map[string]interface{}{"flags": l.Inst.P.Flags, "provider_advertised_code_challenge_methods": cfg.Advertised, "login_start_location": l.Start.Location()})
	}
	run.Count("authorization_requests_method_checked", 1)
}

func (cw *c05World) addLogin(l *c05Login) {
	cw.mu.Lock()
	cw.logins = append(cw.logins, l)
	cw.mu.Unlock()
	cw.checkStart(l)
}

// ---------------------------------------------------------------------------------------------------------
// attempts

type c05Attempt struct {
	Unit     string
	Y, K     *c05Login
	Beh      string
	Code     string
	Script   *c05Script
	Cookies  [][2]string
	Req      *vfReq
	Status   int
	Session  bool
	ErrText  string
	NonceOK  bool
	PKCEOK   bool
	Claim    interface{}
	HasClaim bool
}

type c05Witness struct {
	Config          string
	Flags           []string
	Unit            string
	Behaviour       string
	CookieOfLogin   string
	CodeOfLogin     string
	SentNonce       string // nonce parameter of the authorization request of the login whose cookie+state is presented
	IssuedClaim     interface{}
	ClaimScripted   bool
	Request         *vfReq
	Status          int
	SetCookie       []string
	ErrorText       string
	ExpectNonceOK   bool
	ExpectPKCEOK    bool
	Session         bool
	AuthorizationOf map[string]string
}

func (a *c05Attempt) witness() *c05Witness {
	w := &c05Witness{Config: a.Y.Inst.Cfg.Label(), Flags: a.Y.Inst.P.Flags, Unit: a.Unit, Behaviour: a.Beh, CookieOfLogin: a.Y.ID, CodeOfLogin: a.K.ID, SentNonce: a.Y.SentNonce,
		IssuedClaim: a.Claim, ClaimScripted: a.HasClaim, Request: a.Req, Status: a.Status, ErrorText: a.ErrText, ExpectNonceOK: a.NonceOK, ExpectPKCEOK: a.PKCEOK, Session: a.Session,
		AuthorizationOf: map[string]string{a.Y.ID: a.Y.LoginURL, a.K.ID: a.K.LoginURL}}
	return w
}

func c05SessionSet(resp *vfResp, name string) []*http.Cookie {
	var out []*http.Cookie
	for _, line := range resp.SetCookies() {
		c, err := http.ParseSetCookie(line)
		if err != nil || c.MaxAge < 0 || c.Value == "" {
			continue
		}
		if !c.Expires.IsZero() && c.Expires.Before(time.Now()) {
			continue
		}
		if c.Name == name || (strings.HasPrefix(c.Name, name+"_") && !strings.HasSuffix(c.Name, "_csrf")) {
			out = append(out, c)
		}
	}
	return out
}

// callback presents Y's state and the given cookies with a fresh code minted for K's authorization request.
func (cw *c05World) callback(unit string, Y, K *c05Login, beh string, sc *c05Script, cookies [][2]string, shape string, cross bool) *c05Attempt {
	run := cw.Run
	inst := Y.Inst
	code, _, err := cw.W.IdP.Authorize(K.LoginURL, K.Ident)
	if err != nil {
		c05Rig(run, "authorize: %v", err)
		return &c05Attempt{Y: Y, K: K}
	}
	cw.scripts.Store(code, sc)
	req := vfGET(inst.P.Opts.ProxyPrefix + "/callback?code=" + vfQueryEscape(code) + "&state=" + vfQueryEscape(Y.State))
	for _, c := range cookies {
		req.Cookie(c[0], c[1])
	}
	resp := inst.P.Do(req)
	a := &c05Attempt{Unit: unit, Y: Y, K: K, Beh: beh, Code: code, Script: sc, Cookies: cookies, Req: req, Status: resp.Code, ErrText: vfTrunc(vfErrText(resp.Body), 200)}
	sess := c05SessionSet(resp, inst.P.Opts.Cookie.Name)
	a.Session = len(sess) > 0
	if a.Session {
		ui := vfGET(inst.P.Opts.ProxyPrefix + "/userinfo")
		for _, c := range sess {
			ui.Cookie(c.Name, c.Value)
		}
		if r := inst.P.Do(ui); r.Code != 200 {
			run.Count("session_cookie_not_accepted_by_userinfo", 1)
		}
	}
	// the nonce claim the scripted provider issues for this code, known a priori from the script …
	switch sc.Beh {
	case "echo", "capture":
		if K.SentNonce != "" {
			a.Claim, a.HasClaim = K.SentNonce, true
		}
	case "set":
		a.Claim, a.HasClaim = sc.Value, sc.Value != nil
	case "replay":
		if tok, ok := cw.captured.Load(sc.Key); ok {
			a.Claim = vfJWTClaims(tok.(string))["nonce"]
			a.HasClaim = a.Claim != nil
		}
	}
	// … cross-checked against what the provider really put into the token when the redemption got that far
	if final, reached := sc.Final(); reached {
		run.Count("redemptions_answered_with_a_token", 1)
		if !reflect.DeepEqual(final, a.Claim) {
			run.Inconclusive("provider script did not issue the planned nonce claim")
		}
	}
	cfg := inst.Cfg
	a.PKCEOK = cfg.Method == "" || K == Y
	if cfg.SkipNonce {
		a.NonceOK = true
	} else if s, ok := a.Claim.(string); ok && a.HasClaim {
		a.NonceOK = Y.SentNonce != "" && s == Y.SentNonce
	}
	want := a.NonceOK && a.PKCEOK
	// a nonce claim that is not a JSON string makes the ID token malformed (OIDC Core: "nonce: String value"): refusing it is
	// legitimate even with nonce checking disabled, so such tokens are judged in the safety direction only
	_, isString := a.Claim.(string)
	malformed := a.HasClaim && !isString
	cw.mu.Lock()
	cw.attempts = append(cw.attempts, a)
	cw.mu.Unlock()

	cr := "own-code"
	if cross {
		cr = "other-logins-code"
	}
	run.Eval(fmt.Sprintf("%s|beh=%s|shape=%s|%s|want=%v", cfg.Label(), beh, shape, cr, want))
	run.Count("callbacks", 1)
	if a.Session {
		run.Count("callbacks_with_session", 1)
	}
	switch {
	case a.Session && !want:
		why := "the ID token's nonce claim is not the nonce sent in this login's authorization request"
		sig := "c05:session-with-foreign-nonce"
		if a.NonceOK && !a.PKCEOK {
			why, sig = "the code belongs to another login's authorization request (PKCE must fail)", "c05:session-with-foreign-code"
		}
		run.Violation(sig, fmt.Sprintf("[%s] provider behaviour %q, %s, %s: session established (status %d) although %s; issued claim=%v sent=%q", cfg.Label(), beh, shape, cr, resp.Code, why, a.Claim, Y.SentNonce), a.witness())
	case !a.Session && want && !malformed:
		run.Violation("c05:bound-login-rejected", fmt.Sprintf("[%s] provider behaviour %q, %s, %s: no session (status %d %s) although the token carries this login's nonce and the code is this login's", cfg.Label(), beh, shape, cr, resp.Code, a.ErrText), a.witness())
	}
	if hit := c05Scan(resp, Y, K); hit != "" {
		run.Violation("c05:secret-in-response", fmt.Sprintf("[%s] callback response (status %d) contains the %s", cfg.Label(), resp.Code, hit), a.witness())
	}
	run.Count("responses_scanned_for_leaks", 1)
	run.SampleEvery(1499, func() interface{} {
		return map[string]interface{}{"config": cfg.Label(), "behaviour": beh, "shape": shape, "cross": cross, "issued_nonce_claim": a.Claim, "sent_nonce": Y.SentNonce, "status": resp.Code, "session": a.Session, "expected": want}
	})
	return a
}

// ---------------------------------------------------------------------------------------------------------
// behaviours and shapes

type c05Beh struct {
	Name string
	Make func(Y, O *c05Login) *c05Script // nil script value = not applicable
}

func c05SwapCase(s string) string {
	b := []byte(s)
	for i, c := range b {
		switch {
		case c >= 'a' && c <= 'z':
			b[i] = c - 32
		case c >= 'A' && c <= 'Z':
			b[i] = c + 32
		}
	}
	return string(b)
}

// the hashed nonce of a login: what the proxy sent, or (nonce not sent: checking disabled) what it would have sent
func c05Hashed(l *c05Login) string {
	if l.SentNonce != "" {
		return l.SentNonce
	}
	if l.Raw != nil {
		return c05Hash(l.Raw.N)
	}
	return "unknown-nonce-of-" + l.ID
}

func c05Behaviours() []c05Beh {
	set := func(v interface{}) *c05Script { return &c05Script{Beh: "set", Value: v} }
	ui := func(sc *c05Script, v interface{}) *c05Script { sc.UISet, sc.UINonce = true, v; return sc }
	raw := func(Y *c05Login, f func([]byte) string) *c05Script {
		if Y.Raw == nil {
			return nil
		}
		return set(f(Y.Raw.N))
	}
	return []c05Beh{
		{"echo", func(Y, O *c05Login) *c05Script { return &c05Script{Beh: "echo"} }},
		{"this-logins-nonce", func(Y, O *c05Login) *c05Script { return set(c05Hashed(Y)) }},
		{"other-logins-nonce", func(Y, O *c05Login) *c05Script { return set(c05Hashed(O)) }},
		{"empty-string", func(Y, O *c05Login) *c05Script { return set("") }},
		{"absent", func(Y, O *c05Login) *c05Script { return &c05Script{Beh: "absent"} }},
		{"null", func(Y, O *c05Login) *c05Script { return set(nil) }},
		{"raw-base64url", func(Y, O *c05Login) *c05Script { return raw(Y, base64.RawURLEncoding.EncodeToString) }},
		{"raw-base64std", func(Y, O *c05Login) *c05Script { return raw(Y, base64.StdEncoding.EncodeToString) }},
		{"raw-hex", func(Y, O *c05Login) *c05Script { return raw(Y, hex.EncodeToString) }},
		{"raw-bytes-as-text", func(Y, O *c05Login) *c05Script {
			return raw(Y, func(b []byte) string {
				r := make([]rune, len(b))
				for i, c := range b {
					r[i] = rune(c)
				}
				return string(r)
			})
		}},
		{"hash-prefix", func(Y, O *c05Login) *c05Script { return set(c05Hashed(Y)[:21]) }},
		{"hash-extended", func(Y, O *c05Login) *c05Script { return set(c05Hashed(Y) + "A") }},
		{"hash-padded", func(Y, O *c05Login) *c05Script { return set(c05Hashed(Y) + "=") }},
		{"hash-case-swapped", func(Y, O *c05Login) *c05Script { return set(c05SwapCase(c05Hashed(Y))) }},
		{"hash-of-hash", func(Y, O *c05Login) *c05Script { return set(c05Hash([]byte(c05Hashed(Y)))) }},
		{"state-nonce-instead", func(Y, O *c05Login) *c05Script { return set(Y.StateNonce) }},
		{"list-with-this-logins-nonce", func(Y, O *c05Login) *c05Script { return set([]string{c05Hashed(Y)}) }},
		{"number", func(Y, O *c05Login) *c05Script { return set(12345) }},
		{"previous-logins-id-token-replayed", nil}, // handled by the unit runner (needs a completed login)
		// the nonce from anywhere but the signed ID token: the userinfo endpoint (asked with this login's access token)
		// offers a `nonce` member while the ID token has none / a wrong one. Names contain "userinfo" (grid selection).
		{"absent+userinfo-says-this-logins-nonce", func(Y, O *c05Login) *c05Script { return ui(&c05Script{Beh: "absent"}, c05Hashed(Y)) }},
		{"absent+userinfo-says-raw-nonce", func(Y, O *c05Login) *c05Script {
			sc := raw(Y, base64.RawURLEncoding.EncodeToString)
			if sc == nil {
				return nil
			}
			return ui(&c05Script{Beh: "absent"}, sc.Value)
		}},
		{"null+userinfo-says-this-logins-nonce", func(Y, O *c05Login) *c05Script { return ui(set(nil), c05Hashed(Y)) }},
		{"empty-string+userinfo-says-this-logins-nonce", func(Y, O *c05Login) *c05Script { return ui(set(""), c05Hashed(Y)) }},
		{"other-logins-nonce+userinfo-says-this-logins-nonce", func(Y, O *c05Login) *c05Script { return ui(set(c05Hashed(O)), c05Hashed(Y)) }},
		// control in the other direction: the ID token is right, userinfo contradicts it — the login is bound and must succeed
		{"this-logins-nonce+userinfo-says-other-logins-nonce", func(Y, O *c05Login) *c05Script { return ui(set(c05Hashed(Y)), c05Hashed(O)) }},
	}
}

type c05Shape struct {
	Name string
	Ops  []int // +k start login k, -k callback of login k
}

func c05Shapes(thorough bool) []c05Shape {
	s := []c05Shape{
		{"sequential", []int{1, -1, 2, -2}},
		{"overlap-fifo", []int{1, 2, -1, -2}},
		{"overlap-lifo", []int{1, 2, -2, -1}},
		{"nested-3", []int{1, 2, 3, -2, -3, -1}},
	}
	if thorough {
		s = append(s, c05Shape{"interleaved-3", []int{1, 2, -1, 3, -3, -2}}, c05Shape{"fifo-3", []int{1, 2, 3, -1, -2, -3}}, c05Shape{"lifo-3", []int{1, 2, 3, -3, -2, -1}},
			c05Shape{"single", []int{1, -1}}, c05Shape{"retry-after-failure", []int{1, -1, -1, 2, -2, -1}})
	}
	return s
}

func (cw *c05World) unit(inst *c05Inst, beh c05Beh, shape c05Shape, cross bool, rng *mrand.Rand, un int) {
	run := cw.Run
	unit := fmt.Sprintf("%s/u%d beh=%s shape=%s cross=%v", inst.Cfg.Label(), un, beh.Name, shape.Name, cross)
	b := vfNewBrowser("")
	other := vfNewBrowser("")
	start := func(br *vfBrowser, id string) *c05Login {
		l, err := c05Start(inst, br, id)
		if err != nil {
			c05Rig(run, "%s: %v", unit, err)
			return nil
		}
		cw.addLogin(l)
		run.Count("logins_started", 1)
		if hit := c05Scan(l.Start, l); hit != "" {
			run.Violation("c05:secret-in-response", fmt.Sprintf("[%s] the response that starts the login (302 to the provider) contains the %s", inst.Cfg.Label(), hit),
				map[string]interface{}{"flags": inst.P.Flags, "location": l.Start.Location(), "set_cookie": l.Start.SetCookies()})
		}
		run.Count("responses_scanned_for_leaks", 1)
		return l
	}
	donor := start(other, fmt.Sprintf("u%d-donor", un))
	if donor == nil {
		return
	}
	replayKey := ""
	if beh.Make == nil { // replay: a previous login of the same browser completes honestly, its ID token is kept
		prev := start(b, fmt.Sprintf("u%d-prev", un))
		if prev == nil {
			return
		}
		replayKey = fmt.Sprintf("u%d-%d", un, atomic.AddInt64(&c05Seq, 1))
		a := cw.callback(unit+" (preamble)", prev, prev, "capture", &c05Script{Beh: "capture", Key: replayKey}, [][2]string{{prev.CookieName, prev.CookieValue}}, shape.Name, false)
		if _, ok := cw.captured.Load(replayKey); !ok || !a.Session {
			run.Inconclusive("no previous ID token could be captured for the replay behaviour")
			return
		}
	}
	logins := map[int]*c05Login{}
	var order []int
	attempted := map[int]bool{}
	for _, op := range shape.Ops {
		if op > 0 {
			if logins[op] = start(b, fmt.Sprintf("u%d-%d", un, op)); logins[op] == nil {
				return
			}
			order = append(order, op)
			continue
		}
		Y := logins[-op]
		// another started login of this browser (else the donor of the other browser)
		O := donor
		for _, k := range order {
			if k != -op {
				O = logins[k]
			}
		}
		K := Y
		if cross {
			K = O
		}
		var sc *c05Script
		if beh.Make == nil {
			sc = &c05Script{Beh: "replay", Key: replayKey}
		} else if sc = beh.Make(Y, O); sc == nil {
			run.Inconclusive("harness could not open its own CSRF cookie (raw nonce unknown)")
			continue
		}
		// cookies as the browser would send them: with per-request names every outstanding login's cookie, else only one
		cks := [][2]string{{Y.CookieName, Y.CookieValue}}
		if inst.Cfg.PerReq {
			cks = nil
			for _, k := range order {
				if !attempted[k] || k == -op {
					cks = append(cks, [2]string{logins[k].CookieName, logins[k].CookieValue})
				}
			}
			if rng.Intn(2) == 0 {
				for i, j := 0, len(cks)-1; i < j; i, j = i+1, j-1 {
					cks[i], cks[j] = cks[j], cks[i]
				}
			}
		}
		cw.callback(unit, Y, K, beh.Name, sc, cks, shape.Name, cross)
		attempted[-op] = true
	}
	if beh.Name == "echo" || beh.Name == "absent" { // two units per (instance, shape, cross) also run the failing callbacks
		Y := logins[order[0]]
		var O *c05Login
		if len(order) > 1 {
			O = logins[order[1]]
		}
		cw.failingCallbacks(unit, Y, O)
	}
}


// ---------------------------------------------------------------------------------------------------------
// failing callbacks (leak scan over error pages) and repeated callbacks (a spent login stays spent)

// c05ForgeState: Y's state with the last character of the nonce changed — the CSRF cookie is found (also with per-request
// names, which use the first 8 characters) and the state comparison fails: the "second tab / forged link" error page.
func c05ForgeState(Y *c05Login) string {
	st := Y.State
	enc := Y.Inst.P.Opts.EncodeState
	if enc {
		b, err := base64.RawURLEncoding.DecodeString(st)
		if err != nil {
			return st + "x"
		}
		st = string(b)
	}
	k := strings.IndexByte(st, ':')
	if k < 2 {
		return st + "x"
	}
	c := byte('A')
	if st[k-1] == 'A' {
		c = 'B'
	}
	st = st[:k-1] + string(c) + st[k:]
	if enc {
		return base64.RawURLEncoding.EncodeToString([]byte(st))
	}
	return st
}

// failingCallbacks sends, for login Y (and the other login O of the same browser), the callbacks that end in an error page
// and scans those pages for the login's secrets (with --show-debug-on-error the page carries the internal error text).
func (cw *c05World) failingCallbacks(unit string, Y, O *c05Login) {
	run := cw.Run
	inst := Y.Inst
	if inst.ADFSState {
		return
	}
	type fc struct {
		name, state string
		cookies     [][2]string
	}
	own := [][2]string{{Y.CookieName, Y.CookieValue}}
	cases := []fc{{"forged-state-own-cookie", c05ForgeState(Y), own}, {"no-cookie", Y.State, nil}, {"garbage-state-own-cookie", "zzzz", own}}
	if O != nil && O != Y && O.CookieName == Y.CookieName { // single shared cookie name: the other tab's state with this tab's cookie
		cases = append(cases, fc{"other-logins-state-own-cookie", O.State, own})
	}
	for _, c := range cases {
		code, _, err := cw.W.IdP.Authorize(Y.LoginURL, Y.Ident)
		if err != nil {
			c05Rig(run, "authorize: %v", err)
			return
		}
		sc := &c05Script{Beh: "echo"}
		cw.scripts.Store(code, sc)
		req := vfGET(inst.P.Opts.ProxyPrefix + "/callback?code=" + vfQueryEscape(code) + "&state=" + vfQueryEscape(c.state))
		for _, ck := range c.cookies {
			req.Cookie(ck[0], ck[1])
		}
		resp := inst.P.Do(req)
		a := &c05Attempt{Unit: unit + " (failing callback: " + c.name + ")", Y: Y, K: Y, Beh: "echo", Code: code, Script: sc, Cookies: c.cookies, Req: req, Status: resp.Code, ErrText: vfTrunc(vfErrText(resp.Body), 200), NonceOK: true, PKCEOK: true}
		a.Session = len(c05SessionSet(resp, inst.P.Opts.Cookie.Name)) > 0
		cw.mu.Lock()
		cw.attempts = append(cw.attempts, a)
		cw.mu.Unlock()
		run.Eval(fmt.Sprintf("%s|failing-callback=%s|debug-page=%v|status=%d", inst.Cfg.Label(), c.name, inst.P.Opts.Templates.Debug, resp.Code))
		run.Count("failing_callbacks", 1)
		if inst.P.Opts.Templates.Debug {
			run.Count("failing_callbacks_on_debug_error_pages", 1)
		}
		if a.Session {
			run.Violation("c05:session-with-foreign-state", fmt.Sprintf("[%s] callback %q (state %q) established a session", inst.Cfg.Label(), c.name, c.state), a.witness())
		}
		if hit := c05Scan(resp, Y, O); hit != "" {
			w := a.witness()
			w.ErrorText = vfTrunc(vfErrText(resp.Body), 1500)
			run.Violation("c05:secret-in-response", fmt.Sprintf("[%s] the error page of the failing callback %q (status %d) contains the %s", inst.Cfg.Label(), c.name, resp.Code, hit), w)
		}
		run.Count("responses_scanned_for_leaks", 1)
	}
}

// repeatUnit: one honest login through a real cookie jar; afterwards the login's CSRF cookie must be gone from the jar and
// a repeated callback (same state, same jar) must not yield a session, whether the provider answers with a fresh token
// for the same authorization request or replays the first ID token.
func (cw *c05World) repeatUnit(inst *c05Inst, un int) {
	run := cw.Run
	if inst.ADFSState {
		return
	}
	b := vfNewBrowser("")
	unit := fmt.Sprintf("%s/r%d repeated callback", inst.Cfg.Label(), un)
	Y, err := c05Start(inst, b, fmt.Sprintf("r%d-1", un))
	if err != nil {
		c05Rig(run, "%s: %v", unit, err)
		return
	}
	cw.addLogin(Y)
	run.Count("logins_started", 1)
	// a second login pending in the same browser (its cookie must not be touched, and it keeps the jar realistic)
	var O *c05Login
	if inst.Cfg.PerReq {
		if O, err = c05Start(inst, b, fmt.Sprintf("r%d-2", un)); err != nil {
			c05Rig(run, "%s: %v", unit, err)
			return
		}
		cw.addLogin(O)
		run.Count("logins_started", 1)
	}
	key := fmt.Sprintf("r%d-%d", un, atomic.AddInt64(&c05Seq, 1))
	do := func(step string, sc *c05Script) (*c05Attempt, *vfResp) {
		code, _, err := cw.W.IdP.Authorize(Y.LoginURL, Y.Ident)
		if err != nil {
			c05Rig(run, "authorize: %v", err)
			return nil, nil
		}
		cw.scripts.Store(code, sc)
		target := inst.P.Opts.ProxyPrefix + "/callback?code=" + vfQueryEscape(code) + "&state=" + vfQueryEscape(Y.State)
		var cks [][2]string
		for _, c := range b.Jar.For(b.Host, target, false) {
			cks = append(cks, [2]string{c.Name, c.Value})
		}
		req := vfGET(target)
		resp := b.Send(inst.P, req)
		a := &c05Attempt{Unit: unit + " (" + step + ")", Y: Y, K: Y, Beh: sc.Beh, Code: code, Script: sc, Cookies: cks, Req: req, Status: resp.Code, ErrText: vfTrunc(vfErrText(resp.Body), 200), NonceOK: true, PKCEOK: true}
		a.Session = len(c05SessionSet(resp, inst.P.Opts.Cookie.Name)) > 0
		cw.mu.Lock()
		cw.attempts = append(cw.attempts, a)
		cw.mu.Unlock()
		if hit := c05Scan(resp, Y, O); hit != "" {
			run.Violation("c05:secret-in-response", fmt.Sprintf("[%s] callback response (status %d) contains the %s", inst.Cfg.Label(), resp.Code, hit), a.witness())
		}
		run.Count("responses_scanned_for_leaks", 1)
		return a, resp
	}
	first, _ := do("first callback", &c05Script{Beh: "capture", Key: key})
	if first == nil {
		return
	}
	run.Eval(fmt.Sprintf("%s|repeat|first|session=%v", inst.Cfg.Label(), first.Session))
	if !first.Session {
		run.Violation("c05:bound-login-rejected", fmt.Sprintf("[%s] honest login through the browser jar: no session (status %d %s)", inst.Cfg.Label(), first.Status, first.ErrText), first.witness())
		return
	}
	run.Count("jar_logins_completed", 1)
	for _, c := range b.Jar.All() {
		if c.Name == Y.CookieName && c.Value == Y.CookieValue {
			w := first.witness()
			w.SetCookie = []string{}
			run.Violation("c05:csrf-cookie-survives-successful-callback",
				fmt.Sprintf("[%s] after the successful callback the browser (RFC 6265 jar) still holds the login's CSRF cookie %s — nonce and verifier of the spent login remain usable", inst.Cfg.Label(), Y.CookieName), w)
		}
		if O != nil && c.Name == O.CookieName {
			run.Count("other_pending_cookie_kept", 1)
		}
	}
	for _, rep := range []struct {
		step string
		sc   *c05Script
	}{{"repeated callback, provider replays the first ID token", &c05Script{Beh: "replay", Key: key}}, {"repeated callback, fresh code for the same authorization request", &c05Script{Beh: "echo"}}} {
		a, _ := do(rep.step, rep.sc)
		if a == nil {
			return
		}
		run.Eval(fmt.Sprintf("%s|repeat|%s|session=%v", inst.Cfg.Label(), rep.sc.Beh, a.Session))
		run.Count("repeated_callbacks", 1)
		if a.Session {
			run.Violation("c05:repeated-callback-yields-session", fmt.Sprintf("[%s] %s: the same browser completed the same login a second time (status %d)", inst.Cfg.Label(), rep.step, a.Status), a.witness())
		}
	}
}

// ---------------------------------------------------------------------------------------------------------
// entropy faults: a login must not start with a predictable verifier or nonce when the random source fails

type c05FaultyRand struct {
	real  io.Reader
	size  int  // fail every read of exactly this many bytes (0 = off)
	kth   int  // fail the k-th read (1-based; 0 = off)
	short bool // deliver half of the bytes before failing
	n     int
	fired int
	sizes []int
}

func (f *c05FaultyRand) Read(p []byte) (int, error) {
	f.n++
	f.sizes = append(f.sizes, len(p))
	if (f.size != 0 && len(p) == f.size) || (f.kth != 0 && f.n == f.kth) {
		f.fired++
		if f.short && len(p) > 1 {
			k, _ := io.ReadFull(f.real, p[:len(p)/2])
			return k, errors.New("c05: injected entropy failure (short read)")
		}
		return 0, errors.New("c05: injected entropy failure")
	}
	return f.real.Read(p)
}

// c05Degenerate: 16 or more consecutive zero bytes cannot come out of a working random source (p < 2^-120).
func c05Degenerate(b []byte) bool {
	run := 0
	for _, c := range b {
		if c == 0 {
			if run++; run >= 16 {
				return true
			}
		} else {
			run = 0
		}
	}
	return false
}

// entropyFaults runs strictly sequentially with no request in flight: crypto/rand.Reader (a package variable) is replaced
// around single /start requests by a reader that fails selected reads. Each such start must be refused (error status, no
// CSRF cookie, no redirect to the provider) or carry fresh, non-degenerate random values (also fed to the uniqueness rules).
func (cw *c05World) entropyFaults(insts []*c05Inst) {
	run := cw.Run
	_ = cw.W.IdP.EventCount("authorize") // orders the provider's earlier use of the random source before the swap
	real := crand.Reader
	defer func() { crand.Reader = real }()
	type plan struct {
		size, kth int
		short     bool
	}
	var plans []plan
	for _, short := range []bool{false, true} {
		for _, size := range []int{96, 32, 16} {
			plans = append(plans, plan{size: size, short: short})
		}
		for k := 1; k <= 6; k++ {
			plans = append(plans, plan{kth: k, short: short})
		}
	}
	seq := 0
	for _, inst := range insts {
		c := inst.Cfg
		if c.Advertised != "" || c.Provider != "" || c.SkipNonce || c.Variant != "" {
			continue
		}
		for _, pl := range plans {
			for rep := 0; rep < 2; rep++ {
				seq++
				f := &c05FaultyRand{real: real, size: pl.size, kth: pl.kth, short: pl.short}
				req := vfGET(inst.P.Opts.ProxyPrefix + "/start?rd=" + vfQueryEscape(fmt.Sprintf("/app/c05/entropy/%d", seq)))
				crand.Reader = f
				resp := inst.P.Do(req)
				crand.Reader = real
				what := fmt.Sprintf("fail every %d-byte read", pl.size)
				if pl.kth != 0 {
					what = fmt.Sprintf("fail read #%d", pl.kth)
				}
				if pl.short {
					what += " after half of the bytes"
				}
				run.Count("entropy_fault_starts", 1)
				run.Count("entropy_faults_fired", int64(f.fired))
				det := map[string]interface{}{"flags": inst.P.Flags, "request": req, "fault": what, "reads_of_the_random_source_during_the_request": f.sizes, "faults_fired": f.fired,
					"status": resp.Code, "location": resp.Location(), "set_cookie": resp.SetCookies()}
				fired := "fault-fired"
				if f.fired == 0 {
					fired = "fault-not-reached"
				}
				var csrfSet []string
				for _, sc := range resp.SetCookies() {
					if ck, err := http.ParseSetCookie(sc); err == nil && strings.HasSuffix(ck.Name, "_csrf") && ck.MaxAge >= 0 && ck.Value != "" {
						csrfSet = append(csrfSet, ck.Name)
					}
				}
				if resp.Code != 302 {
					run.Eval(fmt.Sprintf("%s|entropy|%s|%s|refused", c.Label(), what, fired))
					run.Count("entropy_fault_starts_refused", 1)
					if resp.Code < 400 || len(csrfSet) > 0 || resp.Location() != "" {
						run.Violation("c05:refused-login-start-not-clean", fmt.Sprintf("[%s] %s: the start answered %d with CSRF cookie(s) %v and Location %q", c.Label(), what, resp.Code, csrfSet, resp.Location()), det)
					}
					if f.fired == 0 {
						run.Violation("c05:bound-login-rejected", fmt.Sprintf("[%s] login start refused (%d) although no entropy fault was injected during it", c.Label(), resp.Code), det)
					}
					continue
				}
				run.Eval(fmt.Sprintf("%s|entropy|%s|%s|started", c.Label(), what, fired))
				run.Count("entropy_fault_starts_proceeded", 1)
				ident := c05Ident(inst)
				vl, err := vfNewBrowser("").continueLogin(inst.P, ident, resp)
				if err != nil {
					c05Rig(run, "entropy phase [%s]: %v", c.Label(), err)
					continue
				}
				l, err := c05FromStart(inst, vl, ident, fmt.Sprintf("entropy-%d", seq))
				if err != nil || l.Raw == nil {
					run.Violation("c05:login-started-with-unusable-csrf-cookie", fmt.Sprintf("[%s] %s: the login was started (302) but its CSRF cookie is missing or cannot be opened with the cookie secret (%v)", c.Label(), what, err), det)
					continue
				}
				det["stored_verifier"] = l.Raw.CV
				if c.Method != "" {
					dec, derr := base64.RawURLEncoding.DecodeString(l.Raw.CV)
					if derr == nil && c05Degenerate(dec) || l.Raw.CV == "" || strings.Count(l.Raw.CV, l.Raw.CV[:1]) == len(l.Raw.CV) {
						run.Violation("c05:login-started-with-degenerate-verifier", fmt.Sprintf("[%s] %s: the login was started with the verifier %q (not random: the failed read left zero bytes)", c.Label(), what, vfTrunc(l.Raw.CV, 140)), det)
					}
				}
				if c05Degenerate(l.Raw.N) || c05Degenerate(l.Raw.S) || len(l.Raw.N) < 16 || len(l.Raw.S) < 16 {
					run.Violation("c05:login-started-with-degenerate-nonce", fmt.Sprintf("[%s] %s: the login was started with OIDC nonce %x / state nonce %x (not random: the failed read left zero bytes)", c.Label(), what, l.Raw.N, l.Raw.S), det)
				}
				cw.addLogin(l) // method rule now, uniqueness / derivation rules in the history pass
				run.Count("logins_started", 1)
			}
		}
	}
	run.Extra("entropy_fault_plans", len(plans))
}

// ---------------------------------------------------------------------------------------------------------
// history monitors

func (cw *c05World) history() {
	run := cw.Run
	cw.mu.Lock()
	logins := append([]*c05Login{}, cw.logins...)
	attempts := append([]*c05Attempt{}, cw.attempts...)
	cw.mu.Unlock()

	// 1. authorization requests, as the provider recorded them
	byURL := map[string]*c05Login{}
	for _, l := range logins {
		byURL[l.AuthState] = l
	}
	nAuth := 0
	seenReq := map[string]bool{}
	for _, ar := range cw.W.IdP.AuthReqs() {
		l := byURL[ar.Params.Get("state")]
		if l == nil {
			run.Count("authorization_requests_not_attributed", 1)
			continue
		}
		if seenReq[l.ID+"|"+l.State] {
			continue // further codes minted for the same authorization request
		}
		seenReq[l.ID+"|"+l.State] = true
		nAuth++
		cfg := l.Inst.Cfg
		run.Eval("")
		if cfg.Method != "" {
			ch, m := ar.Params.Get("code_challenge"), ar.Params.Get("code_challenge_method")
			_, _ = ch, m // judged when the login was started (checkStart), from the same provider record
			run.Count("authorization_requests_with_challenge", 1)
			if cfg.Advertised != "" {
				run.Count("authorization_requests_of_instances_with_nondefault_discovery", 1)
			}
		} else {
			run.Count("authorization_requests_without_method", 1)
		}
		if !cfg.SkipNonce {
			if ar.Params.Get("nonce") == "" {
				run.Count("authorization_requests_lacking_nonce_although_checked", 1)
			}
		}
	}
	run.Count("authorization_requests_checked", int64(nAuth))
	if nAuth != len(logins) {
		run.Inconclusive(fmt.Sprintf("provider log shows %d authorization requests for %d logins", nAuth, len(logins)))
	}

	// 2. per login: verifier shape, challenge derivation, uniqueness of everything random
	type seenT map[string]string
	seen := map[string]seenT{"verifier": {}, "challenge": {}, "sent nonce": {}, "state nonce": {}, "raw OIDC nonce": {}, "raw state nonce": {}}
	uniq := func(kind, val string, l *c05Login) {
		if val == "" {
			return
		}
		if prev, ok := seen[kind][val]; ok {
			run.Violation("c05:"+strings.ReplaceAll(kind, " ", "-")+"-repeated", fmt.Sprintf("the %s of login %s [%s] was already used by login %s", kind, l.ID, l.Inst.Cfg.Label(), prev),
				map[string]interface{}{"flags": l.Inst.P.Flags, "value": vfTrunc(val, 64), "logins": []string{prev, l.ID}, "login_url": l.LoginURL})
			return
		}
		seen[kind][val] = l.ID
		run.Count("distinct_"+strings.ReplaceAll(kind, " ", "_")+"_values", 1)
	}
	words := map[string]string{}
	for _, l := range logins {
		cfg := l.Inst.Cfg
		uniq("sent nonce", l.SentNonce, l)
		uniq("state nonce", l.StateNonce, l)
		uniq("challenge", l.Challenge, l)
		if l.Raw == nil {
			run.Inconclusive("harness could not open its own CSRF cookie")
			continue
		}
		run.Count("csrf_cookies_opened", 1)
		uniq("raw OIDC nonce", string(l.Raw.N), l)
		uniq("raw state nonce", string(l.Raw.S), l)
		// finer grain: no aligned 8-byte word of any nonce may ever re-occur (birthday bound for 10^6 words: < 10^-7); a
		// generator that hands the same output block to two concurrent logins shows up here even when the 32-byte values
		// only overlap in part
		for _, part := range [][]byte{l.Raw.N, l.Raw.S} {
			for k := 0; k+8 <= len(part); k += 8 {
				w := string(part[k : k+8])
				if prev, ok := words[w]; ok && prev != l.ID {
					run.Violation("c05:nonce-material-repeated", fmt.Sprintf("8 random bytes (%x) of a nonce of login %s [%s] already occurred in a nonce of login %s: the values are not drawn independently", w, l.ID, cfg.Label(), prev),
						map[string]interface{}{"flags": l.Inst.P.Flags, "bytes": fmt.Sprintf("%x", w), "logins": []string{prev, l.ID}, "oidc_nonce": fmt.Sprintf("%x", l.Raw.N), "state_nonce": fmt.Sprintf("%x", l.Raw.S), "login_url": l.LoginURL})
				} else {
					words[w] = l.ID
				}
			}
		}
		run.Count("nonce_words_checked", int64(len(l.Raw.N)/8+len(l.Raw.S)/8))
		uniq("verifier", l.Raw.CV, l)
		if l.SentNonce != "" && l.SentNonce == c05Hash(l.Raw.N) {
			run.Count("sent_nonce_is_b64url_sha256_of_cookie_nonce", 1)
		}
		if cfg.Method != "" {
			if !c05VerifierRe.MatchString(l.Raw.CV) {
				run.Violation("c05:verifier-not-rfc7636", fmt.Sprintf("[%s] the verifier stored for login %s has %d characters / characters outside the unreserved set: %q", cfg.Label(), l.ID, len(l.Raw.CV), vfTrunc(l.Raw.CV, 140)),
					map[string]interface{}{"flags": l.Inst.P.Flags, "verifier": l.Raw.CV, "login_url": l.LoginURL})
			}
			if !cfg.Unknown && c05Challenge(cfg.Method, l.Raw.CV) != l.Challenge {
				run.Violation("c05:challenge-not-derived-from-stored-verifier", fmt.Sprintf("[%s] login %s: code_challenge %q is not %s(verifier kept in the CSRF cookie)", cfg.Label(), l.ID, l.Challenge, cfg.Method),
					map[string]interface{}{"flags": l.Inst.P.Flags, "verifier": l.Raw.CV, "challenge": l.Challenge, "login_url": l.LoginURL})
			}
			run.Count("verifiers_checked", 1)
		}
	}

	// 3. token endpoint: what was presented at redemption
	byCode := map[string]*c05Attempt{}
	for _, a := range attempts {
		byCode[a.Code] = a
	}
	for _, ev := range cw.W.IdP.Events() {
		if ev.Kind != "token.code" {
			continue
		}
		a := byCode[ev.Params.Get("code")]
		if a == nil {
			run.Count("token_requests_not_attributed", 1)
			continue
		}
		cfg := a.Y.Inst.Cfg
		ver := ev.Params.Get("code_verifier")
		run.Count("token_requests_checked", 1)
		if cfg.Method == "" {
			if ver != "" {
				run.Count("verifier_presented_without_method", 1)
			}
			continue
		}
		det := map[string]interface{}{"flags": a.Y.Inst.P.Flags, "unit": a.Unit, "cookie_of_login": a.Y.ID, "code_of_login": a.K.ID, "presented_verifier": ver, "challenge_of_code": a.K.Challenge, "provider_status": ev.Status, "provider_note": ev.Note, "callback": a.Req}
		if !c05VerifierRe.MatchString(ver) {
			run.Violation("c05:verifier-not-rfc7636", fmt.Sprintf("[%s] token request presents code_verifier %q (%d characters)", cfg.Label(), vfTrunc(ver, 140), len(ver)), det)
		}
		if a.Y.Raw != nil && ver != a.Y.Raw.CV {
			run.Violation("c05:presented-verifier-is-not-the-stored-one", fmt.Sprintf("[%s] the verifier presented at redemption is not the one kept in the CSRF cookie of login %s", cfg.Label(), a.Y.ID), det)
		}
		derives := c05Challenge(cfg.Method, ver) == a.K.Challenge
		accepted := ev.Status == 200
		switch {
		case a.K == a.Y && !derives:
			run.Violation("c05:presented-verifier-does-not-match-challenge", fmt.Sprintf("[%s] login %s: the verifier presented at redemption does not derive to the code_challenge sent in the same login's authorization request", cfg.Label(), a.Y.ID), det)
		case a.K == a.Y && !accepted && strings.Contains(ev.Note, "PKCE"):
			run.Violation("c05:presented-verifier-does-not-match-challenge", fmt.Sprintf("[%s] login %s: the provider rejected the verifier of the login's own redemption (%s)", cfg.Label(), a.Y.ID, ev.Note), det)
		case a.K != a.Y && (derives || accepted):
			run.Violation("c05:foreign-verifier-satisfies-challenge", fmt.Sprintf("[%s] the verifier of login %s satisfies the challenge of login %s (provider status %d)", cfg.Label(), a.Y.ID, a.K.ID, ev.Status), det)
		}
		if a.K != a.Y {
			run.Count("cross_redemptions_rejected_by_provider", 1)
		} else {
			run.Count("own_redemptions_verified_by_provider", 1)
		}
	}
}


// ---------------------------------------------------------------------------------------------------------
// method values the documentation does not list

// c05OddMethods: spellings an operator plausibly ends up with (case, blanks from env files, the name of the hash, a
// method of the wrong strength, a list). Nothing in the documentation makes them mean "no PKCE".
func c05OddMethods(seed int64, thorough bool) []string {
	all := []string{"s256", "S256 ", "S512", "PLAIN", " plain", "Plain", "sha256", "S-256", "S256,plain", "plain\t", "none", "SHA-256", "s256 ", "S384", "true"}
	if thorough {
		return all
	}
	// quick: the first three always, plus four chosen by the seed
	out := append([]string{}, all[:3]...)
	rest := all[3:]
	for k := 0; k < 4; k++ {
		out = append(out, rest[(int(seed)*5+k*3)%len(rest)])
	}
	return out
}

// oddMethods: an instance configured with a method value outside {S256, plain}. "A configured method => every authorization
// request carries a challenge of that method derived from a fresh verifier" can then only be kept by refusing: at start-up
// (instance not built), or at every login start (error status, no redirect to the provider, no CSRF cookie). A login that
// is started all the same is judged like any other (method rule, verifier shape, redemption), which it cannot pass without
// a challenge.
func (cw *c05World) oddMethods(t *testing.T) {
	run := cw.Run
	w := cw.W
	for k, sp := range c05OddMethods(run.Env.Seed, run.Env.Thorough()) {
		opt := "--code-challenge-method"
		if (k+int(run.Env.Seed))%4 == 3 {
			opt = "--force-code-challenge-method" // the deprecated option standing alone
		}
		spb := (k+int(run.Env.Seed))%2 == 0
		cfg := c05Cfg{Method: sp, Unknown: true, PerReq: k%2 == 1, Variant: fmt.Sprintf("%s=%q", strings.TrimPrefix(opt, "--"), sp)}
		p, err := w.NewProxy("--insecure-oidc-skip-nonce=false", "--cookie-csrf-per-request="+strconv.FormatBool(cfg.PerReq), opt+"="+sp, "--skip-provider-button="+strconv.FormatBool(spb))
		if err != nil {
			run.Eval(fmt.Sprintf("odd-method|%s|refused-at-start-up", cfg.Variant))
			run.Count("odd_method_instances_refused_at_start_up", 1)
			continue
		}
		inst := &c05Inst{Cfg: cfg, P: p, Lean: true, Tiny: true}
		run.Count("odd_method_instances", 1)
		entries := []string{p.Opts.ProxyPrefix + "/start?rd=" + vfQueryEscape(fmt.Sprintf("/app/c05/odd/%d", k))}
		if spb {
			entries = append(entries, fmt.Sprintf("/app/c05/odd/%d/direct", k)) // unauthenticated page request: straight to the provider
		}
		for e, target := range entries {
			entry := []string{"start-endpoint", "page-request"}[e]
			req := vfGET(target)
			resp := p.Do(req)
			det := map[string]interface{}{"flags": p.Flags, "request": req, "status": resp.Code, "location": resp.Location(), "set_cookie": resp.SetCookies(), "error_text": vfTrunc(vfErrText(resp.Body), 300)}
			if resp.Code != 302 {
				var csrfSet []string
				for _, sc := range resp.SetCookies() {
					if ck, err := http.ParseSetCookie(sc); err == nil && strings.HasSuffix(ck.Name, "_csrf") && ck.MaxAge >= 0 && ck.Value != "" {
						csrfSet = append(csrfSet, ck.Name)
					}
				}
				run.Eval(fmt.Sprintf("odd-method|%s|%s|login-refused", cfg.Variant, entry))
				run.Count("odd_method_logins_refused", 1)
				if resp.Code < 400 || len(csrfSet) > 0 || resp.Location() != "" {
					run.Violation("c05:refused-login-start-not-clean", fmt.Sprintf("[%s] %s answered %d with CSRF cookie(s) %v and Location %q", cfg.Label(), entry, resp.Code, csrfSet, resp.Location()), det)
				}
				continue
			}
			run.Eval(fmt.Sprintf("odd-method|%s|%s|login-started", cfg.Variant, entry))
			run.Count("odd_method_logins_started", 1)
			ident := c05Ident(inst)
			vl, err := vfNewBrowser("").continueLogin(p, ident, resp)
			if err != nil { // not a redirect to the authorization endpoint
				c05Rig(run, "odd method [%s]: %v", cfg.Label(), err)
				continue
			}
			// a value that differs from a documented one by case / surrounding blanks only may be normalised: then that method
			// is the configured one (judged from the authorization request, not from the instance's internals)
			if m := vl.AuthReq.Params.Get("code_challenge_method"); (m == "S256" || m == "plain") && strings.EqualFold(strings.TrimSpace(sp), m) {
				ncfg := cfg
				ncfg.Method, ncfg.Unknown = m, false
				inst = &c05Inst{Cfg: ncfg, P: p, Lean: true, Tiny: true}
				run.Count("odd_method_normalised", 1)
			}
			l, err := c05FromStart(inst, vl, ident, fmt.Sprintf("odd-%d-%d", k, e))
			if err != nil {
				run.Violation("c05:login-started-with-unusable-csrf-cookie", fmt.Sprintf("[%s] %s: the login was started (302) but its CSRF cookie is missing (%v)", cfg.Label(), entry, err), det)
				continue
			}
			cw.addLogin(l) // method rule: a challenge, and code_challenge_method = the configured value
			run.Count("logins_started", 1)
			cw.callback(fmt.Sprintf("%s/odd%d-%d", cfg.Label(), k, e), l, l, "echo", &c05Script{Beh: "echo"}, [][2]string{{l.CookieName, l.CookieValue}}, "single", false)
		}
	}
}

// ---------------------------------------------------------------------------------------------------------

func c05LeakSelfTest(t *testing.T) {
	raw := []byte{0xde, 0xad, 0xbe, 0xef, 1, 2, 3, 4, 5, 6, 7, 8, 9, 10, 11, 12, 13, 14, 15, 16, 17, 18, 19, 20, 21, 22, 23, 24, 25, 26, 27, 0xff}
	l := &c05Login{ID: "selftest", Inst: &c05Inst{Cfg: c05Cfg{Method: "S256"}}, Raw: &c05CSRF{N: raw, S: []byte("0123456789abcdef0123456789abcdeX"), CV: strings.Repeat("v", 43)}}
	l.needles = c05Needles(l)
	cases := map[string]*vfResp{
		"hex in Location":             {Header: http.Header{"Location": {"http://idp/authorize?nonce=" + hex.EncodeToString(raw)}}},
		"escaped raw in Location":     {Header: http.Header{"Location": {"http://idp/authorize?nonce=" + url.QueryEscape(string(raw))}}},
		"base64 in body":              {Header: http.Header{}, Body: []byte("<p>" + base64.StdEncoding.EncodeToString(raw) + "</p>")},
		"inside base64 cookie field":  {Header: http.Header{"Set-Cookie": {"x=" + base64.URLEncoding.EncodeToString(append([]byte("prefix-"), raw...)) + "|123|sig; Path=/"}}},
		"verifier in Location":        {Header: http.Header{"Location": {"http://idp/authorize?code_verifier=" + l.Raw.CV}}},
		"state nonce b64url in state": {Header: http.Header{"Location": {"http://idp/authorize?state=" + base64.RawURLEncoding.EncodeToString(l.Raw.S) + "%3A%2F"}}},
	}
	for name, r := range cases {
		if c05Scan(r, l) == "" {
			t.Fatalf("leak monitor self-test: %s not detected", name)
		}
	}
	if hit := c05Scan(&vfResp{Header: http.Header{"Location": {"http://idp/authorize?nonce=" + c05Hash(raw)}}, Body: []byte("harmless")}, l); hit != "" {
		t.Fatalf("leak monitor self-test: false positive %s", hit)
	}
}

func TestVerif_C05(t *testing.T) {
	run := vfNewRun(t, "C05", "exploration")
	run.SetRule("12 configurations (code-challenge method none/S256/plain x skip-nonce on/off x csrf-per-request on/off) + 5 instances built while the provider's discovery advertises other code_challenge_methods_supported than the configured method ([plain], [], [S512], [plain,S512] with S256 configured; [S256] with plain configured; reduced grid) + 5 OIDC-derived provider instances (entra-id with one / several / no allowed tenants, keycloak-oidc, adfs; nonce checking on; nonce-focused grid) + a sequential entropy-fault phase (26 fault plans x 2 starts on every default-discovery oidc instance with nonce checking); per configuration every provider nonce behaviour (19: echo, this/other login's nonce, empty, absent, null, raw in 4 notations, prefix/extended/padded/case-swapped hash, hash of hash, state nonce, list, number, replayed previous ID token) " +
		"x login shape (sequential, overlapping fifo/lifo, nested; more in thorough) x {own code, code of another login}; plus bulk login starts for the uniqueness / RFC 7636 / challenge monitors over the provider log. " +
		"cell = (method, skip-nonce, per-request, behaviour, shape, own/other code, expected); non-trivial = every callback")
	run.Assume("the fake provider verifies PKCE like a real one (challenge stored per code, recomputed from the presented verifier)",
		"raw values are learnt by decrypting the harness' own CSRF cookies with the configured cookie secret",
		"with the method 'plain' the verifier legitimately equals the challenge in the login URL (leak monitor covers the verifier for S256 only)")
	c05LeakSelfTest(t)
	w := vfNewWorld(t)
	defer w.Close()
	cw := &c05World{Run: run, W: w}
	cw.install()
	defer cw.uninstall()

	var insts []*c05Inst
	for _, m := range []string{"", "S256", "plain"} {
		for _, skip := range []bool{false, true} {
			for _, pr := range []bool{false, true} {
				cfg := c05Cfg{Method: m, SkipNonce: skip, PerReq: pr}
				flags := []string{"--insecure-oidc-skip-nonce=" + strconv.FormatBool(skip), "--cookie-csrf-per-request=" + strconv.FormatBool(pr)}
				if m != "" {
					flags = append(flags, "--code-challenge-method="+m)
				}
				// secondary dimensions rotated over the instances (seed-dependent phase): state encoding, session store,
				// cookie name, proxy prefix, provider button
				k := len(insts) + int(run.Env.Seed)
				if k%2 == 0 {
					flags = append(flags, "--encode-state=true")
				}
				if (k/2)%2 == 0 {
					flags = append(flags, "--show-debug-on-error=true") // error pages carry the internal error text
				}
				if k%3 == 0 {
					flags = append(flags, "--session-store-type=redis", "--redis-connection-url="+w.RedisURL())
				}
				switch k % 4 {
				case 1:
					flags = append(flags, "--cookie-name=c05_sess")
				case 2:
					flags = append(flags, "--proxy-prefix=/auth5")
				case 3:
					flags = append(flags, "--skip-provider-button=true")
				}
				p, err := w.NewProxy(flags...)
				if err != nil {
					t.Fatalf("%s: %v", cfg.Label(), err)
				}
				insts = append(insts, &c05Inst{Cfg: cfg, P: p})
			}
		}
	}
	// instances built while the provider's discovery document advertises other code_challenge_methods_supported than the
	// configured one: the configured method must be used all the same (no silent down- or upgrade)
	for k, nd := range []struct {
		method string
		adv    []string
		label  string
	}{
		{"S256", []string{"plain"}, "[plain]"},
		{"S256", []string{}, "[]"},
		{"S256", []string{"S512"}, "[S512]"},
		{"plain", []string{"S256"}, "[S256]"},
		{"S256", []string{"plain", "S512"}, "[plain,S512]"},
	} {
		pr := (k+int(run.Env.Seed))%2 == 0
		cfg := c05Cfg{Method: nd.method, SkipNonce: false, PerReq: pr, Advertised: nd.label}
		adv := nd.adv
		w.IdP.Set(func(c *vfIdPCfg) { c.ChallengeMethods = adv })
		p, err := w.NewProxy("--insecure-oidc-skip-nonce=false", "--cookie-csrf-per-request="+strconv.FormatBool(pr), "--code-challenge-method="+nd.method, "--show-debug-on-error=true")
		w.IdP.Set(func(c *vfIdPCfg) { c.ChallengeMethods = nil })
		if err != nil {
			t.Fatalf("%s: %v", cfg.Label(), err)
		}
		insts = append(insts, &c05Inst{Cfg: cfg, P: p, Lean: true})
	}
	// OIDC-derived providers built against the same fake identity provider (nonce checking on): the nonce rule is the same
	const tid = "85d7d600-7804-4d92-8d43-9c33c21c130c"
	entraIss := map[string]interface{}{"iss": "https://login.microsoftonline.com/" + tid + "/v2.0", "tid": tid}
	for k, pv := range []struct {
		name   string
		flags  []string
		extra  map[string]interface{}
		method string
		adfs   bool
	}{
		{"entra-id/allowed-tenant", []string{"--provider=entra-id", "--insecure-oidc-skip-issuer-verification=true", "--entra-id-allowed-tenant=" + tid}, entraIss, "", false},
		{"entra-id/allowed-tenants+S256", []string{"--provider=entra-id", "--insecure-oidc-skip-issuer-verification=true", "--entra-id-allowed-tenant=11111111-2222-3333-4444-555555555555", "--entra-id-allowed-tenant=" + tid, "--code-challenge-method=S256"}, entraIss, "S256", false},
		{"entra-id/any-tenant", []string{"--provider=entra-id", "--insecure-oidc-skip-issuer-verification=true"}, entraIss, "", false},
		{"keycloak-oidc", []string{"--provider=keycloak-oidc"}, map[string]interface{}{c05JWTAccessTokenClaim: true, "email_verified": true}, "", false}, // every claim in the token: no profile-URL fetch with the JWT access token
		{"adfs", []string{"--provider=adfs"}, nil, "", true},
	} {
		pr := (k+int(run.Env.Seed))%2 == 1
		cfg := c05Cfg{Method: pv.method, SkipNonce: false, PerReq: pr, Provider: pv.name}
		p, err := w.NewProxy(append([]string{"--insecure-oidc-skip-nonce=false", "--cookie-csrf-per-request=" + strconv.FormatBool(pr)}, pv.flags...)...)
		if err != nil {
			t.Fatalf("%s: %v", cfg.Label(), err)
		}
		insts = append(insts, &c05Inst{Cfg: cfg, P: p, Lean: true, IdentExtra: pv.extra, ADFSState: pv.adfs})
	}
	tinyBeh := map[string]bool{"echo": true, "absent": true, "absent+userinfo-says-this-logins-nonce": true}
	// the code-challenge method through every configuration channel, alone and together with the deprecated
	// --force-code-challenge-method. The CONFIGURED method is the documented option's value (docs: "use PKCE code challenges
	// with the specified method"; changelog: specify code_challenge_method instead of force_code_challenge_method); the
	// deprecated option counts only where it stands alone.
	for k, cv := range []struct {
		name, method string
		flags        []string
		toml         string
		env          [2]string
		alpha        string
	}{
		{name: "cm=S256+force=plain", method: "S256", flags: []string{"--code-challenge-method=S256", "--force-code-challenge-method=plain"}},
		{name: "cm=plain+force=S256", method: "plain", flags: []string{"--force-code-challenge-method=S256", "--code-challenge-method=plain"}},
		{name: "cm=S256+force=S512", method: "S256", flags: []string{"--code-challenge-method=S256", "--force-code-challenge-method=S512"}},
		{name: "force=S256-alone", method: "S256", flags: []string{"--force-code-challenge-method=S256"}},
		{name: "force=plain-alone", method: "plain", flags: []string{"--force-code-challenge-method=plain"}},
		{name: "config-file:cm=S256+force=plain", method: "S256", toml: "code_challenge_method = \"S256\"\nforce_code_challenge_method = \"plain\"\n"},
		{name: "flag:cm=S256+env:force=plain", method: "S256", flags: []string{"--code-challenge-method=S256"}, env: [2]string{"OAUTH2_PROXY_FORCE_CODE_CHALLENGE_METHOD", "plain"}},
		{name: "alpha:code_challenge_method=S256", method: "S256", alpha: "  code_challenge_method: S256\n"},
	} {
		pr := (k+int(run.Env.Seed))%2 == 0
		cfg := c05Cfg{Method: cv.method, SkipNonce: false, PerReq: pr, Variant: cv.name}
		var p *vfProxy
		var err error
		switch {
		case cv.alpha != "":
			// AlphaYAML appends `extra` right behind the provider entry: a two-space indented line is a member of that entry
			p, err = w.NewProxyRaw(w.AlphaYAML("", cv.alpha), append(w.AlphaBaseFlags(), "--cookie-csrf-per-request="+strconv.FormatBool(pr)))
		default:
			flags := append([]string{"--insecure-oidc-skip-nonce=false", "--cookie-csrf-per-request=" + strconv.FormatBool(pr)}, cv.flags...)
			if cv.toml != "" {
				flags = append(flags, "--config="+w.File(fmt.Sprintf("c05-%d.cfg", k), cv.toml))
			}
			if cv.env[0] != "" {
				os.Setenv(cv.env[0], cv.env[1])
			}
			p, err = w.NewProxy(flags...)
			if cv.env[0] != "" {
				os.Unsetenv(cv.env[0])
			}
		}
		if err != nil {
			t.Fatalf("%s: %v", cfg.Label(), err)
		}
		insts = append(insts, &c05Inst{Cfg: cfg, P: p, Lean: true, Tiny: true})
		run.Count("instances_with_method_through_other_channels_or_both_options", 1)
	}
	leanBeh := map[string]bool{"absent+userinfo-says-this-logins-nonce": true, "this-logins-nonce+userinfo-says-other-logins-nonce": true, "echo": true, "this-logins-nonce": true, "other-logins-nonce": true, "empty-string": true, "absent": true, "null": true, "raw-base64url": true, "hash-prefix": true, "previous-logins-id-token-replayed": true}
	leanShape := map[string]bool{"sequential": true, "overlap-lifo": true}
	type job struct {
		inst  *c05Inst
		beh   c05Beh
		shape c05Shape
		cross bool
		seed  int64
	}
	var jobs []job
	behs := c05Behaviours()
	shapes := c05Shapes(run.Env.Thorough())
	reps := run.Env.Pick(1, 3)
	for ii, inst := range insts {
		for bi, beh := range behs {
			for si, sh := range shapes {
				if inst.Lean && !(leanBeh[beh.Name] && leanShape[sh.Name]) {
					continue
				}
				if inst.Tiny && !(tinyBeh[beh.Name] && sh.Name == "sequential") {
					continue
				}
				if strings.Contains(beh.Name, "userinfo") && !run.Env.Thorough() && !leanShape[sh.Name] {
					continue // quick: the userinfo behaviours on two of the four shapes
				}
				for _, cross := range []bool{false, true} {
					for r := 0; r < reps; r++ {
						jobs = append(jobs, job{inst, beh, sh, cross, run.Env.Seed*7919 + int64(((ii*64+bi)*16+si)*8+r)})
					}
				}
			}
		}
	}
	vfParallel(len(jobs), 16, func(i int) {
		j := jobs[i]
		cw.unit(j.inst, j.beh, j.shape, j.cross, mrand.New(mrand.NewSource(j.seed)), i)
	})

	// repeated callbacks through real cookie jars
	nrep := run.Env.Pick(3, 12)
	vfParallel(len(insts)*nrep, 16, func(i int) { cw.repeatUnit(insts[i%len(insts)], i) })

	// bulk starts: thousands of authorization requests for the uniqueness / shape monitors
	bulk := run.Env.Pick(150, 1500)
	vfParallel(len(insts)*bulk, 16, func(i int) {
		inst := insts[i%len(insts)]
		if inst.Lean && (i/len(insts))%3 != 0 {
			return // a third of the bulk for the secondary instances
		}
		l, err := c05Start(inst, vfNewBrowser(""), fmt.Sprintf("bulk-%d", i))
		if err != nil {
			c05Rig(run, "bulk start [%s]: %v", inst.Cfg.Label(), err)
			return
		}
		cw.addLogin(l)
		run.Count("logins_started", 1)
		if i%7 == 0 {
			if hit := c05Scan(l.Start, l); hit != "" {
				run.Violation("c05:secret-in-response", fmt.Sprintf("[%s] the response that starts the login contains the %s", inst.Cfg.Label(), hit),
					map[string]interface{}{"flags": inst.P.Flags, "location": l.Start.Location(), "set_cookie": l.Start.SetCookies()})
			}
			run.Count("responses_scanned_for_leaks", 1)
		}
	})
	cw.oddMethods(t)
	cw.entropyFaults(insts)
	cw.history()
	if run.Counter("failing_callbacks_on_debug_error_pages") == 0 || run.Counter("repeated_callbacks") == 0 {
		run.Inconclusive("no failing callback on a debug error page / no repeated callback was observed")
		fmt.Printf("INCONCLUSIVE property=C05 reason=failing/repeated callback phases without events\n")
		t.Fail()
	}
	if run.Counter("entropy_fault_starts_refused") == 0 || run.Counter("entropy_faults_fired") == 0 {
		run.Inconclusive("the entropy-fault phase injected no fault / saw no refused start")
		fmt.Printf("INCONCLUSIVE property=C05 reason=entropy-fault phase without events\n")
		t.Fail()
	}
	if run.Counter("verifiers_checked") == 0 || run.Counter("token_requests_checked") == 0 || run.Counter("own_redemptions_verified_by_provider") == 0 || run.Counter("cross_redemptions_rejected_by_provider") == 0 || run.Counter("authorization_requests_of_instances_with_nondefault_discovery") == 0 {
		run.Inconclusive("a history monitor saw no events")
		fmt.Printf("INCONCLUSIVE property=C05 reason=history monitor without events\n")
		t.Fail()
	}
	run.RaceCheck("") // races are not this property's business: reports are kept as NOTE lines for diagnosis
	if n := run.Counter("rig_failures"); n > 0 {
		fmt.Printf("INCONCLUSIVE property=C05 reason=%d rig failures (see NOTE lines)\n", n)
		t.Fail()
	}
	run.Finish(int64(run.Env.Pick(6000, 40000)), run.Env.Pick(900, 2000))
}
