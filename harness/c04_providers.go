//go:build verif

package main

// C04, provider types built on the OIDC verifier: keycloak-oidc, gitlab, adfs, azure (with --oidc-issuer-url, i.e. with
// a verifier), entra-id. Each wraps or replaces parts of the generic OIDC provider (Redeem, EnrichSession, RefreshSession,
// ValidateSession, CreateSessionFromToken); a slip there could accept a token the reference predicate V rejects.
//
// All instances are pointed at the rig's fake identity provider. Per provider type and entry path (callback, refresh,
// bearer) a compact token grid is driven: valid tokens plus every SINGLE deviation of V (quick: wrong signing key, alg
// none, HS256 keyed with the public key, other issuer / other Microsoft tenant / allowed tenant's issuer with a suffix, other audience, expired, email_verified=false; thorough: every value
// of c04's signature / issuer / audience / expiry / email_verified dimensions).
//
// Oracle (existence only — what a type puts INTO the session differs per type and is not compared here):
//   callback, bearer:  session (cookie issued · /oauth2/userinfo 200 · upstream reached)  =>  V(token)
//   refresh:           after the request nothing of the NEW token B is in the session unless V(B):
//                      identity fields carrying B's values          -> c04:ptype-refresh-adopts-invalid-token
//   V => session is not asserted; but every (type, path) must show sessions from valid tokens, otherwise inconclusive.
//
// V per type, from the provider documentation (docs/docs/configuration/providers/*.md):
//   keycloak_oidc.md  "OAuth2 Proxy expects a match against the values of either --client-id or --oidc-extra-audience" — V as
//                     for oidc. The type reads roles from the ACCESS token, which has to be a JWT of the same issuer: the rig
//                     hands out a valid one, so that the ID token under test is the only thing that varies.
//   gitlab.md         nothing type-specific about token validation — V as for oidc. (The e-mail of a login comes from GitLab's
//                     /oauth/userinfo, served by the rig; a userinfo answer with email_verified=false is observed, not judged.)
//   adfs.md           nothing type-specific — V as for oidc (the upn fallback concerns the e-mail, not validity).
//   ms_azure_ad.md    "--oidc-issuer-url=..." configures verification — V as for oidc. The v2.0 endpoint mode (login URL
//                     containing "v2.0") queries https://<profile host>/v1.0/me/transitiveMemberOf with a fixed https scheme
//                     and cannot be pointed at the rig: the instance runs in v1 mode with a verifier.
//   ms_entra_id.md    "Multi-tenant apps": insecure_oidc_skip_issuer_verification disables "Matching ID token's issuer claim
//                     with oidc_issuer_url"; instead "Entra ID provider performs check on the ID token's issuer claim to match
//                     the https://login.microsoftonline.com/{tenant-id}/v2.0 template", and --entra-id-allowed-tenant is the
//                     "List of allowed tenants ... When not specified, all tenants are allowed".
//                     => issOK(multi-tenant) = iss fits the template ∧ (no list ∨ tenant-id ∈ list); single-tenant: iss == issuer URL.

import (
	"encoding/json"
	"fmt"
	"net/http"
	"net/url"
	"regexp"
	"strconv"
	"strings"
	"sync"
	"time"

	"github.com/oauth2-proxy/oauth2-proxy/v7/pkg/clock"
)

const (
	c04pTenant      = "85d7d600-7804-4d92-8d43-9c33c21c130c"
	c04pOtherTenant = "11111111-2222-3333-4444-555555555555"
)

func c04pEntraIssuer(tid string) string { return "https://login.microsoftonline.com/" + tid + "/v2.0" }

var (
	c04pEntraShape = regexp.MustCompile(`^https://login\.microsoftonline\.com/[^/]+/v2\.0$`)
	c04pEntraGUID  = regexp.MustCompile(`^https://login\.microsoftonline\.com/[0-9a-f]{8}-[0-9a-f]{4}-[0-9a-f]{4}-[0-9a-f]{4}-[0-9a-f]{12}/v2\.0$`)
)

type c04pCfg struct {
	Type    string // provider type
	Name    string // type + variant
	cfg     *c04Cfg
	IssRule string   // "" = iss equals cfg.Verifiers[0].Issuer | "entra-multi" = template (+ allowed tenants)
	Tenants []string // entra-multi: allowed tenants (empty: all)
	JWTAT   bool     // the access token has to be a JWT signed by the issuer (keycloak-oidc reads roles from it)
	ADFS    bool     // the state parameter of the authorization request is query-escaped once more
	GitLab  bool     // /oauth/userinfo is consulted at login
}

func c04pConfigs(w *vfWorld) []*c04pCfg {
	iss := w.IdP.Issuer
	common := []string{"--skip-jwt-bearer-tokens=true", "--cookie-refresh=1m", "--pass-access-token=true", "--pass-authorization-header=true"}
	mk := func(typ, variant, issuer string, mod func(p *c04pCfg), flags ...string) *c04pCfg {
		name := typ
		if variant != "" {
			name += "/" + variant
		}
		c := &c04Cfg{Name: "ptype=" + name, Verifiers: []c04Verifier{{Issuer: issuer, ClientID: "cid"}}, AudClaims: []string{"aud"}, EmailClaim: "email", GroupsClaim: "groups"}
		c.Flags = append(append(append([]string{}, common...), "--provider="+typ), flags...)
		p := &c04pCfg{Type: typ, Name: name, cfg: c}
		if mod != nil {
			mod(p)
		}
		return p
	}
	msIss := c04pEntraIssuer(c04pTenant)
	return []*c04pCfg{
		mk("keycloak-oidc", "", iss, func(p *c04pCfg) { p.JWTAT = true }),
		mk("gitlab", "", iss, func(p *c04pCfg) { p.GitLab = true }),
		mk("adfs", "", iss, func(p *c04pCfg) { p.ADFS = true }),
		mk("azure", "", iss, nil),
		// ms_entra_id.md, "Multi-tenant app with ... one Entra tenant allowed"
		mk("entra-id", "allowed-tenant", msIss, func(p *c04pCfg) { p.IssRule, p.Tenants = "entra-multi", []string{c04pTenant} },
			"--insecure-oidc-skip-issuer-verification=true", "--entra-id-allowed-tenant="+c04pTenant),
		// ms_entra_id.md, "Multi-tenant apps" without a tenant list: "When not specified, all tenants are allowed"
		mk("entra-id", "any-tenant", msIss, func(p *c04pCfg) { p.IssRule = "entra-multi" }, "--insecure-oidc-skip-issuer-verification=true"),
		// ms_entra_id.md, "Single-tenant app": regular issuer verification against the tenant's issuer URL (endpoints given explicitly,
		// since the rig cannot serve a discovery document under login.microsoftonline.com)
		mk("entra-id", "single-tenant", msIss, nil, "--oidc-issuer-url="+msIss, "--skip-oidc-discovery=true", "--oidc-jwks-url="+iss+"/jwks",
			"--login-url="+iss+"/authorize", "--redeem-url="+iss+"/token", "--profile-url="+iss+"/userinfo"),
	}
}

// ---------------------------------------------------------------------------------------------------------
// reference

func c04pIssOK(t c04Token, pc *c04pCfg) c04Tri {
	s, ok := t.Claims["iss"].(string)
	if pc.IssRule != "entra-multi" {
		if ok && s == pc.cfg.Verifiers[0].Issuer {
			return c04OK
		}
		return c04Bad
	}
	if !ok || !c04pEntraShape.MatchString(s) {
		return c04Bad
	}
	if len(pc.Tenants) > 0 {
		for _, tid := range pc.Tenants {
			if s == c04pEntraIssuer(tid) {
				return c04OK
			}
		}
		return c04Bad
	}
	if c04pEntraGUID.MatchString(s) {
		return c04OK
	}
	return c04Either // fits ".../{something}/v2.0" but {something} is not a tenant GUID: the template's {tenant-id} is not defined further
}

func c04pReference(t c04Token, pc *c04pCfg) c04Ref {
	v := pc.cfg.Verifiers[0]
	cl := map[string]c04Tri{"sig": c04SigOK(t, pc.cfg), "iss": c04pIssOK(t, pc), "aud": c04AudOK(t, pc.cfg, v), "exp": c04ExpOK(t), "ev": c04EVOK(t, pc.cfg, v)}
	ref := c04Ref{V: c04OK, Verifier: 0, Clauses: cl}
	bad, either := 0, 0
	for n, r := range cl {
		switch r {
		case c04Bad:
			bad++
			ref.OnlyBad = n
		case c04Either:
			either++
		}
	}
	switch {
	case bad > 0:
		ref.V = c04Bad
		if bad != 1 || either != 0 {
			ref.OnlyBad = ""
		}
	case either > 0:
		ref.V = c04Either
	}
	return ref
}

// ---------------------------------------------------------------------------------------------------------
// token grid

func c04pSpecs(thorough bool) []c04Spec {
	base := c04Spec{"right", "exact", "cid", "+1h", "true", "full"}
	out := []c04Spec{base, base, base} // three valid tokens per (type, path): the minimum-sessions rule needs two of them
	if !thorough {
		for _, d := range []struct {
			dim int
			v   string
		}{{0, "foreign-samekid"}, {0, "none"}, {0, "hs256-pem"}, {1, "other"}, {1, "other-tenant"}, {1, "tenant-suffix"}, {2, "other"}, {3, "-1h"}, {4, "false"}} {
			out = append(out, base.with(d.dim, d.v))
		}
		return out
	}
	for dim := 0; dim <= 4; dim++ {
		vals := c04Dims[dim]
		if dim == 1 {
			vals = append(append([]string{}, vals...), "other-tenant", "tenant-suffix", "tenant-http")
		}
		for _, v := range vals {
			if s := base.with(dim, v); s != base {
				out = append(out, s)
			}
		}
	}
	return out
}

func c04pClaims(pc *c04pCfg, s c04Spec, idp2 string, base map[string]interface{}, id c04Ident, tag string) map[string]interface{} {
	c := c04Claims(s, pc.cfg, idp2, base, id, tag)
	switch s.Iss {
	case "other-tenant": // a well-formed Microsoft issuer of ANOTHER tenant
		c["iss"] = c04pEntraIssuer(c04pOtherTenant)
	case "tenant-suffix":
		c["iss"] = c04pEntraIssuer(c04pTenant) + ".evil.test"
	case "tenant-http":
		c["iss"] = strings.Replace(c04pEntraIssuer(c04pTenant), "https://", "http://", 1)
	}
	return c
}

// ---------------------------------------------------------------------------------------------------------
// provider scripting on top of c04Runner.install()

type c04pTok struct {
	pc  *c04pCfg
	tag string
}

type c04pWorld struct {
	run  *vfRun
	w    *vfWorld
	r    *c04Runner
	toks sync.Map // raw ID token -> c04pTok
	glUI sync.Map // access token -> GitLab userinfo document
	mu   sync.Mutex
	ats  map[string][]string // tag -> access tokens issued next to that tag's ID tokens
}

func (pw *c04pWorld) install() (restore func()) {
	var prevMutate func(string, map[string]interface{})
	var prevHook func(*vfIdPEvent) *vfIdPReply
	pw.w.IdP.Set(func(c *vfIdPCfg) {
		prevMutate, prevHook = c.TokenResponseMutate, c.Hook
		c.TokenResponseMutate = func(grant string, resp map[string]interface{}) {
			if prevMutate != nil {
				prevMutate(grant, resp)
			}
			raw, _ := resp["id_token"].(string)
			v, ok := pw.toks.Load(raw)
			if !ok {
				return
			}
			tk := v.(c04pTok)
			// Azure's token endpoint reports the expiry as expires_on (a string); harmless for the other types
			resp["expires_on"] = strconv.FormatInt(time.Now().Add(time.Hour).Unix(), 10)
			if tk.pc.JWTAT {
				// a VALID access token of the same issuer for the same client (Keycloak "Add to access token: On"), with roles
				resp["access_token"] = vfMint(map[string]interface{}{"iss": tk.pc.cfg.Verifiers[0].Issuer, "aud": "cid", "sub": "at-sub-" + tk.tag, "exp": time.Now().Add(time.Hour).Unix(),
					"iat": time.Now().Unix(), "typ": "Bearer", "realm_access": map[string]interface{}{"roles": []string{"realm-" + tk.tag}},
					"resource_access": map[string]interface{}{"cid": map[string]interface{}{"roles": []string{"client-" + tk.tag}}}}, vfMintOpts{})
			}
			at, _ := resp["access_token"].(string)
			if tk.pc.GitLab {
				unverified := strings.Contains(tk.tag, "-glunverified-")
				doc, _ := json.Marshal(map[string]interface{}{"nickname": "nick-" + tk.tag, "email": "gitlab-" + tk.tag + "@gitlab.test", "email_verified": !unverified, "groups": []string{"glgroup-" + tk.tag}})
				pw.glUI.Store(at, doc)
			}
			pw.mu.Lock()
			pw.ats[tk.tag] = append(pw.ats[tk.tag], at)
			pw.mu.Unlock()
		}
		c.Hook = func(ev *vfIdPEvent) *vfIdPReply {
			if ev.Path == "/oauth/userinfo" { // GitLab's userinfo endpoint (providers/gitlab.go builds it from the login URL's host)
				if doc, ok := pw.glUI.Load(strings.TrimPrefix(ev.Auth, "Bearer ")); ok {
					return &vfIdPReply{Status: 200, Body: doc.([]byte)}
				}
				return &vfIdPReply{Status: 401, Body: []byte(`{"error":"invalid_token"}`)}
			}
			if prevHook != nil {
				return prevHook(ev)
			}
			return nil
		}
	})
	return func() {
		pw.w.IdP.Set(func(c *vfIdPCfg) { c.TokenResponseMutate, c.Hook = prevMutate, prevHook })
	}
}

// start: GET /oauth2/start and obtain a code; AD FS gets the state back decoded once more
func (pw *c04pWorld) start(pc *c04pCfg, b *vfBrowser, sub string, profile map[string]interface{}) (*vfLogin, error) {
	l, err := b.StartLogin(pc.cfg.P, vfIdentity{Sub: sub, Email: "unused@idp.test", Profile: profile}, "/")
	if err != nil {
		return l, err
	}
	if pc.ADFS {
		st, uerr := url.QueryUnescape(l.State)
		if uerr != nil {
			return l, fmt.Errorf("adfs state %q: %v", l.State, uerr)
		}
		l.State = st
	}
	return l, nil
}

type c04pCase struct {
	ProviderType string      `json:"provider_type"`
	Flags        []string    `json:"flags"`
	Path         string      `json:"path"`
	Spec         string      `json:"spec"`
	Token        string      `json:"token"`
	Claims       interface{} `json:"token_claims"`
	JOSE         interface{} `json:"token_header"`
	Ref          string      `json:"reference"`
	Observed     interface{} `json:"observed"`
	Steps        string      `json:"steps"`
}

func (pw *c04pWorld) detail(pc *c04pCfg, path string, s c04Spec, t c04Token, ref c04Ref, obs interface{}, steps string) c04pCase {
	return c04pCase{ProviderType: pc.Name, Flags: pc.cfg.P.Flags, Path: path, Spec: s.String(), Token: t.Raw, Claims: t.Claims, JOSE: t.Header,
		Ref: fmt.Sprintf("V=%v clauses=%v", ref.V, ref.Clauses), Observed: obs, Steps: steps}
}

func c04pCell(pc *c04pCfg, path string, s c04Spec, ref c04Ref) string {
	switch {
	case ref.V == c04OK:
		return fmt.Sprintf("ptype=%s/path=%s/valid", pc.Name, path)
	case ref.V == c04Bad && ref.OnlyBad != "":
		val := map[string]string{"sig": s.Sig, "iss": s.Iss, "aud": s.Aud, "exp": s.Exp, "ev": s.EV}[ref.OnlyBad]
		return fmt.Sprintf("ptype=%s/path=%s/only-failing=%s/%s", pc.Name, path, ref.OnlyBad, val)
	}
	return ""
}

func c04pKey(pc *c04pCfg, path string) string { return "ptype_sessions_from_valid_tokens_" + pc.Name + "_" + path }

// judge (callback, bearer): session => V
func (pw *c04pWorld) judge(pc *c04pCfg, path string, s c04Spec, t c04Token, ref c04Ref, obs c04Obs, cookieIssued bool, steps string) {
	run := pw.run
	run.Eval(c04pCell(pc, path, s, ref))
	run.Count("ptype_cases_"+path, 1)
	if obs.Panic != "" {
		run.Violation("c04:panic", fmt.Sprintf("[%s] %s path: panic while handling a token (%s): %s", pc.Name, path, s, vfTrunc(obs.Panic, 200)), pw.detail(pc, path, s, t, ref, obs, steps))
		return
	}
	session := obs.session() || cookieIssued
	switch ref.V {
	case c04Bad:
		if session {
			why := "clauses " + fmt.Sprint(ref.Clauses)
			if ref.OnlyBad != "" {
				why = "only failing clause: " + ref.OnlyBad
			}
			sig := "c04:ptype-session-from-invalid-token"
			if pc.IssRule == "entra-multi" && path == "bearer" && ref.OnlyBad == "iss" {
				// kept apart: on the bearer path the entra-id type has no issuer rule of its own at all (see the final report)
				sig = "c04:ptype-entra-bearer-issuer-not-checked"
			}
			run.Violation(sig, fmt.Sprintf("[provider type %s] %s path: session from a token the reference rejects (%s; %s)", pc.Name, path, why, s),
				pw.detail(pc, path, s, t, ref, obs, steps+fmt.Sprintf(" [cookie_issued=%v]", cookieIssued)))
		}
	case c04Either:
		run.Count(fmt.Sprintf("ptype_undecided_%s_session=%v", path, session), 1)
	case c04OK:
		if session {
			run.Count(c04pKey(pc, path), 1)
		} else {
			run.Count("ptype_valid_refused_"+pc.Name+"_"+path, 1)
			run.SampleEvery(1, func() interface{} { return pw.detail(pc, path, s, t, ref, obs, steps+" [VALID TOKEN REFUSED]") })
		}
	}
}

func (pw *c04pWorld) callbackCase(pc *c04pCfg, s c04Spec, n int, variant string) {
	tag := fmt.Sprintf("pt-%s-cb-%s%d", pc.Name, variant, n)
	id := c04TokenIdent(tag, s.Claims)
	sub := "login-" + tag
	var tok c04Token
	var mu sync.Mutex
	pw.r.handlers.Store(sub, func(grant string, claims map[string]interface{}) (string, bool) {
		raw := c04Sign(c04pClaims(pc, s, pw.r.idp2.Issuer, claims, id, tag), s.Sig)
		pw.toks.Store(raw, c04pTok{pc, tag})
		mu.Lock()
		tok = c04Decode(raw)
		mu.Unlock()
		return raw, true
	})
	defer pw.r.handlers.Delete(sub)
	b := vfNewBrowser("")
	l, err := pw.start(pc, b, sub, c04Profile(tag))
	if err != nil {
		pw.run.Eval("")
		pw.run.Inconclusive(fmt.Sprintf("rig: login could not be started (%s): %v", pc.Name, err))
		return
	}
	cb := b.Get(pc.cfg.P, l.CallbackTarget(pc.cfg.P))
	mu.Lock()
	t := tok
	mu.Unlock()
	if t.Raw == "" {
		pw.run.Inconclusive("ptype: token endpoint not reached at callback (" + pc.Name + ")")
		return
	}
	cookieIssued := len(c04SessionCookies(cb.SetCookies())) > 0
	obs := c04Observe(pw.w, func(q *vfReq) *vfResp { return b.Send(pc.cfg.P, q) })
	if cb.Panic != "" {
		obs.Panic = cb.Panic
	}
	steps := fmt.Sprintf("GET /oauth2/start?rd=/ ; provider issues a code ; GET /oauth2/callback?code&state (status %d) with the token endpoint answering the token above as id_token ; GET /oauth2/userinfo ; GET /app/data?q=1", cb.Code)
	ref := c04pReference(t, pc)
	if variant != "" {
		// GitLab userinfo says email_verified=false for an otherwise valid login: not documented either way — observed only
		pw.run.Eval("")
		pw.run.Count(fmt.Sprintf("ptype_gitlab_userinfo_unverified_session=%v", obs.session() || cookieIssued), 1)
		return
	}
	pw.judge(pc, "callback", s, t, ref, obs, cookieIssued, steps)
}

func (pw *c04pWorld) bearerCase(pc *c04pCfg, s c04Spec, n int) {
	tag := fmt.Sprintf("pt-%s-be-%d", pc.Name, n)
	raw := c04Sign(c04pClaims(pc, s, pw.r.idp2.Issuer, map[string]interface{}{"jti": tag}, c04TokenIdent(tag, s.Claims), tag), s.Sig)
	t := c04Decode(raw)
	obs := c04Observe(pw.w, func(q *vfReq) *vfResp { return pc.cfg.P.Do(q.H("Authorization", "Bearer "+raw)) })
	pw.judge(pc, "bearer", s, t, c04pReference(t, pc), obs, len(c04SessionCookies(obs.SetCookie)) > 0,
		"GET /oauth2/userinfo and GET /app/data?q=1, each with 'Authorization: Bearer <token above>' and no cookie")
}

type c04pRefresh struct {
	pc       *c04pCfg
	s        c04Spec
	n        int
	tag      string
	b        *vfBrowser
	mu       sync.Mutex
	nonce    interface{}
	tokA     string
	tokB     c04Token
	loginErr error
}

// refreshLogin (clock mocked ten minutes into the past by the caller): an ordinary login with a valid token, identity A
func (pw *c04pWorld) refreshLogin(rc *c04pRefresh) {
	pc := rc.pc
	rc.tag = fmt.Sprintf("pt-%s-rf-%d", pc.Name, rc.n)
	tagA, tagB := rc.tag+"-A", rc.tag+"-B"
	valid := c04Spec{"right", "exact", "cid", "+1h", "true", "full"}
	sub := "login-" + rc.tag
	pw.r.handlers.Store(sub, func(grant string, claims map[string]interface{}) (string, bool) {
		rc.mu.Lock()
		defer rc.mu.Unlock()
		if grant == "code" {
			rc.nonce = claims["nonce"]
			rc.tokA = vfMint(c04pClaims(pc, valid, pw.r.idp2.Issuer, claims, c04TokenIdent(tagA, "full"), tagA), vfMintOpts{})
			pw.toks.Store(rc.tokA, c04pTok{pc, tagA})
			return rc.tokA, true
		}
		base := map[string]interface{}{"iat": claims["iat"], "jti": claims["jti"]}
		if rc.nonce != nil {
			base["nonce"] = rc.nonce // an OP that repeats the nonce in refreshed ID tokens (OIDC core 12.2 allows it)
		}
		raw := c04Sign(c04pClaims(pc, rc.s, pw.r.idp2.Issuer, base, c04TokenIdent(tagB, rc.s.Claims), tagB), rc.s.Sig)
		pw.toks.Store(raw, c04pTok{pc, tagB})
		rc.tokB = c04Decode(raw)
		return raw, true
	})
	rc.b = vfNewBrowser("")
	l, err := pw.start(pc, rc.b, sub, c04Profile(rc.tag))
	if err != nil {
		rc.loginErr = err
		return
	}
	if cb := rc.b.Get(pc.cfg.P, l.CallbackTarget(pc.cfg.P)); cb.Code != 302 {
		rc.loginErr = fmt.Errorf("callback: status %d: %s", cb.Code, vfTrunc(vfErrText(cb.Body), 200))
	}
}

type c04pRefreshObs struct {
	Probe       c04Obs   `json:"after_refresh"`
	MarksOfB    []string `json:"fields_carrying_values_of_the_new_token"`
	IDTokenIsB  bool     `json:"id_token_passed_upstream_is_the_new_token"`
	Emitted     int      `json:"session_cookies_emitted_by_the_refreshing_response"`
	Replayed    *c04Obs  `json:"replay_of_emitted_cookies,omitempty"`
	ReplayMarks []string `json:"replay_fields_carrying_values_of_the_new_token,omitempty"`
}

// which identity fields carry a value derived from the token (or userinfo document) tagged tag
func c04pMarks(o c04Obs, tag string) []string {
	var out []string
	for _, f := range []struct{ n, v string }{{"userinfo.user", o.User}, {"userinfo.email", o.Email}, {"userinfo.preferredUsername", o.PU}, {"userinfo.groups", strings.Join(o.Groups, ",")},
		{"X-Forwarded-User", o.UpUser}, {"X-Forwarded-Email", o.UpEmail}, {"X-Forwarded-Groups", o.UpGroups}, {"X-Forwarded-Preferred-Username", o.UpPU}} {
		if strings.Contains(f.v, tag) {
			out = append(out, f.n+"="+vfTrunc(f.v, 80))
		}
	}
	return out
}

// refreshProbe (real time): the first request with the stale session makes the proxy use the refresh grant, which
// answers with the token under test (identity B).
func (pw *c04pWorld) refreshProbe(rc *c04pRefresh) {
	pc, run := rc.pc, pw.run
	defer pw.r.handlers.Delete("login-" + rc.tag)
	if rc.loginErr != nil {
		run.Eval("")
		run.Count("ptype_refresh_login_as_A_failed_"+pc.Name, 1)
		run.SampleEvery(1, func() interface{} { return map[string]string{"ptype": pc.Name, "refresh_path_login_as_A_failed": rc.loginErr.Error()} })
		return
	}
	var emitted []*http.Cookie
	first := true
	obs := c04Observe(pw.w, func(q *vfReq) *vfResp {
		resp := rc.b.Send(pc.cfg.P, q)
		if first {
			emitted, first = c04SessionCookies(resp.SetCookies()), false
		}
		return resp
	})
	rc.mu.Lock()
	t := rc.tokB
	rc.mu.Unlock()
	if t.Raw == "" {
		run.Eval("")
		run.Count("ptype_refresh_grant_not_used_"+pc.Name, 1)
		return
	}
	tagB := rc.tag + "-B"
	ref := c04pReference(t, pc)
	ro := c04pRefreshObs{Probe: obs, MarksOfB: c04pMarks(obs, tagB), IDTokenIsB: obs.UpHit && obs.UpIDToken == t.Raw, Emitted: len(emitted)}
	steps := "login as A ten minutes ago (valid token, --cookie-refresh=1m); GET /oauth2/userinfo with A's cookies -> the proxy uses the refresh grant, the token endpoint answers the token above as id_token; GET /app/data?q=1"
	run.Eval(c04pCell(pc, "refresh", rc.s, ref))
	run.Count("ptype_cases_refresh", 1)
	if obs.Panic != "" {
		run.Violation("c04:panic", fmt.Sprintf("[%s] refresh path: panic while handling a refreshed token (%s): %s", pc.Name, rc.s, vfTrunc(obs.Panic, 200)), pw.detail(pc, "refresh", rc.s, t, ref, ro, steps))
		return
	}
	adopted := obs.session() && len(ro.MarksOfB) > 0
	switch ref.V {
	case c04Bad:
		// whatever session cookie the refreshing response emitted is replayed too, even if the same response took it back
		if !adopted && len(emitted) > 0 {
			var parts []string
			for _, c := range emitted {
				parts = append(parts, c.Name+"="+c.Value)
			}
			hv := strings.Join(parts, "; ")
			rep := c04Observe(pw.w, func(q *vfReq) *vfResp { return pc.cfg.P.Do(q.H("Cookie", hv)) })
			ro.Replayed, ro.ReplayMarks = &rep, c04pMarks(rep, tagB)
			run.Count("ptype_refresh_emitted_cookie_replays", 1)
			if rep.session() && len(ro.ReplayMarks) > 0 {
				adopted = true
				steps += "; then the session cookie SET by the refreshing response is presented on its own"
			}
		}
		why := "clauses " + fmt.Sprint(ref.Clauses)
		if ref.OnlyBad != "" {
			why = "only failing clause: " + ref.OnlyBad
		}
		switch {
		case adopted:
			run.Violation("c04:ptype-refresh-adopts-invalid-token", fmt.Sprintf("[provider type %s] refresh path: the session carries the identity of a refreshed token the reference rejects (%s; %s): %v %v", pc.Name, why, rc.s, ro.MarksOfB, ro.ReplayMarks),
				pw.detail(pc, "refresh", rc.s, t, ref, ro, steps))
		case obs.session() && ro.IDTokenIsB:
			// identity unchanged, but the rejected token itself was stored and is handed to the upstream (--pass-authorization-header)
			sig := "c04:ptype-refresh-keeps-unverified-id-token"
			if pc.Type == "azure" {
				sig = "c04:ptype-azure-refresh-keeps-unverified-id-token" // observed on the unchanged tree (see the final report); kept apart from the other types
			}
			run.Violation(sig, fmt.Sprintf("[provider type %s] refresh path: identity unchanged, but the refreshed ID token the reference rejects (%s; %s) is now the session's ID token and is passed upstream as Authorization: Bearer", pc.Name, why, rc.s),
				pw.detail(pc, "refresh", rc.s, t, ref, ro, steps))
		}
	case c04Either:
		run.Count(fmt.Sprintf("ptype_undecided_refresh_adopted=%v", adopted), 1)
	case c04OK:
		if adopted {
			run.Count(c04pKey(pc, "refresh"), 1)
		} else {
			run.Count("ptype_valid_refused_"+pc.Name+"_refresh", 1)
			run.SampleEvery(1, func() interface{} { return pw.detail(pc, "refresh", rc.s, t, ref, ro, steps+" [VALID TOKEN NOT TAKEN UP]") })
		}
	}
}

// ---------------------------------------------------------------------------------------------------------

// c04ProviderTypes drives the OIDC-derived provider types; called from TestVerif_C04 (after c04Runner.install()).
func c04ProviderTypes(run *vfRun, w *vfWorld, r *c04Runner) {
	pw := &c04pWorld{run: run, w: w, r: r, ats: map[string][]string{}}
	t0 := time.Now()
	defer func() { run.Extra("provider_types_wall_s", time.Since(t0).Seconds()) }()
	restore := pw.install()
	defer restore()
	thorough := run.Env.Thorough()
	pcs := c04pConfigs(w)
	for _, pc := range pcs {
		p, err := w.NewProxy(pc.cfg.Flags...)
		if err != nil {
			run.T.Fatalf("c04: provider type %s: %v", pc.Name, err)
		}
		pc.cfg.P = p
	}
	specs := c04pSpecs(thorough)
	// refresh path, phase 1: sessions of identity A issued ten minutes in the past (global pkg/clock mock, quiescent point)
	var rcs []*c04pRefresh
	for _, pc := range pcs {
		for n, s := range specs {
			rcs = append(rcs, &c04pRefresh{pc: pc, s: s, n: n})
		}
	}
	clock.Set(time.Now().Add(-10 * time.Minute))
	vfParallel(len(rcs), 16, func(i int) { pw.refreshLogin(rcs[i]) })
	clock.Reset()

	type job struct {
		kind    string
		pc      *c04pCfg
		s       c04Spec
		n       int
		variant string
		rc      *c04pRefresh
	}
	var jobs []job
	for _, pc := range pcs {
		for n, s := range specs {
			jobs = append(jobs, job{kind: "callback", pc: pc, s: s, n: n}, job{kind: "bearer", pc: pc, s: s, n: n})
		}
		if pc.GitLab {
			jobs = append(jobs, job{kind: "callback", pc: pc, s: specs[0], n: 0, variant: "-glunverified-"})
		}
	}
	for _, rc := range rcs {
		jobs = append(jobs, job{kind: "refresh", pc: rc.pc, rc: rc})
	}
	run.Rng.Shuffle(len(jobs), func(a, b int) { jobs[a], jobs[b] = jobs[b], jobs[a] })
	vfParallel(len(jobs), 16, func(i int) {
		j := jobs[i]
		switch j.kind {
		case "callback":
			pw.callbackCase(j.pc, j.s, j.n, j.variant)
		case "bearer":
			pw.bearerCase(j.pc, j.s, j.n)
		case "refresh":
			pw.refreshProbe(j.rc)
		}
	})
	w.Up.Reset()
	// a provider type that is misconfigured against the rig must not pass vacuously
	per := map[string]map[string]int64{}
	for _, pc := range pcs {
		per[pc.Name] = map[string]int64{}
		for _, path := range []string{"callback", "refresh", "bearer"} {
			n := run.Counter(c04pKey(pc, path))
			per[pc.Name][path] = n
			if n < 2 {
				run.Inconclusive(fmt.Sprintf("provider type %s: too few sessions from valid tokens on the %s path", pc.Name, path))
				fmt.Printf("INCONCLUSIVE property=C04 reason=provider type %s: only %d sessions from valid tokens on the %s path\n", pc.Name, n, path)
				run.T.Fail()
			}
		}
	}
	run.Extra("provider_types_sessions_from_valid_tokens", per)
}
