//go:build verif

package main

// C19, thorough tier: coverage-guided fuzzing of whole requests with Go's native fuzzer. The fuzz target decodes its
// arguments into (configuration, structured request); cookie arguments may ask the harness to sign / encrypt /
// compress the fuzzer's bytes (prefixes SIGN: ENC: LZ4: CSRF:) so that the mutation engine reaches the decoding
// layers behind the MAC. ./check builds the instrumented binary and runs it from a scratch cwd with an iteration budget.

import (
	"bytes"
	"io"
	"math/rand"
	"os"
	"strings"
	"sync"
	"testing"
	"time"

	"github.com/oauth2-proxy/oauth2-proxy/v7/pkg/encryption"
	"github.com/pierrec/lz4/v4"
)

var (
	c19FuzzOnce sync.Once
	c19FuzzCtx  []*c19Ctx
)

func c19FuzzInit() {
	c19FuzzOnce.Do(func() {
		vfQuiet()
		_ = os.Setenv("VERIF_WORK", os.TempDir())
		run := &vfRun{ID: "C19", Env: vfEnv(), Rng: rand.New(rand.NewSource(1)), cells: map[string]int{}, counters: map[string]int64{}}
		w := vfNewWorld(nil)
		idp2 := vfNewIdP()
		htp := w.File("htpasswd", "hu:"+vfHtpasswdSHA("hp")+"\n")
		w.File("a.txt", "file content")
		for _, cfg := range c19Configs(w, idp2, htp) {
			switch cfg.Name {
			case "base-cookie", "redis", "csrf-per-request+encode-state+pkce", "bearer+htpasswd", "bypass+domains", "upstreams", "alpha-all-claims-redis", "reverse-proxy/X-Forwarded-For", "reverse-proxy/X-Real-IP":
				c19FuzzCtx = append(c19FuzzCtx, c19Prepare(run, w, idp2, cfg, nil))
			}
		}
	})
}

func c19FuzzCookie(c *c19Ctx, s string) string {
	name := c.CookieName
	wrap := func(payload []byte, n string) string {
		v, _ := encryption.SignedValue(c.Secret, n, payload, time.Now())
		return n + "=" + v
	}
	cfb, _ := encryption.NewCFBCipher(encryption.SecretBytes(c.Secret))
	switch {
	case strings.HasPrefix(s, "SESS:"):
		if len(c.Sess) > 0 {
			return c.Sess[len(s)%len(c.Sess)] + "; " + strings.TrimPrefix(s, "SESS:")
		}
	case (strings.HasPrefix(s, "LZ4:") || strings.HasPrefix(s, "CSRF:")) && c19HugeDecl([]byte(s)):
		return "" // would make msgpack allocate the declared gigabytes (see c19Junk)
	case strings.HasPrefix(s, "ENC:") && c19HugeDecl(c19Unlz4([]byte(s[4:]))):
		return ""
	case strings.HasPrefix(s, "SIGN:"):
		return wrap([]byte(s[5:]), name)
	case strings.HasPrefix(s, "ENC:"):
		e, _ := cfb.Encrypt([]byte(s[4:]))
		return wrap(e, name)
	case strings.HasPrefix(s, "LZ4:"):
		e, _ := cfb.Encrypt(c19LZ4([]byte(s[4:])))
		return wrap(e, name)
	case strings.HasPrefix(s, "CSRF:"):
		e, _ := cfb.Encrypt([]byte(s[5:]))
		return wrap(e, strings.SplitN(c.CSRFCookie, "=", 2)[0])
	}
	return s
}

// c19Unlz4 decompresses at most 8 MiB of an lz4 frame (screening only).
func c19Unlz4(b []byte) []byte {
	zr := lz4.NewReader(bytes.NewReader(b))
	out, _ := io.ReadAll(io.LimitReader(zr, 8<<20))
	return out
}

func c19Token(s string) bool {
	if s == "" || len(s) > 20 {
		return false
	}
	for i := 0; i < len(s); i++ {
		ch := s[i]
		if !((ch >= 'A' && ch <= 'Z') || (ch >= 'a' && ch <= 'z')) {
			return false
		}
	}
	return true
}

func FuzzVerif_C19(f *testing.F) {
	// Build the instances before the first execution: the fuzz engine declares a target "deadlocked" after 10 s.
	c19FuzzInit()
	// seeds: the grammar pools in benign and hostile combinations
	f.Add(uint8(0), "GET", "/x", "proxy.test", "", "", "", "")
	f.Add(uint8(1), "GET", "/oauth2/userinfo", "proxy.test", "SESS:", "", "", "")
	f.Add(uint8(2), "GET", "/oauth2/callback?state=abc:/x&code=c", "proxy.test", "CSRF:\x83\xa1s\xc4\x01a\xa1n\xc4\x01b\xa2cv\xa1v", "", "", "")
	f.Add(uint8(3), "GET", "/x", "proxy.test", "", "Basic aHU6aHA=", "", "")
	f.Add(uint8(3), "GET", "/x", "proxy.test", "", "Bearer eyJhbGciOiJSUzI1NiJ9.eyJpc3MiOiJ4In0.c2ln", "", "")
	f.Add(uint8(4), "OPTIONS", "/public/a?x=1", "sub.proxy.test:8443", "", "", "X-Forwarded-For: 10.0.0.1", "")
	f.Add(uint8(5), "POST", "/oauth2/sign_in", "proxy.test", "", "", "Content-Type: application/x-www-form-urlencoded", "username=hu&password=hp&rd=/x")
	f.Add(uint8(6), "GET", "/x", "proxy.test", "LZ4:\x85\xa1e\xa3a@b\xa1u\xa1u\xa2ca\xd6\xff\x00\x00\x00\x01\xa1g\x91\xa1g\xa2at\xa1t", "", "", "")
	f.Add(uint8(7), "GET", "/oauth2/auth?allowed_groups=a,b&allowed_email_domains=x", "proxy.test", "SIGN:v2.aWQ.c2VjcmV0c2VjcmV0c2VjcmV0", "", "", "")
	f.Add(uint8(8), "GET", "/oauth2/start?rd=https://good.test/x", "proxy.test", "", "", "X-Forwarded-Host: good.test\nX-Forwarded-Proto: https\nX-Forwarded-Uri: /y?z=1\nX-Forwarded-For: 10.1.2.3, 1.1.1.1", "")
	f.Add(uint8(9), "GET", "/oauth2/sign_out?rd=//evil.test", "[::1]:80", "ENC:\x04\x22\x4d\x18", "", "X-Real-IP: [::1]:80\nX-Auth-Request-Redirect: /\\evil", "")
	f.Add(uint8(0), "HEAD", "/%2F/x;y?%zz", "proxy.test", "_oauth2_proxy=a|b|c", "Bearer", "Accept: application/json\nConnection: Upgrade\nUpgrade: websocket", "")
	f.Fuzz(func(t *testing.T, cfg uint8, method, target, host, cookie, auth, hdrs, body string) {
		c19FuzzInit()
		c := c19FuzzCtx[int(cfg)%len(c19FuzzCtx)]
		if !c19Token(method) {
			method = "GET"
		}
		if target == "" || strings.ContainsAny(target, " \r\n") {
			return
		}
		r := vfNewReq(method, target)
		if host != "" {
			r.Host = host
		}
		if cookie != "" {
			r.H("Cookie", c19FuzzCookie(c, cookie))
		}
		if auth != "" {
			r.H("Authorization", auth)
		}
		for _, l := range strings.Split(hdrs, "\n") {
			if k := strings.Index(l, ": "); k > 0 {
				r.H(l[:k], l[k+2:])
			}
		}
		if body != "" {
			r.Body = []byte(body)
		}
		resp := c.P.Do(r)
		if resp.Invalid != "" {
			return
		}
		if resp.Panic != "" {
			t.Fatalf("PANIC in request handling (config %s): %s\nflags: %v\nrequest: %q\nstack:\n%s", c.Cfg.Name, resp.Panic, c.P.Flags, string(r.Bytes()), vfTrunc(resp.Stack, 5000))
		}
	})
}
