//go:build verif

package main

// C04 — Identity comes only from tokens the configured issuer signed for this client.
//
// Oracle (reference predicate, written from the property statement and the option docs, never by calling the
// repository's verifier):
//
//   V(token, cfg) = sigOK ∧ issOK ∧ audOK ∧ expOK ∧ evOK
//     sigOK  alg RS256 and the RSA signature verifies (crypto/rsa, stdlib) under the issuer's published key
//     issOK  claim iss is a string equal to the configured issuer, byte for byte
//     audOK  the first *present* configured audience claim (default: aud) is a string or a list of strings that
//            contains the client id or a configured extra audience
//     expOK  exp is a number and lies in the future
//     evOK   e-mail claim name != "email" ∨ allow-unverified ∨ email_verified is not false
//   (bearer path: ∃ configured verifier — primary issuer/client id, or an extra JWT issuer/audience pair).
//
//   session (cookie issued · /oauth2/userinfo answers 200 · upstream reached)  ⇒  V           [violation otherwise]
//   V ⇒ session is *not* what the statement says ("created only from"); a valid token that is refused is counted
//   as inconclusive (a run in which valid tokens stop working proves nothing and must not pass).
//   On refresh the session afterwards is identity B with B's tokens (only if V), or the unchanged identity A with
//   A's tokens, or signed out — never a mixture, and no Set-Cookie of the response may carry a B session if ¬V.
//   When a session exists: user / e-mail / groups / preferred username equal the token's configured claims; a claim
//   the token lacks may be empty or come from the profile endpoint (whose values are all different, and which may
//   not be consulted at all with --skip-claims-from-profile-url).
//
// Where the statement does not decide (kid not published but signature right, malformed aud next to a valid custom
// audience claim, exp within seconds of now, ...) the clause is "either": nothing is asserted.

import (
	"crypto"
	"crypto/rsa"
	"crypto/sha256"
	"encoding/base64"
	"encoding/json"
	"fmt"
	"math/rand"
	"net/http"
	"net/http/httptest"
	"sort"
	"strconv"
	"strings"
	"sync"
	"testing"
	"time"

	jose "github.com/go-jose/go-jose/v3"
	"github.com/oauth2-proxy/oauth2-proxy/v7/pkg/clock"
)

type c04Tri int

const (
	c04OK c04Tri = iota
	c04Bad
	c04Either
)

func (t c04Tri) String() string { return [...]string{"ok", "bad", "either"}[t] }

type c04Verifier struct {
	Issuer   string
	ClientID string
	Extra    bool // an --extra-jwt-issuers entry (bearer path only, standard claim names)
}

type c04Cfg struct {
	Name            string
	Flags           []string
	Verifiers       []c04Verifier // [0] = primary
	ExtraAud        []string
	AudClaims       []string
	AllowUnverified bool
	EmailClaim      string
	GroupsClaim     string
	SkipProfile     bool
	StaticKeys      bool // public-key files: the kid of a token plays no role
	SkipNonce       bool
	Redis           bool
	DecoyClaims     []string // further candidate claims that must NOT be read (carry distinct decoy values)
	AllowedGroups   []string // --allowed-group: the authorisation decision must follow the TOKEN's groups, element boundaries included
	ExtraIss        string // issuer string of the extra JWT issuer of this configuration ("" = the second rig IdP)
	BearerOnly      bool   // configuration differs from "disc" only on the bearer path
	Alpha           string // structured (YAML) configuration: the provider is defined there, Flags are added to AlphaBaseFlags (c04_alpha.go)
	NoLiveness      bool   // optional oidcConfig fields are left out: the reference applies the documented defaults, an instance that refuses every token is fine too ("created only from")
	ClaimsOmitted   bool   // emailClaim / groupsClaim left out of the YAML: which claims feed e-mail and groups (and whether email_verified counts) is not asserted
	Light           bool   // quick tier: thinned case lists (c04Cfg.trim)
	P               *vfProxy
}

func (c *c04Cfg) defaultClaimNames() bool { return c.EmailClaim == "email" && c.GroupsClaim == "groups" }

const c04ExtraAudience = "aud2"

// c04JWKSOnlyIssuer: an issuer WITHOUT a discovery document (404) that publishes the rig's signing key under
// /.well-known/jwks.json — the documented fallback form of an --extra-jwt-issuers entry.
func c04JWKSOnlyIssuer(w *vfWorld) string {
	mux := http.NewServeMux()
	mux.HandleFunc("/.well-known/jwks.json", func(rw http.ResponseWriter, _ *http.Request) {
		rw.Header().Set("Content-Type", "application/json")
		_ = json.NewEncoder(rw).Encode(jose.JSONWebKeySet{Keys: []jose.JSONWebKey{{Key: &vfKeyA.PublicKey, KeyID: "k1", Algorithm: "RS256", Use: "sig"}}})
	})
	mux.HandleFunc("/", func(rw http.ResponseWriter, r *http.Request) { http.NotFound(rw, r) })
	srv := httptest.NewServer(mux)
	w.OnClose(func() { srv.CloseClientConnections(); srv.Close() })
	return srv.URL
}

func c04Configs(w *vfWorld, idp2 *vfIdP, thorough bool) []*c04Cfg {
	jwksOnly := c04JWKSOnlyIssuer(w)
	iss := w.IdP.Issuer
	pemA := w.File("c04-issuer-key.pem", string(vfPubPEM(&vfKeyA.PublicKey)))
	common := []string{"--skip-jwt-bearer-tokens=true", "--cookie-refresh=1m", "--pass-access-token=true", "--pass-authorization-header=true"}
	static := []string{"--skip-oidc-discovery=true", "--login-url=" + iss + "/authorize", "--redeem-url=" + iss + "/token", "--profile-url=" + iss + "/userinfo"}
	mk := func(name string, mod func(c *c04Cfg), flags ...string) *c04Cfg {
		c := &c04Cfg{Name: name, Verifiers: []c04Verifier{{Issuer: iss, ClientID: "cid"}}, AudClaims: []string{"aud"}, EmailClaim: "email", GroupsClaim: "groups"}
		c.Flags = append(append([]string{}, common...), flags...)
		if mod != nil {
			mod(c)
		}
		return c
	}
	redis := []string{"--session-store-type=redis", "--redis-connection-url=" + w.RedisURL()}
	cfgs := []*c04Cfg{
		mk("disc", nil),
		mk("disc-redis", func(c *c04Cfg) { c.Redis = true }, redis...),
		mk("jwks-url", nil, append([]string{"--oidc-jwks-url=" + iss + "/jwks"}, static...)...),
		mk("key-file", func(c *c04Cfg) { c.StaticKeys = true }, append([]string{"--oidc-public-key-file=" + pemA}, static...)...),
		mk("extra-aud", func(c *c04Cfg) { c.ExtraAud = []string{"xa1", "xa2"} }, "--oidc-extra-audience=xa1", "--oidc-extra-audience=xa2"),
		mk("audclaim-azp+aud", func(c *c04Cfg) { c.AudClaims = []string{"azp", "aud"} }, "--oidc-audience-claim=azp", "--oidc-audience-claim=aud"),
		mk("audclaim-azp", func(c *c04Cfg) { c.AudClaims = []string{"azp"} }, "--oidc-audience-claim=azp"),
		mk("allow-unverified", func(c *c04Cfg) { c.AllowUnverified = true }, "--insecure-oidc-allow-unverified-email=true"),
		mk("custom-claims", func(c *c04Cfg) { c.EmailClaim, c.GroupsClaim = "mail", "roles" }, "--oidc-email-claim=mail", "--oidc-groups-claim=roles"),
		mk("user-id-claim", func(c *c04Cfg) { c.EmailClaim = "upn" }, "--user-id-claim=upn"),
		// both options set: an explicitly configured --oidc-email-claim decides; the deprecated --user-id-claim only stands
		// in while --oidc-email-claim is at its default (option docs; providers.go "Backwards Compatibility for Deprecated UserIDClaim")
		mk("email-claim+user-id-claim", func(c *c04Cfg) { c.EmailClaim, c.DecoyClaims, c.BearerOnly = "mail", []string{"upn"}, !thorough }, "--oidc-email-claim=mail", "--user-id-claim=upn"),
		mk("user-id-claim+email-claim-reversed", func(c *c04Cfg) { c.EmailClaim, c.DecoyClaims, c.BearerOnly = "upn", []string{"mail"}, true }, "--oidc-email-claim=upn", "--user-id-claim=mail"),
		mk("email-claim-default+user-id-claim-default", func(c *c04Cfg) { c.DecoyClaims, c.BearerOnly = []string{"mail", "upn"}, true }, "--oidc-email-claim=email", "--user-id-claim=email"),
		mk("no-profile", func(c *c04Cfg) { c.SkipProfile = true }, "--skip-claims-from-profile-url=true"),
		mk("extra-issuer", func(c *c04Cfg) {
			c.Verifiers = append(c.Verifiers, c04Verifier{Issuer: idp2.Issuer, ClientID: c04ExtraAudience, Extra: true})
		}, "--extra-jwt-issuers="+idp2.Issuer+"="+c04ExtraAudience),
		mk("skip-nonce", func(c *c04Cfg) { c.SkipNonce = true }, "--insecure-oidc-skip-nonce=true"),
		mk("allowed-group", func(c *c04Cfg) { c.AllowedGroups = []string{"Admins"} }, "--allowed-group=Admins"),
		mk("extra-issuer-jwks-only", func(c *c04Cfg) {
			c.ExtraIss, c.BearerOnly = jwksOnly, true
			c.Verifiers = append(c.Verifiers, c04Verifier{Issuer: jwksOnly, ClientID: c04ExtraAudience, Extra: true})
		}, "--extra-jwt-issuers="+jwksOnly+"="+c04ExtraAudience),
	}
	if thorough {
		cfgs = append(cfgs,
			mk("key-file-redis", func(c *c04Cfg) { c.StaticKeys, c.Redis = true, true }, append(append([]string{"--oidc-public-key-file=" + pemA}, static...), redis...)...),
			mk("audclaim-azp+aud-redis", func(c *c04Cfg) { c.AudClaims, c.Redis = []string{"azp", "aud"}, true }, append([]string{"--oidc-audience-claim=azp", "--oidc-audience-claim=aud"}, redis...)...),
			mk("extra-issuer-unverified", func(c *c04Cfg) {
				c.AllowUnverified = true
				c.Verifiers = append(c.Verifiers, c04Verifier{Issuer: idp2.Issuer, ClientID: c04ExtraAudience, Extra: true})
			}, "--extra-jwt-issuers="+idp2.Issuer+"="+c04ExtraAudience, "--insecure-oidc-allow-unverified-email=true"),
		)
	}
	return append(cfgs, c04AlphaConfigs(w, thorough)...)
}

// ---------------------------------------------------------------------------------------------------------
// token grid

type c04Spec struct{ Sig, Iss, Aud, Exp, EV, Claims string }

func (s c04Spec) String() string {
	return fmt.Sprintf("sig=%s iss=%s aud=%s exp=%s ev=%s claims=%s", s.Sig, s.Iss, s.Aud, s.Exp, s.EV, s.Claims)
}

var (
	c04SigVals   = []string{"right", "right-nokid", "right-otherkid", "foreign-samekid", "foreign-otherkid", "foreign-nokid", "none", "none-junksig", "hs256-pem", "hs256-der", "es256", "badsig", "sig-of-other"}
	c04IssVals   = []string{"exact", "slash", "other", "missing", "case", "suffix", "number", "extra", "extra-slash", "extra-suffix", "extra-path"}
	c04AudVals   = []string{"cid", "[cid]", "[other,cid]", "extra", "[other,extra]", "other", "[]", "missing", "number", "object", "[1]", "null", "cid-prefix", "CID", "extra-issuer-aud", "azp=cid", "azp=[other,cid]", "azp=other,aud=cid", "azp=number", "azp=[1,2]", "azp=object", "azp=[]", "azp=cid,aud=missing", "azp=[cid,1]", "empty-string", "azp=true", "azp=[other,7]"}
	c04ExpVals   = []string{"+1h", "+5m", "-1h", "-90s", "missing", "string"}
	c04EVVals    = []string{"absent", "true", "false", "str-false"}
	c04ClaimVals = []string{"full", "no-email", "no-pu", "no-groups", "minimal", "unicode", "long", "groups-scalar", "groups-empty-list", "groups-empty-string", "pu-empty", "email-empty", "all-empty",
		"groups-string-blanks", "groups-string-ctl", "groups-list-blanks", "groups-number", "groups-nested", "groups-object", "strings-with-blanks",
		"numbers-big", "numbers-noncanonical", "groups-number-big"}
)

// c04Baseline: a token that is valid under the configuration (for the primary issuer, or for the extra JWT issuer).
func c04Baseline(cfg *c04Cfg, extraIssuer bool) c04Spec {
	s := c04Spec{"right", "exact", "cid", "+1h", "absent", "full"}
	if extraIssuer {
		s.Iss, s.Aud = "extra", "extra-issuer-aud"
	}
	if len(cfg.AudClaims) > 0 && cfg.AudClaims[0] == "azp" && len(cfg.AudClaims) == 1 {
		s.Aud = "azp=cid" // aud is not consulted at all in this configuration
	}
	return s
}

func (s c04Spec) with(dim int, v string) c04Spec {
	switch dim {
	case 0:
		s.Sig = v
	case 1:
		s.Iss = v
	case 2:
		s.Aud = v
	case 3:
		s.Exp = v
	case 4:
		s.EV = v
	case 5:
		s.Claims = v
	}
	return s
}

var c04Dims = [][]string{c04SigVals, c04IssVals, c04AudVals, c04ExpVals, c04EVVals, c04ClaimVals}

// c04Specs: every single-dimension deviation from the valid baseline, (thorough) every pair of deviations,
// plus a seeded random sample of arbitrary combinations.
func c04Specs(rng *rand.Rand, base c04Spec, pairs bool, random int) []c04Spec {
	seen := map[c04Spec]bool{}
	var out []c04Spec
	add := func(s c04Spec) {
		if !seen[s] {
			seen[s] = true
			out = append(out, s)
		}
	}
	add(base)
	for d, vals := range c04Dims {
		for _, v := range vals {
			add(base.with(d, v))
		}
	}
	if pairs {
		for d1 := 0; d1 < len(c04Dims); d1++ {
			for d2 := d1 + 1; d2 < len(c04Dims); d2++ {
				for _, v1 := range c04Dims[d1] {
					for _, v2 := range c04Dims[d2] {
						add(base.with(d1, v1).with(d2, v2))
					}
				}
			}
		}
	}
	for k := 0; k < random; k++ {
		s := base
		for d, vals := range c04Dims {
			if rng.Intn(100) < 45 {
				s = s.with(d, vals[rng.Intn(len(vals))])
			}
		}
		add(s)
	}
	return out
}

// identity values of one case; all distinct between token, decoy (standard claim names when custom ones are
// configured) and profile endpoint.
type c04Ident struct {
	Sub, Email, PU string
	Groups         []string
}

func c04TokenIdent(tag string, kind string) c04Ident {
	// mixed case, deliberately unsorted groups: the session must carry the claims as they are, not a normalised form
	id := c04Ident{Sub: "Sub-" + tag, Email: "First.Last+" + tag + "@Tok.Test", PU: "Pu-" + tag, Groups: []string{"zz-" + tag, "Admins", "aa-common"}}
	switch kind {
	case "unicode":
		id.Email = "ünï-" + tag + "@tök.test"
		id.PU = "пользователь " + tag + " ✓"
		id.Groups = []string{"grüppe/" + tag, "组", "a b", "x=y;z"}
	case "strings-with-blanks":
		id.Sub = "Sub With Blanks " + tag
		id.Email = "First Last " + tag + "@Tok.Test"
		id.PU = "Pu\twith tab, comma " + tag
	case "long":
		id.Email = strings.Repeat("l", 180) + "-" + tag + "@tok.test"
		id.PU = strings.Repeat("p", 300) + tag
		id.Groups = nil
		for k := 0; k < 60; k++ {
			id.Groups = append(id.Groups, fmt.Sprintf("long-group-%s-%03d-%s", tag, k, strings.Repeat("g", 24)))
		}
	}
	return id
}

func c04Profile(tag string) map[string]interface{} {
	return map[string]interface{}{
		"sub": "profile-sub-" + tag, "email": "profile-" + tag + "@profile.test", "groups": []string{"profile-group-" + tag},
		"preferred_username": "profile-pu-" + tag, "mail": "profile-mail-" + tag + "@profile.test", "roles": []string{"profile-role-" + tag},
		"upn": "profile-upn-" + tag + "@profile.test",
	}
}

// c04Claims builds the claim set of the token under test. base carries what the provider would have put into the
// token anyway (nonce, iat, jti); everything the specification talks about is set explicitly here.
func c04Claims(s c04Spec, cfg *c04Cfg, idp2Issuer string, base map[string]interface{}, id c04Ident, tag string) map[string]interface{} {
	c := map[string]interface{}{}
	for k, v := range base {
		switch k {
		case "nonce", "iat", "jti":
			c[k] = v
		}
	}
	if _, ok := c["iat"]; !ok {
		c["iat"] = time.Now().Unix()
	}
	iss := cfg.Verifiers[0].Issuer
	if cfg.ExtraIss != "" {
		idp2Issuer = cfg.ExtraIss
	}
	switch s.Iss {
	case "exact":
		c["iss"] = iss
	case "slash":
		c["iss"] = iss + "/"
	case "other":
		c["iss"] = "https://evil.test"
	case "missing":
	case "case":
		c["iss"] = strings.Replace(iss, "http://", "HTTP://", 1)
	case "suffix":
		c["iss"] = iss + ".evil.test"
	case "number":
		c["iss"] = 5
	case "extra":
		c["iss"] = idp2Issuer
	case "extra-slash":
		c["iss"] = idp2Issuer + "/"
	case "extra-suffix":
		c["iss"] = idp2Issuer + ".evil.test"
	case "extra-path":
		c["iss"] = idp2Issuer + "/.well-known/jwks.json"
	}
	xa := "xa1"
	switch s.Aud {
	case "cid":
		c["aud"] = "cid"
	case "[cid]":
		c["aud"] = []string{"cid"}
	case "[other,cid]":
		c["aud"] = []string{"other", "cid"}
	case "extra":
		c["aud"] = xa
	case "[other,extra]":
		c["aud"] = []string{"other", "xa2"}
	case "other":
		c["aud"] = "other"
	case "[]":
		c["aud"] = []string{}
	case "missing":
	case "number":
		c["aud"] = 5
	case "object":
		c["aud"] = map[string]interface{}{"cid": true}
	case "[1]":
		c["aud"] = []interface{}{1}
	case "null":
		c["aud"] = nil
	case "cid-prefix":
		c["aud"] = "cid2"
	case "CID":
		c["aud"] = "CID"
	case "extra-issuer-aud":
		c["aud"] = c04ExtraAudience
	case "azp=cid":
		c["aud"], c["azp"] = "other", "cid"
	case "azp=[other,cid]":
		c["aud"], c["azp"] = "other", []string{"other", "cid"}
	case "azp=other,aud=cid":
		c["aud"], c["azp"] = "cid", "other"
	case "azp=number":
		c["aud"], c["azp"] = "cid", 123
	case "azp=[1,2]":
		c["aud"], c["azp"] = "cid", []interface{}{1, 2}
	case "azp=object":
		c["aud"], c["azp"] = "cid", map[string]interface{}{"cid": "cid"}
	case "azp=[]":
		c["aud"], c["azp"] = "cid", []string{}
	case "azp=cid,aud=missing":
		c["azp"] = "cid"
	case "azp=[cid,1]":
		c["aud"], c["azp"] = "cid", []interface{}{"cid", 1}
	case "empty-string":
		c["aud"] = ""
	case "azp=true":
		c["aud"], c["azp"] = "cid", true
	case "azp=[other,7]":
		c["aud"], c["azp"] = "cid", []interface{}{"some-other-client", 7}
	}
	now := time.Now()
	switch s.Exp {
	case "+1h":
		c["exp"] = now.Add(time.Hour).Unix()
	case "+5m":
		c["exp"] = now.Add(5 * time.Minute).Unix()
	case "-1h":
		c["exp"] = now.Add(-time.Hour).Unix()
	case "-90s":
		c["exp"] = now.Add(-90 * time.Second).Unix()
	case "missing":
	case "string":
		c["exp"] = "abc"
	}
	switch s.EV {
	case "true":
		c["email_verified"] = true
	case "false":
		c["email_verified"] = false
	case "str-false":
		c["email_verified"] = "false"
	}
	// identity claims under the configured names; the standard names carry decoys when custom names are configured
	c["sub"] = id.Sub
	c[cfg.EmailClaim] = id.Email
	c[cfg.GroupsClaim] = id.Groups
	c["preferred_username"] = id.PU
	if cfg.EmailClaim != "email" {
		c["email"] = "decoy-" + tag + "@decoy.test"
	}
	for _, d := range cfg.DecoyClaims {
		c[d] = "decoy-" + d + "-" + tag + "@decoy.test"
	}
	if cfg.GroupsClaim != "groups" {
		c["groups"] = []string{"decoy-group-" + tag}
	}
	switch s.Claims {
	case "no-email":
		delete(c, cfg.EmailClaim)
	case "no-pu":
		delete(c, "preferred_username")
	case "no-groups":
		delete(c, cfg.GroupsClaim)
	case "minimal":
		delete(c, cfg.EmailClaim)
		delete(c, "preferred_username")
		delete(c, cfg.GroupsClaim)
	case "groups-scalar":
		c[cfg.GroupsClaim] = "solo-" + tag
	// present but empty: the claim IS the token's claim — the profile endpoint is for claims the token lacks
	case "groups-empty-list":
		c[cfg.GroupsClaim] = []string{}
	case "groups-empty-string":
		c[cfg.GroupsClaim] = ""
	case "pu-empty":
		c["preferred_username"] = ""
	case "email-empty":
		c[cfg.EmailClaim] = ""
	case "all-empty":
		c[cfg.GroupsClaim] = []string{}
		c["preferred_username"] = ""
		c[cfg.EmailClaim] = ""
	// shapes of the groups claim: a lone string is ONE group, verbatim — blanks, tabs, newlines and commas included;
	// list elements keep their blanks; numbers / nested values are rendered as the docs say (decimal text, JSON text)
	case "groups-string-blanks":
		c[cfg.GroupsClaim] = "Helpdesk Admins " + tag
	case "groups-string-ctl":
		c[cfg.GroupsClaim] = "ops\tAdmins\nline2, Admins," + tag
	case "groups-list-blanks":
		c[cfg.GroupsClaim] = []string{"Help desk " + tag, "Site Admins", "x,y", " lead"}
	case "groups-number":
		c[cfg.GroupsClaim] = 42
	case "groups-nested":
		c[cfg.GroupsClaim] = []interface{}{[]interface{}{"Admins", "b"}, map[string]interface{}{"k": 1}, "p q", 7, true}
	case "groups-object":
		c[cfg.GroupsClaim] = map[string]interface{}{"Admins": true, "n": 1}
	// numeric claims: rendered as the number's text exactly as transmitted — integers beyond 2^53 must not be rounded,
	// non-canonical spellings must not be re-spelled
	case "numbers-big":
		c[cfg.EmailClaim] = json.Number("9007199254740993") // 2^53+1
		c[cfg.GroupsClaim] = []interface{}{json.Number("1152921504606846977"), json.Number("9223372036854775807"), json.Number("18446744073709551615"), json.Number("-9007199254740993"), "Admins"}
		c["preferred_username"] = json.Number("1152921504606846977") // 2^60+1
	case "numbers-noncanonical":
		c[cfg.EmailClaim] = json.Number("1.0")
		c[cfg.GroupsClaim] = []interface{}{json.Number("1e3"), json.Number("1.50"), json.Number("0.10"), json.Number("-0"), json.Number("1E+2"), json.Number("12345678901234567890.5")}
		c["preferred_username"] = json.Number("1e3")
	case "groups-number-big":
		c[cfg.GroupsClaim] = json.Number("1152921504606846977")
	}
	return c
}

func c04Sign(claims map[string]interface{}, sig string) string {
	part := func(t string, k int) string { return strings.Split(t, ".")[k] }
	switch sig {
	case "right":
		return vfMint(claims, vfMintOpts{})
	case "right-nokid":
		return vfMint(claims, vfMintOpts{Kid: "-"})
	case "right-otherkid":
		return vfMint(claims, vfMintOpts{Kid: "k9"})
	case "foreign-samekid":
		return vfMint(claims, vfMintOpts{Key: vfKeyB})
	case "foreign-otherkid":
		return vfMint(claims, vfMintOpts{Key: vfKeyB, Kid: "k2"})
	case "foreign-nokid":
		return vfMint(claims, vfMintOpts{Key: vfKeyB, Kid: "-"})
	case "none":
		return vfMint(claims, vfMintOpts{Alg: "none"})
	case "none-junksig":
		return vfMint(claims, vfMintOpts{Alg: "none"}) + part(vfMint(claims, vfMintOpts{}), 2)
	case "hs256-pem":
		return vfMint(claims, vfMintOpts{Alg: "HS256", HMACKey: vfPubPEM(&vfKeyA.PublicKey)})
	case "hs256-der":
		return vfMint(claims, vfMintOpts{Alg: "HS256", HMACKey: vfPubDER(&vfKeyA.PublicKey)})
	case "es256":
		return vfMint(claims, vfMintOpts{Alg: "ES256"})
	case "badsig":
		return vfMint(claims, vfMintOpts{BadSig: true})
	case "sig-of-other":
		// a genuine signature of the issuer — over the claims of somebody else
		other := map[string]interface{}{}
		for k, v := range claims {
			other[k] = v
		}
		other["sub"] = "somebody-else"
		want, signed := vfMint(claims, vfMintOpts{}), vfMint(other, vfMintOpts{})
		return part(want, 0) + "." + part(want, 1) + "." + part(signed, 2)
	}
	panic("c04: unknown sig variant " + sig)
}

// ---------------------------------------------------------------------------------------------------------
// reference predicate (works on the minted token as transmitted: header + payload decoded with encoding/json)

type c04Token struct {
	Raw    string
	Header map[string]interface{}
	Claims map[string]interface{}
}

func c04Decode(raw string) c04Token {
	t := c04Token{Raw: raw}
	// numbers keep their text exactly as transmitted (json.Number): the reference renders a numeric claim verbatim
	if parts := strings.Split(raw, "."); len(parts) >= 2 {
		if b, err := base64.RawURLEncoding.DecodeString(parts[1]); err == nil {
			d := json.NewDecoder(strings.NewReader(string(b)))
			d.UseNumber()
			_ = d.Decode(&t.Claims)
		}
	}
	if b, err := base64.RawURLEncoding.DecodeString(strings.Split(raw, ".")[0]); err == nil {
		_ = json.Unmarshal(b, &t.Header)
	}
	return t
}

func c04SigOK(t c04Token, cfg *c04Cfg) c04Tri {
	parts := strings.Split(t.Raw, ".")
	if len(parts) != 3 {
		return c04Bad
	}
	if alg, _ := t.Header["alg"].(string); alg != "RS256" {
		return c04Bad
	}
	sig, err := base64.RawURLEncoding.DecodeString(parts[2])
	if err != nil {
		return c04Bad
	}
	h := sha256.Sum256([]byte(parts[0] + "." + parts[1]))
	if rsa.VerifyPKCS1v15(&vfKeyA.PublicKey, crypto.SHA256, h[:], sig) != nil {
		return c04Bad
	}
	if kid, has := t.Header["kid"]; has && kid != "k1" && !cfg.StaticKeys {
		return c04Either // right key, but under a key id the issuer does not publish
	}
	return c04OK
}

func c04StrList(v interface{}) ([]string, bool) {
	switch x := v.(type) {
	case string:
		return []string{x}, true
	case []interface{}:
		out := []string{}
		for _, e := range x {
			s, ok := e.(string)
			if !ok {
				return nil, false
			}
			out = append(out, s)
		}
		return out, true
	}
	return nil, false
}

func c04AudOK(t c04Token, cfg *c04Cfg, v c04Verifier) c04Tri {
	allowed := map[string]bool{v.ClientID: true}
	for _, a := range cfg.ExtraAud {
		allowed[a] = true
	}
	res := c04Bad
	usedAud := false
	for _, name := range cfg.AudClaims {
		val, present := t.Claims[name]
		if !present {
			continue
		}
		if val == nil {
			return c04Either // "present but null": the statement does not say whether the next claim is consulted
		}
		usedAud = name == "aud"
		if list, ok := c04StrList(val); ok {
			for _, a := range list {
				if allowed[a] {
					res = c04OK
				}
			}
		}
		break
	}
	if res == c04OK && !usedAud {
		// accepted through a custom audience claim: a malformed standard aud next to it is not decided by the statement
		if a, has := t.Claims["aud"]; has {
			if _, ok := c04StrList(a); !ok {
				return c04Either
			}
		}
	}
	return res
}

func c04ExpOK(t c04Token) c04Tri {
	n, ok := t.Claims["exp"].(json.Number)
	if !ok {
		return c04Bad
	}
	f, err := n.Float64()
	if err != nil {
		return c04Bad
	}
	d := time.Until(time.Unix(int64(f), 0))
	switch {
	case d > 30*time.Second:
		return c04OK
	case d < -30*time.Second:
		return c04Bad
	}
	return c04Either
}

func c04EVOK(t c04Token, cfg *c04Cfg, v c04Verifier) c04Tri {
	ev, has := t.Claims["email_verified"]
	marked := false // marked unverified
	switch x := ev.(type) {
	case bool:
		marked = !x
	case string:
		if x == "false" {
			marked = true
		} else if x != "true" {
			return c04Either
		}
	default:
		if has && ev != nil {
			return c04Either
		}
	}
	if !marked {
		return c04OK
	}
	if cfg.ClaimsOmitted {
		return c04Either // emailClaim left out of the YAML: whether the e-mail read is the "standard e-mail claim" is not decided
	}
	if v.Extra {
		// foreign issuers go through a converter that knows nothing of the e-mail options: the statement's
		// exceptions (custom e-mail claim, allow-unverified) are not asserted either way there
		if cfg.EmailClaim != "email" || cfg.AllowUnverified {
			return c04Either
		}
		return c04Bad
	}
	if cfg.EmailClaim != "email" || cfg.AllowUnverified {
		return c04OK
	}
	return c04Bad
}

type c04Ref struct {
	V        c04Tri
	Verifier int               // accepting verifier, or the one with the fewest failing clauses
	Clauses  map[string]c04Tri // of that verifier
	OnlyBad  string            // name of the single failing clause, if exactly one fails and none is undecided
}

func c04Reference(t c04Token, cfg *c04Cfg, bearer bool) c04Ref {
	best := c04Ref{V: c04Bad, Verifier: -1}
	bestBad, bestEither := 99, 0
	undecided := false
	for k, v := range cfg.Verifiers {
		if v.Extra && !bearer {
			continue
		}
		cl := map[string]c04Tri{"sig": c04SigOK(t, cfg), "aud": c04AudOK(t, cfg, v), "exp": c04ExpOK(t), "ev": c04EVOK(t, cfg, v)}
		cl["iss"] = c04Bad
		if s, ok := t.Claims["iss"].(string); ok && s == v.Issuer {
			cl["iss"] = c04OK
		}
		if v.Extra && len(cfg.ExtraAud) > 0 && cl["aud"] == c04OK {
			cl["aud"] = c04Either // whether --oidc-extra-audience applies to foreign issuers is not documented
		}
		bad, either := 0, 0
		for _, r := range cl {
			switch r {
			case c04Bad:
				bad++
			case c04Either:
				either++
			}
		}
		if v.Extra && bad == 0 {
			// the converter for foreign issuers decodes the standard claims strictly (groups must be a list of strings);
			// whether a token with a scalar groups claim is usable there is not decided by the statement
			for _, name := range []string{"email", "preferred_username"} {
				if v, has := t.Claims[name]; has && v != nil {
					if _, isString := v.(string); !isString {
						either++
					}
				}
			}
			if g, has := t.Claims["groups"]; has {
				if _, allStrings := c04StrList(g); !allStrings {
					either++
				} else if _, isList := g.([]interface{}); !isList {
					either++
				}
			}
		}
		if bad == 0 && either == 0 {
			return c04Ref{V: c04OK, Verifier: k, Clauses: cl}
		}
		if bad == 0 {
			undecided = true
		}
		if bad < bestBad {
			bestBad, bestEither = bad, either
			best.Verifier, best.Clauses = k, cl
		}
	}
	if undecided {
		best.V = c04Either
		return best
	}
	if bestBad == 1 && bestEither == 0 {
		for n, r := range best.Clauses {
			if r == c04Bad {
				best.OnlyBad = n
			}
		}
	}
	return best
}

// documented coercion of a claim value into a string (numbers as decimal text, anything structured as JSON text)
func c04Render(v interface{}) string {
	switch x := v.(type) {
	case string:
		return x
	case json.Number:
		return x.String() // the number's text exactly as in the token (no rounding through float64, no re-spelling)
	case float64:
		return strconv.FormatFloat(x, 'f', -1, 64)
	case bool:
		return fmt.Sprint(x)
	}
	b, _ := json.Marshal(v)
	return string(b)
}

func c04RenderList(v interface{}) []string {
	if l, ok := v.([]interface{}); ok {
		out := []string{}
		for _, e := range l {
			out = append(out, c04Render(e))
		}
		return out
	}
	return []string{c04Render(v)}
}

// what the session may contain, field by field
type c04Field struct {
	FromToken bool
	Must      string   // FromToken: exactly this (groups: joined with \x00)
	May       []string // otherwise: any of these
}

type c04Expect struct {
	User, Email, Groups, PU c04Field
}

// lists are compared as JSON array text: element boundaries are part of the comparison
func c04L(l []string) string {
	if l == nil {
		l = []string{}
	}
	b, _ := json.Marshal(l)
	return string(b)
}

func c04UnL(s string) []string {
	var l []string
	_ = json.Unmarshal([]byte(s), &l)
	return l
}

func c04HasCtl(s string) bool {
	for _, r := range s {
		if r < 0x20 || r == 0x7f {
			return true
		}
	}
	return false
}

// prevEmail (refresh path only): a refreshed token that has no e-mail claim, with no profile endpoint to supply one,
// leaves the session's previous e-mail in place (documented in providers/oidc.go; an empty e-mail is never acceptable there).
func c04Expected(t c04Token, cfg *c04Cfg, v c04Verifier, path string, profile map[string]interface{}, prevEmail string) c04Expect {
	emailClaim, groupsClaim := cfg.EmailClaim, cfg.GroupsClaim
	if v.Extra {
		emailClaim, groupsClaim = "email", "groups"
	}
	profileAllowed := !cfg.SkipProfile && !v.Extra
	field := func(name string, list bool) c04Field {
		if val, ok := t.Claims[name]; ok && val != nil {
			if list {
				return c04Field{FromToken: true, Must: c04L(c04RenderList(val))}
			}
			return c04Field{FromToken: true, Must: c04Render(val)}
		}
		f := c04Field{May: []string{""}}
		if list {
			f.May = []string{c04L(nil)}
		}
		if pv, ok := profile[name]; ok && profileAllowed {
			b, _ := json.Marshal(pv)
			var g interface{}
			_ = json.Unmarshal(b, &g)
			if list {
				f.May = append(f.May, c04L(c04RenderList(g)))
			} else {
				f.May = append(f.May, c04Render(g))
			}
			if path != "bearer" {
				// "falling back to the provider's profile endpoint … for claims the token lacks": at the callback AND after a
				// refresh the profile endpoint is reachable with the access token of the same token response and serves this
				// claim — the session carries its value, not nothing (a bearer token comes without an access token)
				f.May = f.May[1:]
			}
		}
		return f
	}
	e := c04Expect{User: field("sub", false), Email: field(emailClaim, false), Groups: field(groupsClaim, true), PU: field("preferred_username", false)}
	if e.Email.FromToken && e.Email.Must == "" {
		// the token says: e-mail "". A session never has an empty e-mail: the login callback refuses it, a refresh keeps
		// the previous e-mail, a bearer session uses the user id. What it may never be is the PROFILE endpoint's value.
		switch path {
		case "refresh":
			e.Email = c04Field{May: []string{prevEmail}}
		case "bearer":
			e.Email = c04Field{May: []string{"", e.User.Must}}
		}
		return e
	}
	if path == "refresh" && !e.Email.FromToken {
		may := []string{prevEmail}
		for _, m := range e.Email.May {
			if m != "" {
				may = append(may, m)
			}
		}
		e.Email.May = may
	}
	if path == "bearer" && !e.Email.FromToken {
		// documented for bearer tokens: "Allow empty Email in Bearer case since we can't hit the ProfileURL" — the user id stands in
		e.Email.May = append(e.Email.May, e.User.Must)
	}
	return e
}

func (f c04Field) accepts(got string) bool {
	if f.FromToken {
		return got == f.Must
	}
	for _, m := range f.May {
		if got == m {
			return true
		}
	}
	return false
}

// ---------------------------------------------------------------------------------------------------------
// observation

type c04Obs struct {
	UserinfoCode int      `json:"userinfo_code"`
	User         string   `json:"user"`
	Email        string   `json:"email"`
	Groups       []string `json:"groups"`
	PU           string   `json:"preferred_username"`
	UpCode       int      `json:"proxied_code"`
	UpHit        bool     `json:"upstream_hit"`
	UpUser       string   `json:"up_user"`
	UpEmail      string   `json:"up_email"`
	UpGroups     string   `json:"up_groups"`
	UpPU         string   `json:"up_preferred_username"`
	UpIDToken    string   `json:"-"`
	UpAT         string   `json:"up_access_token"`
	Panic        string   `json:"panic,omitempty"`
	SetCookie    []string `json:"-"`
}

func (o c04Obs) session() bool { return o.UserinfoCode == 200 || o.UpHit }

var c04Seq int64
var c04SeqMu sync.Mutex

func c04NextID(prefix string) string {
	c04SeqMu.Lock()
	c04Seq++
	n := c04Seq
	c04SeqMu.Unlock()
	return fmt.Sprintf("%s-%d", prefix, n)
}

// c04Observe asks the proxy who the caller is (userinfo endpoint) and sends one proxied request.
func c04Observe(w *vfWorld, send func(r *vfReq) *vfResp) c04Obs {
	var o c04Obs
	r1 := send(vfGET("/oauth2/userinfo"))
	o.UserinfoCode = r1.Code
	o.Panic = r1.Panic
	o.SetCookie = append(o.SetCookie, r1.SetCookies()...)
	if r1.Code == 200 {
		var ui struct {
			User              string   `json:"user"`
			Email             string   `json:"email"`
			Groups            []string `json:"groups"`
			PreferredUsername string   `json:"preferredUsername"`
		}
		_ = json.Unmarshal(r1.Body, &ui)
		o.User, o.Email, o.Groups, o.PU = ui.User, ui.Email, ui.Groups, ui.PreferredUsername
	}
	id := c04NextID("c04")
	r2 := send(vfGET("/app/data?q=1", "X-Vf-Id", id))
	o.UpCode = r2.Code
	if r2.Panic != "" {
		o.Panic = r2.Panic
	}
	o.SetCookie = append(o.SetCookie, r2.SetCookies()...)
	if hits := w.Up.FindHit(id); len(hits) > 0 {
		h := hits[0].Header
		o.UpHit = true
		o.UpUser, o.UpEmail, o.UpGroups, o.UpPU = h.Get("X-Forwarded-User"), h.Get("X-Forwarded-Email"), strings.Join(h.Values("X-Forwarded-Groups"), ","), h.Get("X-Forwarded-Preferred-Username")
		o.UpIDToken = strings.TrimPrefix(h.Get("Authorization"), "Bearer ")
		o.UpAT = h.Get("X-Forwarded-Access-Token")
	}
	return o
}

// session cookies (not CSRF, not deletions) among Set-Cookie lines
func c04SessionCookies(lines []string) []*http.Cookie {
	var out []*http.Cookie
	for _, l := range lines {
		c, err := http.ParseSetCookie(l)
		if err != nil || !strings.HasPrefix(c.Name, "_oauth2_proxy") || strings.HasSuffix(c.Name, "_csrf") {
			continue
		}
		if c.Value == "" || c.MaxAge < 0 || (!c.Expires.IsZero() && c.Expires.Before(time.Now())) {
			continue
		}
		out = append(out, c)
	}
	return out
}

type c04Case struct {
	Cfg     string   `json:"config"`
	Flags   []string `json:"flags"`
	Path    string   `json:"path"`
	Spec    string   `json:"spec"`
	Header  string   `json:"authorization_variant,omitempty"`
	Token   string   `json:"token"`
	Claims  interface{} `json:"token_claims"`
	JOSE    interface{} `json:"token_header"`
	Ref     string   `json:"reference"`
	Observed interface{} `json:"observed"`
	Note    string   `json:"note,omitempty"`
}

type c04Runner struct {
	run  *vfRun
	w    *vfWorld
	idp2 *vfIdP
	// token endpoint dispatch: sub of the logging-in identity -> handler
	handlers sync.Map // string -> func(grant string, claims map[string]interface{}) (string, bool)
	byToken  sync.Map // minted token -> func(grant string, accessToken string)
}

func (r *c04Runner) install() {
	r.w.IdP.Set(func(c *vfIdPCfg) {
		c.MintOverride = func(grant string, claims map[string]interface{}) (string, bool) {
			sub, _ := claims["sub"].(string)
			if h, ok := r.handlers.Load(sub); ok {
				return h.(func(string, map[string]interface{}) (string, bool))(grant, claims)
			}
			return "", false
		}
		c.TokenResponseMutate = func(grant string, resp map[string]interface{}) {
			if t, ok := resp["id_token"].(string); ok {
				if f, ok := r.byToken.Load(t); ok {
					at, _ := resp["access_token"].(string)
					f.(func(string, string))(grant, at)
				}
			}
		}
	})
}

func (r *c04Runner) detail(cfg *c04Cfg, path string, s c04Spec, hdr string, t c04Token, ref c04Ref, obs interface{}, note string) c04Case {
	return c04Case{Cfg: cfg.Name, Flags: cfg.P.Flags, Path: path, Spec: s.String(), Header: hdr, Token: t.Raw, Claims: t.Claims, JOSE: t.Header,
		Ref: fmt.Sprintf("V=%v verifier=%d clauses=%v", ref.V, ref.Verifier, ref.Clauses), Observed: obs, Note: note}
}

func (r *c04Runner) cell(cfg *c04Cfg, path string, s c04Spec, ref c04Ref) string {
	switch {
	case ref.V == c04OK:
		return fmt.Sprintf("%s|%s|valid|aud=%s|claims=%s", path, cfg.Name, s.Aud, s.Claims)
	case ref.V == c04Bad && ref.OnlyBad != "":
		val := map[string]string{"sig": s.Sig, "iss": s.Iss, "aud": s.Aud, "exp": s.Exp, "ev": s.EV}[ref.OnlyBad]
		return fmt.Sprintf("%s|%s|only-%s-fails|%s", path, cfg.Name, ref.OnlyBad, val)
	}
	return ""
}

// judge: existence + identity. Returns true when a session was observed.
func (r *c04Runner) judge(cfg *c04Cfg, path string, s c04Spec, hdr string, t c04Token, ref c04Ref, obs c04Obs, cookieIssued bool, profile map[string]interface{}, prevEmail string) {
	run := r.run
	run.Eval(r.cell(cfg, path, s, ref))
	run.Count("cases_"+path, 1)
	if obs.Panic != "" {
		run.Violation("c04:panic", fmt.Sprintf("%s path: panic while handling a token (%s, %s): %s", path, cfg.Name, s, vfTrunc(obs.Panic, 200)), r.detail(cfg, path, s, hdr, t, ref, obs, ""))
		return
	}
	session := obs.session() || cookieIssued
	switch ref.V {
	case c04Bad:
		run.Count("ref_reject_"+path, 1)
		if session {
			why := "clauses " + fmt.Sprint(ref.Clauses)
			if ref.OnlyBad != "" {
				why = "only failing clause: " + ref.OnlyBad
			}
			run.Violation("c04:session-from-invalid-token:"+path, fmt.Sprintf("[%s] %s path: session from a token the reference rejects (%s; %s)", cfg.Name, path, why, s),
				r.detail(cfg, path, s, hdr, t, ref, obs, fmt.Sprintf("cookie_issued=%v", cookieIssued)))
		}
		return
	case c04Either:
		run.Count("ref_undecided_"+path, 1)
		run.Count(fmt.Sprintf("undecided_%s_session=%v", path, session), 1)
	case c04OK:
		run.Count("ref_accept_"+path, 1)
		if len(cfg.AllowedGroups) > 0 {
			// --allowed-group: the decision follows the token's groups exactly as the reference reads them
			ex := c04Expected(t, cfg, cfg.Verifiers[ref.Verifier], path, profile, prevEmail).Groups
			if !ex.FromToken {
				if !session {
					run.Count("allowed_group_token_without_groups_refused", 1)
					return
				}
			} else {
				member := false
				for _, g := range c04UnL(ex.Must) {
					for _, a := range cfg.AllowedGroups {
						if g == a {
							member = true
						}
					}
				}
				if !member {
					run.Count("allowed_group_reference_denies", 1)
					if session {
						run.Violation("c04:allowed-group-decision-differs-from-token-groups:"+path, fmt.Sprintf("[%s] %s path: the token's groups claim reads %s — no element equals an allowed group %q — yet the request is served (userinfo groups %s) (%s)", cfg.Name, path, vfTrunc(ex.Must, 120), cfg.AllowedGroups, vfTrunc(c04L(obs.Groups), 120), s),
							r.detail(cfg, path, s, hdr, t, ref, obs, ""))
					}
					return
				}
			}
		}
		if !session {
			// callback without any e-mail (token and profile): the provider refuses the login — not decided by the statement
			if ex := c04Expected(t, cfg, cfg.Verifiers[ref.Verifier], path, profile, prevEmail).Email; path == "callback" && ((!ex.FromToken && cfg.SkipProfile) || (ex.FromToken && ex.Must == "")) {
				run.Count("callback_without_email_refused", 1)
				return
			}
			if cfg.NoLiveness {
				run.Count("valid_refused_optional_fields_omitted_"+path, 1)
				return
			}
			run.Inconclusive("valid token refused on " + path + " path")
			run.Count("valid_refused_"+path, 1)
			run.SampleEvery(1, func() interface{} { return r.detail(cfg, path, s, hdr, t, ref, obs, "VALID TOKEN REFUSED") })
			return
		}
		run.Count("sessions_from_valid_tokens_"+path, 1)
	}
	if !session {
		return
	}
	// identity
	v := cfg.Verifiers[0]
	if ref.Verifier >= 0 {
		v = cfg.Verifiers[ref.Verifier]
	}
	if v.Extra && !cfg.defaultClaimNames() {
		return
	}
	exp := c04Expected(t, cfg, v, path, profile, prevEmail)
	var diffs []string
	chk := func(name string, f c04Field, got string) {
		if cfg.ClaimsOmitted && (strings.Contains(name, "mail") || strings.Contains(name, "roups")) {
			return
		}
		if !f.accepts(got) {
			if f.FromToken {
				diffs = append(diffs, fmt.Sprintf("%s=%q but the token's claim renders as %q", name, vfTrunc(got, 80), vfTrunc(f.Must, 80)))
			} else {
				diffs = append(diffs, fmt.Sprintf("%s=%q for a claim the token lacks (allowed: %q)", name, vfTrunc(got, 80), f.May))
			}
		}
	}
	if obs.UserinfoCode == 200 {
		chk("userinfo.user", exp.User, obs.User)
		chk("userinfo.email", exp.Email, obs.Email)
		chk("userinfo.groups", exp.Groups, c04L(obs.Groups))
		chk("userinfo.preferredUsername", exp.PU, obs.PU)
		run.Count("identity_compared_userinfo", 1)
	}
	if obs.UpHit {
		chk("X-Forwarded-User", exp.User, obs.UpUser)
		chk("X-Forwarded-Email", exp.Email, obs.UpEmail)
		// the header is the comma-joined list; not compared when a group contains control characters (not transmittable verbatim)
		g := c04Field{FromToken: exp.Groups.FromToken, Must: strings.Join(c04UnL(exp.Groups.Must), ",")}
		for _, m := range exp.Groups.May {
			g.May = append(g.May, strings.Join(c04UnL(m), ","))
		}
		if !c04HasCtl(g.Must) {
			chk("X-Forwarded-Groups", g, obs.UpGroups)
		}
		chk("X-Forwarded-Preferred-Username", exp.PU, obs.UpPU)
		run.Count("identity_compared_upstream", 1)
	}
	if len(diffs) > 0 {
		sig := "c04:identity-differs-from-token-claims:" + path
		for _, d := range diffs {
			if strings.Contains(d, "lacks") {
				sig = "c04:identity-for-absent-claim:" + path
			}
		}
		for _, d := range diffs {
			if strings.Contains(d, "profile-") && strings.Contains(d, "renders as") {
				sig = "c04:profile-overrides-token-claim:" + path
			}
		}
		run.Violation(sig, fmt.Sprintf("[%s] %s path: session identity is not the token's configured claims: %s (%s)", cfg.Name, path, strings.Join(diffs, "; "), s),
			r.detail(cfg, path, s, hdr, t, ref, obs, ""))
	}
	run.SampleEvery(97, func() interface{} { return r.detail(cfg, path, s, hdr, t, ref, obs, "") })
}

// ---------------------------------------------------------------------------------------------------------
// entry paths

func (r *c04Runner) callbackCase(cfg *c04Cfg, s c04Spec, n int) {
	tag := fmt.Sprintf("cb-%s-%d", cfg.Name, n)
	id := c04TokenIdent(tag, s.Claims)
	profile := c04Profile(tag)
	loginSub := "login-" + tag
	var tok c04Token
	var mu sync.Mutex
	r.handlers.Store(loginSub, func(grant string, claims map[string]interface{}) (string, bool) {
		c := c04Claims(s, cfg, r.idp2.Issuer, claims, id, tag)
		raw := c04Sign(c, s.Sig)
		mu.Lock()
		tok = c04Decode(raw)
		mu.Unlock()
		return raw, true
	})
	defer r.handlers.Delete(loginSub)
	b := vfNewBrowser("")
	l, err := b.StartLogin(cfg.P, vfIdentity{Sub: loginSub, Email: "unused@idp.test", Profile: profile}, "/")
	if err != nil {
		// rig trouble (never seen on an idle machine): counted, bounded by the 5 % inconclusive limit of the run
		r.run.Eval("")
		r.run.Inconclusive(fmt.Sprintf("rig: login could not be started (%s): %v", cfg.Name, err))
		return
	}
	cb := b.Get(cfg.P, l.CallbackTarget(cfg.P))
	mu.Lock()
	t := tok
	mu.Unlock()
	if t.Raw == "" {
		r.run.Inconclusive("token endpoint not reached at callback")
		return
	}
	cookieIssued := len(c04SessionCookies(cb.SetCookies())) > 0
	obs := c04Observe(r.w, func(q *vfReq) *vfResp { return b.Send(cfg.P, q) })
	if cb.Panic != "" {
		obs.Panic = cb.Panic
	}
	ref := c04Reference(t, cfg, false)
	if ref.V == c04Bad && cb.Code == 302 && !cookieIssued && !obs.session() {
		r.run.Count("callback_302_without_session", 1)
	}
	r.judge(cfg, "callback", s, "", t, ref, obs, cookieIssued, profile, "")
}

var c04HeaderVariants = []string{"bearer", "basic-user-empty-password", "basic-user-x-oauth-basic", "basic-password"}

func c04AuthHeader(variant, tok string) string {
	b64 := func(s string) string { return base64.StdEncoding.EncodeToString([]byte(s)) }
	switch variant {
	case "basic-user-empty-password":
		return "Basic " + b64(tok+":")
	case "basic-user-x-oauth-basic":
		return "Basic " + b64(tok+":x-oauth-basic")
	case "basic-password":
		return "Basic " + b64("anyone:"+tok)
	}
	return "Bearer " + tok
}

func (r *c04Runner) bearerCase(cfg *c04Cfg, s c04Spec, n int, variant string) {
	tag := fmt.Sprintf("be-%s-%d", cfg.Name, n)
	id := c04TokenIdent(tag, s.Claims)
	c := c04Claims(s, cfg, r.idp2.Issuer, map[string]interface{}{"jti": tag}, id, tag)
	raw := c04Sign(c, s.Sig)
	t := c04Decode(raw)
	hv := c04AuthHeader(variant, raw)
	obs := c04Observe(r.w, func(q *vfReq) *vfResp { return cfg.P.Do(q.H("Authorization", hv)) })
	ref := c04Reference(t, cfg, true)
	cookieIssued := len(c04SessionCookies(obs.SetCookie)) > 0
	r.run.Count("bearer_variant_"+variant, 1)
	// the profile endpoint cannot be consulted for a bearer token (no access token) — pass the default profile values
	// of the rig anyway so that their appearance would be recognised
	r.judge(cfg, "bearer", s, variant, t, ref, obs, cookieIssued, c04Profile(tag), "")
}

type c04Refresh struct {
	cfg      *c04Cfg
	s        c04Spec
	n        int
	tag      string
	b        *vfBrowser
	profile  map[string]interface{}
	identA   c04Ident
	identB   c04Ident
	mu       sync.Mutex
	nonce    interface{}
	tokA     string
	atA      string
	atNew    []string
	tokB     c04Token
	loginErr error
}

// refreshLogin: phase 1 (clock mocked into the past by the caller): ordinary login as identity A.
func (r *c04Runner) refreshLogin(rc *c04Refresh) {
	cfg := rc.cfg
	rc.tag = fmt.Sprintf("rf-%s-%d", cfg.Name, rc.n)
	rc.identA = c04TokenIdent(rc.tag+"-A", "full")
	rc.identB = c04TokenIdent(rc.tag+"-B", rc.s.Claims)
	rc.profile = c04Profile(rc.tag)
	loginSub := "login-" + rc.tag
	valid := c04Baseline(cfg, false)
	r.handlers.Store(loginSub, func(grant string, claims map[string]interface{}) (string, bool) {
		rc.mu.Lock()
		defer rc.mu.Unlock()
		if grant == "code" {
			rc.nonce = claims["nonce"]
			c := c04Claims(valid, cfg, r.idp2.Issuer, claims, rc.identA, rc.tag+"-A")
			rc.tokA = vfMint(c, vfMintOpts{})
			r.byToken.Store(rc.tokA, func(g, at string) { rc.mu.Lock(); rc.atA = at; rc.mu.Unlock() })
			return rc.tokA, true
		}
		base := map[string]interface{}{"iat": claims["iat"], "jti": claims["jti"]}
		if !cfg.SkipNonce {
			base["nonce"] = rc.nonce // an OP that repeats the nonce in refreshed ID tokens (allowed by OIDC core 12.2)
		}
		c := c04Claims(rc.s, cfg, r.idp2.Issuer, base, rc.identB, rc.tag+"-B")
		raw := c04Sign(c, rc.s.Sig)
		rc.tokB = c04Decode(raw)
		r.byToken.Store(raw, func(g, at string) { rc.mu.Lock(); rc.atNew = append(rc.atNew, at); rc.mu.Unlock() })
		return raw, true
	})
	rc.b = vfNewBrowser("")
	_, _, rc.loginErr = rc.b.Login(cfg.P, vfIdentity{Sub: loginSub, Email: "unused@idp.test", Profile: rc.profile}, "/")
}

type c04RefreshObs struct {
	Probe     c04Obs   `json:"after_refresh"`
	Outcome   string   `json:"outcome"`
	IDToken   string   `json:"session_id_token_is"`
	AT        string   `json:"session_access_token_is"`
	Emitted   int      `json:"session_cookies_emitted_by_probe"`
	Replayed  *c04Obs  `json:"replay_of_emitted_cookies,omitempty"`
	A         c04Ident `json:"identity_A"`
}

// refreshProbe: phase 2 (real time): the first request with the stale session makes the proxy use the refresh grant,
// which answers with the token under test (identity B).
func (r *c04Runner) refreshProbe(rc *c04Refresh) {
	cfg, run := rc.cfg, r.run
	defer r.handlers.Delete("login-" + rc.tag)
	if rc.loginErr != nil {
		// rig trouble: the ordinary login as A did not get through (resource exhaustion on a loaded machine)
		run.Eval("")
		if cfg.NoLiveness {
			run.Count("refresh_login_refused_optional_fields_omitted", 1) // the unchanged tree refuses every token in such a configuration
			return
		}
		run.Inconclusive(fmt.Sprintf("rig: refresh path, ordinary login as A failed (%s): %s", cfg.Name, vfTrunc(rc.loginErr.Error(), 120)))
		return
	}
	var emitted []*http.Cookie
	first := true
	obs := c04Observe(r.w, func(q *vfReq) *vfResp {
		resp := rc.b.Send(cfg.P, q)
		if first {
			emitted = c04SessionCookies(resp.SetCookies())
			first = false
		}
		return resp
	})
	rc.mu.Lock()
	t, tokA, atA, atNew := rc.tokB, rc.tokA, rc.atA, append([]string{}, rc.atNew...)
	rc.mu.Unlock()
	if t.Raw == "" {
		run.Inconclusive("refresh grant not used for a stale session")
		return
	}
	ref := c04Reference(t, cfg, false)
	ro := c04RefreshObs{Probe: obs, Emitted: len(emitted), A: rc.identA}
	if obs.Panic != "" {
		run.Eval(r.cell(cfg, "refresh", rc.s, ref))
		run.Violation("c04:panic", fmt.Sprintf("refresh path: panic while handling a refreshed token (%s, %s): %s", cfg.Name, rc.s, vfTrunc(obs.Panic, 200)), r.detail(cfg, "refresh", rc.s, "", t, ref, ro, ""))
		return
	}
	isA := func(user, email, groups, pu string) bool {
		return user == rc.identA.Sub && email == rc.identA.Email && groups == strings.Join(rc.identA.Groups, ",") && pu == rc.identA.PU
	}
	inNew := func(at string) bool {
		for _, a := range atNew {
			if a == at {
				return true
			}
		}
		return false
	}
	// classify
	mixture := ""
	switch {
	case !obs.session():
		ro.Outcome = "signed-out"
	default:
		uiA := obs.UserinfoCode != 200 || isA(obs.User, obs.Email, strings.Join(obs.Groups, ","), obs.PU)
		upA := !obs.UpHit || isA(obs.UpUser, obs.UpEmail, obs.UpGroups, obs.UpPU)
		switch {
		case obs.UpIDToken == tokA:
			ro.IDToken = "A's"
		case obs.UpIDToken == t.Raw:
			ro.IDToken = "B's (token under test)"
		case obs.UpHit:
			ro.IDToken = "neither"
		}
		switch {
		case obs.UpAT == atA:
			ro.AT = "A's"
		case inNew(obs.UpAT):
			ro.AT = "refreshed"
		case obs.UpHit:
			ro.AT = "neither"
		}
		if uiA && upA {
			ro.Outcome = "A"
			if obs.UpHit && (ro.IDToken != "A's" || ro.AT != "A's") {
				mixture = fmt.Sprintf("identity A but id_token is %s and access token is %s", ro.IDToken, ro.AT)
			}
		} else {
			ro.Outcome = "B"
			if obs.UserinfoCode == 200 && obs.UpHit && (obs.User != obs.UpUser || obs.Email != obs.UpEmail) {
				mixture = "userinfo and upstream headers name different users"
			}
			if obs.UpHit && (ro.IDToken != "B's (token under test)" || ro.AT != "refreshed") {
				mixture = fmt.Sprintf("identity is no longer A but id_token is %s and access token is %s", ro.IDToken, ro.AT)
			}
			if uiA != upA && obs.UserinfoCode == 200 && obs.UpHit {
				mixture = "one of userinfo / upstream headers still shows A, the other not"
			}
		}
	}
	// replay whatever session cookies the probing response emitted, even if a later Set-Cookie of the same response removed them
	if len(emitted) > 0 && ro.Outcome != "B" {
		var parts []string
		for _, c := range emitted {
			parts = append(parts, c.Name+"="+c.Value)
		}
		hv := strings.Join(parts, "; ")
		rep := c04Observe(r.w, func(q *vfReq) *vfResp { return cfg.P.Do(q.H("Cookie", hv)) })
		ro.Replayed = &rep
		run.Count("refresh_emitted_cookie_replays", 1)
		if rep.session() {
			repA := (rep.UserinfoCode != 200 || isA(rep.User, rep.Email, strings.Join(rep.Groups, ","), rep.PU)) && (!rep.UpHit || (isA(rep.UpUser, rep.UpEmail, rep.UpGroups, rep.UpPU) && rep.UpIDToken == tokA))
			if !repA && ref.V == c04Bad {
				run.Eval(r.cell(cfg, "refresh", rc.s, ref))
				run.Violation("c04:session-from-invalid-token:refresh", fmt.Sprintf("[%s] refresh path: the response to the refreshing request SET a session cookie built from a token the reference rejects (clauses %v; %s); replaying that cookie gives user %q", cfg.Name, ref.Clauses, rc.s, rep.User+rep.UpUser),
					r.detail(cfg, "refresh", rc.s, "", t, ref, ro, "the cookie was removed again by a later Set-Cookie of the same response; a client keeping the first one holds a live session"))
				return
			}
		}
	}
	run.Count("refresh_outcome_"+ro.Outcome, 1)
	if mixture != "" {
		run.Eval(r.cell(cfg, "refresh", rc.s, ref))
		run.Violation("c04:refresh-mixture", fmt.Sprintf("[%s] refresh path: %s (%s)", cfg.Name, mixture, rc.s), r.detail(cfg, "refresh", rc.s, "", t, ref, ro, ""))
		return
	}
	switch ro.Outcome {
	case "B":
		// identity and existence judged exactly like the other paths
		r.judge(cfg, "refresh", rc.s, "", t, ref, obs, false, rc.profile, rc.identA.Email)
	default:
		// A kept or signed out: both fine when the token is invalid; a valid token that was not taken up is inconclusive
		silent := obs
		silent.UserinfoCode, silent.UpHit = 0, false
		r.judge(cfg, "refresh", rc.s, "", t, ref, silent, false, rc.profile, rc.identA.Email)
	}
}


// ---------------------------------------------------------------------------------------------------------
// temporal re-presentation: "has not expired" must hold at every presentation of a token, not only at the first one.
// A token with a lifetime of a few seconds is presented while valid (must yield a session, otherwise the pair is
// skipped), and the SAME raw token is presented to the SAME instance again after its exp: it must be refused.
// "validate" pairs do the same through the session cookie: a stale session without refresh token is re-validated
// against its own ID token on every request; once that token has expired the session must end.

type c04Pair struct {
	cfg      *c04Cfg
	kind     string // bearer | validate
	verifier int
	variant  string
	tag      string
	b        *vfBrowser
	mu       sync.Mutex
	exp      time.Time
	loginErr error
}

type c04PairObs struct {
	Kind          string  `json:"kind"`
	Exp           string  `json:"token_exp"`
	FirstAt       string  `json:"first_presentation_at"`
	First         c04Obs  `json:"first_presentation"`
	SecondAt      string  `json:"second_presentation_at"`
	Second        c04Obs  `json:"second_presentation"`
	SecondsPast   float64 `json:"seconds_past_exp_at_second_presentation"`
	Authorization string  `json:"authorization_variant,omitempty"`
}

func (r *c04Runner) temporal(cfgs []*c04Cfg) {
	run := r.run
	thorough := run.Env.Thorough()
	var pairs []*c04Pair
	n := 0
	for ci, cfg := range cfgs {
		pick := thorough || map[string]bool{"disc": true, "key-file": true, "jwks-url": true, "audclaim-azp": true, "extra-issuer": true, "custom-claims": true, "disc-redis": true}[cfg.Name]
		if !pick {
			continue
		}
		for vi := range cfg.Verifiers {
			n++
			pairs = append(pairs, &c04Pair{cfg: cfg, kind: "bearer", verifier: vi, variant: c04HeaderVariants[(n+int(run.Env.Seed))%len(c04HeaderVariants)], tag: fmt.Sprintf("tp-%s-%d", cfg.Name, n)})
		}
		if thorough || ci < 4 || cfg.Name == "skip-nonce" {
			n++
			pairs = append(pairs, &c04Pair{cfg: cfg, kind: "validate", tag: fmt.Sprintf("tv-%s-%d", cfg.Name, n)})
		}
	}
	// validate pairs: ordinary logins, ten minutes in the past (quiescent point: nothing else is running), ID token lifetime 5 s
	clock.Set(time.Now().Add(-10 * time.Minute))
	vfParallel(len(pairs), len(pairs), func(i int) {
		pr := pairs[i]
		if pr.kind != "validate" {
			return
		}
		loginSub := "login-" + pr.tag
		id := c04TokenIdent(pr.tag, "full")
		r.handlers.Store(loginSub, func(grant string, claims map[string]interface{}) (string, bool) {
			c := c04Claims(c04Baseline(pr.cfg, false), pr.cfg, r.idp2.Issuer, claims, id, pr.tag)
			exp := time.Unix(time.Now().Unix()+5, 0)
			c["exp"] = exp.Unix()
			pr.mu.Lock()
			pr.exp = exp
			pr.mu.Unlock()
			return vfMint(c, vfMintOpts{}), true
		})
		pr.b = vfNewBrowser("")
		_, _, pr.loginErr = pr.b.Login(pr.cfg.P, vfIdentity{Sub: loginSub, Email: "unused@idp.test", NoRefreshToken: true, Profile: c04Profile(pr.tag)}, "/")
		r.handlers.Delete(loginSub)
	})
	clock.Reset()
	vfParallel(len(pairs), len(pairs), func(i int) {
		pr := pairs[i]
		cfg := pr.cfg
		var send func(q *vfReq) *vfResp
		var raw string
		var exp time.Time
		if pr.kind == "bearer" {
			s := c04Baseline(cfg, cfg.Verifiers[pr.verifier].Extra)
			c := c04Claims(s, cfg, r.idp2.Issuer, map[string]interface{}{"jti": pr.tag}, c04TokenIdent(pr.tag, "full"), pr.tag)
			exp = time.Unix(time.Now().Unix()+3, 0)
			c["exp"] = exp.Unix()
			raw = vfMint(c, vfMintOpts{})
			hv := c04AuthHeader(pr.variant, raw)
			send = func(q *vfReq) *vfResp { return cfg.P.Do(q.H("Authorization", hv)) }
		} else {
			if pr.loginErr != nil {
				run.Count("temporal_pairs_skipped_login_failed", 1)
				return
			}
			pr.mu.Lock()
			exp = pr.exp
			pr.mu.Unlock()
			send = func(q *vfReq) *vfResp { return pr.b.Send(cfg.P, q) }
		}
		po := c04PairObs{Kind: pr.kind, Exp: exp.Format(time.RFC3339), Authorization: pr.variant}
		t1 := time.Now()
		po.FirstAt = t1.Format(time.RFC3339Nano)
		po.First = c04Observe(r.w, send)
		if time.Now().After(exp.Add(-200*time.Millisecond)) || !po.First.session() || po.First.UserinfoCode != 200 {
			// precondition not met (machine too slow for the short lifetime, or the token was not taken up): nothing to judge
			run.Count("temporal_pairs_skipped_first_presentation_not_in_time", 1)
			return
		}
		if d := time.Until(exp.Add(1500 * time.Millisecond)); d > 0 {
			time.Sleep(d) // the token is expired by construction afterwards; the verdict is bracketed by the reading below
		}
		t2 := time.Now()
		po.SecondAt = t2.Format(time.RFC3339Nano)
		po.Second = c04Observe(r.w, send)
		po.SecondsPast = t2.Sub(exp).Seconds()
		cell := fmt.Sprintf("%s|%s|re-presentation-after-expiry|verifier=%d", pr.kind, cfg.Name, pr.verifier)
		run.Eval(cell)
		run.Count("temporal_pairs_judged_"+pr.kind, 1)
		if po.Second.Panic != "" {
			run.Violation("c04:panic", "panic on re-presentation: "+vfTrunc(po.Second.Panic, 200), po)
			return
		}
		if t2.After(exp.Add(time.Second)) && po.Second.session() {
			what := "bearer token"
			if pr.kind == "validate" {
				what = "stale cookie session (no refresh token) whose own ID token"
			}
			run.Violation("c04:expired-token-accepted-on-re-presentation", fmt.Sprintf("[%s] %s was honoured while valid and is STILL honoured %.1f s after its exp (same raw token, same instance; userinfo %d, upstream reached %v)", cfg.Name, what, po.SecondsPast, po.Second.UserinfoCode, po.Second.UpHit),
				map[string]interface{}{"config": cfg.Name, "flags": cfg.P.Flags, "token": raw, "token_claims": vfJWTClaims(raw), "observed": po,
					"steps": "1. present the token (Authorization header as named / session cookie of an ordinary login issued ten minutes ago with --cookie-refresh=1m and no refresh token) -> session; 2. wait until exp+1.5s; 3. present exactly the same again"})
		}
	})
	if run.Counter("temporal_pairs_judged_bearer") < 3 || run.Counter("temporal_pairs_judged_validate") < 2 {
		run.Inconclusive("too few temporal re-presentation pairs could be judged")
		fmt.Printf("INCONCLUSIVE property=C04 reason=temporal re-presentation: only %d bearer / %d validate pairs judged\n", run.Counter("temporal_pairs_judged_bearer"), run.Counter("temporal_pairs_judged_validate"))
		run.T.Fail()
	}
}

// ---------------------------------------------------------------------------------------------------------

func TestVerif_C04(t *testing.T) {
	run := vfNewRun(t, "C04", "exploration")
	run.SetRule("token grid = signature (13 variants) x iss (11) x audience shape incl. custom audience claim (27) x exp (6) x email_verified (4) x claim set (20, incl. present-but-empty claims and groups as a lone string with blanks / tabs / newlines / commas, list elements with blanks, number, nested, object, integers beyond 2^53 and non-canonical number spellings): " +
		"every single deviation from a valid token, (thorough) every pair of deviations, plus a seeded random sample of combinations; on the callback, refresh and bearer " +
		"(4 Authorization variants, incl. extra JWT issuer) paths; per configuration kind (discovery / JWKS URL / key file / extra audiences / audience claims / allow-unverified / custom claims / user-id-claim / both e-mail options set / no profile / extra issuer with and without discovery document / allowed-group / skip-nonce, cookie and Redis store). " +
		"cell = (path, configuration, which clause of V is the ONLY failing one + its variant) or (path, configuration, valid, audience shape, claim set); multi-failure cases are trivial. " +
		"Round 6: providers defined in the structured (YAML) configuration incl. definitions that leave optional oidcConfig fields out (reference = documented defaults); profile fallback kept across two refreshes (c04_alpha.go). " +
		"Temporal pairs: a token living 3-5 s is presented while valid and the same raw token again 1.5 s after its exp (bearer, per verifier; and through ValidateSession of a stale cookie session without refresh token)")
	run.Assume("RSA verification of the reference uses crypto/rsa of the standard library", "the fake provider signs with one RSA key (kid k1); the extra issuer publishes the same key, so only iss/aud separate the two verifiers",
		"V => session is not asserted (statement says 'only from'); refused valid tokens are counted as inconclusive")
	w := vfNewWorld(t)
	defer w.Close()
	idp2 := vfNewIdP()
	defer idp2.Close()
	r := &c04Runner{run: run, w: w, idp2: idp2}
	r.install()
	thorough := run.Env.Thorough()

	cfgs := c04Configs(w, idp2, thorough)
	for _, cfg := range cfgs {
		p, err := c04Build(w, cfg)
		if err != nil {
			t.Fatalf("c04: config %s: %v", cfg.Name, err)
		}
		cfg.P = p
	}
	r.temporal(cfgs)
	r.profileFallback(cfgs)
	r.storedRefresh(cfgs)
	for ci, cfg := range cfgs {
		rng := rand.New(rand.NewSource(run.Env.Seed*1000003 + int64(ci)))
		base := c04Baseline(cfg, false)
		// pairs of deviations: thorough everywhere; quick only on the cheap bearer path of one configuration
		cbSpecs := c04Specs(rng, base, thorough && (ci%2 == 1 || ci == 0), run.Env.Pick(12, 150))
		rfSpecs := c04Specs(rng, base, thorough && ci%2 == 0, run.Env.Pick(8, 100))
		if cfg.BearerOnly {
			cbSpecs, rfSpecs = cbSpecs[:1], rfSpecs[:1]
		}
		bePairs := thorough || cfg.Name == "audclaim-azp+aud"
		beSpecs := c04Specs(rng, base, bePairs, run.Env.Pick(30, 400))
		if len(cfg.Verifiers) > 1 {
			beSpecs = append(beSpecs, c04Specs(rng, c04Baseline(cfg, true), bePairs, run.Env.Pick(30, 400))...)
		}
		cbSpecs, rfSpecs, beSpecs = cfg.trim(cbSpecs, thorough), cfg.trim(rfSpecs, thorough), cfg.trim(beSpecs, thorough)

		// refresh path, phase 1: sessions of identity A issued ten minutes in the past (global pkg/clock mock, quiescent point)
		var rcs []*c04Refresh
		for n, s := range rfSpecs {
			if s.Claims == "long" {
				continue // a session growing from one cookie to several is C10's subject (stale unsplit cookie), not this property's
			}
			rcs = append(rcs, &c04Refresh{cfg: cfg, s: s, n: n})
		}
		clock.Set(time.Now().Add(-10 * time.Minute))
		vfParallel(len(rcs), 16, func(i int) { r.refreshLogin(rcs[i]) })
		clock.Reset()

		type job struct {
			kind string
			s    c04Spec
			n    int
			v    string
			rc   *c04Refresh
		}
		var jobs []job
		for n, s := range cbSpecs {
			jobs = append(jobs, job{kind: "callback", s: s, n: n})
		}
		for _, rc := range rcs {
			jobs = append(jobs, job{kind: "refresh", rc: rc})
		}
		for n, s := range beSpecs {
			if thorough && n < 160 {
				for _, v := range c04HeaderVariants {
					jobs = append(jobs, job{kind: "bearer", s: s, n: n, v: v})
				}
				continue
			}
			jobs = append(jobs, job{kind: "bearer", s: s, n: n, v: c04HeaderVariants[n%len(c04HeaderVariants)]})
		}
		rng.Shuffle(len(jobs), func(a, b int) { jobs[a], jobs[b] = jobs[b], jobs[a] })
		vfParallel(len(jobs), 16, func(i int) {
			j := jobs[i]
			switch j.kind {
			case "callback":
				r.callbackCase(cfg, j.s, j.n)
			case "refresh":
				r.refreshProbe(j.rc)
			case "bearer":
				r.bearerCase(cfg, j.s, j.n, j.v)
			}
		})
		w.Up.Reset()
	}
	c04ProviderTypes(run, w, r) // OIDC-derived provider types (keycloak-oidc, gitlab, adfs, azure, entra-id): c04_providers.go
	// the run proves something only if valid tokens produced sessions on every path
	for _, p := range []string{"callback", "refresh", "bearer"} {
		if run.Counter("sessions_from_valid_tokens_"+p) < 20 {
			run.Inconclusive("too few sessions from valid tokens on the " + p + " path")
			fmt.Printf("INCONCLUSIVE property=C04 reason=only %d sessions from valid tokens on the %s path\n", run.Counter("sessions_from_valid_tokens_"+p), p)
			t.Fail()
		}
	}
	keys := []string{}
	for _, c := range cfgs {
		keys = append(keys, c.Name)
	}
	sort.Strings(keys)
	run.Extra("configurations", keys)
	run.RaceCheck("")
	run.Finish(2000, 1000)
}

// ---------------------------------------------------------------------------------------------------------
// refresh path, what reaches the session STORE: the answer to the refreshing request is not the only place a session
// built from the refreshed token can end up. With the Redis store a refreshed session is written to the store before it
// is validated; if validation then fails the proxy removes it again — so the client-visible outcome ("signed out") hides
// that a session was created from the token. Here the store's DEL fails (an ordinary store fault), so whatever was
// written stays: presenting the original ticket cookie afterwards shows it. Invariant: that session is the unchanged
// identity A (with A's ID token) or none, unless the reference accepts the refreshed token.
func (r *c04Runner) storedRefresh(cfgs []*c04Cfg) {
	run := r.run
	var src *c04Cfg
	for _, c := range cfgs {
		if c.Name == "disc-redis" {
			src = c
		}
	}
	if src == nil {
		return
	}
	hub := vfNewRedisHub(r.w.Redis())
	defer hub.Close()
	front := hub.Front(0)
	cfg := *src
	cfg.Name = "disc-redis-del-fails"
	cfg.Flags = nil
	for _, f := range src.Flags {
		if strings.HasPrefix(f, "--redis-connection-url=") {
			f = "--redis-connection-url=" + front.URL("max_retries=0")
		}
		cfg.Flags = append(cfg.Flags, f)
	}
	p, err := c04Build(r.w, &cfg)
	if err != nil {
		run.T.Fatalf("c04: config %s: %v", cfg.Name, err)
	}
	cfg.P = p
	base := c04Baseline(&cfg, false)
	specs := []c04Spec{base}
	for _, e := range []string{"-1h", "-90s"} {
		specs = append(specs, base.with(3, e))
		for _, sg := range []string{"foreign-otherkid", "foreign-samekid", "none", "badsig"} {
			specs = append(specs, base.with(3, e).with(0, sg))
		}
	}
	for _, d := range [][2]string{{"0", "foreign-otherkid"}, {"0", "none"}, {"1", "other"}, {"2", "other"}, {"4", "false"}, {"3", "missing"}} {
		dim, _ := strconv.Atoi(d[0])
		specs = append(specs, base.with(dim, d[1]))
	}
	if run.Env.Thorough() {
		rng := rand.New(rand.NewSource(run.Env.Seed*1000003 + 7777))
		seen := map[c04Spec]bool{}
		for _, s := range specs {
			seen[s] = true
		}
		for _, s := range c04Specs(rng, base, false, 60) {
			if !seen[s] && s.Claims != "long" {
				specs = append(specs, s)
			}
		}
	}
	var rcs []*c04Refresh
	for n, s := range specs {
		rcs = append(rcs, &c04Refresh{cfg: &cfg, s: s, n: n})
	}
	clock.Set(time.Now().Add(-10 * time.Minute))
	vfParallel(len(rcs), 16, func(i int) { r.refreshLogin(rcs[i]) })
	clock.Reset()
	hub.SetHooks(func(c *vfRedisCmd) vfRedisDecision {
		if c.Op == "DEL" {
			return vfRedisDecision{Fault: &vfRedisFault{Kind: "err-before"}}
		}
		return vfRedisDecision{}
	}, nil)
	defer hub.SetHooks(nil, nil)
	vfParallel(len(rcs), 8, func(i int) {
		rc := rcs[i]
		if rc.loginErr != nil {
			r.refreshProbe(rc)
			return
		}
		hv := vfCookieHeader(rc.b.Jar.For(rc.b.Host, "/", false))
		r.refreshProbe(rc)
		rc.mu.Lock()
		t, tokA := rc.tokB, rc.tokA
		rc.mu.Unlock()
		if t.Raw == "" || hv == "" {
			return
		}
		ref := c04Reference(t, &cfg, false)
		rep := c04Observe(r.w, func(q *vfReq) *vfResp { return cfg.P.Do(q.H("Cookie", hv)) })
		run.Eval(r.cell(&cfg, "refresh", rc.s, ref))
		run.Count("refresh_stored_session_replays", 1)
		if !rep.session() {
			run.Count("refresh_stored_none", 1)
			return
		}
		isA := func(user, email, groups, pu string) bool {
			return user == rc.identA.Sub && email == rc.identA.Email && groups == strings.Join(rc.identA.Groups, ",") && pu == rc.identA.PU
		}
		repA := (rep.UserinfoCode != 200 || isA(rep.User, rep.Email, strings.Join(rep.Groups, ","), rep.PU)) && (!rep.UpHit || (isA(rep.UpUser, rep.UpEmail, rep.UpGroups, rep.UpPU) && rep.UpIDToken == tokA))
		if repA {
			run.Count("refresh_stored_A", 1)
			return
		}
		run.Count("refresh_stored_B", 1)
		if ref.V == c04Bad {
			ro := c04RefreshObs{Probe: rep, Outcome: "B", A: rc.identA}
			run.Violation("c04:session-from-invalid-token:refresh-stored", fmt.Sprintf("[%s] refresh path: the session store holds a session built from a refreshed ID token the reference rejects (clauses %v; %s); presenting the original ticket cookie afterwards gives user %q", cfg.Name, ref.Clauses, rc.s, rep.User+rep.UpUser),
				r.detail(&cfg, "refresh", rc.s, "", t, ref, ro, "the store's DEL command fails in this configuration: what the refresh wrote to the store stays there; observed = the request presenting the ticket cookie after the refreshing request"))
		}
	})
}
