//go:build verif

package main

// C06 workload generation: token alphabet, exhaustive enumeration by index, prefixed families, seeded random strings,
// the repository's own known-bad list, the safe grammar of the fidelity clause, and the structural classes (cells).

import (
	"bufio"
	"fmt"
	"net/url"
	"os"
	"path/filepath"
	"regexp"
	"strconv"
	"strings"
)

// the adversarial alphabet of DESIGN.md §C06 (+ x, VT, %40, fullwidth @)
var c06Tokens = []string{
	"/", "\\", ".", "..", "@", ":", "?", "#", "%2f", "%5c", "%09", "%00",
	"\t", "\n", "\r", " ", "\u00a0", "\u2028", "\uff0f", "\u3002",
	"http:", "https:", "HTTP:", "//",
	"evil.test", "good.test", "sub.good.test", "good.test.evil.test", "evilgood.test", "[::1]", "127.1", "0x7f.1",
	":443", ":80", ":8443", ":*",
	"x", "\x0b", "%40", "\uff20",
}

// prefixes put in front of every short token string so that the whitelist logic (host suffix, port rules, userinfo,
// authority terminators) is reached by the exhaustive part and not only by the random one
var c06Prefixes = []string{
	"https://", "http://", "https://good.test", "http://good.test", "https://sub.good.test", "https://evil.test", "https://[::1]", "//good.test", "/x", "https://127.0.0.1",
	"https:///",                                    // empty authority for net/url, "ignore the extra slashes" for a browser
	"https://proxy.test", "http://proxy.test:4180", // absolute URLs on the request's own (whitelisted) host: the PATH is the payload
	"https://w\u0130ki.test", // U+0130 lower-cases to ASCII i in Go; a browser's IDNA mapping makes it another domain
}

// c06Pow returns n^0 + ... helpers for the index <-> string mapping: strings of exactly k tokens occupy N^k indexes.
func c06CountUpTo(n, maxTok int) int {
	total, p := 0, 1
	for k := 1; k <= maxTok; k++ {
		p *= n
		total += p
	}
	return total
}

// c06StringAt maps idx in [0, c06CountUpTo(N, maxTok)) to a string of 1..maxTok tokens (shorter strings first).
func c06StringAt(idx int) string {
	n := len(c06Tokens)
	k, p := 1, n
	for idx >= p {
		idx -= p
		p *= n
		k++
	}
	var parts [8]string
	for j := k - 1; j >= 0; j-- {
		parts[j] = c06Tokens[idx%n]
		idx /= n
	}
	return strings.Join(parts[:k], "")
}

// structured family aimed at the validator's "slash, filler, slash" rule: "/" + every sequence of <=3 (quick) / <=4 (thorough)
// fillers + "/" or "\\" + host. Quantifier or character-class slips in that rule need exactly these strings.
var c06Fillers = []string{"\t", "\n", "\r", " ", "\x0b", "\x0c", ".", "..", "/", "\\", "%09", "x"}

func c06FamilyCount(maxFill int) int {
	total, p := 0, 1
	for k := 0; k <= maxFill; k++ {
		total += p
		p *= len(c06Fillers)
	}
	return total * 2
}

func c06FamilyAt(idx int) string {
	sep := "/"
	if idx%2 == 1 {
		sep = "\\"
	}
	idx /= 2
	n := len(c06Fillers)
	k, p := 0, 1
	for idx >= p {
		idx -= p
		p *= n
		k++
	}
	var parts [8]string
	for j := k - 1; j >= 0; j-- {
		parts[j] = c06Fillers[idx%n]
		idx /= n
	}
	return "/" + strings.Join(parts[:k], "") + sep + "evil.test/p"
}

// path-element family: "/" + e1 + "/" + e2 + ... — http.Redirect runs path.Clean over everything before the first "?", the
// fragment INCLUDED, so dot segments behind a "#" (or an escape, a ";") can pull an authority-looking element to the front of
// the Location that is actually sent ("/a#/../\evil.test" -> "/\evil.test"). Every sequence of <=3 (quick) / <=4 (thorough).
var c06Elements = []string{"a", "a#", "#", "#a", "..", ".", "\\evil.test", "", "evil.test", "a?", "%23", "a;", "\t", "..#", "a%23", "\\"}

func c06ElemCount(maxEl int) int { return c06CountUpTo(len(c06Elements), maxEl) }

func c06ElemAt(idx int) string {
	n := len(c06Elements)
	k, p := 1, n
	for idx >= p {
		idx -= p
		p *= n
		k++
	}
	var parts [8]string
	for j := k - 1; j >= 0; j-- {
		parts[j] = c06Elements[idx%n]
		idx /= n
	}
	return "/" + strings.Join(parts[:k], "/")
}

// targeted composition of the same idea: lead + delimiter + climb + authority-smuggling tail
var (
	c06TLeads  = []string{"/a", "/", "/a/b", "/a/"}
	c06TDelims = []string{"#", "?", "%23", ";", "#?", "?#", "&", "#a", "%3f"}
	c06TClimbs = []string{"", "/..", "/../..", "/.", "/./..", "/x/../..", "/../../.."}
	c06TTails  = []string{"//evil.test", "/\\evil.test", "/\t/evil.test", "\\/evil.test", "/evil.test", "/%2f/evil.test", "/\\evil.test/..", "//evil.test/p?q#r"}
)

func c06TargetCount() int { return len(c06TLeads) * len(c06TDelims) * len(c06TClimbs) * len(c06TTails) }

func c06TargetAt(idx int) string {
	t := c06TTails[idx%len(c06TTails)]
	idx /= len(c06TTails)
	c := c06TClimbs[idx%len(c06TClimbs)]
	idx /= len(c06TClimbs)
	d := c06TDelims[idx%len(c06TDelims)]
	idx /= len(c06TDelims)
	return c06TLeads[idx%len(c06TLeads)] + d + c + t
}

func c06Mix(x uint64) uint64 {
	x += 0x9e3779b97f4a7c15
	x = (x ^ (x >> 30)) * 0xbf58476d1ce4e5b9
	x = (x ^ (x >> 27)) * 0x94d049bb133111eb
	return x ^ (x >> 31)
}

func c06Hash(s string) uint64 {
	h := uint64(1469598103934665603)
	for i := 0; i < len(s); i++ {
		h = (h ^ uint64(s[i])) * 1099511628211
	}
	return c06Mix(h)
}

var c06RandStarts = []string{
	"", "", "/", "/", "//", "/\\", "\\", "https://", "http://", "https:", "https://good.test", "https://sub.good.test", "https://good.test:8443",
	"http://good.test", "//good.test", "https://evil.test", "https://good.test@", "https://[::1]", "/x/", "https://x.good.test",
}

// c06RandomString: the i-th seeded random string: a start from c06RandStarts followed by 5–12 random tokens.
func c06RandomString(seed int64, i int) string {
	st := c06Mix(uint64(seed)*0x100000001b3 + uint64(i)*0x9e3779b1 + 7)
	var b strings.Builder
	b.WriteString(c06RandStarts[st%uint64(len(c06RandStarts))])
	st = c06Mix(st)
	n := 5 + int(st%8)
	for j := 0; j < n; j++ {
		st = c06Mix(st + uint64(j))
		b.WriteString(c06Tokens[st%uint64(len(c06Tokens))])
	}
	return b.String()
}

// c06KnownBad loads the repository's own open-redirect list (testdata/openredirects.txt, the list validator_test.go
// iterates) and the table entries of validator_test.go; every entry is used query-unescaped (as the repository's test does)
// and verbatim, and with its "whitelisted domain" replaced by ours.
// seeds that go through every channel under every whitelist configuration like the repository's list:
// hosts with characters whose Go case mapping / folding lands on the ASCII letters of a whitelisted name (raw and
// percent-encoded), and absolute URLs on the request's own host whose path is an authority-smuggling tail
var c06ExtraSeeds = []string{
	"https://w\u0130ki.test/", "https://w%C4%B0ki.test/x", "https://w%c4%b0ki.test", "https://W\u0130K\u0130.test/", "https://sub.w\u0130ki.test/", "http://w\u0130ki.test:8443/",
	"https://w\u0130ki.test:8443/p", "https://sub.w%C4%B0ki.test:9/", "https://wi\u212ai.test/", "https://wi%E2%84%AAi.test/", "https://w\u0131ki.test/", "https://good.te\u017ft/",
	"https://\uff57iki.test/", "https://wiki\u2024test/", "https://g\u03bfod.test/", "https://GOOD.TEST/", "https://Wiki.Test/",
	"https://proxy.test//evil.test/x", "http://proxy.test//evil.test", "https://proxy.test/%2Fevil.test/^", "http://proxy.test/%2fevil.test", "https://proxy.test/%2F%2Fevil.test",
	"https://proxy.test/\\evil.test", "https://proxy.test/%5Cevil.test/^", "https://proxy.test/.//evil.test", "https://PROXY.test//evil.test", "https://proxy.test//evil.test#f",
	"https://proxy.test/\t/evil.test", "https://proxy.test/%09/evil.test/^", "https://proxy.test///evil.test", "https://proxy.test/x/..//evil.test",
	"http://proxy.test:4180//evil.test/x", "http://proxy.test:4180/%2Fevil.test/^", "http://proxy.test:4180/\\evil.test", "https://proxy.test:4180//evil.test", "http://proxy.test:80//evil.test",
}

func c06KnownBad() []string {
	repo := os.Getenv("VERIF_REPO")
	if repo == "" {
		repo = "/repo"
	}
	seen := map[string]bool{}
	var out []string
	add := func(s string) {
		if s != "" && !seen[s] && len(s) < 400 {
			seen[s] = true
			out = append(out, s)
		}
	}
	if f, err := os.Open(filepath.Join(repo, "testdata", "openredirects.txt")); err == nil {
		sc := bufio.NewScanner(f)
		for sc.Scan() {
			line := sc.Text()
			for _, v := range []string{line, strings.ReplaceAll(line, "www.whitelisteddomain.tld", "good.test")} {
				add(v)
				if u, err := url.QueryUnescape(v); err == nil {
					add(u)
				}
			}
		}
		f.Close()
	}
	if b, err := os.ReadFile(filepath.Join(repo, "pkg", "app", "redirect", "validator_test.go")); err == nil {
		re := regexp.MustCompile(`Entry\("[^"]*", ("(?:[^"\\]|\\.)*"), (?:true|false)\)`)
		for _, m := range re.FindAllStringSubmatch(string(b), -1) {
			if s, err := strconv.Unquote(m[1]); err == nil {
				add(s)
				for _, d := range []string{"foo.bar", "bar.foo", "wildcard.bar", "anyport.bar", "port.bar:8080", "port.bar"} {
					if strings.Contains(s, d) {
						add(strings.ReplaceAll(s, d, "good.test"))
					}
				}
				add(strings.ReplaceAll(s, "evil.com", "evil.test"))
			}
		}
	}
	for _, e := range c06ExtraSeeds {
		add(e)
	}
	return out
}

// ---------------------------------------------------------------------------------------------------------
// structural class of a string: leading class x backslash x whitespace/control x userinfo x port x non-ASCII x escape

var c06SchemeRe = regexp.MustCompile(`^[A-Za-z][A-Za-z0-9+.\-]*:`)
var c06PortRe = regexp.MustCompile(`:(\d+|\*)`)

func c06Class(s string) string {
	lead := "other"
	isWS := func(c byte) bool { return c <= 0x20 || c == 0x7f }
	switch {
	case s == "":
		lead = "empty"
	case strings.HasPrefix(s, "//"):
		lead = "dslash"
	case strings.HasPrefix(s, "/\\"):
		lead = "slash-bslash"
	case len(s) >= 2 && s[0] == '/' && isWS(s[1]):
		lead = "slash-ws"
	case s[0] == '/':
		lead = "slash"
	case s[0] == '\\':
		lead = "bslash"
	case isWS(s[0]):
		lead = "ws"
	case strings.HasPrefix(s, "http://") || strings.HasPrefix(s, "https://"):
		lead = "http-abs"
	case c06SchemeRe.MatchString(s):
		lead = "scheme"
	case s[0] >= 0x80:
		lead = "nonascii"
	}
	var f [6]byte
	for i := range f {
		f[i] = '-'
	}
	for i := 0; i < len(s); i++ {
		c := s[i]
		switch {
		case c == '\\':
			f[0] = 'b'
		case c <= 0x20 || c == 0x7f:
			f[1] = 'w'
		case c == '@':
			f[2] = 'u'
		case c >= 0x80:
			f[4] = 'n'
		case c == '%':
			f[5] = 'e'
		}
	}
	if c06PortRe.MatchString(s) {
		f[3] = 'p'
	}
	return lead + "|" + string(f[:])
}

// ---------------------------------------------------------------------------------------------------------
// safe grammar of the fidelity clause: /seg(/seg)*[?k=v(&k=v)*], unreserved characters and percent-escapes,
// no empty segment, no dot segment (literal or escaped), not under the proxy's own prefix or health paths

const c06Unreserved = "abcdefghijklmnopqrstuvwxyzABCDEFGHIJKLMNOPQRSTUVWXYZ0123456789-._~"

var c06Escapes = []string{"%41", "%2F", "%2f", "%20", "%C3%A9", "%25", "%3A", "%40", "%5C", "%3f", "%23", "%00", "%0A", "%E2%80%A8", "%7e", "%2B"}

func c06SafeWord(st *uint64, min, max int) string {
	*st = c06Mix(*st)
	n := min + int(*st%uint64(max-min+1))
	var b strings.Builder
	for j := 0; j < n; j++ {
		*st = c06Mix(*st + uint64(j))
		if *st%5 == 0 {
			b.WriteString(c06Escapes[(*st>>8)%uint64(len(c06Escapes))])
		} else {
			b.WriteByte(c06Unreserved[(*st>>8)%uint64(len(c06Unreserved))])
		}
	}
	return b.String()
}

// c06SafeLongURI: a safe URI of about `length` bytes: long segments, then many / long query parameters.
func c06SafeLongURI(seed int64, i, length int) string {
	st := c06Mix(uint64(seed)*0x51ed270b + uint64(i)*0x9e3779b1 + 5)
	var b strings.Builder
	b.WriteString("/deep")
	for b.Len() < length/3 {
		w := c06SafeWord(&st, 6, 60)
		if strings.Trim(w, ".") == "" {
			continue
		}
		b.WriteString("/" + w)
	}
	sep := byte('?')
	for k := 0; b.Len() < length; k++ {
		b.WriteByte(sep)
		sep = '&'
		fmt.Fprintf(&b, "p%d=%s", k, c06SafeWord(&st, 0, 40+(k%5)*60))
	}
	return b.String()
}

func c06SafeURI(seed int64, i int) string {
	st := c06Mix(uint64(seed)*0x2545f4914f6cdd1d + uint64(i)*0x9e3779b1 + 99)
	for {
		var b strings.Builder
		st = c06Mix(st)
		segs := 1 + int(st%4)
		ok := true
		for k := 0; k < segs; k++ {
			w := c06SafeWord(&st, 1, 8)
			if strings.Trim(w, ".") == "" { // dot segments (".", "..") and all-dot names are outside the safe grammar
				ok = false
			}
			if k == 0 {
				switch strings.ToLower(w) {
				case "oauth2", "ping", "ready", "robots.txt", "metrics":
					ok = false
				}
			}
			b.WriteString("/" + w)
		}
		st = c06Mix(st)
		if nq := int(st % 4); nq > 0 {
			b.WriteByte('?')
			for k := 0; k < nq; k++ {
				if k > 0 {
					b.WriteByte('&')
				}
				key := c06SafeWord(&st, 1, 5)
				switch key {
				case "rd", "code", "state", "error":
					ok = false
				}
				b.WriteString(key + "=" + c06SafeWord(&st, 0, 8))
			}
		}
		if ok {
			return b.String()
		}
	}
}
